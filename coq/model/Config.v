(* hypercorn.config.Config as far as C19 needs it: attribute assignment with the property
   setters (bind / insecure_bind / quic_bind / root_path / cert_reqs), the loaders that all
   funnel into from_mapping, bind-string parsing, and the server's own response headers. *)
From Coq Require Import String List ZArith NArith Bool Ascii DecimalString DecimalZ.
From HV Require Import lib.Bytes lib.Obs.
Import ListNotations.
Open Scope string_scope.

(* Python values that can be stored in a configuration attribute / argparse namespace *)
Inductive pyval :=
| PSentinel                      (* the module-level `sentinel = object()` of __main__ *)
| PNone
| PStr (s : string)
| PInt (z : Z)
| PBool (b : bool)
| PList (l : list string)
| PVerify (z : Z).               (* ssl.VerifyMode member, by value *)

Definition assoc := list (string * pyval).

Fixpoint lookup (k : string) (m : assoc) : option pyval :=
  match m with
  | [] => None
  | (k', v) :: r => if String.eqb k k' then Some v else lookup k r
  end.

(* dict-like update keeping first-insertion order *)
Fixpoint update (k : string) (v : pyval) (m : assoc) : assoc :=
  match m with
  | [] => [(k, v)]
  | (k', v') :: r => if String.eqb k k' then (k, v) :: r else (k', v') :: update k v r
  end.

Fixpoint string_rev_strip_slash (s : string) : string :=
  (* helper on the reversed string: drop leading '/' *)
  match s with
  | String "/"%char r => string_rev_strip_slash r
  | _ => s
  end.
Fixpoint string_rev_acc (s acc : string) : string :=
  match s with EmptyString => acc | String c r => string_rev_acc r (String c acc) end.
Definition string_rev (s : string) : string := string_rev_acc s EmptyString.
Definition rstrip_slash (s : string) : string := string_rev (string_rev_strip_slash (string_rev s)).

(* setattr(config, name, value).  [None] = AttributeError (read-only property), which
   from_mapping swallows.  Only the attributes with setters behave specially. *)
Definition read_only (name : string) : bool :=
  String.eqb name "log" || String.eqb name "ssl_enabled".

Definition str_or_list (v : pyval) : pyval :=
  match v with PStr s => PList [s] | _ => v end.

Definition cfg_set (name : string) (v : pyval) (c : assoc) : option assoc :=
  if read_only name then None
  else if String.eqb name "bind" then Some (update "_bind" (str_or_list v) c)
  else if String.eqb name "insecure_bind" then Some (update "_insecure_bind" (str_or_list v) c)
  else if String.eqb name "quic_bind" then Some (update "_quic_bind" (str_or_list v) c)
  else if String.eqb name "root_path" then
    match v with
    | PStr s => Some (update "_root_path" (PStr (rstrip_slash s)) c)
    | _ => Some c (* .rstrip on a non-str raises; outside the modelled domain *)
    end
  else if String.eqb name "cert_reqs" then
    match v with
    | PInt z => Some (update "verify_mode" (PVerify z) c)
    | _ => Some c
    end
  else Some (update name v c).

Definition cfg_set' (name : string) (v : pyval) (c : assoc) : assoc :=
  match cfg_set name v c with Some c' => c' | None => c end.

(* Config.from_mapping(mapping, **kwargs): dict update order, then setattr in order *)
Definition merge (m kw : assoc) : assoc := fold_left (fun acc kv => update (fst kv) (snd kv) acc) kw m.
Definition from_mapping (m kw : assoc) : assoc :=
  fold_left (fun c kv => cfg_set' (fst kv) (snd kv) c) (merge m kw) [].

(* Config.from_object(instance): attributes that are not modules and not dunder, in dir() order
   (dir() sorts; the harness passes the attributes already sorted) *)
Definition is_dunder (k : string) : bool :=
  match k with String "_"%char (String "_"%char _) => true | _ => false end.
Definition from_object (attrs : assoc) : assoc :=
  from_mapping (filter (fun kv => negb (is_dunder (fst kv))) attrs) [].
(* from_pyfile = from_object of the executed module; from_toml = from_mapping of the parsed table *)
Definition from_pyfile := from_object.
Definition from_toml (data : assoc) : assoc := from_mapping data [].

(* int(): optionally '-'-signed decimal digits (the subset of Python's int() grammar that the
   harness generates; Python additionally accepts '+', surrounding white space, '_' and non-ASCII
   digits).  Defined through the standard library's decimal reader so that printing and reading
   are provably inverse. *)
Definition int_of_string (s : string) : option Z :=
  option_map Z.of_int (DecimalString.NilZero.int_of_string s).
Definition dec (z : Z) : string := DecimalString.NilZero.string_of_int (Z.to_int z).

(* ---- bind strings: the parsing part of Config._create_sockets ---- *)
Fixpoint str_remove (c : ascii) (s : string) : string :=
  match s with
  | EmptyString => EmptyString
  | String a r => if Ascii.eqb a c then str_remove c r else String a (str_remove c r)
  end.
Fixpoint contains (c : ascii) (s : string) : bool :=
  match s with EmptyString => false | String a r => Ascii.eqb a c || contains c r end.
(* s.rsplit(c, 1) when c occurs: (before the last c, after it) *)
Fixpoint rsplit1 (c : ascii) (s : string) : option (string * string) :=
  match s with
  | EmptyString => None
  | String a r =>
      match rsplit1 c r with
      | Some (h, t) => Some (String a h, t)
      | None => if Ascii.eqb a c then Some (EmptyString, r) else None
      end
  end.
Fixpoint drop (n : nat) (s : string) : string :=
  match n, s with
  | O, _ => s
  | S n', String _ r => drop n' r
  | S _, EmptyString => EmptyString
  end.

Inductive bind_t :=
| BUnix (path : string)
| BFd (n : option Z)                      (* None: int() raised ValueError *)
| BInet (v6 : bool) (host : string) (port : Z).

(* s.endswith(c) / s[:-1] *)
Fixpoint last_is (c : ascii) (s : string) : bool :=
  match s with
  | EmptyString => false
  | String a EmptyString => Ascii.eqb a c
  | String _ r => last_is c r
  end.
Fixpoint drop_last (s : string) : string :=
  match s with
  | EmptyString => EmptyString
  | String _ EmptyString => EmptyString
  | String a r => String a (drop_last r)
  end.

Definition parse_bind (s : string) : bind_t :=
  if String.prefix "unix:" s then BUnix (drop 5 s)
  else if String.prefix "fd://" s then BFd (int_of_string (drop 5 s))
  else if String.prefix "[" s && last_is "]" s then
    (* a bare host in brackets (an IPv6 address): the default port *)
    let h := str_remove "]" (str_remove "[" s) in BInet (contains ":" h) h 8000%Z
  else
    let b := str_remove "]" (str_remove "[" s) in
    let hp := match rsplit1 ":" b with
              | Some (h, p) => match int_of_string p with Some n => (h, n) | None => (b, 8000%Z) end
              | None => (b, 8000%Z)
              end in
    BInet (contains ":" (fst hp)) (fst hp) (snd hp).

Definition v_of_bind (b : bind_t) : val :=
  match b with
  | BUnix p => VL [VS "unix"; VS p]
  | BFd n => VL [VS "fd"; vopt VZ n]
  | BInet v6 h p => VL [VS "inet"; vbool v6; VS h; VZ p]
  end.

(* ---- Config.response_headers(protocol): date (if enabled), server (if enabled), alt-svc values.
   [date] is the rendering of the current time (CPython's format_date_time), [alt] the configured
   alt_svc_headers already encoded. *)
Definition response_headers (include_date include_server : bool) (date : bytes) (protocol : bytes)
           (alt : list bytes) : list (bytes * bytes) :=
  ((if include_date then [(B "date", date)] else [])
  ++ (if include_server then [(B "server", B "hypercorn-" ++ protocol)] else [])
  ++ map (fun a => (B "alt-svc", a)) alt)%list.

(* ---- observation ---- *)
Definition v_of_string (s : string) : val := VS s.
Definition v_of_pyval (v : pyval) : val :=
  match v with
  | PSentinel => VL [VS "sentinel"]
  | PNone => VL [VS "none"]
  | PStr s => VL [VS "str"; VS s]
  | PInt z => VL [VS "int"; VZ z]
  | PBool b => VL [VS "bool"; vbool b]
  | PList l => VL [VS "list"; VL (map VS l)]
  | PVerify z => VL [VS "verify"; VZ z]
  end.
Definition v_of_assoc (c : assoc) : val := VL (map (fun kv => VL [VS (fst kv); v_of_pyval (snd kv)]) c).
