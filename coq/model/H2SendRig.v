(* Executable harness around model.H2Send for the correspondence check: one scheduler step of the
   real implementation (a task run until it suspends) is a list of labels of the transition system;
   after each the whole observable state is compared. *)
From Coq Require Import String ZArith NArith List Bool Lia.
From HV Require Import lib.Obs model.H2Send.
Import ListNotations.
Open Scope string_scope.
Open Scope Z_scope.

(* n bytes x, x+1, ... (mod 256): the bodies the harness lets the applications send *)
Fixpoint genb (n : nat) (x : N) : list N :=
  match n with O => [] | S k => x :: genb k (if (x =? 255)%N then 0%N else N.succ x) end.
Definition body (n : N) (x : N) : sop := OBody (genb (N.to_nat n) x).

Inductive grp :=
| GApp (s : Z) (k : nat)                                   (* the application task of s runs until it suspends *)
| GSend (wake : bool) (picks : list (option Z)) (exited : bool)   (* the send task runs until it suspends *)
| GClient (c : cev).

Fixpoint pick_labels (picks : list (option Z)) : list label :=
  match picks with
  | [] => []
  | None :: r => LSendIter None :: LSendWake :: pick_labels r
  | Some s :: r => LSendIter (Some s) :: pick_labels r
  end.

Definition labels_of (g : grp) : list label :=
  match g with
  | GApp s k => List.repeat (LApp s) k
  | GSend wake picks exited =>
      ((if wake then [LSendWake] else []) ++ pick_labels picks ++ (if exited then [LSendIter None] else []))%list
  | GClient c => [LClient c]
  end.

Definition v_spc (p : spc) : Z := match p with PReady => 0 | PWaitPaused => 1 | PWaitDrain => 2 | PDone => 3 end.
Definition v_task (p : stpc) : Z := match p with TTop => 0 | TWaiting => 1 | TExited => 2 end.

Definition obs_strm (t : st) (s : Z) : val :=
  let x := strms t s in
  VL [VZ s; VZ (zlen (b_data (s_buf x))); vbool (b_complete (s_buf x)); vbool (b_is_empty (s_buf x));
      vbool (b_paused (s_buf x)); vbool (s_inbufs x); vbool (s_live x); vbool (s_tree x);
      (if s_tree x then vbool (s_blocked x) else VZ (-1));
      (if s_inbufs x && s_h2open x then VZ (s_win x) else VS "closed");
      vbool (app_runnable x); vbool (match s_pc x with PDone => true | _ => false end);
      (if s_inbufs x then vbool (s_abort x) else VZ (-1))].

Definition obs_state (t : st) : val :=
  VL [VL (map (obs_strm t) (rev (ids t))); vbool (has_data t); vbool (closed t); VZ (cwin t);
      vbool (send_runnable t); VZ (v_task (task t)); vbool (bad_pick t); vbool (reader_ok t); VZ (zlen (out t))].

Definition sum_bytes (d : list N) : Z := fold_left (fun a x => a + Z.of_N x) d 0.
Definition obs_frame (f : frame) : val :=
  match f with
  | FHeaders s => VL [VS "headers"; VZ s]
  | FData s d => VL [VS "data"; VZ s; VZ (zlen d); VZ (sum_bytes d); vopt (fun x => VZ (Z.of_N x)) (hd_error d)]
  | FEnd s => VL [VS "end"; VZ s]
  | FRst s => VL [VS "rst"; VZ s]
  end.

Fixpoint run_groups (t : st) (gs : list grp) : list val * st :=
  match gs with
  | [] => ([], t)
  | g :: r =>
      let t1 := run t (labels_of g) in
      let '(os, t2) := run_groups t1 r in
      (obs_state t1 :: os, t2)
  end.

(* the send task starts with the protocol (initiate) and is waiting on has_data when the first
   request arrives *)
Definition start (cw mf iw0 : Z) : st := run (init cw mf iw0) [LSendIter None; LSendWake].

Definition run_case (c : Z * Z * Z * list grp) : val :=
  let '(cw, mf, iw0, gs) := c in
  let '(os, t) := run_groups (start cw mf iw0) gs in
  VL [VL os; VL (map obs_frame (out t))].
