(* hypercorn.protocol.ws_stream: Handshake, WebsocketBuffer, WSStream.  The wsproto Connection
   is an oracle at the library boundary: received events are given as input, [send] answers
   are scripted (bytes or LocalProtocolError). *)
From Coq Require Import String Ascii ZArith NArith List Bool Lia.
From HV Require Import lib.Bytes lib.Obs lib.Monad model.Asgi model.GuardTypes model.HttpStream.
Import ListNotations.
Open Scope N_scope.

(* ---------------------------------------------------------------- Handshake *)
Record handshake := {
  hk_accepted : bool;
  hk_http_version : bytes;
  hk_tokens : option (list bytes);
  hk_exts : option (list bytes);
  hk_key : option bytes;
  hk_subs : option (list bytes);
  hk_upgrade : option bytes;
  hk_wsversion : option bytes }.

(* wsproto.utilities.split_comma_header: value.split(b",") then .decode("ascii").strip() *)
Definition split_comma_header (v : bytes) : result (E:=exn) (list bytes) :=
  if is_ascii v then Ok (map str_strip (split1 44 v)) else Raise EUnicodeDecode.

(* _split_tokens: a value that is not ASCII is not a list of tokens - nothing is offered or asked for *)
Definition split_tokens (v : bytes) : list bytes :=
  match split_comma_header v with Ok l => l | Raise _ => [] end.

Fixpoint scan_handshake (hs : list header) (h : handshake) : result (E:=exn) handshake :=
  match hs with
  | [] => Ok h
  | (n, v) :: r =>
      let n' := lower n in
      let upd :=
        if beqb n' (B "connection") then
          Ok {| hk_accepted := hk_accepted h; hk_http_version := hk_http_version h; hk_tokens := Some (split_tokens v); hk_exts := hk_exts h;
                hk_key := hk_key h; hk_subs := hk_subs h; hk_upgrade := hk_upgrade h; hk_wsversion := hk_wsversion h |}
        else if beqb n' (B "sec-websocket-extensions") then
          Ok {| hk_accepted := hk_accepted h; hk_http_version := hk_http_version h; hk_tokens := hk_tokens h; hk_exts := Some (split_tokens v);
                hk_key := hk_key h; hk_subs := hk_subs h; hk_upgrade := hk_upgrade h; hk_wsversion := hk_wsversion h |}
        else if beqb n' (B "sec-websocket-key") then
          Ok {| hk_accepted := hk_accepted h; hk_http_version := hk_http_version h; hk_tokens := hk_tokens h; hk_exts := hk_exts h;
                hk_key := Some v; hk_subs := hk_subs h; hk_upgrade := hk_upgrade h; hk_wsversion := hk_wsversion h |}
        else if beqb n' (B "sec-websocket-protocol") then
          Ok {| hk_accepted := hk_accepted h; hk_http_version := hk_http_version h; hk_tokens := hk_tokens h; hk_exts := hk_exts h;
                hk_key := hk_key h; hk_subs := Some (split_tokens v); hk_upgrade := hk_upgrade h; hk_wsversion := hk_wsversion h |}
        else if beqb n' (B "sec-websocket-version") then
          Ok {| hk_accepted := hk_accepted h; hk_http_version := hk_http_version h; hk_tokens := hk_tokens h; hk_exts := hk_exts h;
                hk_key := hk_key h; hk_subs := hk_subs h; hk_upgrade := hk_upgrade h; hk_wsversion := Some v |}
        else if beqb n' (B "upgrade") then
          Ok {| hk_accepted := hk_accepted h; hk_http_version := hk_http_version h; hk_tokens := hk_tokens h; hk_exts := hk_exts h;
                hk_key := hk_key h; hk_subs := hk_subs h; hk_upgrade := Some v; hk_wsversion := hk_wsversion h |}
        else Ok h in
      match upd with Ok h' => scan_handshake r h' | Raise e => Raise e end
  end.

Definition new_handshake (hs : list header) (version : bytes) : result (E:=exn) handshake :=
  scan_handshake hs {| hk_accepted := false; hk_http_version := version; hk_tokens := None; hk_exts := None;
                       hk_key := None; hk_subs := None; hk_upgrade := None; hk_wsversion := None |}.

(* Handshake.is_valid; AttributeError when Upgrade is absent on HTTP/1.1 *)
Definition is_valid (h : handshake) : result (E:=exn) bool :=
  if bytes_ltb (hk_http_version h) (B "1.1") then Ok false
  else
    let version_ok := match hk_wsversion h with Some v => beqb v (B "13") | None => false end in
    if beqb (hk_http_version h) (B "1.1") then
      match hk_key h with
      | None => Ok false
      | Some _ =>
          match hk_tokens h with
          | None => Ok false
          | Some toks =>
              if negb (existsb (fun t => beqb (lower t) (B "upgrade")) toks) then Ok false
              else match hk_upgrade h with
                   | None => Raise EAttribute
                   | Some u => if negb (beqb (lower u) (B "websocket")) then Ok false else Ok version_ok
                   end
          end
      end
    else Ok version_ok.

(* Handshake.accept.  [token] = generate_accept_token(key), [ext_accepts] = what wsproto's
   server_extensions_handshake answered for the offered extensions (None if none offered/accepted). *)
Definition hk_accept (h : handshake) (token : bytes) (ext_accepts : option bytes)
           (subprotocol : option bytes) (extra : list header) : result (E:=exn) (Z * list header) :=
  let sub :=
    match subprotocol with
    | None => Ok []
    | Some sp =>
        match hk_subs h with
        | Some subs => if existsb (beqb sp) subs then Ok [(B "sec-websocket-protocol", sp)] else Raise EException
        | None => Raise EException
        end
    end in
  match sub with
  | Raise e => Raise e
  | Ok h1 =>
      let h2 := match hk_exts h, ext_accepts with
                | Some _, Some a => match a with [] => [] | _ => [(B "sec-websocket-extensions", a)] end
                | _, _ => [] end in
      let h3 := match hk_key h with Some _ => [(B "sec-websocket-accept", token)] | None => [] end in
      let is11 := beqb (hk_http_version h) (B "1.1") in
      let h4 := if is11 then [(B "upgrade", B "WebSocket"); (B "connection", B "Upgrade")] else [] in
      if existsb (fun x => beqb (lower (fst x)) (B "sec-websocket-protocol") || starts_with (B ":") (fst x)) extra
      then Raise EException
      else Ok ((if is11 then 101 else 200)%Z, h1 ++ h2 ++ h3 ++ h4 ++ extra)
  end.

(* ---------------------------------------------------------------- WebsocketBuffer *)
Record wsbuffer := { wb_started : bool; wb_text : bool; wb_data : bytes; wb_length : Z }.
Definition wb_empty := {| wb_started := false; wb_text := false; wb_data := []; wb_length := 0 |}.

(* extend: returns the new buffer and whether FrameTooLargeError was raised *)
Definition wb_extend (max : Z) (b : wsbuffer) (is_text : bool) (d : bytes) : wsbuffer * bool :=
  if (wb_length b >? max)%Z then (b, true)          (* already too large: nothing more is accepted *)
  else
  let b' := {| wb_started := true; wb_text := if wb_started b then wb_text b else is_text;
               wb_data := wb_data b ++ d; wb_length := (wb_length b + Zlen d)%Z |} in
  (b', (wb_length b' >? max)%Z).

(* ---------------------------------------------------------------- wsproto events (received) *)
Inductive wsevent :=
| WMessage (is_text : bool) (data : bytes) (finished : bool)     (* TextMessage / BytesMessage *)
| WPing (payload : bytes)
| WPong (payload : bytes)
| WClose (code : Z) (reason : bytes) (remote_closing : bool).    (* connection.state == REMOTE_CLOSING when handled *)

(* events we send through wsproto, canonical form *)
Inductive wssend :=
| WSBytes (d : bytes) | WSText (d : bytes) | WSClose (code : Z) (reason : option bytes)
| WSPong (payload : bytes) | WSPing.

Definition v_of_wssend (e : wssend) : list val :=
  match e with
  | WSBytes d => [VS "bytes"; VB d]
  | WSText d => [VS "text"; VB d]
  | WSClose c r => [VS "close"; VZ c; vopt VB r]
  | WSPong p => [VS "pong"; VB p]
  | WSPing => [VS "ping"]
  end.

Inductive wstate := WHandshake | WConnected | WResponse | WClosed | WHttpClosed.
Definition wstate_eqb (a b : wstate) : bool :=
  match a, b with
  | WHandshake, WHandshake | WConnected, WConnected | WResponse, WResponse | WClosed, WClosed | WHttpClosed, WHttpClosed => true
  | _, _ => false
  end.

Record wstream := {
  ws_id : Z;
  ws_closed : bool;
  ws_state : wstate;
  ws_has_app : bool;
  ws_hk : option handshake;
  ws_has_conn : bool;                 (* self.connection assigned *)
  ws_buffer : wsbuffer;
  ws_close_code : option Z;
  ws_resp : option (option Z * list (hval * hval));   (* self.response of the denial extension *)
  ws_token : bytes;                   (* oracle: accept token for the request's key *)
  ws_ext_accepts : option bytes;      (* oracle: negotiated extension header *)
  ws_sends : list (option bytes) }.   (* oracle: answers of connection.send, in order: bytes or LocalProtocolError *)

Definition new_wstream (id : Z) (token : bytes) (ext : option bytes) (sends : list (option bytes)) : wstream :=
  {| ws_id := id; ws_closed := false; ws_state := WHandshake; ws_has_app := false; ws_hk := None; ws_has_conn := false;
     ws_buffer := wb_empty; ws_close_code := None; ws_resp := None; ws_token := token; ws_ext_accepts := ext; ws_sends := sends |}.

Record wcfg := { wc_http : hcfg; wc_max_message : Z; wc_ping_interval : bool;
                 wc_guards : list guard_row }.   (* the generated ladder of WSStream.app_send *)

Definition wstate_name (s : wstate) : string :=
  match s with WHandshake => "HANDSHAKE" | WConnected => "CONNECTED" | WResponse => "RESPONSE"
             | WClosed => "CLOSED" | WHttpClosed => "HTTPCLOSED" end.

Definition ws_idle (s : wstream) : bool :=
  wstate_eqb (ws_state s) WClosed || wstate_eqb (ws_state s) WHttpClosed.

Section WStream.
  Context {P : Type}.
  Variable cfg : wcfg.
  Variable getS : P -> wstream.
  Variable setS : wstream -> P -> P.

  Local Open Scope monad_scope.
  Notation MP := (M exn out P).

  Definition wgets : MP wstream := p <- get ;; ret (getS p).
  Definition wupd (f : wstream -> wstream) : MP unit := modify (fun p => setS (f (getS p)) p).
  Definition wset (closed : wstream -> bool) (state : wstream -> wstate) : MP unit :=
    wupd (fun s => {| ws_id := ws_id s; ws_closed := closed s; ws_state := state s; ws_has_app := ws_has_app s; ws_hk := ws_hk s;
                      ws_has_conn := ws_has_conn s; ws_buffer := ws_buffer s; ws_close_code := ws_close_code s; ws_resp := ws_resp s;
                      ws_token := ws_token s; ws_ext_accepts := ws_ext_accepts s; ws_sends := ws_sends s |}).
  Definition wset_closed := wset (fun _ => true) ws_state.
  Definition wset_state (st : wstate) := wset ws_closed (fun _ => st).
  Definition wset_misc (has_app : wstream -> bool) (hk : wstream -> option handshake) (has_conn : wstream -> bool)
             (buf : wstream -> wsbuffer) (cc : wstream -> option Z) (resp : wstream -> option (option Z * list (hval * hval)))
             (sends : wstream -> list (option bytes)) : MP unit :=
    wupd (fun s => {| ws_id := ws_id s; ws_closed := ws_closed s; ws_state := ws_state s; ws_has_app := has_app s; ws_hk := hk s;
                      ws_has_conn := has_conn s; ws_buffer := buf s; ws_close_code := cc s; ws_resp := resp s;
                      ws_token := ws_token s; ws_ext_accepts := ws_ext_accepts s; ws_sends := sends s |}).
  Definition wset_has_app := wset_misc (fun _ => true) ws_hk ws_has_conn ws_buffer ws_close_code ws_resp ws_sends.
  Definition wset_hk (h : handshake) := wset_misc ws_has_app (fun _ => Some h) ws_has_conn ws_buffer ws_close_code ws_resp ws_sends.
  Definition wset_has_conn := wset_misc ws_has_app ws_hk (fun _ => true) ws_buffer ws_close_code ws_resp ws_sends.
  Definition wset_buffer (b : wsbuffer) := wset_misc ws_has_app ws_hk ws_has_conn (fun _ => b) ws_close_code ws_resp ws_sends.
  Definition wset_close_code (c : Z) := wset_misc ws_has_app ws_hk ws_has_conn ws_buffer (fun _ => Some c) ws_resp ws_sends.
  Definition wset_resp (r : option Z * list (hval * hval)) := wset_misc ws_has_app ws_hk ws_has_conn ws_buffer ws_close_code (fun _ => Some r) ws_sends.
  Definition wset_sends (l : list (option bytes)) := wset_misc ws_has_app ws_hk ws_has_conn ws_buffer ws_close_code ws_resp (fun _ => l).

  Definition wlift {A} (r : result (E:=exn) A) : MP A := match r with Ok a => ret a | Raise e => raise e end.
  (* self.app_put is None until the application has been spawned: calling it is a TypeError *)
  Definition wapp_put (m : rmsg) : MP unit :=
    s <- wgets ;; if ws_has_app s then emit (OPut (ws_id s) m) else raise ETypeError.

  (* the StreamClosed branch of WSStream.handle; never sends *)
  Definition ws_stream_closed : MP unit :=
    s <- wgets ;;
    if ws_closed s then ret tt else
    wset_closed ;;
    when (ws_has_app s)
         (let code := if ws_idle s then 1000%Z
                      else match ws_close_code s with Some c => c | None => 1006%Z end in
          wapp_put (RWsDisconnect code)).

  Variable psend : sevent -> MP unit.

  Definition ws_send_error_response (status : Z) : MP unit :=
    psend (EvResponse status [(B "content-length", B "0"); (B "connection", B "close")]) ;;
    psend EvEndBody ;;
    emit (OLogAccess (Some status)).

  (* _send_wsproto_event: data = self.connection.send(event); LocalProtocolError is swallowed *)
  Definition ws_send_wsproto (e : wssend) : MP unit :=
    s <- wgets ;;
    if negb (ws_has_conn s) then raise EAttribute else
    emit (OLib (VS "ws.send" :: v_of_wssend e)) ;;
    match ws_sends s with
    | [] => psend (EvData [])                          (* oracle exhausted: treated as empty frame *)
    | Some d :: rest => wset_sends rest ;; psend (EvData d)
    | None :: rest => wset_sends rest
    end.

  Definition make_ws_scope (hs : list header) (version raw_path : bytes) (hk : handshake) : result (E:=exn) scope :=
    let '(path, _, query) := partition1 63 raw_path in
    if negb (is_ascii path) then Raise EUnicodeDecode
    else Ok {| sc_ws := true; sc_version := version; sc_method := [];
               sc_scheme := if cfg_ssl (wc_http cfg) then B "wss" else B "ws";
               sc_path := pct_decode path; sc_raw_path := path; sc_query := query; sc_headers := hs;
               sc_ext_trailers := false; sc_ext_push := false; sc_ext_hint := false;
               sc_subprotocols := match hk_subs hk with Some l => l | None => [] end |}.

  (* one iteration of the loop in _handle_events; returns true for `break` *)
  Definition ws_one_event (e : wsevent) : MP bool :=
    match e with
    | WMessage is_text d fin =>
        s <- wgets ;;
        let '(b', too_large) := wb_extend (wc_max_message cfg) (ws_buffer s) is_text d in
        wset_buffer b' ;;
        if too_large then ws_send_wsproto (WSClose 1009 None) ;; ret true
        else
          (if fin then
             wapp_put (RWsReceive (wb_text b') (wb_data b')) ;; wset_buffer wb_empty
           else ret tt) ;;
          ret false
    | WPing p => ws_send_wsproto (WSPong p) ;; ret false
    | WPong _ => ret false
    | WClose code reason remote_closing =>
        (if remote_closing then wset_close_code code ;; ws_send_wsproto (WSClose code (Some reason)) else ret tt) ;;
        psend EvStreamClosed ;;
        ret false
    end.

  Fixpoint ws_handle_events (evs : list wsevent) : MP unit :=
    match evs with
    | [] => ret tt
    | e :: r => brk <- ws_one_event e ;; if brk then ret tt else ws_handle_events r
    end.

  (* WSStream.handle; Data/Body carry the wsproto events their bytes decode to *)
  Inductive ws_in := WRequest (hs : list header) (version raw_path : bytes) | WData (evs : list wsevent) | WStreamClosed.

  Definition ws_handle (i : ws_in) : MP unit :=
    s <- wgets ;;
    if ws_closed s then ret tt else
    match i with
    | WRequest hs version raw_path =>
        hk <- wlift (new_handshake hs version) ;;
        wset_hk hk ;;
        sc <- wlift (make_ws_scope hs version raw_path hk) ;;
        if negb (valid_server_name (wc_http cfg) hs) then ws_send_error_response 404 ;; wset_closed
        else
          v <- wlift (is_valid hk) ;;
          if negb v then ws_send_error_response 400 ;; wset_closed
          else emit (OSpawn (ws_id s) sc) ;; wset_has_app ;; wapp_put RWsConnect
    | WData evs =>
        match ws_hk s with
        | None => raise EAttribute
        | Some hk =>
            if negb (hk_accepted hk) then
              match ws_state s with
              | WResponse | WHttpClosed =>
                  (* the application is rejecting (has rejected) the handshake with a response of its own: a second
                     response cannot be sent, nothing more is read from the client (finding F61) *)
                  ret tt
              | _ =>
              (* closed first: the application may try to accept meanwhile; the later StreamClosed is then ignored, so the
                 application, if one was started, is told here *)
              wset_closed ;; ws_send_error_response 400 ;; when (ws_has_app s) (wapp_put (RWsDisconnect 1006%Z))
              end
            else
              emit (OLib [VS "ws.receive_data"]) ;;
              ws_handle_events evs
        end
    | WStreamClosed => ws_stream_closed
    end.

  Definition accepted_hk (h : handshake) : handshake :=
    {| hk_accepted := true; hk_http_version := hk_http_version h; hk_tokens := hk_tokens h; hk_exts := hk_exts h;
       hk_key := hk_key h; hk_subs := hk_subs h; hk_upgrade := hk_upgrade h; hk_wsversion := hk_wsversion h |}.

  Definition ws_app_send (m : option amsg) : MP unit :=
    s <- wgets ;;
    if ws_closed s then ret tt else
    match m with
    | None =>
        (match ws_state s with
         | WHandshake => ws_send_error_response 500
         | WConnected => ws_send_wsproto (WSClose 1011 None)
         | _ => ret tt
         end) ;;
        psend EvStreamClosed
    | Some msg =>
        match find_row (wc_guards cfg) (msg_type msg) (wstate_name (ws_state s)) (fun _ => false) with
        | None => raise EUnexpectedMessage
        | Some row =>
        match msg with
        | MWsAccept sub headers =>
            extra <- wlift (validate_headers headers) ;;
            match ws_hk s with
            | None => raise EAttribute
            | Some hk =>
                r <- wlift (hk_accept hk (ws_token s) (ws_ext_accepts s) sub extra) ;;
                wset_hk (accepted_hk hk) ;; wset_has_conn ;;
                psend (EvResponse (fst r) (snd r)) ;;
                wset_state WConnected ;;
                emit (OLogAccess (Some (fst r))) ;;
                when (wc_ping_interval cfg) (emit (OSpawnTask "send_pings"))
            end
        | MWsHttpStart status headers => wset_resp (status, headers)
        | MWsHttpBody body more =>
            match ws_resp s with
            | None => raise EAttribute
            | Some (status, headers) =>
                match status with
                | None => raise ETypeError                   (* 100 <= None *)
                | Some st =>
                    let suppressed := suppress_body (B "GET") st in
                    (if wstate_eqb (ws_state s) WHandshake then
                       hs <- wlift (validate_headers headers) ;;
                       psend (EvResponse st hs) ;;
                       wset_state WResponse
                     else ret tt) ;;
                    (if negb suppressed then
                       d <- wlift (match body with HB d => Ok d | _ => body_bytes body end) ;;
                       psend (EvBody d)
                     else ret tt) ;;
                    if more then ret tt
                    else wset_state WHttpClosed ;; psend EvEndBody ;; emit (OLogAccess (Some st))
                end
            end
        | MWsSend b t =>
            match b with
            | HNone =>
                match t with
                | HS txt => ws_send_wsproto (WSText txt)
                | _ => raise ETypeError
                end
            | HB d => ws_send_wsproto (WSBytes d)
            | HS _ => raise ETypeError                    (* bytes(str) *)
            | HI n => if (n <? 0)%Z then raise EValueError else ws_send_wsproto (WSBytes (repeat 0 (Z.to_nat n)))
            end
        | MWsClose code reason =>
            if existsb (String.eqb "HANDSHAKE") (g_states row) then
              wset_state WHttpClosed ;; ws_send_error_response 403
            else
              wset_state WClosed ;;
              ws_send_wsproto (WSClose (match code with Some c => c | None => 1000%Z end) reason) ;;
              psend EvEndData
        | _ => raise EUnexpectedMessage
        end
        end
    end.
End WStream.
