(* hypercorn.protocol.http_stream.HTTPStream as a sequential automaton living inside a composite
   state P (the protocol that owns it).  [psend] is the protocol's stream_send; it may re-enter
   the stream (handle(StreamClosed)) and may raise. *)
From Coq Require Import String Ascii ZArith NArith List Bool Lia.
From HV Require Import lib.Bytes lib.Obs lib.Monad model.Asgi model.GuardTypes.
From HV Require Export gen.Funcs_gen.   (* utils.suppress_body, translated from the source on every run *)
Import ListNotations.
Open Scope N_scope.

(* utils.build_and_validate_headers, one header *)
Definition has_ctl (b : bytes) : bool := mem_byte 0 b || mem_byte 13 b || mem_byte 10 b.

Definition bytes_of_hval (v : hval) : result (E:=exn) bytes :=
  match v with
  | HB b => Ok b
  | HS _ => Raise ETypeError            (* bytes(str) without an encoding *)
  | HI n => if (n <? 0)%Z then Raise EValueError else Ok (repeat 0 (Z.to_nat n))   (* bytes(n) = n NULs *)
  | HNone => Raise ETypeError
  end.

Definition validate_header (nv : hval * hval) : result (E:=exn) header :=
  let '(n, v) := nv in
  match n with
  | HB [] | HS [] => Raise EIndexError                     (* name[0] *)
  | HI _ | HNone => Raise ETypeError                       (* not subscriptable *)
  | HS _ => Raise ETypeError                               (* "x"[0] == 58 is False, then bytes(str) *)
  | HB (c :: r) =>
      if c =? 58 then Raise EValueError                    (* pseudo header *)
      else match bytes_of_hval v with
           | Raise e => Raise e
           | Ok vb =>
               let n' := strip (c :: r) in let v' := strip vb in
               (* a name that is a pseudo header once the white space around it is gone is one too (finding F67) *)
               if starts_colon n' then Raise EValueError
               else if has_ctl n' || has_ctl v' then Raise EValueError else Ok (n', v')
           end
  end.

Fixpoint validate_headers (hs : list (hval * hval)) : result (E:=exn) (list header) :=
  match hs with
  | [] => Ok []
  | h :: r => match validate_header h with
              | Raise e => Raise e
              | Ok h' => match validate_headers r with Raise e => Raise e | Ok r' => Ok (h' :: r') end
              end
  end.

(* urllib.parse.unquote_to_bytes on an ASCII string *)
Definition hex_val (c : N) : option N :=
  if (48 <=? c) && (c <=? 57) then Some (c - 48)
  else if (65 <=? c) && (c <=? 70) then Some (c - 55)
  else if (97 <=? c) && (c <=? 102) then Some (c - 87)
  else None.
Fixpoint pct_decode (b : bytes) : bytes :=
  match b with
  | [] => []
  | c :: r =>
      if c =? 37 then
        match r with
        | h :: l :: r' =>
            match hex_val h, hex_val l with
            | Some x, Some y => (16 * x + y) :: pct_decode r'
            | _, _ => 37 :: pct_decode r
            end
        | _ => 37 :: pct_decode r
        end
      else c :: pct_decode r
  end.

Definition mem_version (v : bytes) (vs : list bytes) : bool := existsb (beqb v) vs.

Inductive hstate := HRequest | HResponse | HTrailers | HClosed.
Definition hstate_eqb (a b : hstate) : bool :=
  match a, b with
  | HRequest, HRequest | HResponse, HResponse | HTrailers, HTrailers | HClosed, HClosed => true
  | _, _ => false
  end.

Record hcfg := { cfg_server_names : list bytes; cfg_ssl : bool;
                 cfg_trailers_versions : list bytes; cfg_push_versions : list bytes; cfg_hint_versions : list bytes;
                 cfg_guards : list guard_row }.   (* the generated ladder of HTTPStream.app_send *)

Definition hstate_name (s : hstate) : string :=
  match s with HRequest => "REQUEST" | HResponse => "RESPONSE" | HTrailers => "TRAILERS" | HClosed => "CLOSED" end.

Definition msg_type (m : amsg) : string :=
  match m with
  | MStart _ _ _ => "http.response.start" | MBody _ _ => "http.response.body"
  | MTrailers _ _ => "http.response.trailers" | MPush _ _ => "http.response.push"
  | MEarlyHint _ => "http.response.early_hint" | MWsAccept _ _ => "websocket.accept"
  | MWsSend _ _ => "websocket.send" | MWsClose _ _ => "websocket.close"
  | MWsHttpStart _ _ => "websocket.http.response.start" | MWsHttpBody _ _ => "websocket.http.response.body"
  | MUnknown => "unknown"
  end.

Definition in_versions (cfg : hcfg) (ver : bytes) (set_name : string) : bool :=
  if String.eqb set_name "TRAILERS_VERSIONS" then mem_version ver (cfg_trailers_versions cfg)
  else if String.eqb set_name "PUSH_VERSIONS" then mem_version ver (cfg_push_versions cfg)
  else if String.eqb set_name "EARLY_HINTS_VERSIONS" then mem_version ver (cfg_hint_versions cfg)
  else false.

Record hstream := {
  hs_id : Z;
  hs_closed : bool;
  hs_state : hstate;
  hs_scope : option scope;
  hs_has_app : bool;                 (* self.app_put is set *)
  hs_has_response : bool;            (* self.response has been assigned *)
  hs_status : Z;                     (* int(self.response["status"]) *)
  hs_resp_trailers : bool }.         (* self.response.get("trailers", False) *)

Definition new_hstream (id : Z) : hstream :=
  {| hs_id := id; hs_closed := false; hs_state := HRequest; hs_scope := None; hs_has_app := false;
     hs_has_response := false; hs_status := 0; hs_resp_trailers := false |}.

(* utils.valid_server_name *)
Fixpoint find_host_ci (hs : list header) : option bytes :=
  match hs with
  | [] => None
  | (n, v) :: r => if beqb (lower n) (B "host") then Some v else find_host_ci r
  end.
Definition valid_server_name (cfg : hcfg) (hs : list header) : bool :=
  match cfg_server_names cfg with
  | [] => true
  | names => existsb (beqb (match find_host_ci hs with Some h => h | None => [] end)) names
  end.

Definition te_trailers (hs : list header) : bool :=
  existsb (fun h => beqb (fst h) (B "te") && beqb (snd h) (B "trailers")) hs.

Section Stream.
  Context {P : Type}.
  Variable cfg : hcfg.
  Variable getS : P -> hstream.
  Variable setS : hstream -> P -> P.

  Local Open Scope monad_scope.
  Notation MP := (M exn out P).

  Definition gets : MP hstream := p <- get ;; ret (getS p).
  Definition upd (f : hstream -> hstream) : MP unit := modify (fun p => setS (f (getS p)) p).
  Definition set_closed := upd (fun s => {| hs_id := hs_id s; hs_closed := true; hs_state := hs_state s; hs_scope := hs_scope s;
       hs_has_app := hs_has_app s; hs_has_response := hs_has_response s; hs_status := hs_status s; hs_resp_trailers := hs_resp_trailers s |}).
  Definition set_state (st : hstate) := upd (fun s => {| hs_id := hs_id s; hs_closed := hs_closed s; hs_state := st; hs_scope := hs_scope s;
       hs_has_app := hs_has_app s; hs_has_response := hs_has_response s; hs_status := hs_status s; hs_resp_trailers := hs_resp_trailers s |}).
  Definition set_scope (sc : scope) := upd (fun s => {| hs_id := hs_id s; hs_closed := hs_closed s; hs_state := hs_state s; hs_scope := Some sc;
       hs_has_app := hs_has_app s; hs_has_response := hs_has_response s; hs_status := hs_status s; hs_resp_trailers := hs_resp_trailers s |}).
  Definition set_has_app := upd (fun s => {| hs_id := hs_id s; hs_closed := hs_closed s; hs_state := hs_state s; hs_scope := hs_scope s;
       hs_has_app := true; hs_has_response := hs_has_response s; hs_status := hs_status s; hs_resp_trailers := hs_resp_trailers s |}).
  Definition set_response (status : Z) (tr : bool) := upd (fun s => {| hs_id := hs_id s; hs_closed := hs_closed s; hs_state := hs_state s; hs_scope := hs_scope s;
       hs_has_app := hs_has_app s; hs_has_response := true; hs_status := status; hs_resp_trailers := tr |}).

  Definition lift_res {A} (r : result (E:=exn) A) : MP A :=
    match r with Ok a => ret a | Raise e => raise e end.

  (* self.app_put only exists once the application has been spawned (AttributeError otherwise) *)
  Definition app_put (m : rmsg) : MP unit :=
    s <- gets ;; if hs_has_app s then emit (OPut (hs_id s) m) else raise EAttribute.

  (* the StreamClosed branch of HTTPStream.handle: what a protocol's _close_stream triggers; it
     never sends, so protocols can call it from inside their stream_send *)
  Definition http_stream_closed : MP unit :=
    s <- gets ;;
    if hs_closed s then ret tt else
    set_closed ;;
    when (negb (hstate_eqb (hs_state s) HClosed)) (emit (OLogAccess None)) ;;
    app_put RHttpDisconnect.

  Variable psend : sevent -> M exn out P unit.     (* await self.send(event) *)

  Definition send_error_response (status : Z) : MP unit :=
    psend (EvResponse status [(B "content-length", B "0"); (B "connection", B "close")]) ;;
    psend EvEndBody ;;
    set_state HClosed ;;
    emit (OLogAccess (Some status)).

  Definition send_closed : MP unit :=
    psend EvEndBody ;;
    set_state HClosed ;;
    s <- gets ;;
    (if hs_closed s then ret tt     (* logged when the stream was told it is closed *)
     else if hs_has_response s then emit (OLogAccess (Some (hs_status s))) else raise EAttribute) ;;
    psend EvStreamClosed.

  Definition make_scope (hs : list header) (version method raw_path : bytes) : result (E:=exn) scope :=
    let '(path, _, query) := partition1 63 raw_path in
    if negb (is_ascii path) then Raise EUnicodeDecode
    else Ok {| sc_ws := false; sc_version := version; sc_method := method;
               sc_scheme := if cfg_ssl cfg then B "https" else B "http";
               sc_path := pct_decode path; sc_raw_path := path; sc_query := query; sc_headers := hs;
               sc_ext_trailers := mem_version version (cfg_trailers_versions cfg);
               sc_ext_push := mem_version version (cfg_push_versions cfg);
               sc_ext_hint := mem_version version (cfg_hint_versions cfg);
               sc_subprotocols := [] |}.

  (* HTTPStream.handle *)
  Definition http_handle (ev : sevent) : MP unit :=
    s <- gets ;;
    if hs_closed s then ret tt else
    match ev with
    | EvRequest hs version method raw_path =>
        sc <- lift_res (make_scope hs version method raw_path) ;;
        set_scope sc ;;
        if valid_server_name cfg hs then
          emit (OSpawn (hs_id s) sc) ;; set_has_app
        else
          send_error_response 404 ;; set_closed
    | EvBody d => app_put (RHttpRequest d true)
    | EvEndBody => app_put (RHttpRequest [] false)
    | EvStreamClosed => http_stream_closed
    | _ => ret tt
    end.

  Definition version_of (s : hstream) : bytes := match hs_scope s with Some sc => sc_version sc | None => [] end.
  Definition method_of (s : hstream) : bytes := match hs_scope s with Some sc => sc_method sc | None => [] end.
  Definition headers_of (s : hstream) : list header := match hs_scope s with Some sc => sc_headers sc | None => [] end.
  Definition scheme_of (s : hstream) : bytes := match hs_scope s with Some sc => sc_scheme sc | None => [] end.

  (* the body payload: message.get("body", b"") != b"" then bytes(...) *)
  Definition body_bytes (b : hval) : result (E:=exn) bytes :=
    match b with
    | HB d => Ok d
    | HNone => Raise ETypeError          (* "body": None  ->  bytes(None) *)
    | HS [] => Raise ETypeError
    | HS _ => Raise ETypeError
    | HI n => if (n <? 0)%Z then Raise EValueError else Ok (repeat 0 (Z.to_nat n))
    end.

  (* HTTPStream.app_send.  The guard ladder (which message type is accepted in which state and
     for which http versions, in which order) is the table generated from the source; the branch
     bodies are written here. *)
  Definition http_app_send (m : option amsg) : MP unit :=
    s <- gets ;;
    match m with
    | None =>
        if hs_closed s then ret tt else
          when (hstate_eqb (hs_state s) HRequest) (send_error_response 500) ;;
          psend EvStreamClosed
    | Some msg =>
        let ver := version_of s in
        let ty := msg_type msg in
        (* self.scope["http_version"] is read by the rows that carry a version guard *)
        if match hs_scope s with None => existsb (fun r => String.eqb (g_type r) ty && match g_versions r with Some _ => true | None => false end) (cfg_guards cfg) | Some _ => false end
        then raise EAttribute else
        match find_row (cfg_guards cfg) (msg_type msg) (hstate_name (hs_state s)) (in_versions cfg ver) with
        | None => raise EUnexpectedMessage
        | Some row =>
            match msg with
            | MStart status headers trailers =>
                (* self.response = message comes first, whatever the payload is *)
                set_response (match status with Some st => st | None => (-1)%Z end) trailers ;;
                hs <- lift_res (validate_headers headers) ;;
                match status with
                | None => raise ETypeError                 (* int(None) *)
                | Some st =>
                    psend (EvResponse st hs) ;;
                    set_state HResponse
                end
            | MPush path headers =>
                match path with
                | HS p =>
                    vh <- lift_res (validate_headers headers) ;;
                    let auth := map (fun h => (B ":authority", snd h))
                                    (filter (fun h => beqb (fst h) (B "host")) (headers_of s)) in
                    psend (EvRequest ((B ":scheme", scheme_of s) :: auth ++ vh) ver (B "GET") p)
                | _ => raise ETypeError
                end
            | MEarlyHint links =>
                hs <- lift_res (validate_headers (map (fun l => (HB (B "link"), l)) links)) ;;
                psend (EvInfo 103 hs)
            | MBody body more =>
                (if negb (suppress_body (method_of s) (hs_status s)) then
                   match body with
                   | HB [] => ret tt
                   | _ => d <- lift_res (body_bytes body) ;; psend (EvBody d)
                   end
                 else ret tt) ;;
                if more then ret tt
                else if hs_resp_trailers s then set_state HTrailers else send_closed
            | MTrailers headers more =>
                if existsb (String.eqb "REQUEST") (g_states row) then
                  (if te_trailers (headers_of s) then
                     hs <- lift_res (validate_headers headers) ;;
                     set_response 200 false ;;
                     psend (EvResponse 200 hs) ;;
                     set_state HTrailers
                   else ret tt) ;;
                  if more then ret tt else send_closed
                else
                  (if te_trailers (headers_of s) then
                     hs <- lift_res (validate_headers headers) ;;
                     psend (EvTrailers hs)
                   else ret tt) ;;
                  if more then ret tt else send_closed
            | _ => raise EUnexpectedMessage
            end
        end
    end.
End Stream.
