(* Independent specification of the command line, written by hand from
   docs/how_to_guides/configuring.rst (the "Configuration options" table) and the two deprecated
   aliases documented in the --help texts.  One row per option string. *)
From Coq Require Import String List ZArith Bool.
From HV Require Import model.CliTypes model.Config.
Import ListNotations.
Open Scope string_scope.

Inductive optkind := KValue (t : argtype) | KList | KFlag.

(* option string, configuration attribute it sets, kind *)
Definition cli_spec : list (string * string * optkind) := [
  ("--access-logformat", "access_log_format", KValue TStr);
  ("--access-logfile", "accesslog", KValue TStr);
  ("--access-log", "accesslog", KValue TStr);                (* deprecated alias *)
  ("--backlog", "backlog", KValue TInt);
  ("-b", "bind", KList); ("--bind", "bind", KList);
  ("--ca-certs", "ca_certs", KValue TStr);
  ("--certfile", "certfile", KValue TStr);
  ("--cert-reqs", "cert_reqs", KValue TInt);                 (* deprecated: sets verify_mode through the property *)
  ("--ciphers", "ciphers", KValue TStr);
  ("--debug", "debug", KFlag);
  ("--error-logfile", "errorlog", KValue TStr); ("--log-file", "errorlog", KValue TStr);
  ("--error-log", "errorlog", KValue TStr);                  (* deprecated alias *)
  ("--graceful-timeout", "graceful_timeout", KValue TInt);
  ("--read-timeout", "read_timeout", KValue TInt);
  ("-g", "group", KValue TInt); ("--group", "group", KValue TInt);
  ("--insecure-bind", "insecure_bind", KList);
  ("--keep-alive", "keep_alive_timeout", KValue TInt);
  ("--keyfile", "keyfile", KValue TStr);
  ("--keyfile-password", "keyfile_password", KValue TStr);
  ("--log-config", "logconfig", KValue TStr);
  ("--log-level", "loglevel", KValue TStr);
  ("--max-requests", "max_requests", KValue TInt);
  ("--max-requests-jitter", "max_requests_jitter", KValue TInt);
  ("-p", "pid_path", KValue TStr); ("--pid", "pid_path", KValue TStr);
  ("--quic-bind", "quic_bind", KList);
  ("--root-path", "root_path", KValue TStr);
  ("--server-name", "server_names", KList);
  ("--statsd-host", "statsd_host", KValue TStr);
  ("--statsd-prefix", "statsd_prefix", KValue TStr);
  ("-m", "umask", KValue TInt); ("--umask", "umask", KValue TInt);
  ("--reload", "use_reloader", KFlag);
  ("-u", "user", KValue TInt); ("--user", "user", KValue TInt);
  ("--verify-mode", "verify_mode", KValue TVerify);
  ("--websocket-ping-interval", "websocket_ping_interval", KValue TInt);
  ("-k", "worker_class", KValue TStr); ("--worker-class", "worker_class", KValue TStr);
  ("-w", "workers", KValue TInt); ("--workers", "workers", KValue TInt)
].
