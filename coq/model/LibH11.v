(* The part of the h11 library hypercorn relies on, as an executable model: h11's two-party
   connection state machine (a line-by-line port of h11/_state.py ConnectionState and of the
   state-relevant parts of h11/_connection.py), keep-alive, switch proposals, 100-continue and
   the framing decision.  NOT modelled: the HTTP/1.1 parser (received events are inputs) and the
   serialiser (bytes returned by send are oracle values).  The harness checks on every run that
   the real h11 agrees with this model on our_state / their_state after every call. *)
From Coq Require Import String Ascii ZArith NArith List Bool Lia.
From HV Require Import lib.Bytes lib.Obs lib.Monad model.Asgi.
Import ListNotations.
Open Scope N_scope.

Inductive h1state := IDLE | SEND_RESPONSE | SEND_BODY | DONE | MUST_CLOSE | CLOSED | ERROR | MIGHT_SWITCH_PROTOCOL | SWITCHED_PROTOCOL.
Definition h1state_tag (s : h1state) : Z :=
  match s with IDLE => 0 | SEND_RESPONSE => 1 | SEND_BODY => 2 | DONE => 3 | MUST_CLOSE => 4 | CLOSED => 5 | ERROR => 6
             | MIGHT_SWITCH_PROTOCOL => 7 | SWITCHED_PROTOCOL => 8 end%Z.
Definition h1state_eqb (a b : h1state) : bool := Z.eqb (h1state_tag a) (h1state_tag b).

Inductive evkind := KRequest | KInfo | KResponse | KData | KEndOfMessage | KConnectionClosed.
Inductive switch := SwNone | SwUpgrade | SwConnect.

Record cstate := { cs_client : h1state; cs_server : h1state; cs_keep_alive : bool; cs_sw_upgrade : bool; cs_sw_connect : bool }.
Definition cs_init := {| cs_client := IDLE; cs_server := IDLE; cs_keep_alive := true; cs_sw_upgrade := false; cs_sw_connect := false |}.

(* EVENT_TRIGGERED_TRANSITIONS *)
Definition client_transition (s : h1state) (k : evkind) : option h1state :=
  match s, k with
  | IDLE, KRequest => Some SEND_BODY | IDLE, KConnectionClosed => Some CLOSED
  | SEND_BODY, KData => Some SEND_BODY | SEND_BODY, KEndOfMessage => Some DONE
  | DONE, KConnectionClosed | MUST_CLOSE, KConnectionClosed | CLOSED, KConnectionClosed => Some CLOSED
  | _, _ => None
  end.
Definition server_transition (s : h1state) (k : evkind) (sw : switch) : option h1state :=
  match s, k, sw with
  | IDLE, KConnectionClosed, SwNone => Some CLOSED
  | IDLE, KResponse, SwNone => Some SEND_BODY
  | SEND_RESPONSE, KInfo, SwNone => Some SEND_RESPONSE
  | SEND_RESPONSE, KResponse, SwNone => Some SEND_BODY
  | SEND_RESPONSE, KInfo, SwUpgrade => Some SWITCHED_PROTOCOL
  | SEND_RESPONSE, KResponse, SwConnect => Some SWITCHED_PROTOCOL
  | SEND_BODY, KData, SwNone => Some SEND_BODY | SEND_BODY, KEndOfMessage, SwNone => Some DONE
  | DONE, KConnectionClosed, SwNone | MUST_CLOSE, KConnectionClosed, SwNone | CLOSED, KConnectionClosed, SwNone => Some CLOSED
  | _, _, _ => None
  end.

(* one pass of _fire_state_triggered_transitions *)
Definition fire_once (c : cstate) : cstate :=
  let pending := cs_sw_upgrade c || cs_sw_connect c in
  let cl := cs_client c in
  let cl := if pending && h1state_eqb cl DONE then MIGHT_SWITCH_PROTOCOL else cl in
  let cl := if negb pending && h1state_eqb cl MIGHT_SWITCH_PROTOCOL then DONE else cl in
  let sv := cs_server c in
  let cl := if negb (cs_keep_alive c) && h1state_eqb cl DONE then MUST_CLOSE else cl in
  let sv := if negb (cs_keep_alive c) && h1state_eqb sv DONE then MUST_CLOSE else sv in
  let '(cl, sv) :=
    match cl, sv with
    | MIGHT_SWITCH_PROTOCOL, SWITCHED_PROTOCOL => (SWITCHED_PROTOCOL, sv)
    | CLOSED, DONE | CLOSED, IDLE | ERROR, DONE => (cl, MUST_CLOSE)
    | DONE, CLOSED | IDLE, CLOSED | DONE, ERROR => (MUST_CLOSE, sv)
    | _, _ => (cl, sv)
    end in
  {| cs_client := cl; cs_server := sv; cs_keep_alive := cs_keep_alive c; cs_sw_upgrade := cs_sw_upgrade c; cs_sw_connect := cs_sw_connect c |}.
(* the loop reaches its fixed point within four passes *)
Definition fire (c : cstate) : cstate := fire_once (fire_once (fire_once (fire_once c))).

Definition with_states (c : cstate) (cl sv : h1state) : cstate :=
  {| cs_client := cl; cs_server := sv; cs_keep_alive := cs_keep_alive c; cs_sw_upgrade := cs_sw_upgrade c; cs_sw_connect := cs_sw_connect c |}.

(* ConnectionState.process_event; None = LocalProtocolError *)
Definition process_event (c : cstate) (client_role : bool) (k : evkind) (sw : switch) : option cstate :=
  let pending_ok := match sw with SwNone => true | SwUpgrade => cs_sw_upgrade c | SwConnect => cs_sw_connect c end in
  if negb pending_ok then None else
  let c := match sw, k with
           | SwNone, KResponse => {| cs_client := cs_client c; cs_server := cs_server c; cs_keep_alive := cs_keep_alive c;
                                     cs_sw_upgrade := false; cs_sw_connect := false |}
           | _, _ => c end in
  if client_role then
    match client_transition (cs_client c) k with
    | None => None
    | Some cl =>
        match k with
        | KRequest =>
            (* the server sees the client's Request: IDLE -> SEND_RESPONSE *)
            match cs_server c with
            | IDLE => Some (fire (with_states c cl SEND_RESPONSE))
            | _ => None
            end
        | _ => Some (fire (with_states c cl (cs_server c)))
        end
    end
  else
    match server_transition (cs_server c) k sw with
    | None => None
    | Some sv => Some (fire (with_states c (cs_client c) sv))
    end.

Definition process_error (c : cstate) (client_role : bool) : cstate :=
  fire (if client_role then with_states c ERROR (cs_server c) else with_states c (cs_client c) ERROR).
Definition keep_alive_disabled (c : cstate) : cstate :=
  fire {| cs_client := cs_client c; cs_server := cs_server c; cs_keep_alive := false; cs_sw_upgrade := cs_sw_upgrade c; cs_sw_connect := cs_sw_connect c |}.
Definition propose (c : cstate) (up conn : bool) : cstate :=
  fire {| cs_client := cs_client c; cs_server := cs_server c; cs_keep_alive := cs_keep_alive c;
          cs_sw_upgrade := cs_sw_upgrade c || up; cs_sw_connect := cs_sw_connect c || conn |}.
Definition start_next_cycle (c : cstate) : option cstate :=
  if h1state_eqb (cs_client c) DONE && h1state_eqb (cs_server c) DONE
  then Some {| cs_client := IDLE; cs_server := IDLE; cs_keep_alive := cs_keep_alive c; cs_sw_upgrade := cs_sw_upgrade c; cs_sw_connect := cs_sw_connect c |}
  else None.

(* ---- headers ---- *)
(* get_comma_header: header names are already lower case in h11 events *)
Definition comma_header (hs : list header) (name : bytes) : list bytes :=
  flat_map (fun h => if beqb (lower (fst h)) name
                     then filter (fun t => negb (beqb t [])) (map (fun t => strip (lower t)) (split1 44 (snd h)))
                     else []) hs.
Definition has_token (hs : list header) (name tok : bytes) : bool := existsb (beqb tok) (comma_header hs name).

(* _keep_alive(event) *)
Definition msg_keep_alive (hs : list header) (version : bytes) : bool :=
  negb (has_token hs (B "connection") (B "close")) && negb (bytes_ltb version (B "1.1")).

(* ---- received events (results of next_event) ---- *)
Inductive h11ev :=
| HRequest (method target : bytes) (headers : list header) (version : bytes)
| HData (d : bytes)
| HEndOfMessage
| HConnectionClosed
| HNeedData
| HPaused
| HRemoteError (hint : Z).      (* next_event raised RemoteProtocolError(error_status_hint) *)

Record h11lib := {
  l_cs : cstate;
  l_waiting_100 : bool;          (* they_are_waiting_for_100_continue *)
  l_method : bytes;              (* _request_method *)
  l_their_version : bytes }.     (* their_http_version ("" until known) *)
Definition lib_init := {| l_cs := cs_init; l_waiting_100 := false; l_method := []; l_their_version := [] |}.
Definition our_state (l : h11lib) : h1state := cs_server (l_cs l).
Definition their_state (l : h11lib) : h1state := cs_client (l_cs l).

(* is this result of next_event possible in the current state (the parser contract) *)
Definition recv_possible (l : h11lib) (e : h11ev) : bool :=
  match e, their_state l with
  | HRemoteError _, _ => true
  | _, ERROR => false
  | HPaused, DONE | HPaused, MIGHT_SWITCH_PROTOCOL | HPaused, SWITCHED_PROTOCOL => true
  | HPaused, _ => false
  | _, MIGHT_SWITCH_PROTOCOL | _, SWITCHED_PROTOCOL => false
  | HRequest _ _ _ _, IDLE => true
  | HData _, SEND_BODY | HEndOfMessage, SEND_BODY => true
  | HConnectionClosed, IDLE | HConnectionClosed, DONE | HConnectionClosed, MUST_CLOSE | HConnectionClosed, CLOSED => true
  | HNeedData, _ => true
  | _, _ => false
  end.

Definition with_cs (l : h11lib) (c : cstate) : h11lib :=
  {| l_cs := c; l_waiting_100 := l_waiting_100 l; l_method := l_method l; l_their_version := l_their_version l |}.

(* the state-machine part of processing a received Request: switch proposals (Upgrade header,
   CONNECT method), the event itself, then keep-alive; None = LocalProtocolError *)
Definition request_cs (c : cstate) (up conn keep_alive : bool) : option cstate :=
  let c1 := if up || conn then propose c up conn else c in
  match process_event c1 true KRequest SwNone with
  | None => None
  | Some c2 => Some (if keep_alive then c2 else keep_alive_disabled c2)
  end.

(* Connection.next_event, given what the parser produced *)
Definition recv (l : h11lib) (e : h11ev) : h11lib :=
  match e with
  | HNeedData | HPaused => l
  | HRemoteError _ => with_cs l (process_error (l_cs l) true)
  | HRequest method target hs version =>
      let up := negb (match comma_header hs (B "upgrade") with [] => true | _ => false end) in
      match request_cs (l_cs l) up (beqb method (B "CONNECT")) (msg_keep_alive hs version) with
      | None => with_cs l (process_error (l_cs l) true)
      | Some c =>
          {| l_cs := c;
             l_waiting_100 := negb (bytes_ltb version (B "1.1")) && has_token hs (B "expect") (B "100-continue");
             l_method := method; l_their_version := version |}
      end
  | HData _ =>
      match process_event (l_cs l) true KData SwNone with
      | None => with_cs l (process_error (l_cs l) true)
      | Some c => {| l_cs := c; l_waiting_100 := false; l_method := l_method l; l_their_version := l_their_version l |}
      end
  | HEndOfMessage =>
      match process_event (l_cs l) true KEndOfMessage SwNone with
      | None => with_cs l (process_error (l_cs l) true)
      | Some c => {| l_cs := c; l_waiting_100 := false; l_method := l_method l; l_their_version := l_their_version l |}
      end
  | HConnectionClosed =>
      match process_event (l_cs l) true KConnectionClosed SwNone with
      | None => with_cs l (process_error (l_cs l) true)
      | Some c => with_cs l c
      end
  end.

(* the parser contract, completed: h11 turns a Request that its own state machine refuses (the server side is not
   IDLE) into a RemoteProtocolError, so a Request is only ever delivered when the state machine accepts it *)
Definition request_accepted (l : h11lib) (method : bytes) (hs : list header) (version : bytes) : bool :=
  let up := negb (match comma_header hs (B "upgrade") with [] => true | _ => false end) in
  match request_cs (l_cs l) up (beqb method (B "CONNECT")) (msg_keep_alive hs version) with Some _ => true | None => false end.
Definition event_allowed (l : h11lib) (e : h11ev) : bool :=
  recv_possible l e && match e with HRequest m _ hs v => request_accepted l m hs v | _ => true end.

(* ---- sending ---- *)
Inductive h11send :=
| SInfo (status : Z) (headers : list header)
| SResponse (status : Z) (headers : list header)
| SData (d : bytes)
| SEndOfMessage.

Inductive framing := FLength (n : Z) | FChunked | FHttp10.
Definition dec_digits (b : bytes) : option Z :=
  match b with
  | [] => None
  | _ => fold_left (fun acc c => match acc with
                                 | Some a => if (48 <=? c) && (c <=? 57) then Some (a * 10 + Z.of_N (c - 48))%Z else None
                                 | None => None end) b (Some 0%Z)
  end.
(* _body_framing for a Response *)
Definition body_framing (method : bytes) (status : Z) (hs : list header) : framing :=
  if (status =? 204)%Z || (status =? 304)%Z || beqb method (B "HEAD")
     || (beqb method (B "CONNECT") && (200 <=? status)%Z && (status <? 300)%Z)
  then FLength 0
  else match comma_header hs (B "transfer-encoding") with
       | _ :: _ => FChunked
       | [] => match comma_header hs (B "content-length") with
               | cl :: _ => match dec_digits cl with Some n => FLength n | None => FLength 0 end
               | [] => FHttp10
               end
       end.

(* does the response, after _clean_up_response_headers_for_sending, announce Connection: close *)
Definition response_closes (l : h11lib) (status : Z) (hs : list header) : bool :=
  let method := if beqb (l_method l) (B "HEAD") then B "GET" else l_method l in
  let need_close :=
    match body_framing method status hs with
    | FChunked | FHttp10 =>
        (beqb (l_their_version l) [] || bytes_ltb (l_their_version l) (B "1.1")) && negb (beqb (l_method l) (B "HEAD"))
    | FLength _ => false
    end in
  negb (cs_keep_alive (l_cs l)) || need_close || has_token hs (B "connection") (B "close").

(* Connection.send, as far as the state machine is concerned.  [payload_ok] = the real library
   accepted the event's contents (field syntax, declared length, status range): an oracle value.
   None = LocalProtocolError (and our state becomes ERROR). *)
Definition send (l : h11lib) (e : h11send) (payload_ok : bool) : h11lib * bool :=
  let fail := (with_cs l (process_error (l_cs l) false), false) in
  if h1state_eqb (our_state l) ERROR then (l, false) else
  if negb payload_ok then fail else
  match e with
  | SInfo status hs =>
      let sw := if (status =? 101)%Z then SwUpgrade else SwNone in
      match process_event (l_cs l) false KInfo sw with
      | None => fail
      | Some c => ({| l_cs := c; l_waiting_100 := false; l_method := l_method l; l_their_version := l_their_version l |}, true)
      end
  | SResponse status hs =>
      let sw := if cs_sw_connect (l_cs l) && (200 <=? status)%Z && (status <? 300)%Z then SwConnect else SwNone in
      let closes := response_closes l status hs in
      match process_event (l_cs l) false KResponse sw with
      | None => fail
      | Some c =>
          let c := if closes then keep_alive_disabled c else c in
          ({| l_cs := c; l_waiting_100 := false; l_method := l_method l; l_their_version := l_their_version l |}, true)
      end
  | SData _ =>
      match process_event (l_cs l) false KData SwNone with
      | None => fail
      | Some c => (with_cs l c, true)
      end
  | SEndOfMessage =>
      match process_event (l_cs l) false KEndOfMessage SwNone with
      | None => fail
      | Some c => (with_cs l c, true)
      end
  end.

Definition next_cycle (l : h11lib) : option h11lib :=
  match start_next_cycle (l_cs l) with
  | Some c => Some {| l_cs := c; l_waiting_100 := false; l_method := []; l_their_version := l_their_version l |}
  | None => None
  end.
