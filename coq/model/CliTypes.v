(* Types of the tables generated from hypercorn/__main__.py by translate/py2coq.py *)
From Coq Require Import String List ZArith.
Import ListNotations.

Inductive argtype := TStr | TInt | TVerify.
Inductive argaction := AStore | AAppend | AStoreTrue.
Inductive argdefault := DSentinel | DEmptyList | DNone | DRequired | DStr (s : string).
Record argspec := {
  a_flags : list string;      (* option strings, e.g. ["-b"; "--bind"] *)
  a_dest : string;            (* attribute of the argparse namespace *)
  a_type : argtype;
  a_action : argaction;
  a_default : argdefault }.

Inductive wtest := TNotSentinel | TLenPos.
(* `if <test on args.w_tested>: config.w_target = args.w_source` *)
Record wire := {
  w_test : wtest;
  w_tested : string;
  w_target : string;
  w_source : string }.
