(* The two EventWrapper classes: hypercorn.asyncio.worker_context.EventWrapper clears its event in
   place, hypercorn.trio.worker_context.EventWrapper replaces it by a fresh trio.Event on clear(),
   so a task already waiting keeps waiting on the *old* event. *)
From Coq Require Import ZArith List Bool Lia.
Import ListNotations.
Open Scope Z_scope.

Inductive eop := OWait (task : Z) | OSet | OClear.

(* asyncio: one flag, the waiting tasks *)
Record aev := { a_flag : bool; a_waiting : list Z }.
Definition a0 : aev := {| a_flag := false; a_waiting := [] |}.
(* result: new state and the tasks that return from wait() because of this operation *)
Definition astep (s : aev) (o : eop) : aev * list Z :=
  match o with
  | OWait t => if a_flag s then (s, [t]) else ({| a_flag := false; a_waiting := a_waiting s ++ [t] |}, [])
  | OSet => ({| a_flag := true; a_waiting := [] |}, a_waiting s)
  | OClear => ({| a_flag := false; a_waiting := a_waiting s |}, [])
  end.

(* trio: generations of events; waiters remember the generation they wait on *)
Record tev := { t_gen : Z; t_flag : bool; t_waiting : list (Z * Z) }.
Definition t0 : tev := {| t_gen := 0; t_flag := false; t_waiting := [] |}.
Definition tstep (s : tev) (o : eop) : tev * list Z :=
  match o with
  | OWait t => if t_flag s then (s, [t]) else ({| t_gen := t_gen s; t_flag := false; t_waiting := t_waiting s ++ [(t, t_gen s)] |}, [])
  | OSet =>
      ({| t_gen := t_gen s; t_flag := true; t_waiting := filter (fun w => negb (snd w =? t_gen s)) (t_waiting s) |},
       map fst (filter (fun w => snd w =? t_gen s) (t_waiting s)))
  | OClear => ({| t_gen := t_gen s + 1; t_flag := false; t_waiting := t_waiting s |}, [])
  end.

Fixpoint arun (s : aev) (os : list eop) : list (list Z) :=
  match os with [] => [] | o :: r => let '(s', w) := astep s o in w :: arun s' r end.
Fixpoint trun (s : tev) (os : list eop) : list (list Z) :=
  match os with [] => [] | o :: r => let '(s', w) := tstep s o in w :: trun s' r end.

(* the discipline under which hypercorn uses its events: clear() is only called when no task is
   waiting (the waiter itself clears after it has been woken: has_data, _paused, can_read; or the
   only possible waiter is the task that clears: _is_empty) *)
Fixpoint disciplined (s : aev) (os : list eop) : Prop :=
  match os with
  | [] => True
  | o :: r => (match o with OClear => a_waiting s = [] | _ => True end) /\ disciplined (fst (astep s o)) r
  end.
