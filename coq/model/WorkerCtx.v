(* hypercorn.{asyncio,trio}.worker_context.WorkerContext.mark_request and the max_requests
   computation of worker_serve (identical in both workers). *)
From Coq Require Import ZArith List Bool Lia.
Import ListNotations.
Open Scope Z_scope.

Record wctx := { wx_max : option Z; wx_requests : Z; wx_terminate : bool }.

Definition wctx_init (max_requests : option Z) (jitter_draw : Z) : wctx :=
  {| wx_max := option_map (fun m => m + jitter_draw) max_requests; wx_requests := 0; wx_terminate := false |}.

(* mark_request: no-op without a maximum; otherwise count, and set terminate once the count
   exceeds the maximum (the comparison operator is pinned by the correspondence check) *)
Definition mark_request (w : wctx) : wctx :=
  match wx_max w with
  | None => w
  | Some m =>
      let n := wx_requests w + 1 in
      {| wx_max := wx_max w; wx_requests := n; wx_terminate := wx_terminate w || (m <? n) |}
  end.

Fixpoint mark_n (n : nat) (w : wctx) : wctx :=
  match n with O => w | S k => mark_request (mark_n k w) end.
