(* hypercorn.__main__.main up to `run(config)`: argparse at the level of already tokenised
   option occurrences, then the wiring statements, both driven by the generated tables. *)
From Coq Require Import String List ZArith NArith Bool Ascii.
From HV Require Import lib.Obs model.CliTypes model.Config.
Import ListNotations.
Open Scope string_scope.

Definition verify_of_string (s : string) : option Z :=
  if String.eqb s "CERT_NONE" then Some 0%Z
  else if String.eqb s "CERT_OPTIONAL" then Some 1%Z
  else if String.eqb s "CERT_REQUIRED" then Some 2%Z
  else None.

Definition conv (t : argtype) (s : string) : option pyval :=
  match t with
  | TStr => Some (PStr s)
  | TInt => option_map PInt (int_of_string s)
  | TVerify => option_map PVerify (verify_of_string s)
  end.

Definition default_val (d : argdefault) : pyval :=
  match d with
  | DSentinel => PSentinel
  | DEmptyList => PList []
  | DNone => PNone
  | DRequired => PNone
  | DStr s => PStr s
  end.

Definition initial_ns (specs : list argspec) : assoc :=
  fold_left (fun ns sp => update (a_dest sp) (default_val (a_default sp)) ns) specs [].

Fixpoint find_spec (flag : string) (specs : list argspec) : option argspec :=
  match specs with
  | [] => None
  | sp :: r => if existsb (String.eqb flag) (a_flags sp) then Some sp else find_spec flag r
  end.

(* one occurrence of an option on the command line: flag and (for value-taking options) value *)
Definition occ := (string * option string)%type.

Definition apply_occ (specs : list argspec) (ns : option assoc) (o : occ) : option assoc :=
  match ns with
  | None => None
  | Some ns =>
      match find_spec (fst o) specs with
      | None => None                                   (* unknown option: argparse exits *)
      | Some sp =>
          match a_action sp, snd o with
          | AStoreTrue, None => Some (update (a_dest sp) (PBool true) ns)
          | AStoreTrue, Some _ => None
          | AStore, Some s =>
              match conv (a_type sp) s with
              | Some v => Some (update (a_dest sp) v ns)
              | None => None
              end
          | AAppend, Some s =>
              match conv (a_type sp) s, lookup (a_dest sp) ns with
              | Some (PStr s'), Some (PList l) => Some (update (a_dest sp) (PList (l ++ [s'])) ns)
              | _, _ => None
              end
          | _, None => None
          end
      end
  end.

(* parser.parse_args: the positional application, then the option occurrences in order *)
Definition parse_args (specs : list argspec) (application : string) (occs : list occ) : option assoc :=
  fold_left (apply_occ specs) occs (Some (update "application" (PStr application) (initial_ns specs))).

Definition test_passes (w : wire) (ns : assoc) : bool :=
  match w_test w, lookup (w_tested w) ns with
  | TNotSentinel, Some PSentinel => false
  | TNotSentinel, Some _ => true
  | TLenPos, Some (PList (_ :: _)) => true
  | _, _ => false
  end.

Definition apply_wire (ns : assoc) (c : assoc) (w : wire) : assoc :=
  if test_passes w ns then
    match lookup (w_source w) ns with
    | Some v => cfg_set' (w_target w) v c
    | None => c
    end
  else c.

(* the part of main() after `config = _load_config(args.config)` *)
Definition apply_cli (wiring : list wire) (ns : assoc) (c : assoc) : assoc :=
  let c := cfg_set' "application_path" (match lookup "application" ns with Some v => v | None => PNone end) c in
  fold_left (apply_wire ns) wiring c.

Definition run_cli (specs : list argspec) (wiring : list wire)
           (application : string) (occs : list occ) (c : assoc) : option assoc :=
  option_map (fun ns => apply_cli wiring ns c) (parse_args specs application occs).

(* observation: the value of each listed attribute (None = still the class default) *)
Definition obs_config (keys : list string) (c : option assoc) : val :=
  match c with
  | None => VL [VS "exit"]
  | Some c => VL (map (fun k => vopt v_of_pyval (lookup k c)) keys)
  end.
