(* The idle timer of TCPServer (both workers): one restartable timer per connection
   (idle_task.restart / stop, _idle_timeout), driven by what the protocol tells the server
   (Updated(idle=...), Closed) and by the end of reading.  Time is in milliseconds. *)
From Coq Require Import ZArith List Bool Lia.
Import ListNotations.
Open Scope Z_scope.

Inductive tev :=
| TArm        (* run() after initiate, or Updated(idle=True) *)
| TBusy       (* Updated(idle=False) *)
| TFinished   (* reading is over (EOF, reset, failed write): the timer is stopped for good *)
| TClosed     (* the protocol asked for the connection to be closed *)
| TTerminate. (* context.terminated is set *)

Record tstate := {
  deadline : option Z;      (* the armed timer's expiry *)
  finished : bool;
  terminated : bool;
  closed_at : option Z      (* when the transport was closed, and ... *)
}.
Definition t0 : tstate := {| deadline := None; finished := false; terminated := false; closed_at := None |}.

(* the timer fires if its deadline has been reached: _initiate_server_close *)
Definition fire (s : tstate) (now : Z) : tstate :=
  match closed_at s, deadline s with
  | None, Some d => if d <=? now then {| deadline := None; finished := finished s; terminated := terminated s; closed_at := Some d |} else s
  | _, _ => s
  end.

Definition tstep (T : Z) (s : tstate) (e : Z * tev) : tstate :=
  let '(now, ev) := e in
  let s := fire s now in
  match closed_at s with
  | Some _ => s
  | None =>
      match ev with
      | TArm =>
          if finished s then s
          else {| deadline := Some (if terminated s then now else now + T); finished := false; terminated := terminated s; closed_at := None |}
      | TBusy => {| deadline := None; finished := finished s; terminated := terminated s; closed_at := None |}
      | TFinished => {| deadline := None; finished := true; terminated := terminated s; closed_at := None |}
      | TClosed => {| deadline := None; finished := finished s; terminated := terminated s; closed_at := Some now |}
      | TTerminate =>
          {| deadline := match deadline s with Some _ => Some now | None => None end;
             finished := finished s; terminated := true; closed_at := None |}
      end
  end.

Definition trun (T : Z) (es : list (Z * tev)) : tstate := fold_left (tstep T) es t0.

(* when the connection is closed if nothing more happens: by the pending timer, if any *)
Definition final_close (s : tstate) : option Z :=
  match closed_at s with Some c => Some c | None => deadline s end.
