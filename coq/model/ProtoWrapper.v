(* hypercorn.protocol.ProtocolWrapper: protocol selection and the two hand-overs from HTTP/1.1 to
   HTTP/2 (prior-knowledge preface, h2c upgrade).  The HTTP/2 protocol itself is represented by
   what it is given: the arguments of initiate() and the bytes passed to handle(). *)
From Coq Require Import String Ascii ZArith NArith List Bool Lia.
From HV Require Import lib.Bytes lib.Obs lib.Monad model.Asgi model.GuardTypes model.HttpStream model.WsStream model.LibH11 model.H11Proto.
Import ListNotations.
Open Scope N_scope.

Record h2given := { g_headers : option (list header); g_settings : option bytes; g_data : list bytes }.

Inductive wproto := WH11 (p : h11p) | WH2 (g : h2given).

Definition preface_line : bytes := B "PRI * HTTP/2.0" ++ [13; 10; 13; 10].

(* H2CProtocolRequiredError.__init__: pseudo headers from the HTTP/1.1 request *)
Definition h2c_headers (method target : bytes) (hs : list header) : list header * bytes :=
  fold_left (fun acc h =>
               let '(out, settings) := acc in
               let n := lower (fst h) in
               if beqb n (B "http2-settings") then (out ++ [h], snd h)
               else if beqb n (B "host") then (out ++ [(B ":authority", snd h); h], settings)
               else (out ++ [h], settings))
            hs ([(B ":method", method); (B ":path", target)], []).

(* ProtocolWrapper.__init__ *)
Definition wrapper_init (alpn_h2 : bool) (sends : list (option bytes)) (writes : list bool) : wproto :=
  if alpn_h2 then WH2 {| g_headers := None; g_settings := None; g_data := [] |} else WH11 (p_init sends writes).

Definition last_request (evs : list rdev) : option (bytes * bytes * list header) :=
  fold_left (fun acc e => match e with RH (HRequest m t hs _) => Some (m, t, hs) | _ => acc end) evs None.

Section W.
  Variable cfg : h11cfg.
  Variable stream_headers : list header -> list header.
  Variable ws_token : list header -> bytes.
  Variable ws_ext : option bytes.
  Variable ws_sends : list (option bytes).

  (* ProtocolWrapper.handle(RawData(data)); [trailing] = connection.trailing_data[0] at the moment
     the switch exception is raised (oracle value: what h11 had not consumed) *)
  Definition wrapper_data (w : wproto) (data : bytes) (evs : list rdev) (trailing : bytes) : wproto * list out * result (E:=exn) unit :=
    match w with
    | WH2 g => (WH2 {| g_headers := g_headers g; g_settings := g_settings g; g_data := g_data g ++ [data] |},
                [OLib [VS "h2.handle"; VB data]], Ok tt)
    | WH11 p =>
        let '(p', o, res) := proto_step cfg stream_headers ws_token ws_ext ws_sends (IData evs) p in
        match res with
        | Raise EH2Assumed =>
            let d := preface_line ++ trailing in
            (WH2 {| g_headers := None; g_settings := None; g_data := [d] |},
             o ++ [OLib [VS "h2.initiate"; VL []; VL []]; OLib [VS "h2.handle"; VB d]], Ok tt)
        | Raise EH2CRequired =>
            match last_request evs with
            | Some (m, t, hs) =>
                let '(hh, settings) := h2c_headers m t hs in
                (WH2 {| g_headers := Some hh; g_settings := Some settings; g_data := match trailing with [] => [] | _ => [trailing] end |},
                 o ++ [OLib [VS "h2.initiate"; vsome (v_of_hs hh); vsome (VB settings)]]
                   ++ match trailing with [] => [] | _ => [OLib [VS "h2.handle"; VB trailing]] end, Ok tt)
            | None => (WH11 p', o, res)
            end
        | _ => (WH11 p', o, res)
        end
    end.
End W.

(* which protocol an opening selects *)
Inductive selection := SelH2Alpn | SelH2Prior | SelH2c | SelWebSocket | SelHttp1.

Definition select (alpn_h2 : bool) (method target : bytes) (hs : list header) (version : bytes) : selection :=
  if alpn_h2 then SelH2Alpn
  else if h2c_requested hs then SelH2c
  else if beqb method (B "PRI") && beqb target (B "*") && beqb version (B "2.0") then SelH2Prior
  else if wants_websocket method hs then SelWebSocket
  else SelHttp1.
