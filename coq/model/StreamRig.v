(* Stand-alone instantiation of the stream automata: the owning "protocol" is a recorder whose
   reaction to each send is scripted (nothing / re-enter with StreamClosed as _close_stream does /
   raise as h11 does), and which re-enters on a StreamClosed event like both real protocols. *)
From Coq Require Import String Ascii ZArith NArith List Bool Lia.
From HV Require Import lib.Bytes lib.Obs lib.Monad model.Asgi model.HttpStream.
Import ListNotations.
Open Scope N_scope.

Inductive react := RNone | RClose | RRaise.

Record rig := { rg_stream : hstream; rg_reacts : list react; rg_auto_close : bool }.

Definition rig_get (r : rig) : hstream := rg_stream r.
Definition rig_set (s : hstream) (r : rig) : rig :=
  {| rg_stream := s; rg_reacts := rg_reacts r; rg_auto_close := rg_auto_close r |}.

Local Open Scope monad_scope.

Definition pop_react : M exn out rig react :=
  r <- get ;;
  match rg_reacts r with
  | [] => ret RNone
  | x :: rest => put {| rg_stream := rg_stream r; rg_reacts := rest; rg_auto_close := rg_auto_close r |} ;; ret x
  end.

Definition rig_psend (ev : sevent) : M exn out rig unit :=
  r <- get ;;
  emit (OSend (hs_id (rg_stream r)) ev) ;;
  x <- pop_react ;;
  match x with
  | RRaise => raise ELocalProtocol
  | RClose => http_stream_closed rig_get rig_set
  | RNone =>
      match ev with
      | EvStreamClosed => if rg_auto_close r then http_stream_closed rig_get rig_set else ret tt
      | _ => ret tt
      end
  end.

Inductive sinput := IHandle (ev : sevent) | IAppSend (m : option amsg).

Definition rig_step (cfg : hcfg) (i : sinput) : M exn out rig unit :=
  match i with
  | IHandle ev => http_handle cfg rig_get rig_set rig_psend ev
  | IAppSend m => http_app_send cfg rig_get rig_set rig_psend m
  end.

(* run inputs one after another; an exception ends that input only *)
Fixpoint rig_run (cfg : hcfg) (r : rig) (is : list sinput) : list (list out * result (E:=exn) unit) :=
  match is with
  | [] => []
  | i :: rest => let '(r', o, res) := rig_step cfg i r in (o, res) :: rig_run cfg r' rest
  end.

Definition v_of_run (l : list (list out * result (E:=exn) unit)) : val :=
  VL (map (fun x => VL [VL (map v_of_out (fst x)); v_of_result (snd x)]) l).

Definition new_rig (id : Z) (reacts : list react) (auto : bool) : rig :=
  {| rg_stream := new_hstream id; rg_reacts := reacts; rg_auto_close := auto |}.

(* ---------------------------------------------------------------- the same for WSStream *)
From HV Require Import model.WsStream.

Record wrig := { wg_stream : wstream; wg_reacts : list react; wg_auto_close : bool }.
Definition wrig_get (r : wrig) : wstream := wg_stream r.
Definition wrig_set (s : wstream) (r : wrig) : wrig :=
  {| wg_stream := s; wg_reacts := wg_reacts r; wg_auto_close := wg_auto_close r |}.

Definition wpop_react : M exn out wrig react :=
  r <- get ;;
  match wg_reacts r with
  | [] => ret RNone
  | x :: rest => put {| wg_stream := wg_stream r; wg_reacts := rest; wg_auto_close := wg_auto_close r |} ;; ret x
  end.

Definition wrig_psend (ev : sevent) : M exn out wrig unit :=
  r <- get ;;
  emit (OSend (ws_id (wg_stream r)) ev) ;;
  x <- wpop_react ;;
  match x with
  | RRaise => raise ELocalProtocol
  | RClose => ws_stream_closed wrig_get wrig_set
  | RNone =>
      match ev with
      | EvStreamClosed => if wg_auto_close r then ws_stream_closed wrig_get wrig_set else ret tt
      | _ => ret tt
      end
  end.

Inductive winput := WIHandle (i : ws_in) | WIAppSend (m : option amsg).

Definition wrig_step (cfg : wcfg) (i : winput) : M exn out wrig unit :=
  match i with
  | WIHandle x => ws_handle cfg wrig_get wrig_set wrig_psend x
  | WIAppSend m => ws_app_send cfg wrig_get wrig_set wrig_psend m
  end.

Fixpoint wrig_run (cfg : wcfg) (r : wrig) (is : list winput) : list (list out * result (E:=exn) unit) :=
  match is with
  | [] => []
  | i :: rest => let '(r', o, res) := wrig_step cfg i r in (o, res) :: wrig_run cfg r' rest
  end.

Definition new_wrig (id : Z) (token : bytes) (ext : option bytes) (sends : list (option bytes))
           (reacts : list react) (auto : bool) : wrig :=
  {| wg_stream := new_wstream id token ext sends; wg_reacts := reacts; wg_auto_close := auto |}.
