(* The Lifespan helper of both workers (hypercorn.asyncio.lifespan / hypercorn.trio.lifespan) and
   the use worker_serve makes of it, against a scripted lifespan application.  The application is a
   list of actions; the server side is: start the application task, wait_for_startup (put
   lifespan.startup, wait for the startup event up to startup_timeout, re-raise a failure of the
   task), serve, wait_for_shutdown (put lifespan.shutdown, wait for the shutdown event up to
   shutdown_timeout). *)
From Coq Require Import ZArith List Bool Lia.
Import ListNotations.

Inductive lmsg := LStartupComplete | LStartupFailed | LShutdownComplete | LShutdownFailed | LOther.
Inductive lact :=
| LRecv                (* await receive() *)
| LSend (m : lmsg)     (* await send({...}) *)
| LRaise               (* raise an ordinary exception *)
| LReturn              (* return *)
| LHang.               (* await something that never completes *)

Inductive lapp := Running (rest : list lact) | Ended | Unsupported | Failed (during_shutdown_msg : bool) | Hung.

Record lstate := {
  ls_startup : bool; ls_shutdown : bool;      (* the two events *)
  ls_queue : list bool;                       (* app_queue: false = lifespan.startup, true = lifespan.shutdown *)
  ls_app : lapp;
  ls_got : list bool;                         (* what the application received, in order *)
  ls_warned : nat                             (* log.warning / log.exception calls *)
}.

Definition ls0 (script : list lact) : lstate :=
  {| ls_startup := false; ls_shutdown := false; ls_queue := []; ls_app := Running script; ls_got := []; ls_warned := 0 |}.

(* the `finally` of handle_lifespan *)
Definition finish (s : lstate) (a : lapp) (warn : nat) : lstate :=
  {| ls_startup := true; ls_shutdown := true; ls_queue := ls_queue s; ls_app := a; ls_got := ls_got s; ls_warned := ls_warned s + warn |}.

(* run the application until it blocks on an empty queue, hangs or ends *)
Fixpoint run_app (script : list lact) (s : lstate) : lstate :=
  match script with
  | [] => finish s Ended 0
  | LReturn :: _ => finish s Ended 0
  | LRaise :: _ => finish s Unsupported 1
  | LHang :: _ => {| ls_startup := ls_startup s; ls_shutdown := ls_shutdown s; ls_queue := ls_queue s; ls_app := Hung; ls_got := ls_got s; ls_warned := ls_warned s |}
  | LRecv :: rest =>
      match ls_queue s with
      | [] => {| ls_startup := ls_startup s; ls_shutdown := ls_shutdown s; ls_queue := []; ls_app := Running script; ls_got := ls_got s; ls_warned := ls_warned s |}
      | m :: q =>
          run_app rest {| ls_startup := ls_startup s; ls_shutdown := ls_shutdown s; ls_queue := q; ls_app := Running rest;
                          ls_got := ls_got s ++ [m]; ls_warned := ls_warned s |}
      end
  | LSend LStartupComplete :: rest =>
      run_app rest {| ls_startup := true; ls_shutdown := ls_shutdown s; ls_queue := ls_queue s; ls_app := Running rest; ls_got := ls_got s; ls_warned := ls_warned s |}
  | LSend LShutdownComplete :: rest =>
      run_app rest {| ls_startup := ls_startup s; ls_shutdown := true; ls_queue := ls_queue s; ls_app := Running rest; ls_got := ls_got s; ls_warned := ls_warned s |}
  | LSend LStartupFailed :: _ => finish s (Failed false) 0          (* LifespanFailureError("startup") leaves the task *)
  | LSend LShutdownFailed :: _ => finish s (Failed true) 0
  | LSend LOther :: _ => finish s Unsupported 1                     (* UnexpectedMessageError: an ordinary exception *)
  end.

Definition resume (s : lstate) : lstate :=
  match ls_app s with Running script => run_app script s | _ => s end.

Definition supported (s : lstate) : bool := match ls_app s with Unsupported => false | _ => true end.

Inductive outcome := Proceed | AbortFailed | AbortTimeout.

(* wait_for_startup, and the check of the task worker_serve makes after it *)
Definition startup (script : list lact) : outcome * lstate :=
  let s1 := run_app script (ls0 script) in                      (* the task starts before the server waits *)
  if negb (supported s1) then (Proceed, s1)
  else
    let s2 := resume {| ls_startup := ls_startup s1; ls_shutdown := ls_shutdown s1; ls_queue := ls_queue s1 ++ [false];
                        ls_app := ls_app s1; ls_got := ls_got s1; ls_warned := ls_warned s1 |} in
    match ls_app s2 with
    | Failed _ => (AbortFailed, s2)
    | _ => if ls_startup s2 then (Proceed, s2) else (AbortTimeout, s2)
    end.

(* wait_for_shutdown after a successful start: returns true if it ends within shutdown_timeout and
   without a failure *)
Definition shutdown (s : lstate) : outcome * lstate :=
  if negb (supported s) then (Proceed, s)
  else
    let s2 := resume {| ls_startup := ls_startup s; ls_shutdown := ls_shutdown s; ls_queue := ls_queue s ++ [true];
                        ls_app := ls_app s; ls_got := ls_got s; ls_warned := ls_warned s |} in
    match ls_app s2 with
    | Failed _ => (AbortFailed, s2)
    | _ => if ls_shutdown s2 then (Proceed, s2) else (AbortTimeout, s2)
    end.

Definition count_shutdown (l : list bool) : nat := length (filter (fun b => b) l).
Definition count_startup (l : list bool) : nat := length (filter negb l).
