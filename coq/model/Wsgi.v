(* hypercorn.app_wrappers.WSGIWrapper: body accumulation with limit, _build_environ, run_app *)
From Coq Require Import String Ascii ZArith NArith List Bool Lia.
From HV Require Import lib.Bytes lib.Obs.
Import ListNotations.
Open Scope N_scope.

Definition header := (bytes * bytes)%type.

(* ---------------------------------------------------------------- handle_http: the receive loop *)
(* an ASGI receive message as far as the loop looks at it: message.get("body", b""), message.get("more_body") *)
Definition rmsg := (bytes * bool)%type.

Inductive accum := TooLarge | Complete (body : bytes) | Starved (body : bytes) | Gone.
(* Starved: the message list ran out before more_body=False (the application would block in receive());
   Gone: http.disconnect arrived before the body was complete ([None] in the list): nothing is served *)
Fixpoint accumulate (max : Z) (acc : bytes) (msgs : list (option rmsg)) : accum :=
  match msgs with
  | [] => Starved acc
  | None :: _ => Gone
  | Some (b, more) :: r =>
      let acc' := acc ++ b in
      if (Zlen acc' >? max)%Z then TooLarge
      else if more then accumulate max acc' r else Complete acc'
  end.

(* ---------------------------------------------------------------- _build_environ *)
(* str.encode("utf8") on a list of code points (no surrogates) *)
Definition utf8_1 (c : N) : bytes :=
  if c <? 128 then [c]
  else if c <? 2048 then [192 + c / 64; 128 + c mod 64]
  else if c <? 65536 then [224 + c / 4096; 128 + (c / 64) mod 64; 128 + c mod 64]
  else [240 + c / 262144; 128 + (c / 4096) mod 64; 128 + (c / 64) mod 64; 128 + c mod 64].
Definition utf8 (s : bytes) : bytes := flat_map utf8_1 s.

Definition corrected_name (name : bytes) : bytes :=
  if beqb name (B "content-length") then B "CONTENT_LENGTH"
  else if beqb name (B "content-type") then B "CONTENT_TYPE"
  else B "HTTP_" ++ map (fun c => if c =? 45 then 95 else c) (upper name).

Definition env := list (bytes * bytes).
Fixpoint env_get (k : bytes) (e : env) : option bytes :=
  match e with [] => None | (k', v) :: r => if beqb k k' then Some v else env_get k r end.
Fixpoint env_set (k v : bytes) (e : env) : env :=
  match e with
  | [] => [(k, v)]
  | (k', v') :: r => if beqb k k' then (k, v) :: r else (k', v') :: env_set k v r
  end.

Definition add_header (e : env) (h : header) : env :=
  let k := corrected_name (fst h) in
  match env_get k e with
  | Some old => env_set k (old ++ 44 :: snd h) e
  | None => env_set k (snd h) e
  end.

Record wscope := { ws_method : bytes; ws_path : bytes (* code points *); ws_root : bytes (* code points *);
                   ws_query : bytes; ws_version : bytes; ws_scheme : bytes;
                   ws_server : option (bytes * Z); ws_client : option bytes; ws_headers : list header }.

(* the string-valued part of the environ, plus SERVER_PORT; None = InvalidPathError *)
Definition build_environ (sc : wscope) : option (env * Z) :=
  if starts_with (ws_root sc) (ws_path sc) then
    let rest := skipn (length (ws_root sc)) (ws_path sc) in
    let path := match rest with [] => B "/" | _ => rest end in
    let server := match ws_server sc with Some s => s | None => (B "localhost", 80%Z) end in
    let base : env :=
      [ (B "REQUEST_METHOD", ws_method sc);
        (B "SCRIPT_NAME", utf8 (ws_root sc));
        (B "PATH_INFO", utf8 path);
        (B "QUERY_STRING", ws_query sc);
        (B "SERVER_NAME", fst server);
        (B "SERVER_PROTOCOL", B "HTTP/" ++ ws_version sc);
        (B "wsgi.url_scheme", ws_scheme sc) ]
      ++ match ws_client sc with Some c => [(B "REMOTE_ADDR", c)] | None => [] end in
    Some (fold_left add_header (ws_headers sc) base, snd server)
  else None.

(* ---------------------------------------------------------------- run_app over application shapes *)
Inductive call_step := CStart (status : Z) (hs : list header) | CRaise.
Inductive iter_step := IYield (chunk : bytes) | IStart (status : Z) (hs : list header) | IRaise.
Record wsgi_app := { wa_call : list call_step; wa_iter : list iter_step; wa_has_close : bool }.

Inductive asgi_send := SStart (status : Z) (hs : list header) | SBody (chunk : bytes) (more : bool).

Definition enc_headers (hs : list header) : list header := map (fun h => (lower (fst h), snd h)) hs.

(* the call phase: last start_response wins; a raise aborts *)
Fixpoint run_call (steps : list call_step) (started : option (Z * list header)) : option (option (Z * list header)) :=
  match steps with
  | [] => Some started
  | CStart s hs :: r => run_call r (Some (s, enc_headers hs))
  | CRaise :: _ => None
  end.

Record run_result := { rr_sends : list asgi_send; rr_closes : nat; rr_raised : bool; rr_called : nat }.

(* the iteration phase (after the fix of F17): the start is emitted when the first chunk, or the
   end of the iterable, is reached; a missing start_response raises RuntimeError there *)
Fixpoint run_iter (steps : list iter_step) (started : option (Z * list header)) (first : bool)
         (acc : list asgi_send) : list asgi_send * bool :=
  match steps with
  | [] =>
      if first then
        match started with
        | Some (s, hs) => (acc ++ [SStart s hs], false)
        | None => (acc, true)
        end
      else (acc, false)
  | IYield c :: r =>
      if first then
        match started with
        | Some (s, hs) => run_iter r started false (acc ++ [SStart s hs; SBody c true])
        | None => (acc, true)
        end
      else run_iter r started false (acc ++ [SBody c true])
  | IStart s hs :: r => run_iter r (Some (s, enc_headers hs)) first acc
  | IRaise :: _ => (acc, true)
  end.

Definition run_app (a : wsgi_app) : run_result :=
  match run_call (wa_call a) None with
  | None => {| rr_sends := []; rr_closes := 0; rr_raised := true; rr_called := 1 |}
  | Some started =>
      let '(sends, raised) := run_iter (wa_iter a) started true [] in
      {| rr_sends := sends; rr_closes := if wa_has_close a then 1 else 0; rr_raised := raised; rr_called := 1 |}
  end.

(* WSGIWrapper.__call__ for an http scope: what the ASGI side sees *)
Definition handle_http (max : Z) (msgs : list (option rmsg)) (sc : wscope) (a : wsgi_app) : run_result :=
  match accumulate max [] msgs with
  | TooLarge => {| rr_sends := [SStart 400 []; SBody [] false]; rr_closes := 0; rr_raised := false; rr_called := 0 |}
  | Starved _ | Gone => {| rr_sends := []; rr_closes := 0; rr_raised := false; rr_called := 0 |}
  | Complete body =>
      match build_environ sc with
      | None => {| rr_sends := [SStart 404 []; SBody [] false]; rr_closes := 0; rr_raised := false; rr_called := 0 |}
      | Some _ =>
          let r := run_app a in
          if rr_raised r then r
          else {| rr_sends := rr_sends r ++ [SBody [] false]; rr_closes := rr_closes r; rr_raised := false; rr_called := 1 |}
      end
  end.

(* ---------------------------------------------------------------- observations *)
Definition v_of_hs (hs : list header) : val := VL (map (fun h => VL [VB (fst h); VB (snd h)]) hs).
Definition v_of_send (s : asgi_send) : val :=
  match s with
  | SStart st hs => VL [VS "start"; VZ st; v_of_hs hs]
  | SBody c m => VL [VS "body"; VB c; vbool m]
  end.
Definition v_of_result (r : run_result) : val :=
  VL [VL (map v_of_send (rr_sends r)); VZ (Z.of_nat (rr_closes r)); vbool (rr_raised r); VZ (Z.of_nat (rr_called r))].
Definition v_of_environ (o : option (env * Z)) : val :=
  match o with
  | None => VL [VS "invalid-path"]
  | Some (e, port) => VL [v_of_hs e; VZ port]
  end.
