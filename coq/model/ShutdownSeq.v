(* The shutdown sequence of worker_serve (both workers), in time units after the trigger: the
   listeners are closed and context.terminated set at once; every connection handler is awaited, all
   together, for at most graceful_timeout G and cancelled then; lifespan shutdown follows and takes
   at most shutdown_timeout S.  d is how long a connection's handler would still run if left alone
   (idle connections: 0, they are closed at once by the idle timer on terminated). *)
From Coq Require Import ZArith List Lia.
Import ListNotations.
Open Scope Z_scope.

Definition conn_end (G d : Z) : Z := Z.min d G.
Definition drain_end (G : Z) (ds : list Z) : Z := fold_right (fun d acc => Z.max (conn_end G d) acc) 0 ds.
Definition serve_return (G S : Z) (ds : list Z) (lifespan : Z) : Z := drain_end G ds + Z.min lifespan S.
(* a request is delivered in full iff its handler ends before it is cancelled *)
Definition delivered (G d : Z) : bool := d <=? G.
