(* The HTTP/2 send path of hypercorn.protocol.h2: StreamBuffer (push / pop / drain / close),
   H2Protocol.send_task / _send_data, the Body / EndBody / StreamClosed branches of stream_send,
   _window_updated, and the StreamReset / Closed handling -- as a labelled transition system whose
   labels are the points at which the real tasks can be scheduled:

     LApp s        the application task of stream s runs one step: it resumes from the event it is
                   waiting on if that event is set, or else performs the next operation of its
                   program up to the next await that can suspend;
     LSendWake     the send task, waiting on has_data, observes it set and clears it;
     LSendIter p   one iteration of the `while not self.closed` loop of send_task; p is what
                   next(self.priority) returned (None = DeadlockError);
     LClient c     the reader task handles one client event to completion.

   The h2 library enters through the part of its contract used here (stream and connection
   outbound windows, max frame size, send side of a stream open or closed) and the priority
   library through "next returns an unblocked stream of the tree, DeadlockError iff there is
   none"; both are validated by the correspondence check against the real libraries. *)
From Coq Require Import ZArith NArith List Bool Lia.
From HV Require Import gen.Consts_gen.
Import ListNotations.
Open Scope Z_scope.

Definition HIGH := BUFFER_HIGH_WATER.
Definition LOW := BUFFER_LOW_WATER.

Definition zlen {A} (l : list A) : Z := Z.of_nat (List.length l).

(* ---- StreamBuffer *)
Record sbuf := { b_data : list N; b_complete : bool; b_is_empty : bool; b_paused : bool }.
Definition sbuf_new : sbuf := {| b_data := []; b_complete := false; b_is_empty := false; b_paused := false |}.

Definition sb_set_complete (b : sbuf) : sbuf :=
  {| b_data := b_data b; b_complete := true; b_is_empty := b_is_empty b; b_paused := b_paused b |}.
Definition sb_close (b : sbuf) : sbuf :=
  {| b_data := []; b_complete := true; b_is_empty := true; b_paused := true |}.
Definition sb_complete (b : sbuf) : bool :=
  b_complete b && match b_data b with [] => true | _ => false end.
(* push, up to its wait: None = BufferCompleteError; the flag says whether the caller must wait *)
Definition sb_push (b : sbuf) (d : list N) : option (sbuf * bool) :=
  if b_complete b then None
  else
    let data := (b_data b ++ d)%list in
    Some ({| b_data := data; b_complete := false; b_is_empty := false; b_paused := b_paused b |},
          HIGH <=? zlen data).
Definition sb_clear_paused (b : sbuf) : sbuf :=
  {| b_data := b_data b; b_complete := b_complete b; b_is_empty := b_is_empty b; b_paused := false |}.
Definition sb_pop (b : sbuf) (max_length : Z) : list N * sbuf :=
  let n := Z.to_nat (Z.min (zlen (b_data b)) max_length) in
  let data := firstn n (b_data b) in
  let rest := skipn n (b_data b) in
  (data,
   {| b_data := rest; b_complete := b_complete b;
      b_is_empty := b_is_empty b || match rest with [] => true | _ => false end;
      b_paused := b_paused b || (zlen rest <? LOW) |}).

(* ---- one stream *)
Inductive spc := PReady | PWaitPaused | PWaitDrain | PDone.
(* what the application task asks of the protocol, through HTTPStream.app_send: the response head,
   a body chunk, the end of the body, the StreamClosed that follows it (_send_closed), and the
   app_send(None) issued when the application returns or raises (ignored once the stream has been
   told it is closed) *)
Inductive sop := OStart | OBody (d : list N) | OEnd | OClose | OExit.

Record strm := {
  s_buf : sbuf;          (* the StreamBuffer object (kept after it leaves stream_buffers: a waiting
                            sender still holds it) *)
  s_inbufs : bool;       (* stream_id in self.stream_buffers *)
  s_live : bool;         (* stream_id in self.streams (the HTTPStream is not closed) *)
  s_tree : bool;         (* in the priority tree *)
  s_blocked : bool;      (* priority: blocked *)
  s_win : Z;             (* h2: the stream's outbound flow-control window *)
  s_h2open : bool;       (* h2: the stream exists and its send side is open *)
  s_pc : spc;            (* the application task *)
  s_prog : list sop;
  s_pushed : list N;     (* ghost: every byte accepted by push *)
  s_forced : bool;       (* ghost: StreamBuffer.close() was called (data may have been dropped) *)
  s_created : bool;      (* ghost: a request with this stream id has arrived *)
  s_abort : bool         (* stream_id in self.aborted_streams: RST_STREAM instead of END_STREAM once flushed *)
}.

Definition strm_none : strm :=
  {| s_buf := sbuf_new; s_inbufs := false; s_live := false; s_tree := false; s_blocked := true;
     s_win := 0; s_h2open := false; s_pc := PDone; s_prog := []; s_pushed := []; s_forced := false; s_created := false; s_abort := false |}.

Definition set_buf (x : strm) (b : sbuf) : strm :=
  {| s_buf := b; s_inbufs := s_inbufs x; s_live := s_live x; s_tree := s_tree x; s_blocked := s_blocked x;
     s_win := s_win x; s_h2open := s_h2open x; s_pc := s_pc x; s_prog := s_prog x; s_pushed := s_pushed x;
     s_forced := s_forced x; s_created := s_created x; s_abort := s_abort x |}.
Definition set_blocked (x : strm) (v : bool) : strm :=
  {| s_buf := s_buf x; s_inbufs := s_inbufs x; s_live := s_live x; s_tree := s_tree x; s_blocked := v;
     s_win := s_win x; s_h2open := s_h2open x; s_pc := s_pc x; s_prog := s_prog x; s_pushed := s_pushed x;
     s_forced := s_forced x; s_created := s_created x; s_abort := s_abort x |}.
Definition set_win (x : strm) (v : Z) : strm :=
  {| s_buf := s_buf x; s_inbufs := s_inbufs x; s_live := s_live x; s_tree := s_tree x; s_blocked := s_blocked x;
     s_win := v; s_h2open := s_h2open x; s_pc := s_pc x; s_prog := s_prog x; s_pushed := s_pushed x;
     s_forced := s_forced x; s_created := s_created x; s_abort := s_abort x |}.
Definition set_h2open (x : strm) (v : bool) : strm :=
  {| s_buf := s_buf x; s_inbufs := s_inbufs x; s_live := s_live x; s_tree := s_tree x; s_blocked := s_blocked x;
     s_win := s_win x; s_h2open := v; s_pc := s_pc x; s_prog := s_prog x; s_pushed := s_pushed x;
     s_forced := s_forced x; s_created := s_created x; s_abort := s_abort x |}.
Definition set_live (x : strm) (v : bool) : strm :=
  {| s_buf := s_buf x; s_inbufs := s_inbufs x; s_live := v; s_tree := s_tree x; s_blocked := s_blocked x;
     s_win := s_win x; s_h2open := s_h2open x; s_pc := s_pc x; s_prog := s_prog x; s_pushed := s_pushed x;
     s_forced := s_forced x; s_created := s_created x; s_abort := s_abort x |}.
Definition set_pc (x : strm) (pc : spc) (prog : list sop) : strm :=
  {| s_buf := s_buf x; s_inbufs := s_inbufs x; s_live := s_live x; s_tree := s_tree x; s_blocked := s_blocked x;
     s_win := s_win x; s_h2open := s_h2open x; s_pc := pc; s_prog := prog; s_pushed := s_pushed x;
     s_forced := s_forced x; s_created := s_created x; s_abort := s_abort x |}.
(* StreamClosed for a stream whose body was not ended: set_complete, remember to reset, unblock *)
Definition mark_abort (x : strm) : strm :=
  {| s_buf := sb_set_complete (s_buf x); s_inbufs := s_inbufs x; s_live := s_live x; s_tree := s_tree x; s_blocked := false;
     s_win := s_win x; s_h2open := s_h2open x; s_pc := s_pc x; s_prog := s_prog x; s_pushed := s_pushed x;
     s_forced := s_forced x; s_created := s_created x; s_abort := true |}.
Definition add_pushed (x : strm) (d : list N) : strm :=
  {| s_buf := s_buf x; s_inbufs := s_inbufs x; s_live := s_live x; s_tree := s_tree x; s_blocked := s_blocked x;
     s_win := s_win x; s_h2open := s_h2open x; s_pc := s_pc x; s_prog := s_prog x;
     s_pushed := (s_pushed x ++ d)%list; s_forced := s_forced x; s_created := s_created x; s_abort := s_abort x |}.
(* StreamBuffer.close() *)
Definition force_close (x : strm) : strm :=
  {| s_buf := sb_close (s_buf x); s_inbufs := s_inbufs x; s_live := s_live x; s_tree := s_tree x;
     s_blocked := s_blocked x; s_win := s_win x; s_h2open := s_h2open x; s_pc := s_pc x; s_prog := s_prog x;
     s_pushed := s_pushed x; s_forced := true; s_created := s_created x; s_abort := s_abort x |}.
(* del self.stream_buffers[s]; self.priority.remove_stream(s) *)
Definition forget (x : strm) : strm :=
  {| s_buf := s_buf x; s_inbufs := false; s_live := s_live x; s_tree := false; s_blocked := s_blocked x;
     s_win := s_win x; s_h2open := s_h2open x; s_pc := s_pc x; s_prog := s_prog x; s_pushed := s_pushed x;
     s_forced := s_forced x; s_created := s_created x; s_abort := s_abort x |}.

(* ---- the connection *)
Inductive frame := FHeaders (s : Z) | FData (s : Z) (d : list N) | FEnd (s : Z) | FRst (s : Z).
Inductive stpc := TTop | TWaiting | TExited.

Record st := {
  strms : Z -> strm;
  ids : list Z;            (* streams ever created, newest first *)
  has_data : bool;
  closed : bool;
  cwin : Z;                (* h2: the connection's outbound window *)
  maxf : Z;                (* h2: max_outbound_frame_size *)
  iw : Z;                  (* h2: the peer's SETTINGS_INITIAL_WINDOW_SIZE *)
  task : stpc;             (* the send task *)
  out : list frame;        (* frames written, oldest first *)
  bad_pick : bool;         (* the priority oracle returned something outside its contract *)
  reader_ok : bool         (* false once an exception would have escaped the reader's event handling *)
}.

Definition init (cw mf iw0 : Z) : st :=
  {| strms := fun _ => strm_none; ids := []; has_data := false; closed := false; cwin := cw; maxf := mf;
     iw := iw0; task := TTop; out := []; bad_pick := false; reader_ok := true |}.

Definition upd (f : Z -> strm) (s : Z) (x : strm) : Z -> strm := fun k => if k =? s then x else f k.

Definition with_strms (t : st) (f : Z -> strm) : st :=
  {| strms := f; ids := ids t; has_data := has_data t; closed := closed t; cwin := cwin t; maxf := maxf t;
     iw := iw t; task := task t; out := out t; bad_pick := bad_pick t; reader_ok := reader_ok t |}.
Definition with_strm (t : st) (s : Z) (x : strm) : st := with_strms t (upd (strms t) s x).
Definition with_has_data (t : st) (v : bool) : st :=
  {| strms := strms t; ids := ids t; has_data := v; closed := closed t; cwin := cwin t; maxf := maxf t;
     iw := iw t; task := task t; out := out t; bad_pick := bad_pick t; reader_ok := reader_ok t |}.
Definition with_task (t : st) (v : stpc) : st :=
  {| strms := strms t; ids := ids t; has_data := has_data t; closed := closed t; cwin := cwin t; maxf := maxf t;
     iw := iw t; task := v; out := out t; bad_pick := bad_pick t; reader_ok := reader_ok t |}.
Definition with_cwin (t : st) (v : Z) : st :=
  {| strms := strms t; ids := ids t; has_data := has_data t; closed := closed t; cwin := v; maxf := maxf t;
     iw := iw t; task := task t; out := out t; bad_pick := bad_pick t; reader_ok := reader_ok t |}.
Definition emit (t : st) (f : frame) : st :=
  {| strms := strms t; ids := ids t; has_data := has_data t; closed := closed t; cwin := cwin t; maxf := maxf t;
     iw := iw t; task := task t; out := (out t ++ [f])%list; bad_pick := bad_pick t; reader_ok := reader_ok t |}.
Definition with_bad (t : st) : st :=
  {| strms := strms t; ids := ids t; has_data := has_data t; closed := closed t; cwin := cwin t; maxf := maxf t;
     iw := iw t; task := task t; out := out t; bad_pick := true; reader_ok := reader_ok t |}.

Definition reader_crash (t : st) : st :=
  {| strms := strms t; ids := ids t; has_data := has_data t; closed := closed t; cwin := cwin t; maxf := maxf t;
     iw := iw t; task := task t; out := out t; bad_pick := bad_pick t; reader_ok := false |}.
Definition add_id (t : st) (s : Z) : st :=
  {| strms := strms t; ids := if existsb (Z.eqb s) (ids t) then ids t else s :: ids t; has_data := has_data t;
     closed := closed t; cwin := cwin t; maxf := maxf t; iw := iw t; task := task t; out := out t;
     bad_pick := bad_pick t; reader_ok := reader_ok t |}.

Definition eligible (x : strm) : bool := s_tree x && negb (s_blocked x).

(* ---- stream_send, as run by the application task of stream s (through HTTPStream.app_send,
   which ignores everything once the stream has been told it is closed) *)

(* _close_stream *)
Definition close_stream (t : st) (s : Z) : st :=
  let x := strms t s in
  if s_live x then with_has_data (with_strm t s (set_live x false)) true else t.

Definition do_op (t : st) (s : Z) (o : sop) (rest : list sop) : st :=
  let x := strms t s in
  let closing :=
      let t1 := close_stream t s in
      let x1 := strms t1 s in
      if s_inbufs x1 && negb (b_complete (s_buf x1)) then
        if s_tree x1 then with_has_data (with_strm t1 s (set_pc (mark_abort x1) PReady rest)) true
        else with_strm t1 s (set_pc (set_buf x1 (sb_set_complete (s_buf x1))) PReady rest)    (* MissingStreamError: swallowed *)
      else with_strm t1 s (set_pc x1 PReady rest) in
  match o with
  | OStart =>
      let t1 := if s_h2open x then emit t (FHeaders s) else t in
      with_strm t1 s (set_pc x PReady rest)
  | OBody d =>
      if negb (s_tree x) then with_strm t s (set_pc x PReady rest)      (* MissingStreamError: swallowed *)
      else
        let x1 := set_blocked x false in
        if negb (s_inbufs x) then with_has_data (with_strm t s (set_pc x1 PReady rest)) true   (* KeyError *)
        else
          match sb_push (s_buf x1) d with
          | None => with_has_data (with_strm t s (set_pc x1 PReady rest)) true                 (* BufferComplete *)
          | Some (b, wait) =>
              let x2 := add_pushed (set_buf x1 b) d in
              with_has_data (with_strm t s (set_pc x2 (if wait then PWaitPaused else PReady) rest)) true
          end
  | OEnd =>
      if negb (s_inbufs x) then with_strm t s (set_pc x PReady rest)    (* KeyError *)
      else
        let x1 := set_buf x (sb_set_complete (s_buf x)) in
        if negb (s_tree x1) then with_strm t s (set_pc x1 PReady rest)
        else with_has_data (with_strm t s (set_pc (set_blocked x1 false) PWaitDrain rest)) true
  | OClose => closing
  | OExit => if s_live x then closing else with_strm t s (set_pc x PReady rest)   (* HTTPStream.closed *)
  end.

Definition app_step (t : st) (s : Z) : st :=
  let x := strms t s in
  match s_pc x with
  | PDone => t
  | PWaitPaused =>
      if b_paused (s_buf x) then with_strm t s (set_pc (set_buf x (sb_clear_paused (s_buf x))) PReady (s_prog x))
      else t
  | PWaitDrain =>
      if b_is_empty (s_buf x) then with_strm t s (set_pc x PReady (s_prog x)) else t
  | PReady =>
      match s_prog x with
      | [] => with_strm t s (set_pc x PDone [])
      | o :: rest => do_op t s o rest
      end
  end.

(* ---- the send task *)
Definition chunk_size (t : st) (x : strm) : Z := Z.max 0 (Z.min (Z.min (s_win x) (cwin t)) (maxf t)).

Definition send_data (t : st) (s : Z) : st :=
  let x := strms t s in
  if negb (s_h2open x) then
    (* h2 raises StreamClosedError: force-close the buffer if there is one, forget the stream *)
    with_strm t s (forget (if s_inbufs x then force_close x else x))
  else if negb (s_inbufs x) then with_strm t s (forget x)        (* KeyError: the same handler *)
  else
    let '(data, b) := sb_pop (s_buf x) (chunk_size t x) in
    let x1 := set_buf x b in
    let '(t1, x2) :=
      match data with
      | [] => (t, set_blocked x1 true)
      | _ => (emit (with_cwin t (cwin t - zlen data)) (FData s data), set_win x1 (s_win x1 - zlen data))
      end in
    if sb_complete b then emit (with_strm t1 s (forget (set_h2open x2 false))) (if s_abort x2 then FRst s else FEnd s)
    else with_strm t1 s x2.

Definition send_wake (t : st) : st :=
  match task t with
  | TWaiting => if has_data t then with_task (with_has_data t false) TTop else t
  | _ => t
  end.

Definition send_iter (t : st) (pick : option Z) : st :=
  match task t with
  | TTop =>
      if closed t then with_task t TExited
      else
        match pick with
        | None =>
            if existsb (fun s => eligible (strms t s)) (ids t) then with_bad t else with_task t TWaiting
        | Some s => if eligible (strms t s) then send_data t s else with_bad t
        end
  | _ => t
  end.

(* ---- the reader *)
Inductive cev :=
| COpen (s : Z) (prog : list sop)      (* a request arrives: _create_stream *)
| CWin (s : Z) (n : Z)                 (* WINDOW_UPDATE on stream s *)
| CConnWin (n : Z)                     (* WINDOW_UPDATE on the connection *)
| CInitialWindow (n : Z)               (* SETTINGS_INITIAL_WINDOW_SIZE := n *)
| CReset (s : Z)                       (* RST_STREAM *)
| CPriority (s dep : Z)                (* PRIORITY (also for idle and closed streams); dep = 0: no parent *)
| CData (s : Z)                        (* DATA on a request body *)
| CEnded (s : Z)                       (* END_STREAM of the request *)
| CEof.                                (* the connection is lost: Closed *)

Definition map_strms (t : st) (g : strm -> strm) : st := with_strms t (fun k => g (strms t k)).

(* priority.unblock(s): MissingStreamError if s is not in the tree (not caught by the reader) *)
Definition unblock_or_crash (t : st) (s : Z) : st :=
  let x := strms t s in
  if s_inbufs x then (if s_tree x then with_strm t s (set_blocked x false) else reader_crash t) else t.

Definition unblock_all (t : st) : st :=
  let t1 := map_strms t (fun x => if s_inbufs x then set_blocked x false else x) in
  if existsb (fun s => s_inbufs (strms t s) && negb (s_tree (strms t s))) (ids t) then reader_crash t1 else t1.

Definition client_step (t : st) (c : cev) : st :=
  if closed t then t      (* the reader has left its loop *)
  else
  match c with
  | COpen s prog =>
      let old := strms t s in
      if s_created old then t      (* h2 rejects the reuse of a stream id *)
      else
      let x := {| s_buf := sbuf_new; s_inbufs := true; s_live := true; s_tree := true;
                  s_blocked := if s_tree old then s_blocked old else true;   (* DuplicateStreamError: left as it is *)
                  s_win := iw t; s_h2open := true; s_pc := PReady; s_prog := prog; s_pushed := [];
                  s_forced := false; s_created := true; s_abort := false |} in
      add_id (with_strm t s x) s
  | CWin s n =>
      let x := strms t s in
      with_has_data (unblock_or_crash (with_strm t s (set_win x (s_win x + n))) s) true
  | CConnWin n => with_has_data (unblock_all (with_cwin t (cwin t + n))) true
  | CInitialWindow n =>
      let d := n - iw t in
      let t1 := map_strms t (fun x => if s_h2open x then set_win x (s_win x + d) else x) in
      let t2 := {| strms := strms t1; ids := ids t1; has_data := true; closed := closed t1; cwin := cwin t1;
                   maxf := maxf t1; iw := n; task := task t1; out := out t1; bad_pick := bad_pick t1;
                   reader_ok := reader_ok t1 |} in
      unblock_all t2
  | CReset s =>
      let t1 := close_stream (with_strm t s (set_h2open (strms t s) false)) s in
      let x := strms t1 s in
      let t2 := if s_inbufs x then with_strm t1 s (force_close x) else t1 in
      with_has_data (unblock_or_crash t2 s) true
  | CPriority s dep =>
      (* reprioritize / insert_stream; a parent that is not in the tree is inserted, blocked *)
      let ins (t : st) (k : Z) : st :=
        let x := strms t k in
        if s_tree x then t
        else add_id (with_strm t k
               {| s_buf := s_buf x; s_inbufs := s_inbufs x; s_live := s_live x; s_tree := true; s_blocked := true;
                  s_win := s_win x; s_h2open := s_h2open x; s_pc := s_pc x; s_prog := s_prog x;
                  s_pushed := s_pushed x; s_forced := s_forced x; s_created := s_created x; s_abort := s_abort x |}) k in
      let t1 := if dep =? 0 then t else ins t dep in
      with_has_data (ins t1 s) true
  | CData s => t        (* handed to the stream if it is still there (KeyError tolerated), acknowledged *)
  | CEnded s => t
  | CEof =>
      let t1 := map_strms t (fun x => let y := set_live x false in if s_inbufs y then force_close y else y) in
      {| strms := strms t1; ids := ids t1; has_data := true; closed := true; cwin := cwin t1;
         maxf := maxf t1; iw := iw t1; task := task t1; out := out t1; bad_pick := bad_pick t1;
         reader_ok := reader_ok t1 |}
  end.

(* ---- the transition system *)
Inductive label := LApp (s : Z) | LSendWake | LSendIter (pick : option Z) | LClient (c : cev).

Definition step (t : st) (l : label) : st :=
  match l with
  | LApp s => app_step t s
  | LSendWake => send_wake t
  | LSendIter p => send_iter t p
  | LClient c => client_step t c
  end.

Definition run (t : st) (ls : list label) : st := fold_left step ls t.

(* ---- what the scheduler sees *)
Definition app_runnable (x : strm) : bool :=
  match s_pc x with
  | PDone => false
  | PReady => true
  | PWaitPaused => b_paused (s_buf x)
  | PWaitDrain => b_is_empty (s_buf x)
  end.
Definition send_runnable (t : st) : bool :=
  match task t with TTop => true | TWaiting => has_data t | _ => false end.

(* bytes of DATA written for stream s *)
Fixpoint sent_on (s : Z) (fs : list frame) : list N :=
  match fs with
  | [] => []
  | FData k d :: r => if k =? s then (d ++ sent_on s r)%list else sent_on s r
  | _ :: r => sent_on s r
  end.
Fixpoint ends_on (s : Z) (fs : list frame) : nat :=
  match fs with
  | [] => O
  | FEnd k :: r => if k =? s then S (ends_on s r) else ends_on s r
  | _ :: r => ends_on s r
  end.
