(* hypercorn.protocol.h11.H11Protocol (with H11WSConnection) as a sequential automaton over the
   LibH11 state model.  The reader's suspension at `await self.can_read.wait()` splits handle()
   into segments: a segment ends when handle returns or parks; [IResume] continues a parked one. *)
From Coq Require Import String Ascii ZArith NArith List Bool Lia.
From HV Require Import lib.Bytes lib.Obs lib.Monad model.Asgi model.GuardTypes model.HttpStream model.WsStream model.LibH11.
Import ListNotations.
Open Scope N_scope.

(* what the reader obtains from self.connection.next_event(): an h11 result, or in WebSocket mode
   (H11WSConnection) a Data event, given here by the wsproto events its bytes decode to *)
Inductive rdev := RH (e : h11ev) | RWs (evs : list wsevent).

Inductive slot := SlotNone | SlotHttp (s : hstream) | SlotWs (s : wstream).

Record h11cfg := {
  c_http : hcfg; c_ws : wcfg;
  c_max_requests : Z;                 (* keep_alive_max_requests *)
  c_server_headers : list header }.   (* config.response_headers("h11"), date canonicalised *)

Record h11p := {
  p_lib : h11lib;
  p_ws_mode : bool;                   (* self.connection is an H11WSConnection *)
  p_slot : slot;                      (* self.stream (None / HTTPStream / WSStream) *)
  p_stream_live : bool;               (* self.stream is not None *)
  p_requests : Z;                     (* keep_alive_requests *)
  p_can_read : bool;
  p_parked : bool;                    (* the reader is inside `await self.can_read.wait()` *)
  p_terminated : bool;                (* context.terminated.is_set() *)
  p_sends : list (option bytes);      (* oracle: what each connection.send returned (None: rejected the payload) *)
  p_writes : list bool;               (* oracle: does the next transport write succeed *)
  p_events : list rdev;               (* oracle: results of the coming next_event calls of this segment *)
  p_trailing : bytes;                 (* oracle: connection.trailing_data[0] when asked *)
  p_stream_id : Z;
  p_closed : bool }.                  (* self.closed: the connection is not reused, Closed has been sent *)

Definition p_init (sends : list (option bytes)) (writes : list bool) : h11p :=
  {| p_lib := lib_init; p_ws_mode := false; p_slot := SlotNone; p_stream_live := false; p_requests := 0; p_can_read := false;
     p_parked := false; p_terminated := false; p_sends := sends; p_writes := writes; p_events := []; p_trailing := []; p_stream_id := 1;
     p_closed := false |}.

Definition pset (p : h11p) (lib : h11lib) (wsm : bool) (sl : slot) (live : bool) (req : Z) (cr pk tm : bool)
           (sends : list (option bytes)) (writes : list bool) (evs : list rdev) (tr : bytes) : h11p :=
  {| p_lib := lib; p_ws_mode := wsm; p_slot := sl; p_stream_live := live; p_requests := req; p_can_read := cr; p_parked := pk;
     p_terminated := tm; p_sends := sends; p_writes := writes; p_events := evs; p_trailing := tr; p_stream_id := p_stream_id p;
     p_closed := p_closed p |}.
Definition set_lib l p := pset p l (p_ws_mode p) (p_slot p) (p_stream_live p) (p_requests p) (p_can_read p) (p_parked p) (p_terminated p) (p_sends p) (p_writes p) (p_events p) (p_trailing p).
Definition set_wsmode b p := pset p (p_lib p) b (p_slot p) (p_stream_live p) (p_requests p) (p_can_read p) (p_parked p) (p_terminated p) (p_sends p) (p_writes p) (p_events p) (p_trailing p).
Definition set_slot sl live p := pset p (p_lib p) (p_ws_mode p) sl live (p_requests p) (p_can_read p) (p_parked p) (p_terminated p) (p_sends p) (p_writes p) (p_events p) (p_trailing p).
Definition set_requests n p := pset p (p_lib p) (p_ws_mode p) (p_slot p) (p_stream_live p) n (p_can_read p) (p_parked p) (p_terminated p) (p_sends p) (p_writes p) (p_events p) (p_trailing p).
Definition set_can_read b p := pset p (p_lib p) (p_ws_mode p) (p_slot p) (p_stream_live p) (p_requests p) b (p_parked p) (p_terminated p) (p_sends p) (p_writes p) (p_events p) (p_trailing p).
Definition set_parked b p := pset p (p_lib p) (p_ws_mode p) (p_slot p) (p_stream_live p) (p_requests p) (p_can_read p) b (p_terminated p) (p_sends p) (p_writes p) (p_events p) (p_trailing p).
Definition set_terminated b p := pset p (p_lib p) (p_ws_mode p) (p_slot p) (p_stream_live p) (p_requests p) (p_can_read p) (p_parked p) b (p_sends p) (p_writes p) (p_events p) (p_trailing p).
Definition set_sends l p := pset p (p_lib p) (p_ws_mode p) (p_slot p) (p_stream_live p) (p_requests p) (p_can_read p) (p_parked p) (p_terminated p) l (p_writes p) (p_events p) (p_trailing p).
Definition set_writes l p := pset p (p_lib p) (p_ws_mode p) (p_slot p) (p_stream_live p) (p_requests p) (p_can_read p) (p_parked p) (p_terminated p) (p_sends p) l (p_events p) (p_trailing p).
Definition set_closed (b : bool) (p : h11p) : h11p :=
  {| p_lib := p_lib p; p_ws_mode := p_ws_mode p; p_slot := p_slot p; p_stream_live := p_stream_live p; p_requests := p_requests p;
     p_can_read := p_can_read p; p_parked := p_parked p; p_terminated := p_terminated p; p_sends := p_sends p; p_writes := p_writes p;
     p_events := p_events p; p_trailing := p_trailing p; p_stream_id := p_stream_id p; p_closed := b |}.
Definition set_events l p := pset p (p_lib p) (p_ws_mode p) (p_slot p) (p_stream_live p) (p_requests p) (p_can_read p) (p_parked p) (p_terminated p) (p_sends p) (p_writes p) l (p_trailing p).

(* lenses for the stream automata *)
Definition get_h (p : h11p) : hstream := match p_slot p with SlotHttp s => s | _ => new_hstream 1 end.
Definition put_h (s : hstream) (p : h11p) : h11p := set_slot (SlotHttp s) (p_stream_live p) p.
Definition get_w (p : h11p) : wstream := match p_slot p with SlotWs s => s | _ => new_wstream 1 [] None [] end.
Definition put_w (s : wstream) (p : h11p) : h11p := set_slot (SlotWs s) (p_stream_live p) p.

Local Open Scope monad_scope.
Notation MP := (M exn out h11p).

Definition v_of_h1state (s : h1state) : val := VZ (h1state_tag s).
Definition note (s : string) : MP unit := emit (ONote s).

(* an h2c upgrade is requested: Upgrade: h2c (the last Upgrade header counts) and no body announced *)
Definition h2c_requested (hs : list header) : bool :=
  let up := fold_left (fun acc h => if beqb (lower (str_strip (fst h))) (B "upgrade") then str_strip (snd h) else acc) hs [] in
  let has_body := existsb (fun h => let n := lower (str_strip (fst h)) in beqb n (B "content-length") || beqb n (B "transfer-encoding")) hs in
  beqb (lower up) (B "h2c") && negb has_body.

Definition is_request_ev (e : h11ev) : bool := match e with HRequest _ _ _ _ => true | _ => false end.

Section Proto.
  Variable cfg : h11cfg.

  (* the stream's own reaction to StreamClosed, whichever kind it is *)
  Definition stream_closed : MP unit :=
    p <- get ;;
    match p_slot p with
    | SlotHttp _ => http_stream_closed get_h put_h
    | SlotWs _ => ws_stream_closed get_w put_w
    | SlotNone => ret tt
    end.

  (* _close_stream *)
  Definition close_stream : MP unit :=
    p <- get ;;
    if p_stream_live p then stream_closed ;; modify (fun p => set_slot (p_slot p) false p) else ret tt.

  (* H11Protocol.handle(Closed) *)
  (* handle(Closed): the protocol is closed, its stream (if any) is closed, and a reader waiting for the response to
     complete is released (finding F64: it used to wait for ever) *)
  Definition handle_closed : MP unit :=
    modify (set_closed true) ;;
    p <- get ;; (if p_stream_live p then close_stream else ret tt) ;;
    modify (set_can_read true) ;; note "can_read.set".

  (* await self.send(event) towards the server; a failed write makes the server call handle(Closed) *)
  Definition srv_send (e : srvevent) : MP unit :=
    emit (OSrv e) ;;
    match e with
    | SRawData _ =>
        p <- get ;;
        match p_writes p with
        | false :: rest => modify (set_writes rest) ;; handle_closed
        | true :: rest => modify (set_writes rest)
        | [] => ret tt
        end
    | _ => ret tt
    end.

  Definition v_of_send (e : h11send) : list val :=
    match e with
    | SInfo st hs => [VS "Info"; VZ st; v_of_hs hs]
    | SResponse st hs => [VS "Response"; VZ st; v_of_hs hs]
    | SData d => [VS "Data"; VB d]
    | SEndOfMessage => [VS "EndOfMessage"]
    end.

  (* _send_h11_event *)
  Definition send_h11_event (e : h11send) : MP unit :=
    p <- get ;;
    emit (OLib (VS "h11.send" :: v_of_send e)) ;;
    let '(answer, rest) := match p_sends p with [] => (Some [], []) | a :: r => (a, r) end in
    modify (set_sends rest) ;;
    if p_ws_mode p then
      (* H11WSConnection.send delegates to the wrapped h11 connection *)
      let '(lib', ok) := send (p_lib p) e (match answer with Some _ => true | None => false end) in
      modify (set_lib lib') ;;
      if ok then srv_send (SRawData (match answer with Some d => d | None => [] end))
      else raise ELocalProtocol        (* their_state of the wrapper is None, never ERROR *)
    else
      let '(lib', ok) := send (p_lib p) e (match answer with Some _ => true | None => false end) in
      modify (set_lib lib') ;;
      emit (OLib [VS "states"; v_of_h1state (our_state lib'); v_of_h1state (their_state lib')]) ;;
      if ok then srv_send (SRawData (match answer with Some d => d | None => [] end))
      else if h1state_eqb (their_state lib') ERROR then ret tt else raise ELocalProtocol.

  Definition error_headers : list header :=
    [(B "content-length", B "0"); (B "connection", B "close")] ++ c_server_headers cfg.

  Definition send_error_response (status : Z) : MP unit :=
    send_h11_event (SResponse status error_headers) ;; send_h11_event SEndOfMessage.

  (* _maybe_recycle *)
  Definition maybe_recycle : MP unit :=
    close_stream ;;
    p <- get ;;
    let reusable := negb (p_terminated p) && negb (p_ws_mode p)
                    && h1state_eqb (our_state (p_lib p)) DONE && h1state_eqb (their_state (p_lib p)) DONE in
    if reusable then
      match next_cycle (p_lib p) with
      | None => emit (OLib [VS "h11.start_next_cycle"; VS "raise"]) ;; srv_send SClosed
      | Some lib' =>
          emit (OLib [VS "h11.start_next_cycle"; VS "ok"]) ;;
          modify (set_lib lib') ;;
          modify (set_can_read true) ;; note "can_read.set" ;;
          srv_send (SUpdated true)
      end
    else modify (set_closed true) ;; modify (set_can_read true) ;; note "can_read.set" ;; srv_send SClosed.

  (* H11Protocol.stream_send *)
  Definition stream_send (ev : sevent) : MP unit :=
    p <- get ;;
    match ev with
    | EvResponse status hs =>
        if (200 <=? status)%Z then
          let hs' := hs ++ c_server_headers cfg ++
                     (if (c_max_requests cfg <=? p_requests p)%Z then [(B "connection", B "close")] else []) in
          send_h11_event (SResponse status hs')
        else send_h11_event (SInfo status (hs ++ c_server_headers cfg))
    | EvInfo _ _ => ret tt
    | EvBody d => send_h11_event (SData d)
    | EvEndBody => send_h11_event SEndOfMessage
    | EvData d => srv_send (SRawData d)
    | EvEndData => ret tt
    | EvStreamClosed => maybe_recycle
    | _ => ret tt
    end.

  Definition upgrade_and_connection (hs : list header) : bytes * bytes :=
    fold_left (fun acc h =>
                 let n := lower (str_strip (fst h)) in
                 if beqb n (B "upgrade") then (str_strip (snd h), snd acc)
                 else if beqb n (B "connection") then (fst acc, str_strip (snd h))
                 else acc) hs ([], []).

  Definition wants_websocket (method : bytes) (hs : list header) : bool :=
    let '(up, conn) := upgrade_and_connection hs in
    existsb (fun t => beqb (str_strip t) (B "upgrade")) (split1 44 (lower conn))
    && beqb (lower up) (B "websocket") && beqb (upper method) (B "GET").

  (* _check_protocol *)
  Definition check_protocol (method target : bytes) (hs : list header) (version : bytes) : MP unit :=
    if h2c_requested hs then
      send_h11_event (SInfo 101 (c_server_headers cfg ++ [(B "connection", B "upgrade"); (B "upgrade", B "h2c")])) ;;
      raise EH2CRequired
    else if beqb method (B "PRI") && beqb target (B "*") && beqb version (B "2.0") then raise EH2Assumed
    else ret tt.

  Variable stream_headers : list header -> list header.   (* raw_items vs. list(request.headers), per config *)
  Variable ws_token : list header -> bytes.               (* oracle: accept token for the request's key *)
  Variable ws_ext : option bytes.
  Variable ws_sends : list (option bytes).

  (* _create_stream *)
  Definition create_stream (method target : bytes) (hs : list header) (version : bytes) : MP unit :=
    p <- get ;;
    (* ghost: self.stream is overwritten while it still holds a stream (never observed, see Serial_proofs) *)
    (if p_stream_live p then note "stream-replaced" else ret tt) ;;
    (* ghost: a further request is taken on although the connection had reached keep_alive_max_requests *)
    (if (c_max_requests cfg <=? p_requests p)%Z && (1 <=? p_requests p)%Z then note "request-over-limit" else ret tt) ;;
    (if wants_websocket method hs then
       modify (set_slot (SlotWs (new_wstream (p_stream_id p) (ws_token hs) ws_ext ws_sends)) true) ;;
       modify (set_wsmode true) ;;
       ws_handle (c_ws cfg) get_w put_w stream_send (WRequest (stream_headers hs) version target)
     else
       (if is_ascii method then ret tt else raise EUnicodeDecode) ;;
       modify (set_slot (SlotHttp (new_hstream (p_stream_id p))) true) ;;
       http_handle (c_http cfg) get_h put_h stream_send (EvRequest (stream_headers hs) version (upper method) target)) ;;
    modify (fun p => set_requests (p_requests p + 1)%Z p) ;;
    note "mark_request".

  Definition v_of_h11ev (e : h11ev) : list val :=
    match e with
    | HRequest m t hs v => [VS "Request"; VB m; VB t; v_of_hs hs; VB v]
    | HData d => [VS "Data"; VB d]
    | HEndOfMessage => [VS "EndOfMessage"]
    | HConnectionClosed => [VS "ConnectionClosed"]
    | HNeedData => [VS "NEED_DATA"]
    | HPaused => [VS "PAUSED"]
    | HRemoteError hint => [VS "RemoteProtocolError"; VZ hint]
    end.

  (* one iteration of the loop in _handle_events; returns true to leave the loop *)
  (* _last_response_in_progress: the client's last request is complete and the connection closes after the
     response in progress (their side MUST_CLOSE while a stream is held): further input is ignored *)
  Definition last_response_in_progress (p : h11p) : bool :=
    negb (p_ws_mode p) && h1state_eqb (their_state (p_lib p)) MUST_CLOSE && p_stream_live p.

  Definition handle_one : MP bool :=
    p <- get ;;
    if p_closed p || last_response_in_progress p then ret true else
    (if negb (p_ws_mode p) && l_waiting_100 (p_lib p)
     then send_h11_event (SInfo 100 (c_server_headers cfg)) else ret tt) ;;
    p <- get ;;
    match p_events p with
    | [] => emit (ONote "oracle-exhausted") ;; ret true
    | RWs evs :: rest =>
        modify (set_events rest) ;;
        emit (OLib [VS "next_event"; VS "WsData"]) ;;
        p <- get ;;
        if negb (p_stream_live p) then ret true else
        (match p_slot p with
         | SlotWs _ => ws_handle (c_ws cfg) get_w put_w stream_send (WData evs)
         | _ => ret tt
         end) ;; ret false
    | RH e :: rest =>
        modify (set_events rest) ;;
        emit (OLib (VS "next_event" :: v_of_h11ev e)) ;;
        (if p_ws_mode p
         then (* H11WSConnection.next_event yields Data or NEED_DATA only *)
              match e with HNeedData => ret tt | _ => emit (ONote "h11-contract-violated") end
         else (if event_allowed (p_lib p) e then ret tt else emit (ONote "h11-contract-violated")) ;;
              (* ghost: a request is taken on although keep-alive was already off (the previous request or its response
                 said close, or was HTTP/1.0) *)
              (if is_request_ev e && negb (cs_keep_alive (l_cs (p_lib p))) then note "request-after-close" else ret tt) ;;
              modify (fun p => set_lib (recv (p_lib p) e) p) ;;
              p <- get ;; emit (OLib [VS "states"; v_of_h1state (our_state (p_lib p)); v_of_h1state (their_state (p_lib p))])) ;;
        match e with
        | HRemoteError hint =>
            p <- get ;;
            (* our_state is read after the error has been processed *)
            (if h1state_eqb (our_state (p_lib p)) IDLE || h1state_eqb (our_state (p_lib p)) SEND_RESPONSE
             then send_error_response hint else ret tt) ;;
            srv_send SClosed ;; ret true
        | HRequest method target hs version =>
            srv_send (SUpdated false) ;;
            check_protocol method target hs version ;;
            create_stream method target hs version ;;
            ret false
        | HPaused =>
            modify (set_can_read false) ;; note "can_read.clear" ;;
            note "can_read.wait" ;; modify (set_parked true) ;; ret true
        | HConnectionClosed | HNeedData => ret true
        | HData d =>
            p <- get ;;
            if negb (p_stream_live p) then ret true else
            (match p_slot p with
             | SlotHttp _ => http_handle (c_http cfg) get_h put_h stream_send (EvBody d)
             | SlotWs _ => ws_handle (c_ws cfg) get_w put_w stream_send (WData [])
             | SlotNone => ret tt
             end) ;; ret false
        | HEndOfMessage =>
            p <- get ;;
            if negb (p_stream_live p) then ret true else
            (match p_slot p with
             | SlotHttp _ => http_handle (c_http cfg) get_h put_h stream_send EvEndBody
             | SlotWs _ => ret tt
             | SlotNone => ret tt
             end) ;; ret false
        end
    end.

  Fixpoint handle_events (fuel : nat) : MP unit :=
    match fuel with
    | O => emit (ONote "fuel-exhausted")
    | S f => brk <- handle_one ;; if brk then ret tt else handle_events f
    end.

  (* ---- driving the protocol ---- *)
  Inductive pinput :=
  | IData (evs : list rdev)                       (* handle(RawData): receive_data, then the loop *)
  | IClosed                                       (* handle(Closed) from the reader / the server *)
  | IApp (m : option amsg) (evs : list rdev)      (* the application calls send(m); evs serve a resumed reader *)
  | ITerminate.                                   (* context.terminated.set() *)

  (* the parked reader continues as soon as can_read is set *)
  Definition resume_if_ready (evs : list rdev) : MP unit :=
    p <- get ;;
    if p_parked p && p_can_read p then
      modify (set_parked false) ;; note "reader.resumed" ;;
      modify (set_events evs) ;; handle_events (S (S (length evs)))
    else ret tt.

  Definition proto_step (i : pinput) : MP unit :=
    match i with
    | IData evs =>
        p <- get ;;
        (* the client's last request is complete and the connection closes after the response in progress:
           whatever else it sends is ignored (not even handed to h11); likewise once the connection has been closed *)
        if p_closed p || last_response_in_progress p then ret tt else
        emit (OLib [VS "receive_data"]) ;; modify (set_events evs) ;; handle_events (S (S (length evs)))
    | IClosed => handle_closed ;; resume_if_ready []
    | IApp m evs =>
        (* the application's send and the resumed reader are different tasks: the reader runs
           whatever the send's outcome was, and its own failure is not the application's *)
        fun p =>
          let '(p1, o1, r1) :=
            (match p_slot p with
             | SlotHttp _ => http_app_send (c_http cfg) get_h put_h stream_send m
             | SlotWs _ => ws_app_send (c_ws cfg) get_w put_w stream_send m
             | SlotNone => ret tt
             end) p in
          let '(p2, o2, r2) := resume_if_ready evs p1 in
          (p2, o1 ++ o2 ++ (match r2 with Ok _ => [] | Raise e => [OLib [VS "reader-raised"; VZ (exn_tag e)]] end), r1)
    | ITerminate => modify (set_terminated true)
    end.

  Fixpoint proto_run (p : h11p) (is : list pinput) : list (list out * result (E:=exn) unit) :=
    match is with
    | [] => []
    | i :: rest => let '(p', o, res) := proto_step i p in (o, res) :: proto_run p' rest
    end.
End Proto.
