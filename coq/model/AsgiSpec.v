(* Reference automaton of the ASGI HTTP and WebSocket send-side specification, written from the
   specification text (asgi.readthedocs.io: HTTP & WebSocket message format, trailers / push /
   early-hint / websocket denial extensions), independently of hypercorn's code. *)
From Coq Require Import String Ascii ZArith NArith List Bool.
From HV Require Import lib.Bytes model.Asgi.
Import ListNotations.
Open Scope N_scope.

(* ---- payload well-formedness ---- *)
Definition ctl_free (b : bytes) : bool := negb (mem_byte 0 b || mem_byte 13 b || mem_byte 10 b).

(* a header the application may send: byte-string name and value, a non-empty name that is not a
   pseudo header, and no NUL / CR / LF once surrounding white space is removed *)
Definition header_ok (h : hval * hval) : bool :=
  match fst h, snd h with
  | HB (c :: r), HB v => negb (c =? 58) && negb (starts_colon (strip (c :: r))) && ctl_free (strip (c :: r)) && ctl_free (strip v)
  | _, _ => false
  end.
Definition headers_ok (hs : list (hval * hval)) : bool := forallb header_ok hs.
Definition link_ok (l : hval) : bool := header_ok (HB (B "link"), l).

(* ---- HTTP ---- *)
Inductive sstate := SReq | SResp (trailers : bool) | STrail | SDone.

Record exts := { x_trailers : bool; x_push : bool; x_hint : bool }.   (* extensions advertised in the scope *)

(* None = the message is invalid in this state (must raise and put nothing on the wire) *)
Definition spec_step (x : exts) (s : sstate) (m : amsg) : option sstate :=
  match m, s with
  | MStart (Some st) hs tr, SReq => if headers_ok hs then Some (SResp tr) else None
  | MBody _ more, SResp tr => Some (if more then SResp tr else if tr then STrail else SDone)
  | MTrailers hs more, STrail => if x_trailers x && headers_ok hs then Some (if more then STrail else SDone) else None
  | MPush (HS _) hs, SReq | MPush (HS _) hs, SResp _ | MPush (HS _) hs, STrail =>
      if x_push x && headers_ok hs then Some s else None
  | MEarlyHint links, SReq => if x_hint x && forallb link_ok links then Some SReq else None
  | _, _ => None
  end.

(* ---- WebSocket ---- *)
Inductive wsstate := WSConnecting | WSOpen | WSDenial (started : bool) | WSDone.
(* WSDenial false: websocket.http.response.start accepted, no body yet (nothing on the wire yet) *)

Definition ws_spec_step (s : wsstate) (m : amsg) : option wsstate :=
  match m, s with
  | MWsAccept _ hs, WSConnecting => if headers_ok hs then Some WSOpen else None
  | MWsClose _ _, WSConnecting => Some WSDone
  | MWsHttpStart (Some _) hs, WSConnecting => Some (WSDenial false)
  | MWsHttpBody _ more, WSDenial _ => Some (if more then WSDenial true else WSDone)
  | MWsSend (HB _) _, WSOpen => Some WSOpen        (* at least one of bytes / text is non-None *)
  | MWsSend HNone (HS _), WSOpen => Some WSOpen
  | MWsClose _ _, WSOpen => Some WSDone
  | _, _ => None
  end.
