(* hypercorn.middleware: ProxyFixMiddleware, DispatcherMiddleware, HTTPToHTTPSRedirectMiddleware *)
From Coq Require Import String Ascii ZArith NArith List Bool Lia.
From HV Require Import lib.Bytes lib.Obs.
Import ListNotations.
Open Scope N_scope.

Definition header := (bytes * bytes)%type.

(* ---------------------------------------------------------------- ProxyFix *)
(* str.strip() on latin-1 decoded text: ASCII white space plus FS/GS/RS/US, NEL and NBSP *)
Definition str_ws (c : N) : bool :=
  is_ws c || ((28 <=? c) && (c <=? 31)) || (c =? 133) || (c =? 160).
Fixpoint slstrip (b : bytes) : bytes :=
  match b with c :: r => if str_ws c then slstrip r else b | [] => [] end.
Definition sstrip (b : bytes) : bytes := rev (slstrip (rev (slstrip b))).

(* values = []; for each header named [name] (case-insensitively):
     values.extend(v.decode("latin1").strip() for v in header_value.split(b",")) *)
Definition values (name : bytes) (hs : list header) : list bytes :=
  flat_map (fun h => if beqb (lower (fst h)) name then map sstrip (split1 44 (snd h)) else []) hs.

(* values[-k] if len(values) >= k, for k >= 1; None for k = 0 *)
Definition pick (vs : list bytes) (k : nat) : option bytes :=
  if Nat.eqb k 0 then None
  else if Nat.leb k (length vs) then nth_error vs (length vs - k) else None.

Definition trusted (name : bytes) (hs : list header) (k : nat) : option bytes := pick (values name hs) k.

(* str.split(";") / startswith / slicing on the trusted Forwarded element *)
Definition parse_forwarded (v : bytes) : option bytes * option bytes * option bytes :=
  fold_left (fun acc part =>
               let '(c, s, h) := acc in
               if starts_with (B "for=") part then (Some (sstrip (skipn 4 part)), s, h)
               else if starts_with (B "host=") part then (c, s, Some (sstrip (skipn 5 part)))
               else if starts_with (B "proto=") part then (c, Some (sstrip (skipn 6 part)), h)
               else acc)
            (split1 59 v) (None, None, None).

(* str.encode() of a latin-1 decoded string (UTF-8 of code points < 256) *)
Definition utf8_latin1 (b : bytes) : bytes :=
  flat_map (fun c => if c <? 128 then [c] else [192 + c / 64; 128 + c mod 64]) b.

Record pscope := { ps_www : bool;             (* type is http or websocket *)
                   ps_client : option (bytes * Z);
                   ps_scheme : bytes;
                   ps_headers : list header }.

Definition proxy_fix (modern : bool) (k : nat) (sc : pscope) : pscope :=
  if negb (ps_www sc) then sc else
  let hs := ps_headers sc in
  let '(client, scheme, host) :=
    if modern then
      match trusted (B "forwarded") hs k with
      | Some v => parse_forwarded v
      | None => (None, None, None)
      end
    else (trusted (B "x-forwarded-for") hs k, trusted (B "x-forwarded-proto") hs k,
          trusted (B "x-forwarded-host") hs k) in
  {| ps_www := true;
     ps_client := match client with Some c => Some (c, 0%Z) | None => ps_client sc end;
     ps_scheme := match scheme with Some s => s | None => ps_scheme sc end;
     ps_headers := match host with
                   | Some h => filter (fun x => negb (beqb (lower (fst x)) (B "host"))) hs
                               ++ [(B "host", utf8_latin1 h)]
                   | None => hs
                   end |}.

Definition v_of_headers (hs : list header) : val := VL (map (fun h => VL [VB (fst h); VB (snd h)]) hs).
Definition v_of_pscope (sc : pscope) : val :=
  VL [vopt (fun c => VL [VB (fst c); VZ (snd c)]) (ps_client sc); VB (ps_scheme sc); v_of_headers (ps_headers sc)].

(* ---------------------------------------------------------------- Dispatcher *)
(* mounts in dict order; the application is identified by its index *)
Fixpoint route_from (i : nat) (mounts : list bytes) (path : bytes) : option (nat * bytes) :=
  match mounts with
  | [] => None
  | p :: r =>
      if starts_with p path
      then Some (i, match skipn (length p) path with [] => B "/" | rest => rest end)
      else route_from (S i) r path
  end.
Definition route := route_from 0.

(* lifespan fan-out: per-mount completion flags; a completion message from mount [i] sets its flag
   and forwards the aggregate completion iff all flags are now set *)
Fixpoint set_nth (i : nat) (l : list bool) : list bool :=
  match l, i with
  | [], _ => []
  | _ :: r, O => true :: r
  | b :: r, S i' => b :: set_nth i' r
  end.
Definition fan_step (st : list bool) (i : nat) : list bool * bool :=
  let st' := set_nth i st in (st', forallb (fun b => b) st').
(* run a sequence of completion messages; returns final flags and the number of aggregate
   completions forwarded to the server *)
Fixpoint fan_run (st : list bool) (is : list nat) : list bool * nat :=
  match is with
  | [] => (st, O)
  | i :: r => let '(st', e) := fan_step st i in
              let '(st'', n) := fan_run st' r in (st'', (if e then S n else n))
  end.

(* ---------------------------------------------------------------- HTTP -> HTTPS redirect *)
Inductive redirect_out :=
| RPass                       (* app(scope, receive, send) unchanged *)
| RHttp (location : bytes)    (* http.response.start 307 + location, then empty body *)
| RWs (location : bytes)      (* websocket.http.response.start 307 ... *)
| RWsClose
| RValueError.

Fixpoint find_host (hs : list header) : option bytes :=
  match hs with
  | [] => None
  | (k, v) :: r => if beqb k (B "host") then Some v else find_host r
  end.

(* urlunsplit((scheme, host, path, query, "")) for scheme in uses_netloc (https, wss are) *)
Definition urlunsplit (scheme host path query : bytes) : bytes :=
  let path' := match path with
               | [] => []
               | c :: _ => if c =? 47 then path else 47 :: path
               end in
  scheme ++ B ":" ++ B "//" ++ host ++ path' ++ (match query with [] => [] | _ => 63 :: query end).

Record rscope := { rs_type : N;          (* 0 http, 1 websocket, 2 other (lifespan) *)
                   rs_scheme : bytes;
                   rs_h2 : bool;         (* http_version == "2" *)
                   rs_has_ext : bool;    (* "websocket.http.response" in extensions *)
                   rs_headers : list header;
                   rs_root : bytes; rs_raw_path : bytes; rs_query : bytes }.

Definition new_url (cfg_host : option bytes) (scheme : bytes) (sc : rscope) : option bytes :=
  match (match cfg_host with Some h => Some h | None => find_host (rs_headers sc) end) with
  | None => None
  | Some host => Some (urlunsplit scheme host (rs_root sc ++ rs_raw_path sc) (rs_query sc))
  end.

Definition redirect (cfg_host : option bytes) (sc : rscope) : redirect_out :=
  if (rs_type sc =? 0) && beqb (rs_scheme sc) (B "http") then
    match new_url cfg_host (B "https") sc with Some u => RHttp u | None => RValueError end
  else if (rs_type sc =? 1) && beqb (rs_scheme sc) (B "ws") then
    if rs_has_ext sc then
      match new_url cfg_host (if rs_h2 sc then B "https" else B "wss") sc with
      | Some u => RWs u | None => RValueError end
    else RWsClose
  else RPass.

Definition v_of_redirect (r : redirect_out) : val :=
  match r with
  | RPass => VL [VS "pass"]
  | RHttp u => VL [VS "http"; VB u]
  | RWs u => VL [VS "ws"; VB u]
  | RWsClose => VL [VS "wsclose"]
  | RValueError => VL [VS "valueerror"]
  end.
