(* Types shared by the stream and protocol models: ASGI messages, the events exchanged between
   streams and protocols (hypercorn/protocol/events.py), server events (hypercorn/events.py),
   exceptions, and the observable outputs of the sequential automata. *)
From Coq Require Import String Ascii ZArith NArith List Bool.
From HV Require Import lib.Bytes lib.Obs lib.Monad.
Import ListNotations.
Open Scope N_scope.

Definition header := (bytes * bytes)%type.

(* Python exceptions as values *)
Inductive exn :=
| EUnexpectedMessage          (* hypercorn.utils.UnexpectedMessageError *)
| ETypeError | EValueError | EIndexError | EKeyError | EUnboundLocal | EUnicodeDecode
| ELocalProtocol              (* h11 / wsproto LocalProtocolError *)
| EH2Protocol                 (* any h2.exceptions.ProtocolError subclass *)
| EBufferComplete | EMissingStream | EPriorityOther (* priority errors other than Missing/Duplicate *)
| EH2CRequired | EH2Assumed   (* control-flow exceptions of H11Protocol._check_protocol *)
| EException                  (* plain Exception("Invalid Subprotocol") etc. *)
| ERuntime
| EAttribute
| EApp.                       (* raised by the application itself *)

Definition exn_tag (e : exn) : Z :=
  match e with
  | EUnexpectedMessage => 1 | ETypeError => 2 | EValueError => 3 | EIndexError => 4 | EKeyError => 5
  | EUnboundLocal => 6 | EUnicodeDecode => 7 | ELocalProtocol => 8 | EH2Protocol => 9
  | EBufferComplete => 10 | EMissingStream => 11 | EPriorityOther => 12 | EH2CRequired => 13
  | EH2Assumed => 14 | EException => 15 | ERuntime => 16 | EApp => 17 | EAttribute => 18
  end%Z.

Definition exn_eqb (a b : exn) : bool := Z.eqb (exn_tag a) (exn_tag b).

(* ---- application -> server messages (the ASGI send alphabet) ---- *)
(* what an application may put where a header name / value / link is expected *)
Inductive hval := HB (b : bytes) | HS (s : bytes) (* a str, as code points *) | HI (n : Z) | HNone.

Inductive amsg :=
| MStart (status : option Z) (headers : list (hval * hval)) (trailers : bool)   (* http.response.start *)
| MBody (body : hval) (more : bool)                                             (* http.response.body *)
| MTrailers (headers : list (hval * hval)) (more : bool)                        (* http.response.trailers *)
| MPush (path : hval) (headers : list (hval * hval))                            (* http.response.push *)
| MEarlyHint (links : list hval)                                                (* http.response.early_hint *)
| MWsAccept (subprotocol : option bytes) (headers : list (hval * hval))         (* websocket.accept *)
| MWsSend (bytes_ : hval) (text : hval)                                         (* websocket.send *)
| MWsClose (code : option Z) (reason : option bytes)                            (* websocket.close *)
| MWsHttpStart (status : option Z) (headers : list (hval * hval))               (* websocket.http.response.start *)
| MWsHttpBody (body : hval) (more : bool)                                       (* websocket.http.response.body *)
| MUnknown.                                                                     (* any other "type" *)

(* ---- server -> application messages ---- *)
Inductive rmsg :=
| RHttpRequest (body : bytes) (more : bool)
| RHttpDisconnect
| RWsConnect
| RWsReceive (is_text : bool) (payload : bytes)   (* text as code points *)
| RWsDisconnect (code : Z).

(* ---- hypercorn/protocol/events.py ---- *)
Inductive sevent :=
| EvRequest (headers : list header) (version : bytes) (method : bytes) (raw_path : bytes)
| EvBody (data : bytes) | EvEndBody
| EvTrailers (headers : list header)
| EvData (data : bytes) | EvEndData
| EvResponse (status : Z) (headers : list header)
| EvInfo (status : Z) (headers : list header)
| EvStreamClosed.

(* ---- hypercorn/events.py (protocol -> server) ---- *)
Inductive srvevent := SRawData (data : bytes) | SClosed | SUpdated (idle : bool).

(* ---- scope ---- *)
Record scope := {
  sc_ws : bool;                       (* type: websocket / http *)
  sc_version : bytes;
  sc_method : bytes;                  (* http only *)
  sc_scheme : bytes;
  sc_path : bytes;                    (* percent-decoded bytes (before the final utf-8 decoding) *)
  sc_raw_path : bytes;
  sc_query : bytes;
  sc_headers : list header;
  sc_ext_trailers : bool; sc_ext_push : bool; sc_ext_hint : bool;
  sc_subprotocols : list bytes }.

(* ---- observable outputs of the automata, at every recorded boundary ---- *)
Inductive out :=
| OSend (stream_id : Z) (ev : sevent)     (* stream -> protocol:  await self.send(ev) *)
| OSpawn (stream_id : Z) (sc : scope)     (* task_group.spawn_app *)
| OPut (stream_id : Z) (m : rmsg)         (* await self.app_put(m) *)
| OLogAccess (status : option Z)          (* config.log.access(scope, response|None, ..) *)
| OSrv (e : srvevent)                     (* protocol -> server: await self.send(e) *)
| OLib (call : list val)                  (* a call on the protocol library object, canonical form *)
| OSpawnTask (what : string)              (* task_group.spawn(...) *)
| ONote (what : string).

(* ---- observations ---- *)
Definition v_of_hs (hs : list header) : val := VL (map (fun h => VL [VB (fst h); VB (snd h)]) hs).
Definition v_of_sevent (e : sevent) : val :=
  match e with
  | EvRequest hs v m p => VL [VS "Request"; v_of_hs hs; VB v; VB m; VB p]
  | EvBody d => VL [VS "Body"; VB d]
  | EvEndBody => VL [VS "EndBody"]
  | EvTrailers hs => VL [VS "Trailers"; v_of_hs hs]
  | EvData d => VL [VS "Data"; VB d]
  | EvEndData => VL [VS "EndData"]
  | EvResponse s hs => VL [VS "Response"; VZ s; v_of_hs hs]
  | EvInfo s hs => VL [VS "Info"; VZ s; v_of_hs hs]
  | EvStreamClosed => VL [VS "StreamClosed"]
  end.
Definition v_of_rmsg (m : rmsg) : val :=
  match m with
  | RHttpRequest b more => VL [VS "http.request"; VB b; vbool more]
  | RHttpDisconnect => VL [VS "http.disconnect"]
  | RWsConnect => VL [VS "websocket.connect"]
  | RWsReceive t p => VL [VS "websocket.receive"; vbool t; VB p]
  | RWsDisconnect c => VL [VS "websocket.disconnect"; VZ c]
  end.
Definition v_of_scope (s : scope) : val :=
  VL [vbool (sc_ws s); VB (sc_version s); VB (sc_method s); VB (sc_scheme s); VB (sc_path s); VB (sc_raw_path s);
      VB (sc_query s); v_of_hs (sc_headers s);
      VL [vbool (sc_ext_trailers s); vbool (sc_ext_push s); vbool (sc_ext_hint s)];
      VL (map VB (sc_subprotocols s))].
Definition v_of_srv (e : srvevent) : val :=
  match e with
  | SRawData d => VL [VS "RawData"; VB d]
  | SClosed => VL [VS "Closed"]
  | SUpdated i => VL [VS "Updated"; vbool i]
  end.
Definition v_of_out (o : out) : val :=
  match o with
  | OSend i e => VL [VS "send"; VZ i; v_of_sevent e]
  | OSpawn i s => VL [VS "spawn_app"; VZ i; v_of_scope s]
  | OPut i m => VL [VS "app_put"; VZ i; v_of_rmsg m]
  | OLogAccess s => VL [VS "log.access"; vopt VZ s]
  | OSrv e => VL [VS "srv"; v_of_srv e]
  | OLib c => VL (VS "lib" :: c)
  | OSpawnTask w => VL [VS "spawn"; VS w]
  | ONote w => VL [VS "note"; VS w]
  end.
Definition v_of_result {A} (r : result (E:=exn) A) : val :=
  match r with Ok _ => VL [VS "ok"] | Raise e => VL [VS "raise"; VZ (exn_tag e)] end.

(* name[:1] == b":" *)
Definition starts_colon (b : bytes) : bool := match b with c :: _ => (c =? 58)%N | [] => false end.
