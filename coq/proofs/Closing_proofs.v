(* C06, whole runs: once keep-alive is off on an HTTP/1 connection - the client said Connection: close or spoke
   HTTP/1.0, or the server announced close on a response - no further request is taken on.  Invariant [KOff]:
   keep-alive off implies h11's state is blocked ([blockedG]: no new cycle, the two sides not both IDLE), under which
   h11 cannot deliver a Request. *)
From Coq Require Import String Ascii ZArith NArith List Bool Lia.
From HV Require Import lib.Bytes lib.Obs lib.Monad model.Asgi model.AsgiSpec model.GuardTypes model.HttpStream model.WsStream model.LibH11
   model.H11Proto proofs.LibH11_proofs proofs.H11_proofs proofs.Hoare proofs.Serial_proofs proofs.Capped_proofs.
Import ListNotations.
Open Scope N_scope.

Definition Kn := ONote "request-after-close".
Lemma Kn_note : exists s, Kn = ONote s.
Proof. eexists; reflexivity. Qed.
Notation ktri := (Hoare.tri Vn Kn).
Notation kpres := (Hoare.pres Vn Kn).

Definition koffL (l : h11lib) : Prop := cs_keep_alive (l_cs l) = false -> blockedG (l_cs l) = true.

Lemma blk_ev c role k sw c' :
  process_event c role k sw = Some c' -> blockedG c = true ->
  (if negb role && is_response k then blockedG (keep_alive_disabled c') else blockedG c') = true.
Proof.
  intros E G. pose proof (chk_blk_event_holds c role k sw) as H. unfold chk_blk_event in H. rewrite E in H.
  apply (impb_mp _ _ H G).
Qed.
Lemma blk_misc c b1 b2 :
  (blockedG c = true -> blockedG (process_error c b1) = true /\ blockedG (propose c b1 b2) = true /\ blockedG (keep_alive_disabled c) = true)
  /\ cs_keep_alive (process_error c b1) = cs_keep_alive c.
Proof.
  pose proof (chk_blk_misc_holds c b1 b2) as M. unfold chk_blk_misc in M. apply andb_true_iff in M as [M K].
  split; [|apply Bool.eqb_prop; exact K]. intro G. apply (fun X => impb_mp _ _ X G) in M.
  apply andb_true_iff in M as [M M3]. apply andb_true_iff in M as [M1 M2]. auto.
Qed.
Lemma resp_blk c sw c' : process_event c false KResponse sw = Some c' -> blockedG (keep_alive_disabled c') = true.
Proof. intro E. pose proof (chk_resp_blk_holds c sw) as H. unfold chk_resp_blk in H. rewrite E in H. exact H. Qed.
Lemma ev_ka c role k sw c' : process_event c role k sw = Some c' -> cs_keep_alive c' = cs_keep_alive c.
Proof. intro E. apply (pe_facts _ _ _ _ _ E). Qed.

(* what an error does to a library state, as far as the invariant goes *)
Lemma koff_error c b : (cs_keep_alive c = false -> blockedG c = true) ->
  cs_keep_alive (process_error c b) = false -> blockedG (process_error c b) = true.
Proof.
  intros K KA. destruct (blk_misc c b false) as [B E]. rewrite E in KA. apply (B (K KA)).
Qed.

Lemma send_koff l e ok : koffL l -> koffL (fst (LibH11.send l e ok)).
Proof.
  unfold koffL. intros K. destruct l as [c w m v]. unfold LibH11.send, our_state. cbn [l_cs] in *.
  destruct (h1state_eqb (cs_server c) ERROR); [exact K|].
  destruct ok; cbn [negb fst]; [|cbn [l_cs with_cs]; apply koff_error; exact K].
  destruct e as [st hs|st hs|d|].
  - destruct (process_event c false KInfo _) as [c'|] eqn:E; cbn [fst l_cs with_cs]; [|apply koff_error; exact K].
    intro KA. rewrite (ev_ka _ _ _ _ _ E) in KA. pose proof (blk_ev _ _ _ _ _ E (K KA)) as X. cbn [negb andb is_response] in X. exact X.
  - destruct (process_event c false KResponse _) as [c'|] eqn:E; cbn [fst l_cs with_cs]; [|apply koff_error; exact K].
    pose proof (resp_blk _ _ _ E) as RB. pose proof (ev_ka _ _ _ _ _ E) as EK.
    generalize dependent (keep_alive_disabled c'). intros kc RB.
    destruct (response_closes _ st hs) eqn:RC; cbn [fst l_cs]; [intros _; exact RB|].
    intro KA. exfalso. unfold response_closes in RC. cbn [l_cs] in RC. rewrite EK in KA. rewrite KA in RC. discriminate.
  - destruct (process_event c false KData SwNone) as [c'|] eqn:E; cbn [fst l_cs with_cs]; [|apply koff_error; exact K].
    intro KA. rewrite (ev_ka _ _ _ _ _ E) in KA. pose proof (blk_ev _ _ _ _ _ E (K KA)) as X. cbn [negb andb is_response] in X. exact X.
  - destruct (process_event c false KEndOfMessage SwNone) as [c'|] eqn:E; cbn [fst l_cs with_cs]; [|apply koff_error; exact K].
    intro KA. rewrite (ev_ka _ _ _ _ _ E) in KA. pose proof (blk_ev _ _ _ _ _ E (K KA)) as X. cbn [negb andb is_response] in X. exact X.
Qed.

Lemma recv_koff l e : (is_request_ev e = true -> event_allowed l e = true) -> koffL l -> koffL (recv l e).
Proof.
  unfold koffL. intros AL K. destruct l as [c w m0 v0]. cbn [l_cs] in *.
  destruct e as [m t h v|d| | | | |hint]; cbn [recv l_cs with_cs]; try exact K.
  - specialize (AL eq_refl). unfold event_allowed in AL. apply andb_true_iff in AL as [_ RA].
    unfold request_accepted in RA. cbn [l_cs] in RA.
    pose proof (chk_req_blk_holds c (negb match comma_header h (B "upgrade") with [] => true | _ => false end)
                  (beqb m (B "CONNECT")) (msg_keep_alive h v)) as C. unfold chk_req_blk in C.
    destruct (request_cs c _ _ _) as [c'|]; [|discriminate]. cbn [l_cs].
    apply andb_true_iff in C as [C _]. apply andb_true_iff in C as [_ C].
    intro KA. apply (impb_mp _ _ C). rewrite KA. reflexivity.
  - destruct (process_event c true KData SwNone) as [c'|] eqn:E; cbn [l_cs with_cs]; [|apply koff_error; exact K].
    intro KA. rewrite (ev_ka _ _ _ _ _ E) in KA. pose proof (blk_ev _ _ _ _ _ E (K KA)) as X. cbn [negb andb is_response] in X. exact X.
  - destruct (process_event c true KEndOfMessage SwNone) as [c'|] eqn:E; cbn [l_cs with_cs]; [|apply koff_error; exact K].
    intro KA. rewrite (ev_ka _ _ _ _ _ E) in KA. pose proof (blk_ev _ _ _ _ _ E (K KA)) as X. cbn [negb andb is_response] in X. exact X.
  - destruct (process_event c true KConnectionClosed SwNone) as [c'|] eqn:E; cbn [l_cs with_cs]; [|apply koff_error; exact K].
    intro KA. rewrite (ev_ka _ _ _ _ _ E) in KA. pose proof (blk_ev _ _ _ _ _ E (K KA)) as X. cbn [negb andb is_response] in X. exact X.
  - apply koff_error. exact K.
Qed.

(* an allowed Request finds keep-alive on *)
Lemma allowed_request_ka l m t h v : event_allowed l (HRequest m t h v) = true -> koffL l -> cs_keep_alive (l_cs l) = true.
Proof.
  unfold koffL, event_allowed. intros AL K. apply andb_true_iff in AL as [_ RA]. unfold request_accepted in RA.
  pose proof (chk_req_blk_holds (l_cs l) (negb match comma_header h (B "upgrade") with [] => true | _ => false end)
                (beqb m (B "CONNECT")) (msg_keep_alive h v)) as C. unfold chk_req_blk in C.
  destruct (request_cs (l_cs l) _ _ _) as [c'|]; [|discriminate].
  apply andb_true_iff in C as [C _]. apply andb_true_iff in C as [C _]. apply andb_true_iff in C as [I1 I2].
  destruct (cs_keep_alive (l_cs l)) eqn:KA; [reflexivity|]. specialize (K eq_refl).
  unfold blockedG in K. apply andb_true_iff in K as [_ K]. rewrite I1, I2 in K. discriminate.
Qed.

Lemma koff_no_cycle l l' : koffL l -> next_cycle l = Some l' -> cs_keep_alive (l_cs l) = true /\ cs_keep_alive (l_cs l') = true.
Proof.
  unfold koffL. intros K N. destruct (cs_keep_alive (l_cs l)) eqn:KA.
  - split; [reflexivity|]. unfold next_cycle in N. destruct (start_next_cycle (l_cs l)) as [c'|] eqn:S; [|discriminate].
    injection N as <-. cbn [l_cs]. apply start_next_cycle_spec in S. destruct S as (_ & _ & _ & _ & E). congruence.
  - specialize (K eq_refl). unfold blockedG in K. apply andb_true_iff in K as [G _]. rewrite (armed_no_cycle _ G) in N. discriminate.
Qed.

(* ---- the protocol *)
Definition KOff (p : h11p) : Prop := koffL (p_lib p).

Section Closing.
  Variable cfg : h11cfg.

  Lemma libinv_KOff : libinv KOff.
  Proof. intros p p' E _ H. unfold KOff in *. rewrite E. exact H. Qed.

  Lemma kli_put_h s p : KOff p -> KOff (put_h s p).
  Proof. apply libinv_KOff; reflexivity. Qed.
  Lemma kli_put_w s p : KOff p -> KOff (put_w s p).
  Proof. apply libinv_KOff; reflexivity. Qed.

  Lemma kpres_stream_closed : kpres KOff stream_closed.
  Proof.
    unfold stream_closed. apply pres_bind; [apply pres_get|intro p0].
    destruct (p_slot p0); [apply pres_ret|apply pres_http_stream_closed; [apply Kn_note|apply kli_put_h]|apply pres_ws_stream_closed; [apply Kn_note|apply kli_put_w]].
  Qed.
  Lemma kpres_close_stream : kpres KOff close_stream.
  Proof.
    unfold close_stream. apply pres_bind; [apply pres_get|intro p0]. destruct (p_stream_live p0); [|apply pres_ret].
    apply pres_bind; [apply kpres_stream_closed|intros ?]. apply pres_modify. intros p. apply libinv_KOff; reflexivity.
  Qed.
  Lemma kpres_handle_closed : kpres KOff handle_closed.
  Proof.
    unfold handle_closed.
    apply pres_bind; [apply pres_modify; intros p; apply libinv_KOff; reflexivity|intros ?].
    apply pres_bind; [apply pres_get|intro p0].
    apply pres_bind; [destruct (p_stream_live p0); [apply kpres_close_stream|apply pres_ret]|intros ?].
    apply pres_bind; [apply pres_modify; intros p; apply libinv_KOff; reflexivity|intros ?].
    apply pres_emit; discriminate.
  Qed.
  Lemma kpres_srv_send e : kpres KOff (srv_send e).
  Proof.
    unfold srv_send. apply pres_bind; [apply pres_emit; discriminate|intros ?].
    destruct e; try apply pres_ret.
    apply pres_bind; [apply pres_get|intro p0].
    destruct (p_writes p0) as [|[|] rest]; [apply pres_ret| |].
    - apply pres_modify. intros p. apply libinv_KOff; reflexivity.
    - apply pres_bind; [apply pres_modify; intros p; apply libinv_KOff; reflexivity|intros ?; apply kpres_handle_closed].
  Qed.

  Lemma kpres_send_h11_event e : kpres KOff (send_h11_event e).
  Proof.
    unfold send_h11_event. apply tri_bind_get. intro p0.
    eapply tri_bind with (Mid := fun _ p => KOff p /\ p = p0). { apply tri_emit; [discriminate|auto]. } intros ?.
    destruct (match p_sends p0 with [] => (Some [], []) | a :: r => (a, r) end) as [answer rest].
    eapply tri_bind with (Mid := fun _ p => KOff p /\ p_lib p = p_lib p0).
    { apply tri_modify. intros p [Hp Ep]. subst p. split; [apply (libinv_KOff p0); auto|reflexivity]. } intros ?.
    assert (LIB : forall okb, ktri (fun p => KOff p /\ p_lib p = p_lib p0) (modify (set_lib (fst (LibH11.send (p_lib p0) e okb)))) (fun _ => KOff) KOff).
    { intro okb. apply tri_modify. intros p [Hp El]. unfold KOff in *. cbn. rewrite <- El. apply send_koff. exact Hp. }
    destruct (p_ws_mode p0).
    - destruct (LibH11.send (p_lib p0) e _) as [lib' ok] eqn:E.
      eapply tri_bind; [specialize (LIB (match answer with Some _ => true | None => false end)); rewrite E in LIB; exact LIB|intro].
      destruct ok; [apply kpres_srv_send|apply pres_raise].
    - destruct (LibH11.send (p_lib p0) e _) as [lib' ok] eqn:E.
      eapply tri_bind; [specialize (LIB (match answer with Some _ => true | None => false end)); rewrite E in LIB; exact LIB|intro].
      apply pres_bind; [apply pres_emit; discriminate|intros ?].
      destruct ok; [apply kpres_srv_send|]. destruct (h1state_eqb _ _); [apply pres_ret|apply pres_raise].
  Qed.

  Lemma kpres_maybe_recycle : kpres KOff maybe_recycle.
  Proof.
    unfold maybe_recycle. apply pres_bind; [apply kpres_close_stream|intros ?].
    apply tri_bind_get. intro p0. destruct (_ && _).
    - destruct (next_cycle (p_lib p0)) as [lib'|] eqn:N.
      + eapply tri_bind with (Mid := fun _ p => KOff p /\ p = p0); [apply tri_emit; [discriminate|auto]|intros ?].
        eapply tri_bind with (Mid := fun _ => KOff).
        { apply tri_modify. intros p [C E]. subst p. destruct (koff_no_cycle _ _ C N) as [_ KA]. unfold KOff, koffL. cbn. intro X. congruence. }
        intros ?. apply pres_bind; [apply pres_modify; intros p; apply libinv_KOff; reflexivity|intros ?].
        apply pres_bind; [apply pres_emit; discriminate|intros ?]. apply kpres_srv_send.
      + eapply tri_conseq with (Pre' := KOff) (Q' := fun _ => KOff) (R' := KOff); [|tauto|auto|auto].
        apply pres_bind; [apply pres_emit; discriminate|intros ?]. apply kpres_srv_send.
    - eapply tri_conseq with (Pre' := KOff) (Q' := fun _ => KOff) (R' := KOff); [|tauto|auto|auto].
      apply pres_bind; [apply pres_modify; intros p; apply libinv_KOff; reflexivity|intros ?].
      apply pres_bind; [apply pres_modify; intros p; apply libinv_KOff; reflexivity|intros ?].
      apply pres_bind; [apply pres_emit; discriminate|intros ?]. apply kpres_srv_send.
  Qed.

  Lemma kpres_stream_send ev : kpres KOff (stream_send cfg ev).
  Proof.
    unfold stream_send. apply pres_bind; [apply pres_get|intro p0].
    destruct ev; try apply pres_ret; try apply kpres_send_h11_event; try apply kpres_srv_send; try apply kpres_maybe_recycle.
    destruct (200 <=? status)%Z; apply kpres_send_h11_event.
  Qed.

  Variable stream_headers : list header -> list header.
  Variable ws_token : list header -> bytes.
  Variable ws_ext : option bytes.
  Variable ws_sends : list (option bytes).

  Lemma kpres_http_handle ev : kpres KOff (http_handle (c_http cfg) get_h put_h (stream_send cfg) ev).
  Proof. apply pres_http_handle; [apply Kn_note|intros; apply kli_put_h; assumption|intros; apply kpres_stream_send]. Qed.
  Lemma kpres_ws_handle i : kpres KOff (ws_handle (c_ws cfg) get_w put_w (stream_send cfg) i).
  Proof. apply pres_ws_handle; [apply Kn_note|intros; apply kli_put_w; assumption|intros; apply kpres_stream_send]. Qed.
  Lemma kpres_http_app_send m : kpres KOff (http_app_send (c_http cfg) get_h put_h (stream_send cfg) m).
  Proof. apply pres_http_app_send; [apply Kn_note|intros; apply kli_put_h; assumption|apply kpres_stream_send]. Qed.
  Lemma kpres_ws_app_send m : kpres KOff (ws_app_send (c_ws cfg) get_w put_w (stream_send cfg) m).
  Proof. apply pres_ws_app_send; [apply Kn_note|intros; apply kli_put_w; assumption|apply kpres_stream_send]. Qed.

  Lemma kpres_create_stream m t h v : kpres KOff (create_stream cfg stream_headers ws_token ws_ext ws_sends m t h v).
  Proof.
    unfold create_stream. apply pres_bind; [apply pres_get|intro p0].
    apply pres_bind; [destruct (p_stream_live p0); [apply pres_emit; discriminate|apply pres_ret]|intros ?].
    apply pres_bind; [destruct (_ && _); [apply pres_emit; discriminate|apply pres_ret]|intros ?].
    apply pres_bind.
    - destruct (wants_websocket m h).
      + apply pres_bind; [apply pres_modify; intros p; apply libinv_KOff; reflexivity|intros ?].
        apply pres_bind; [apply pres_modify; intros p; apply libinv_KOff; reflexivity|intros ?]. apply kpres_ws_handle.
      + apply pres_bind; [destruct (is_ascii m); [apply pres_ret|apply pres_raise]|intros ?].
        apply pres_bind; [apply pres_modify; intros p; apply libinv_KOff; reflexivity|intros ?]. apply kpres_http_handle.
    - intros ?. apply pres_bind; [apply pres_modify; intros p H; exact H|intros ?]. apply pres_emit. discriminate.
  Qed.

  Lemma kpres_check_protocol m t h v : kpres KOff (check_protocol cfg m t h v).
  Proof.
    unfold check_protocol. destruct (h2c_requested h).
    - apply pres_bind; [apply kpres_send_h11_event|intros ?; apply pres_raise].
    - destruct (_ && _); [apply pres_raise|apply pres_ret].
  Qed.

  Lemma recv_step_koff e p1 rest :
    ktri (fun p => KOff p /\ p = set_events rest p1)
      (if p_ws_mode p1
       then match e with HNeedData => ret tt | _ => emit (ONote "h11-contract-violated") end
       else (if event_allowed (p_lib p1) e then ret tt else emit (ONote "h11-contract-violated")) ;;
            (if is_request_ev e && negb (cs_keep_alive (l_cs (p_lib p1))) then note "request-after-close" else ret tt) ;;
            modify (fun p => set_lib (recv (p_lib p) e) p) ;;
            p <- get ;; emit (OLib [VS "states"; v_of_h1state (our_state (p_lib p)); v_of_h1state (their_state (p_lib p))]))%M
      (fun _ => KOff) KOff.
  Proof.
    destruct (p_ws_mode p1) eqn:W.
    - destruct e; try apply tri_emit_V. apply tri_ret. intros p [Hp _]. exact Hp.
    - destruct (event_allowed (p_lib p1) e) eqn:EA.
      2:{ eapply tri_bind with (Mid := fun _ _ => False); [apply tri_emit_V|intros ?; apply tri_pre_false; intros p []]. }
      eapply tri_bind with (Mid := fun _ p => KOff p /\ p = set_events rest p1); [apply tri_ret; auto|intros ?].
      eapply tri_bind with (Mid := fun _ p => KOff p /\ p = set_events rest p1).
      { destruct (is_request_ev e) eqn:RQ; cbn [andb]; [|apply tri_ret; auto].
        destruct (cs_keep_alive (l_cs (p_lib p1))) eqn:KA; cbn [negb]; [apply tri_ret; auto|].
        apply tri_pre_false. intros p [Hp Ep]. subst p. unfold KOff in Hp. cbn in Hp.
        destruct e; try discriminate. pose proof (allowed_request_ka _ _ _ _ _ EA Hp). congruence. }
      intros ?. eapply tri_bind with (Mid := fun _ => KOff).
      + apply tri_modify. intros p [Hp Ep]. subst p. unfold KOff in *. cbn in *. apply recv_koff; [intros _; exact EA|exact Hp].
      + intros ?. eapply tri_bind with (Mid := fun _ => KOff); [apply tri_get; auto|intros ?]. apply tri_emit; [discriminate|auto].
  Qed.

  Lemma handle_one_koff : ktri KOff (handle_one cfg stream_headers ws_token ws_ext ws_sends) (fun _ => KOff) KOff.
  Proof.
    unfold handle_one. apply tri_bind_get. intro p0.
    destruct (p_closed p0 || last_response_in_progress p0); [apply tri_ret; tauto|].
    eapply tri_bind with (Mid := fun _ => KOff).
    { eapply tri_conseq with (Pre' := KOff) (Q' := fun _ => KOff) (R' := KOff); [|tauto|auto|auto].
      destruct (_ && _); [apply kpres_send_h11_event|apply pres_ret]. }
    intros ?. apply tri_bind_get. intro p1.
    destruct (p_events p1) as [|[e|evs] rest].
    - eapply tri_bind with (Mid := fun _ => KOff); [apply tri_emit; [discriminate|tauto]|intros ?; apply pres_ret].
    - eapply tri_bind with (Mid := fun _ p => KOff p /\ p = set_events rest p1).
      { apply tri_modify. intros p [Hp Ep]. subst p. split; [apply (libinv_KOff p1); auto|reflexivity]. }
      intros ?. eapply tri_bind with (Mid := fun _ p => KOff p /\ p = set_events rest p1); [apply tri_emit; [discriminate|auto]|intros ?].
      eapply tri_bind; [apply recv_step_koff|intros ?].
      destruct e as [method target headers http_version|d| | | | |hint].
      + apply pres_bind; [apply kpres_srv_send|intros ?].
        apply pres_bind; [apply kpres_check_protocol|intros ?].
        apply pres_bind; [apply kpres_create_stream|intros ?; apply pres_ret].
      + apply pres_bind; [apply pres_get|intro p2]. destruct (negb _); [apply pres_ret|].
        apply pres_bind; [|intros ?; apply pres_ret].
        destruct (p_slot p2); [apply pres_ret|apply kpres_http_handle|apply kpres_ws_handle].
      + apply pres_bind; [apply pres_get|intro p2]. destruct (negb _); [apply pres_ret|].
        apply pres_bind; [|intros ?; apply pres_ret].
        destruct (p_slot p2); [apply pres_ret|apply kpres_http_handle|apply pres_ret].
      + apply pres_ret.
      + apply pres_ret.
      + apply pres_bind; [apply pres_modify; intros p; apply libinv_KOff; reflexivity|intros ?].
        apply pres_bind; [apply pres_emit; discriminate|intros ?].
        apply pres_bind; [apply pres_emit; discriminate|intros ?].
        apply pres_bind; [apply pres_modify; intros p; apply libinv_KOff; reflexivity|intros ?]. apply pres_ret.
      + apply pres_bind; [apply pres_get|intro p2].
        apply pres_bind; [destruct (_ || _); [|apply pres_ret]|intros ?].
        * unfold send_error_response. apply pres_bind; [apply kpres_send_h11_event|intros ?; apply kpres_send_h11_event].
        * apply pres_bind; [apply kpres_srv_send|intros ?; apply pres_ret].
    - eapply tri_conseq with (Pre' := KOff) (Q' := fun _ => KOff) (R' := KOff); [|tauto|auto|auto].
      apply pres_bind; [apply pres_modify; intros p; apply libinv_KOff; reflexivity|intros ?].
      apply pres_bind; [apply pres_emit; discriminate|intros ?].
      apply pres_bind; [apply pres_get|intro p2]. destruct (negb _); [apply pres_ret|].
      apply pres_bind; [|intros ?; apply pres_ret].
      destruct (p_slot p2); [apply pres_ret|apply pres_ret|apply kpres_ws_handle].
  Qed.

  Lemma handle_events_koff fuel : kpres KOff (handle_events cfg stream_headers ws_token ws_ext ws_sends fuel).
  Proof.
    induction fuel as [|f IH]; cbn [handle_events]; [apply pres_emit; discriminate|].
    apply pres_bind; [apply handle_one_koff|intros [|]; [apply pres_ret|exact IH]].
  Qed.

  Lemma resume_koff evs : kpres KOff (resume_if_ready cfg stream_headers ws_token ws_ext ws_sends evs).
  Proof.
    unfold resume_if_ready. apply pres_bind; [apply pres_get|intro p0]. destruct (_ && _); [|apply pres_ret].
    apply pres_bind; [apply pres_modify; intros p; apply libinv_KOff; reflexivity|intros ?].
    apply pres_bind; [apply pres_emit; discriminate|intros ?].
    apply pres_bind; [apply pres_modify; intros p; apply libinv_KOff; reflexivity|intros ?].
    apply handle_events_koff.
  Qed.

  Definition kstep_ok (x : h11p * list out * result (E:=exn) unit) : Prop :=
    In Vn (snd (fst x)) \/ (~ In Kn (snd (fst x)) /\ KOff (fst (fst x))).

  Lemma pres_kstep_ok (m : M exn out h11p unit) p : kpres KOff m -> KOff p -> kstep_ok (m p).
  Proof.
    intros H Hp. specialize (H p Hp). unfold post, good in H. unfold kstep_ok.
    destruct (m p) as [[p1 o1] r1]. cbn [fst snd] in *. destruct H as [H|[H1 H2]]; [left; exact H|right; split; [exact H1|]].
    destruct r1; exact H2.
  Qed.

  Lemma proto_step_koff i p : KOff p -> kstep_ok (proto_step cfg stream_headers ws_token ws_ext ws_sends i p).
  Proof.
    intro Hp. destruct i as [evs| |m evs|].
    - apply pres_kstep_ok; [|exact Hp]. cbn [proto_step].
      apply pres_bind; [apply pres_get|intro p0]. destruct (p_closed p0 || last_response_in_progress p0); [apply pres_ret|].
      apply pres_bind; [apply pres_emit; discriminate|intros ?].
      apply pres_bind; [apply pres_modify; intros q; apply libinv_KOff; reflexivity|intros ?].
      apply handle_events_koff.
    - apply pres_kstep_ok; [|exact Hp]. cbn [proto_step].
      apply pres_bind; [apply kpres_handle_closed|intros ?; apply resume_koff].
    - cbn [proto_step].
      assert (A : kpres KOff (match p_slot p with
             | SlotHttp _ => http_app_send (c_http cfg) get_h put_h (stream_send cfg) m
             | SlotWs _ => ws_app_send (c_ws cfg) get_w put_w (stream_send cfg) m
             | SlotNone => ret tt end)).
      { destruct (p_slot p); [apply pres_ret|apply kpres_http_app_send|apply kpres_ws_app_send]. }
      apply pres_kstep_ok with (p := p) in A; [|exact Hp]. unfold kstep_ok in *.
      match type of A with context [snd (fst ?x)] => destruct x as [[p1 o1] r1] end. cbn [fst snd] in A.
      destruct A as [A|[A1 A2]].
      + destruct (resume_if_ready _ _ _ _ _ evs p1) as [[p2 o2] r2]. cbn [fst snd]. left. apply in_or_app. auto.
      + pose proof (pres_kstep_ok _ p1 (resume_koff evs) A2) as B. unfold kstep_ok in B.
        destruct (resume_if_ready _ _ _ _ _ evs p1) as [[p2 o2] r2]. cbn [fst snd] in *.
        destruct B as [B|[B1 B2]]; [left; apply in_or_app; right; apply in_or_app; auto|].
        right. split; [|exact B2]. intro X. apply in_app_or in X as [X|X]; [auto|].
        apply in_app_or in X as [X|X]; [auto|]. destruct r2; [destruct X|]. destruct X as [X|[]]. discriminate.
    - apply pres_kstep_ok; [|exact Hp]. cbn [proto_step]. apply pres_modify; intros q; apply libinv_KOff; reflexivity.
  Qed.

  (* every run: unless the event oracle breaks the parser's contract, no request is taken on with keep-alive off *)
  Theorem closing_run p is :
    KOff p ->
    let outs := concat (map fst (proto_run cfg stream_headers ws_token ws_ext ws_sends p is)) in
    In Vn outs \/ ~ In Kn outs.
  Proof.
    revert p. induction is as [|i is IH]; intros p Hp; cbn [proto_run map concat]; [right; intros []|].
    pose proof (proto_step_koff i p Hp) as S. unfold kstep_ok in S.
    destruct (proto_step _ _ _ _ _ i p) as [[p1 o1] r1]. cbn [fst snd map concat] in *.
    destruct S as [S|[S1 S2]]; [left; apply in_or_app; auto|].
    destruct (IH p1 S2) as [T|T]; [left; apply in_or_app; auto|].
    right. intro X. apply in_app_or in X as [X|X]; auto.
  Qed.

  Lemma KOff_init sends writes : KOff (p_init sends writes).
  Proof. unfold KOff, koffL. cbn. discriminate. Qed.
End Closing.
