From Coq Require Import ZArith List Bool Lia.
From HV Require Import model.Lifespan.
Import ListNotations.

Definition finished (a : lapp) : bool := match a with Ended | Unsupported | Failed _ => true | _ => false end.
Fixpoint sends_complete (script : list lact) : bool :=
  match script with [] => false | LSend LStartupComplete :: _ => true | _ :: r => sends_complete r end.

(* the startup event is set only by lifespan.startup.complete or by the end of the application *)
Lemma run_app_startup : forall script s,
  ls_startup (run_app script s) = true -> ls_startup s = true \/ sends_complete script = true \/ finished (ls_app (run_app script s)) = true.
Proof.
  induction script as [|a rest IH]; intros s H; cbn in *; [right; right; reflexivity|].
  destruct a as [|m| | |]; cbn in *; try (right; right; reflexivity); try (left; exact H).
  - destruct (ls_queue s) as [|q qs]; cbn in *; [left; exact H|].
    destruct (IH _ H) as [H1|[H1|H1]]; cbn in *; auto.
  - destruct m; cbn in *; try (right; right; reflexivity); try (right; left; reflexivity).
    destruct (IH _ H) as [H1|[H1|H1]]; cbn in *; auto.
Qed.

(* what the application has received is what was put, in order: never more than was put *)
Lemma run_app_got : forall script s, ls_got (run_app script s) ++ ls_queue (run_app script s) = ls_got s ++ ls_queue s.
Proof.
  induction script as [|a rest IH]; intros s; cbn; [reflexivity|].
  destruct a as [|m| | |]; cbn; try reflexivity.
  - destruct (ls_queue s) as [|q qs] eqn:E; cbn; [reflexivity|].
    rewrite IH. cbn. rewrite <- app_assoc. reflexivity.
  - destruct m; cbn; try reflexivity; rewrite IH; reflexivity.
Qed.

Lemma resume_got s : ls_got (resume s) ++ ls_queue (resume s) = ls_got s ++ ls_queue s.
Proof. unfold resume. destruct (ls_app s); try reflexivity. apply run_app_got. Qed.

(* serving starts only with the startup event set ... *)
Theorem proceed_means_started script : fst (startup script) = Proceed ->
  supported (snd (startup script)) = false \/ ls_startup (snd (startup script)) = true.
Proof.
  unfold startup. destruct (supported (run_app script (ls0 script))) eqn:S; cbn [negb]; [|intros _; left; exact S].
  set (s2 := resume _).
  destruct (ls_app s2); cbn [fst snd]; try discriminate; destruct (ls_startup s2) eqn:E; cbn [fst snd]; intros H;
    try discriminate; right; exact E.
Qed.

(* ... a failure reported by the application aborts, whatever else it did *)
Theorem failed_aborts script b : ls_app (snd (startup script)) = Failed b -> fst (startup script) = AbortFailed.
Proof.
  unfold startup. destruct (supported (run_app script (ls0 script))) eqn:S; cbn [negb fst snd].
  - set (s2 := resume _). destruct (ls_app s2) eqn:A; cbn [fst snd]; try (destruct (ls_startup s2); cbn [fst snd]; rewrite A; discriminate).
    reflexivity.
  - intro H. unfold supported in S. rewrite H in S. discriminate.
Qed.

(* the application is handed lifespan.startup first and lifespan.shutdown second, each at most once *)
Theorem messages_in_order script :
  let s1 := snd (startup script) in
  let s2 := snd (shutdown s1) in
  exists rest, [false; true] = (ls_got s2 ++ rest)%list \/ [false] = (ls_got s2 ++ rest)%list \/ [] = (ls_got s2 ++ rest)%list.
Proof.
  cbv zeta. unfold startup.
  pose proof (run_app_got script (ls0 script)) as G0. cbn [ls0 ls_got ls_queue app] in G0.
  destruct (supported (run_app script (ls0 script))) eqn:S; cbn [negb snd].
  - set (s1 := run_app script (ls0 script)) in *.
    set (s1' := {| ls_startup := ls_startup s1; ls_shutdown := ls_shutdown s1; ls_queue := ls_queue s1 ++ [false];
                   ls_app := ls_app s1; ls_got := ls_got s1; ls_warned := ls_warned s1 |}).
    pose proof (resume_got s1') as G1. cbn [s1' ls_got ls_queue] in G1. rewrite app_assoc, G0 in G1. cbn in G1.
    assert (Hs2 : forall o, snd (match ls_app (resume s1') with Failed _ => (AbortFailed, resume s1')
                                 | _ => if ls_startup (resume s1') then (Proceed, resume s1') else (o, resume s1') end) = resume s1').
    { intro o. destruct (ls_app (resume s1')); try reflexivity; destruct (ls_startup (resume s1')); reflexivity. }
    rewrite Hs2. set (s2 := resume s1') in *. unfold shutdown.
    destruct (supported s2); cbn [negb snd].
    + set (s2' := {| ls_startup := ls_startup s2; ls_shutdown := ls_shutdown s2; ls_queue := ls_queue s2 ++ [true];
                     ls_app := ls_app s2; ls_got := ls_got s2; ls_warned := ls_warned s2 |}).
      pose proof (resume_got s2') as G2. cbn [s2' ls_got ls_queue] in G2. rewrite app_assoc, G1 in G2. cbn in G2.
      assert (Hs3 : forall o, snd (match ls_app (resume s2') with Failed _ => (AbortFailed, resume s2')
                                   | _ => if ls_shutdown (resume s2') then (Proceed, resume s2') else (o, resume s2') end) = resume s2').
      { intro o. destruct (ls_app (resume s2')); try reflexivity; destruct (ls_shutdown (resume s2')); reflexivity. }
      rewrite Hs3. exists (ls_queue (resume s2')). left. symmetry. exact G2.
    + exists (ls_queue s2). right. left. symmetry. exact G1.
  - unfold shutdown. rewrite S. cbn [negb snd]. exists (ls_queue (run_app script (ls0 script))). right. right. symmetry. exact G0.
Qed.
