From Coq Require Import String List ZArith NArith Bool Ascii.
From HV Require Import lib.Obs model.CliTypes model.Config model.Cli model.CliSpec gen.Cli_gen.
Import ListNotations.
Open Scope string_scope.

(* what giving option [flag] (with value [s]) must do to a configuration, per the specification *)
Definition spec_effect (setting : string) (k : optkind) (s : string) (c : assoc) : option assoc :=
  match k with
  | KValue t => option_map (fun v => cfg_set' setting v c) (conv t s)
  | KList => Some (cfg_set' setting (PList [s]) c)
  | KFlag => Some (cfg_set' setting (PBool true) c)
  end.

Definition occ_of (flag : string) (k : optkind) (s : string) : occ :=
  match k with KFlag => (flag, None) | _ => (flag, Some s) end.

Definition with_app (a : string) (c : assoc) : assoc := cfg_set' "application_path" (PStr a) c.

Ltac solve_row :=
  match goal with
  | |- context [KValue TStr] => cbv; reflexivity
  | |- context [KList] => cbv; reflexivity
  | |- context [KFlag] => cbv; reflexivity
  | |- forall s a c, run_cli _ _ _ [occ_of _ (KValue TInt) _] _ = _ =>
      intros s a c; unfold spec_effect, occ_of, run_cli, parse_args, conv;
      cbn [fold_left fst snd];
      unfold apply_occ at 1; cbn [fst snd];
      let sp := fresh in
      set (sp := find_spec _ _); vm_compute in sp; subst sp; cbv beta iota; unfold conv;
      cbn [a_action a_type a_dest];
      destruct (int_of_string s) as [z|]; [cbv; reflexivity | reflexivity]
  | |- forall s a c, run_cli _ _ _ [occ_of _ (KValue TVerify) _] _ = _ =>
      intros s a c; unfold spec_effect, occ_of, run_cli, parse_args, conv;
      cbn [fold_left fst snd];
      unfold apply_occ at 1; cbn [fst snd];
      let sp := fresh in
      set (sp := find_spec _ _); vm_compute in sp; subst sp; cbv beta iota; unfold conv;
      cbn [a_action a_type a_dest];
      destruct (verify_of_string s) as [z|]; [cbv; reflexivity | reflexivity]
  end.

(* No option given: nothing but application_path is touched. *)
Lemma cli_none : forall a c, run_cli specs wiring a [] c = Some (with_app a c).
Proof. intros a c. cbv. reflexivity. Qed.

(* Each option alone sets exactly its own setting to exactly the given value. *)
Lemma cli_exact : forall flag setting k, In (flag, setting, k) cli_spec ->
  forall s a c, run_cli specs wiring a [occ_of flag k s] c = spec_effect setting k s (with_app a c).
Proof.
  intros flag setting k HIn.
  unfold cli_spec in HIn.
  repeat (destruct HIn as [HIn | HIn]; [injection HIn as <- <- <-; solve_row |]).
  destruct HIn.
Qed.
