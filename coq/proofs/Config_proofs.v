From Coq Require Import String List ZArith NArith Bool Ascii Lia Decimal DecimalString DecimalZ DecimalPos.
From HV Require Import lib.Bytes lib.Obs model.Config.
Import ListNotations.
Open Scope string_scope.

(* ---------------- decimal printing / reading ---------------- *)
Lemma int_of_string_dec z : int_of_string (dec z) = Some z.
Proof.
  unfold int_of_string, dec.
  rewrite NilZero.isi.
  - simpl. f_equal. apply DecimalZ.of_to.
  - destruct z; simpl; try discriminate. intro H. injection H as H.
    apply (f_equal Pos.of_uint) in H. rewrite DecimalPos.Unsigned.of_to in H. discriminate.
  - destruct z; simpl; try discriminate. intro H. injection H as H.
    apply (f_equal Pos.of_uint) in H. rewrite DecimalPos.Unsigned.of_to in H. discriminate.
Qed.

Definition is_digit (a : ascii) : bool :=
  let n := N_of_ascii a in (48 <=? n)%N && (n <=? 57)%N.
Fixpoint digits_only (s : string) : bool :=
  match s with EmptyString => true | String a r => is_digit a && digits_only r end.

Lemma digits_uint d : digits_only (NilEmpty.string_of_uint d) = true.
Proof. induction d; simpl; auto. Qed.

Lemma digits_dec z : (0 <= z)%Z -> digits_only (dec z) = true.
Proof.
  intro H. unfold dec. destruct z as [|p|p]; [reflexivity| |lia].
  simpl. unfold NilZero.string_of_uint.
  destruct (Pos.to_uint p) eqn:E; try (rewrite <- E; apply digits_uint); reflexivity.
Qed.

Lemma digits_no_char c s : is_digit c = false -> digits_only s = true -> contains c s = false.
Proof.
  intros Hc. induction s as [|a r IH]; simpl; [reflexivity|].
  intro H. apply andb_true_iff in H as [Ha Hr].
  destruct (Ascii.eqb_spec a c) as [->|_]; [congruence|]. simpl. auto.
Qed.

(* ---------------- string helpers ---------------- *)
Lemma str_remove_id c s : contains c s = false -> str_remove c s = s.
Proof.
  induction s as [|a r IH]; simpl; [reflexivity|].
  intro H. apply orb_false_iff in H as [Ha Hr]. rewrite Ha. f_equal. auto.
Qed.

Lemma str_remove_app c s t : str_remove c (s ++ t) = str_remove c s ++ str_remove c t.
Proof.
  induction s as [|a r IH]; simpl; [reflexivity|].
  destruct (Ascii.eqb a c); simpl; rewrite IH; reflexivity.
Qed.

Lemma contains_app c s t : contains c (s ++ t) = contains c s || contains c t.
Proof. induction s as [|a r IH]; simpl; [reflexivity|]. rewrite IH, orb_assoc. reflexivity. Qed.

Lemma contains_remove_other c d s : c <> d -> contains c (str_remove d s) = contains c s.
Proof.
  intro N. induction s as [|a r IH]; simpl; [reflexivity|].
  destruct (Ascii.eqb_spec a d) as [->|_].
  - destruct (Ascii.eqb_spec d c); [congruence|]. simpl. exact IH.
  - simpl. rewrite IH. reflexivity.
Qed.

Lemma rsplit1_none c s : contains c s = false -> rsplit1 c s = None.
Proof.
  induction s as [|a r IH]; simpl; [reflexivity|].
  intro H. apply orb_false_iff in H as [Ha Hr]. rewrite (IH Hr), Ha. reflexivity.
Qed.

Lemma rsplit1_last c x y : contains c y = false -> rsplit1 c (x ++ String c y) = Some (x, y).
Proof.
  intro H. induction x as [|a r IH]; simpl.
  - rewrite (rsplit1_none _ _ H), Ascii.eqb_refl. reflexivity.
  - rewrite IH. reflexivity.
Qed.

(* ---------------- bind strings ---------------- *)
Definition plain (h : string) : bool :=
  negb (contains "[" h) && negb (contains "]" h).

Lemma prefix_nil s : String.prefix "" s = true.
Proof. destruct s; reflexivity. Qed.

Lemma sapp_assoc_early (s t u : string) : (s ++ t) ++ u = s ++ t ++ u.
Proof. induction s; simpl; congruence. Qed.
Lemma last_is_contains c s : contains c s = false -> last_is c s = false.
Proof.
  induction s as [|a r IH]; simpl; [reflexivity|]. intro H. apply orb_false_iff in H as [Ha Hr].
  destruct r; [exact Ha|apply IH; exact Hr].
Qed.
Lemma last_is_app c x a r : last_is c (x ++ String a r) = last_is c (String a r).
Proof.
  induction x as [|b x IH]; [reflexivity|]. cbn [append]. rewrite <- IH.
  destruct x; reflexivity.
Qed.
Lemma drop_last_app x a : drop_last (x ++ String a EmptyString) = x.
Proof. induction x as [|b x IH]; [reflexivity|]. cbn [append]. destruct x; cbn in *; [reflexivity|]. f_equal. exact IH. Qed.
Lemma plain_no_bracket_prefix h t : plain h = true -> String.prefix "[" (h ++ String ":" t) = false.
Proof.
  intro Hp. destruct h as [|a r]; [reflexivity|].
  apply andb_true_iff in Hp as [H1 _]. apply negb_true_iff in H1. cbn [contains] in H1. apply orb_false_iff in H1 as [Ha _].
  cbn [append String.prefix].
  destruct (Ascii.ascii_dec "["%char a) as [E|_]; [|reflexivity].
  subst a. rewrite Ascii.eqb_refl in Ha. discriminate.
Qed.

Lemma bind_unix p : parse_bind ("unix:" ++ p) = BUnix p.
Proof. unfold parse_bind. simpl. rewrite prefix_nil. reflexivity. Qed.

Lemma bind_fd n : parse_bind ("fd://" ++ dec n) = BFd (Some n).
Proof. unfold parse_bind. simpl. rewrite prefix_nil, int_of_string_dec. reflexivity. Qed.

Lemma bind_host_port h p :
  let s := h ++ ":" ++ dec p in
  String.prefix "unix:" s = false -> String.prefix "fd://" s = false ->
  plain h = true -> contains ":" h = false -> (0 <= p)%Z ->
  parse_bind s = BInet false h p.
Proof.
  intros s Hu Hf Hp Hc Hz. unfold parse_bind. rewrite Hu, Hf.
  assert (B : String.prefix "[" s = false) by (apply plain_no_bracket_prefix; exact Hp). rewrite B. cbn [andb].
  apply andb_true_iff in Hp as [H1 H2]. apply negb_true_iff in H1, H2.
  pose proof (digits_dec p Hz) as Hd.
  assert (E : str_remove "]" (str_remove "[" s) = s).
  { unfold s. rewrite !str_remove_app. simpl.
    rewrite (str_remove_id "[" h H1), (str_remove_id "[" (dec p)) by (apply digits_no_char; auto).
    rewrite (str_remove_id "]" h H2), (str_remove_id "]" (dec p)) by (apply digits_no_char; auto).
    reflexivity. }
  rewrite E. unfold s. simpl. rewrite rsplit1_last by (apply digits_no_char; auto).
  rewrite int_of_string_dec. simpl. rewrite Hc. reflexivity.
Qed.

Lemma bind_host h :
  String.prefix "unix:" h = false -> String.prefix "fd://" h = false ->
  plain h = true -> contains ":" h = false ->
  parse_bind h = BInet false h 8000.
Proof.
  intros Hu Hf Hp Hc. unfold parse_bind. rewrite Hu, Hf.
  apply andb_true_iff in Hp as [H1 H2]. apply negb_true_iff in H1, H2.
  rewrite (last_is_contains "]" h H2), andb_false_r.
  rewrite (str_remove_id "[" h H1), (str_remove_id "]" h H2), (rsplit1_none _ _ Hc).
  simpl. rewrite Hc. reflexivity.
Qed.

Lemma bind_v6_port h p :
  plain h = true -> contains ":" h = true -> (0 <= p)%Z ->
  parse_bind ("[" ++ h ++ "]:" ++ dec p) = BInet true h p.
Proof.
  intros Hp Hc Hz. unfold parse_bind.
  apply andb_true_iff in Hp as [H1 H2]. apply negb_true_iff in H1, H2.
  pose proof (digits_dec p Hz) as Hd.
  change (String.prefix "unix:" ("[" ++ h ++ "]:" ++ dec p)) with false.
  change (String.prefix "fd://" ("[" ++ h ++ "]:" ++ dec p)) with false.
  cbv iota.
  assert (L : last_is "]" ("[" ++ h ++ "]:" ++ dec p) = false).
  { assert (A : ("[" ++ h ++ "]:" ++ dec p) = (("[" ++ h) ++ "]") ++ String ":" (dec p)).
    { symmetry. rewrite !sapp_assoc_early. reflexivity. }
    rewrite A, last_is_app. apply last_is_contains. simpl. apply digits_no_char; auto. }
  rewrite L, andb_false_r.
  assert (E : str_remove "]" (str_remove "[" ("[" ++ h ++ "]:" ++ dec p)) = h ++ ":" ++ dec p).
  { simpl. rewrite !str_remove_app. simpl.
    rewrite (str_remove_id "[" h H1), (str_remove_id "[" (dec p)) by (apply digits_no_char; auto).
    rewrite (str_remove_id "]" h H2), (str_remove_id "]" (dec p)) by (apply digits_no_char; auto).
    reflexivity. }
  rewrite E. simpl. rewrite rsplit1_last by (apply digits_no_char; auto).
  rewrite int_of_string_dec. simpl. rewrite Hc. reflexivity.
Qed.

(* a bare host in brackets - an IPv6 address without a port - keeps all its colons and gets the default port (F63) *)
Lemma bind_v6_bare h : plain h = true -> parse_bind ("[" ++ h ++ "]") = BInet (contains ":" h) h 8000.
Proof.
  intro Hp. unfold parse_bind.
  change (String.prefix "unix:" ("[" ++ h ++ "]")) with false.
  change (String.prefix "fd://" ("[" ++ h ++ "]")) with false. cbv iota.
  assert (P : String.prefix "[" ("[" ++ h ++ "]") = true) by (simpl; apply prefix_nil).
  assert (L : last_is "]" ("[" ++ h ++ "]") = true).
  { change ("[" ++ h ++ "]") with (("[" ++ h) ++ String "]" EmptyString). rewrite last_is_app. reflexivity. }
  rewrite P, L. cbn [andb].
  apply andb_true_iff in Hp as [H1 H2]. apply negb_true_iff in H1, H2.
  assert (E : str_remove "]" (str_remove "[" ("[" ++ h ++ "]")) = h).
  { simpl. rewrite !str_remove_app. simpl. rewrite (str_remove_id "[" h H1), (str_remove_id "]" h H2).
    clear. induction h; simpl; congruence. }
  rewrite E. reflexivity.
Qed.

(* ---------------- root_path ---------------- *)
Lemma sapp_assoc (s t u : string) : (s ++ t) ++ u = s ++ t ++ u.
Proof. induction s; simpl; congruence. Qed.

Lemma string_rev_acc_app s acc : string_rev_acc s acc = string_rev s ++ acc.
Proof.
  unfold string_rev. revert acc. induction s as [|a r IH]; intro acc; simpl; [reflexivity|].
  rewrite IH, (IH (String a "")). rewrite sapp_assoc. reflexivity.
Qed.

Lemma string_rev_cons a s : string_rev (String a s) = string_rev s ++ String a "".
Proof. unfold string_rev at 1. simpl. apply string_rev_acc_app. Qed.

Lemma append_nil_r s : s ++ "" = s.
Proof. induction s; simpl; congruence. Qed.

Lemma string_rev_app s t : string_rev (s ++ t) = string_rev t ++ string_rev s.
Proof.
  induction s as [|a r IH]; simpl.
  - rewrite append_nil_r. reflexivity.
  - rewrite !string_rev_cons, IH, sapp_assoc. reflexivity.
Qed.

Lemma string_rev_involutive s : string_rev (string_rev s) = s.
Proof.
  induction s as [|a r IH]; [reflexivity|].
  rewrite string_rev_cons, string_rev_app, IH. reflexivity.
Qed.

Lemma strip_slash_idem s : string_rev_strip_slash (string_rev_strip_slash s) = string_rev_strip_slash s.
Proof.
  induction s as [|a r IH]; [reflexivity|]. simpl.
  destruct (Ascii.eqb_spec a "/") as [->|N]; [exact IH|].
  assert (E : string_rev_strip_slash (String a r) = String a r).
  { destruct a as [[|] [|] [|] [|] [|] [|] [|] [|]]; try reflexivity. congruence. }
  assert (E2 : (match a with "/"%char => string_rev_strip_slash r | _ => String a r end) = String a r)
    by exact E.
  rewrite E2. exact E.
Qed.

Lemma rstrip_slash_idem s : rstrip_slash (rstrip_slash s) = rstrip_slash s.
Proof. unfold rstrip_slash. rewrite string_rev_involutive, strip_slash_idem. reflexivity. Qed.

Lemma strip_slash_head s a r : string_rev_strip_slash s = String a r -> a <> "/"%char.
Proof.
  induction s as [|b t IH]; simpl; [discriminate|].
  destruct (Ascii.eqb_spec b "/") as [->|N]; [exact IH|].
  assert (E : (match b with "/"%char => string_rev_strip_slash t | _ => String b t end) = String b t).
  { destruct b as [[|] [|] [|] [|] [|] [|] [|] [|]]; try reflexivity. congruence. }
  rewrite E. intro H. injection H as <- _. exact N.
Qed.

Lemma rstrip_slash_no_trailing s p : rstrip_slash s <> p ++ "/".
Proof.
  unfold rstrip_slash. intro H. apply (f_equal string_rev) in H.
  rewrite string_rev_involutive, string_rev_app in H. simpl in H.
  change (string_rev "/") with "/" in H. simpl in H.
  apply strip_slash_head in H. congruence.
Qed.

(* ---------------- response headers ---------------- *)
Lemma response_headers_shape d s date proto alt :
  response_headers d s date proto alt =
  ((if d then [(B "date", date)] else []) ++
  (if s then [(B "server", B "hypercorn-" ++ proto)] else []) ++
  map (fun a => (B "alt-svc", a)) alt)%list.
Proof. reflexivity. Qed.

Lemma response_headers_names d s date proto alt n v :
  In (n, v) (response_headers d s date proto alt) ->
  n = B "date" \/ n = B "server" \/ n = B "alt-svc".
Proof.
  unfold response_headers. rewrite !in_app_iff. intros [H|[H|H]].
  - destruct d; simpl in H; [destruct H as [H|[]]; injection H as <- _; auto | contradiction].
  - destruct s; simpl in H; [destruct H as [H|[]]; injection H as <- _; auto | contradiction].
  - apply in_map_iff in H as (a & E & _). injection E as <- _. auto.
Qed.

(* ---------------- loaders ---------------- *)
Lemma loaders_agree m :
  from_toml m = from_mapping m [] /\
  from_mapping [] m = from_mapping (merge [] m) [] /\
  (forallb (fun kv => negb (is_dunder (fst kv))) m = true -> from_object m = from_mapping m []) /\
  from_pyfile m = from_object m.
Proof.
  repeat split.
  intro H. unfold from_object. f_equal.
  induction m as [|kv r IH]; [reflexivity|]. simpl in *.
  apply andb_true_iff in H as [H1 H2]. rewrite H1. f_equal. auto.
Qed.
