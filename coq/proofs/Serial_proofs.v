(* C06, whole runs: H11Protocol serves the requests of a connection strictly one at a time.
   Invariant [Serial]: while the protocol holds a stream (self.stream is not None) on a connection that has not
   become a WebSocket, h11's view of the client is not IDLE, so h11 cannot deliver another Request; a Request it does
   deliver therefore finds the slot empty.  The invariant is carried through every step of every run - the reader's
   loop, the application's sends re-entering the protocol through stream_send, failing writes that re-enter
   through handle(Closed), recycling - by a small Hoare logic over the state/output/exception monad. *)
From Coq Require Import String Ascii ZArith NArith List Bool Lia.
From HV Require Import lib.Bytes lib.Obs lib.Monad model.Asgi model.AsgiSpec model.GuardTypes model.HttpStream model.WsStream model.LibH11
   model.H11Proto proofs.LibH11_proofs proofs.H11_proofs proofs.Hoare.
Import ListNotations.
Open Scope N_scope.



Definition Vn := ONote "h11-contract-violated".
Definition Rn := ONote "stream-replaced".

(* a stream event that, if it is a response head, announces Connection: close *)
Definition closing (e : sevent) : bool :=
  match e with EvResponse _ hs => has_token hs (B "connection") (B "close") | _ => true end.

Ltac solve_ne Hn := first [discriminate | (let s := fresh "s" in destruct Hn as [s ->]; discriminate)].
Ltac pres_step Hn Hset Hsend :=
  first
    [ apply pres_ret | apply pres_raise | apply pres_get | apply Hsend; reflexivity | apply Hsend
    | apply pres_emit; solve_ne Hn
    | apply pres_modify; intros; apply Hset; assumption
    | apply pres_when
    | apply pres_bind; [|intro]
    | match goal with |- pres _ _ _ (match ?x with _ => _ end) => destruct x end
    | match goal with |- pres _ _ _ (if ?x then _ else _) => destruct x end ].
Ltac pres_go Hn Hset Hsend := repeat (cbv beta iota zeta; pres_step Hn Hset Hsend).

(* The two stream automata preserve any invariant of the owning protocol that their own field updates and the
   protocol's stream_send preserve; they never emit a note.  handle() only ever sends closing events (its error
   answers carry Connection: close), so for it stream_send needs to preserve the invariant on those only. *)
Section GenericHttp.
  Context {P : Type}.
  Variable Rp : out.
  Hypothesis Rp_note : exists s, Rp = ONote s.
  Variable cfg : hcfg.
  Variable getS : P -> hstream.
  Variable setS : hstream -> P -> P.
  Variable I : P -> Prop.
  Hypothesis Hset : forall s p, I p -> I (setS s p).

  Lemma pres_http_stream_closed : pres Vn Rp I (http_stream_closed getS setS).
  Proof.
    unfold http_stream_closed, gets, set_closed, app_put, gets, upd. pres_go Rp_note Hset Hset.
  Qed.

  Variable psend : sevent -> M exn out P unit.

  Lemma pres_http_handle ev :
    (forall e, closing e = true -> pres Vn Rp I (psend e)) -> pres Vn Rp I (http_handle cfg getS setS psend ev).
  Proof.
    intro Hsend.
    unfold http_handle, http_stream_closed, send_error_response, gets, set_closed, set_scope, set_has_app, set_state, app_put, lift_res, gets, upd.
    pres_go Rp_note Hset Hsend.
  Qed.

  Lemma pres_http_app_send m : (forall e, pres Vn Rp I (psend e)) -> pres Vn Rp I (http_app_send cfg getS setS psend m).
  Proof.
    intro Hsend.
    unfold http_app_send, send_closed, send_error_response, gets, set_closed, set_response, set_scope, set_has_app, set_state, app_put, lift_res, gets, upd.
    pres_go Rp_note Hset Hsend.
  Qed.
End GenericHttp.

Section GenericWs.
  Context {P : Type}.
  Variable Rp : out.
  Hypothesis Rp_note : exists s, Rp = ONote s.
  Variable cfg : wcfg.
  Variable getS : P -> wstream.
  Variable setS : wstream -> P -> P.
  Variable I : P -> Prop.
  Hypothesis Hset : forall s p, I p -> I (setS s p).

  Ltac wunf := unfold ws_stream_closed, ws_send_error_response, ws_send_wsproto, wapp_put, wset_closed, wset_state, wset_has_app, wset_hk, wset_has_conn,
      wset_buffer, wset_close_code, wset_resp, wset_sends, wset_misc, wset, wlift, wgets, wupd.

  Lemma pres_ws_stream_closed : pres Vn Rp I (ws_stream_closed getS setS).
  Proof. wunf. pres_go Rp_note Hset Hset. Qed.

  Variable psend : sevent -> M exn out P unit.

  Section Closing.
    Hypothesis Hsend : forall e, closing e = true -> pres Vn Rp I (psend e).

    Lemma pres_ws_one_event e : pres Vn Rp I (ws_one_event cfg getS setS psend e).
    Proof. unfold ws_one_event. wunf. pres_go Rp_note Hset Hsend. Qed.

    Lemma pres_ws_handle_events evs : pres Vn Rp I (ws_handle_events cfg getS setS psend evs).
    Proof.
      induction evs as [|e r IH]; cbn [ws_handle_events]; [apply pres_ret|].
      apply pres_bind; [apply pres_ws_one_event|intros [|]; [apply pres_ret|exact IH]].
    Qed.

    Lemma pres_ws_handle i : pres Vn Rp I (ws_handle cfg getS setS psend i).
    Proof.
      unfold ws_handle. wunf.
      repeat (cbv beta iota zeta; first [apply pres_ws_handle_events | pres_step Rp_note Hset Hsend]).
    Qed.
  End Closing.

  Lemma pres_ws_app_send m : (forall e, pres Vn Rp I (psend e)) -> pres Vn Rp I (ws_app_send cfg getS setS psend m).
  Proof. intro Hsend. unfold ws_app_send. wunf. pres_go Rp_note Hset Hsend. Qed.
End GenericWs.

Lemma Rn_note : exists s, Rn = ONote s.
Proof. eexists; reflexivity. Qed.

Lemma recv_no_new_idle l e :
  (forall m t h v, e <> HRequest m t h v) ->
  is_idle (their_state (recv l e)) = true -> is_idle (their_state l) = true.
Proof.
  intros NR. unfold their_state. destruct e as [m t h v|d| | | | |hint]; cbn [recv]; try (intro H; exact H).
  - destruct (NR m t h v eq_refl).
  - destruct (process_event (l_cs l) true KData SwNone) as [c|] eqn:E; cbn [l_cs with_cs]; [apply (pe_facts _ _ _ _ _ E)|apply err_client_idle].
  - destruct (process_event (l_cs l) true KEndOfMessage SwNone) as [c|] eqn:E; cbn [l_cs with_cs]; [apply (pe_facts _ _ _ _ _ E)|apply err_client_idle].
  - destruct (process_event (l_cs l) true KConnectionClosed SwNone) as [c|] eqn:E; cbn [l_cs with_cs]; [apply (pe_facts _ _ _ _ _ E)|apply err_client_idle].
  - apply err_client_idle.
Qed.

Notation tri := (tri Vn Rn).
Notation pres := (pres Vn Rn).

Definition nonidle (p : h11p) : Prop := is_idle (their_state (p_lib p)) = false.
(* while a request's stream is held, h11's view of the client is not IDLE: no further Request can be delivered *)
Definition Serial (p : h11p) : Prop := p_ws_mode p = false -> p_stream_live p = true -> nonidle p.
Definition Dead0 (p : h11p) : Prop := p_stream_live p = false.
Definition Dead (p : h11p) : Prop := p_stream_live p = false /\ nonidle p.

Record stable (I : h11p -> Prop) : Prop := {
  st_lib : forall p l', I p -> (is_idle (their_state l') = true -> is_idle (their_state (p_lib p)) = true) -> I (set_lib l' p);
  st_slot_dead : forall p sl, I p -> I (set_slot sl false p);
  st_slot_same : forall p sl, I p -> I (set_slot sl (p_stream_live p) p);
  st_sends : forall p l, I p -> I (set_sends l p);
  st_writes : forall p l, I p -> I (set_writes l p);
  st_events : forall p l, I p -> I (set_events l p);
  st_can_read : forall p b, I p -> I (set_can_read b p);
  st_parked : forall p b, I p -> I (set_parked b p);
  st_terminated : forall p b, I p -> I (set_terminated b p);
  st_closed : forall p, I p -> I (set_closed true p) }.

Lemma nonidle_keep l l' : (is_idle (their_state l') = true -> is_idle (their_state l) = true) ->
  is_idle (their_state l) = false -> is_idle (their_state l') = false.
Proof. intros H N. destruct (is_idle (their_state l')); [rewrite H in N; [discriminate|reflexivity]|reflexivity]. Qed.

Lemma stable_Serial : stable Serial.
Proof.
  split; unfold Serial, nonidle; intros p; intros; cbn in *; auto.
  - eapply nonidle_keep; eauto.
  - discriminate.
Qed.
Lemma stable_Dead0 : stable Dead0.
Proof. split; unfold Dead0; intros p; intros; cbn in *; auto. Qed.
Lemma stable_Dead : stable Dead.
Proof.
  split; unfold Dead, nonidle; intros p; intros; cbn in *; auto.
  - destruct H. split; [assumption|eapply nonidle_keep; eauto].
  - tauto.
Qed.

Section Stable.
  Variable cfg : h11cfg.
  Variable I : h11p -> Prop.
  Hypothesis SI : stable I.

  Lemma put_h_ok s p : I p -> I (put_h s p).
  Proof. unfold put_h. apply st_slot_same, SI. Qed.
  Lemma put_w_ok s p : I p -> I (put_w s p).
  Proof. unfold put_w. apply st_slot_same, SI. Qed.

  Lemma pres_stream_closed : pres I stream_closed.
  Proof.
    unfold stream_closed. apply pres_bind; [apply pres_get|intro p0].
    destruct (p_slot p0); [apply pres_ret|apply pres_http_stream_closed; [apply Rn_note|apply put_h_ok]|apply pres_ws_stream_closed; [apply Rn_note|apply put_w_ok]].
  Qed.

  Lemma close_stream_post : tri I close_stream (fun _ p => I p /\ p_stream_live p = false) I.
  Proof.
    unfold close_stream. apply tri_bind_get. intro p0. destruct (p_stream_live p0) eqn:L.
    - eapply tri_bind with (Mid := fun _ => I).
      + eapply tri_conseq; [apply pres_stream_closed| | |]; cbn; tauto.
      + intros _. apply tri_modify. intros p Hp. split; [apply st_slot_dead; assumption|reflexivity].
    - apply tri_ret. intros p [Hp Ep]. subst p. auto.
  Qed.
  Lemma pres_close_stream : pres I close_stream.
  Proof. eapply tri_conseq; [apply close_stream_post| | |]; cbn; tauto. Qed.

  Lemma pres_handle_closed : pres I handle_closed.
  Proof.
    unfold handle_closed.
    apply pres_bind; [apply pres_modify; intros; apply st_closed; assumption|intros ?].
    apply pres_bind; [apply pres_get|intro p0].
    apply pres_bind; [destruct (p_stream_live p0); [apply pres_close_stream|apply pres_ret]|intros ?].
    apply pres_bind; [apply pres_modify; intros; apply st_can_read; assumption|intros ?].
    apply pres_emit; discriminate.
  Qed.

  Lemma pres_srv_send e : pres I (srv_send e).
  Proof.
    unfold srv_send. apply pres_bind; [apply pres_emit; discriminate|intros _].
    destruct e; try apply pres_ret.
    apply pres_bind; [apply pres_get|intro p0].
    destruct (p_writes p0) as [|[|] rest]; [apply pres_ret| |].
    - apply pres_modify. intros. apply st_writes; assumption.
    - apply pres_bind; [apply pres_modify; intros; apply st_writes; assumption|intros _; apply pres_handle_closed].
  Qed.

  Lemma pres_send_h11_event e : pres I (send_h11_event e).
  Proof.
    unfold send_h11_event. apply tri_bind_get. intro p0.
    eapply tri_bind with (Mid := fun _ p => I p /\ p = p0). { apply tri_emit; [discriminate|auto]. } intros _.
    destruct (match p_sends p0 with [] => (Some [], []) | a :: r => (a, r) end) as [answer rest].
    eapply tri_bind with (Mid := fun _ p => I p /\ p_lib p = p_lib p0).
    { apply tri_modify. intros p [Hp Ep]. subst p. split; [apply st_sends; assumption|reflexivity]. } intros _.
    assert (LIB : forall ok, tri (fun p => I p /\ p_lib p = p_lib p0) (modify (set_lib (fst (LibH11.send (p_lib p0) e ok)))) (fun _ => I) I).
    { intro ok. apply tri_modify. intros p [Hp El]. apply st_lib; [exact SI|exact Hp|]. rewrite El. apply send_no_new_idle. }
    destruct (p_ws_mode p0).
    - destruct (LibH11.send (p_lib p0) e _) as [lib' ok] eqn:E.
      eapply tri_bind; [specialize (LIB (match answer with Some _ => true | None => false end)); rewrite E in LIB; exact LIB|intro].
      destruct ok; [apply pres_srv_send|apply pres_raise].
    - destruct (LibH11.send (p_lib p0) e _) as [lib' ok] eqn:E.
      eapply tri_bind; [specialize (LIB (match answer with Some _ => true | None => false end)); rewrite E in LIB; exact LIB|intro].
      apply pres_bind; [apply pres_emit; discriminate|intros _].
      destruct ok; [apply pres_srv_send|]. destruct (h1state_eqb _ _); [apply pres_ret|apply pres_raise].
  Qed.

  Lemma pres_send_error_response st : pres I (send_error_response cfg st).
  Proof. unfold send_error_response. apply pres_bind; [apply pres_send_h11_event|intros _; apply pres_send_h11_event]. Qed.

  Lemma pres_check_protocol m t h v : pres I (check_protocol cfg m t h v).
  Proof.
    unfold check_protocol. destruct (h2c_requested h).
    - apply pres_bind; [apply pres_send_h11_event|intros _; apply pres_raise].
    - destruct (_ && _); [apply pres_raise|apply pres_ret].
  Qed.
End Stable.




Lemma Dead0_Serial p : Dead0 p -> Serial p.
Proof. unfold Dead0, Serial. intros H _ L. rewrite H in L. discriminate. Qed.
Lemma Dead_Serial p : Dead p -> Serial p.
Proof. intros [H _]. apply Dead0_Serial, H. Qed.

Section Run.
  Variable cfg : h11cfg.

  Lemma pres_maybe_recycle : pres Serial (maybe_recycle).
  Proof.
    unfold maybe_recycle.
    eapply tri_bind; [apply (close_stream_post Serial stable_Serial)|intros ?].
    eapply tri_conseq with (Pre' := Dead0) (Q' := fun _ => Dead0) (R' := Dead0);
      [|intros p [_ H]; exact H|intros _ p; apply Dead0_Serial|apply Dead0_Serial].
    apply pres_bind; [apply pres_get|intro p0].
    destruct (_ && _).
    - destruct (next_cycle (p_lib p0)) as [lib'|].
      + apply pres_bind; [apply pres_emit; discriminate|intros ?].
        apply pres_bind; [apply pres_modify; unfold Dead0; intros; assumption|intros ?].
        apply pres_bind; [apply pres_modify; unfold Dead0; intros; assumption|intros ?].
        apply pres_bind; [apply pres_emit; discriminate|intros ?].
        apply pres_srv_send, stable_Dead0.
      + apply pres_bind; [apply pres_emit; discriminate|intros ?]. apply pres_srv_send, stable_Dead0.
    - apply pres_bind; [apply pres_modify; unfold Dead0; intros; assumption|intros ?].
      apply pres_bind; [apply pres_modify; unfold Dead0; intros; assumption|intros ?].
      apply pres_bind; [apply pres_emit; discriminate|intros ?]. apply pres_srv_send, stable_Dead0.
  Qed.

  Lemma pres_stream_send ev : pres Serial (stream_send cfg ev).
  Proof.
    unfold stream_send. apply pres_bind; [apply pres_get|intro p0].
    destruct ev; try apply pres_ret; try (apply pres_send_h11_event, stable_Serial);
      try (apply pres_srv_send, stable_Serial); try apply pres_maybe_recycle.
    destruct (200 <=? status)%Z; apply pres_send_h11_event, stable_Serial.
  Qed.

  Variable stream_headers : list header -> list header.
  Variable ws_token : list header -> bytes.
  Variable ws_ext : option bytes.
  Variable ws_sends : list (option bytes).

  Lemma pres_http_handle_S ev : pres Serial (http_handle (c_http cfg) get_h put_h (stream_send cfg) ev).
  Proof. apply pres_http_handle; [apply Rn_note|intros; apply put_h_ok; [apply stable_Serial|assumption]|intros; apply pres_stream_send]. Qed.
  Lemma pres_ws_handle_S i : pres Serial (ws_handle (c_ws cfg) get_w put_w (stream_send cfg) i).
  Proof. apply pres_ws_handle; [apply Rn_note|intros; apply put_w_ok; [apply stable_Serial|assumption]|intros; apply pres_stream_send]. Qed.
  Lemma pres_http_app_send_S m : pres Serial (http_app_send (c_http cfg) get_h put_h (stream_send cfg) m).
  Proof. apply pres_http_app_send; [apply Rn_note|intros; apply put_h_ok; [apply stable_Serial|assumption]|intros; apply pres_stream_send]. Qed.
  Lemma pres_ws_app_send_S m : pres Serial (ws_app_send (c_ws cfg) get_w put_w (stream_send cfg) m).
  Proof. apply pres_ws_app_send; [apply Rn_note|intros; apply put_w_ok; [apply stable_Serial|assumption]|intros; apply pres_stream_send]. Qed.

  (* a stream is created over an empty slot, and from then on the slot is guarded by h11's state *)
  Lemma create_stream_tri m t h v :
    tri Dead (create_stream cfg stream_headers ws_token ws_ext ws_sends m t h v) (fun _ => Serial) Serial.
  Proof.
    unfold create_stream. apply tri_bind_get. intro p0.
    eapply tri_bind with (Mid := fun _ => Dead).
    { destruct (p_stream_live p0) eqn:L.
      - apply tri_pre_false. intros p [[D _] E]. subst p. unfold Dead0 in D. congruence.
      - apply tri_ret. tauto. }
    intros ?.
    eapply tri_bind with (Mid := fun _ => Dead).
    { destruct (_ && _); [apply tri_emit; [discriminate|auto]|apply tri_ret; auto]. }
    intros ?.
    eapply tri_bind with (Mid := fun _ => Serial).
    - destruct (wants_websocket m h).
      + eapply tri_bind with (Mid := fun _ => Serial).
        { apply tri_modify. intros p [D N] _ _. exact N. }
        intros ?. eapply tri_bind with (Mid := fun _ => Serial).
        { apply tri_modify. intros p _. unfold Serial. cbn. discriminate. }
        intros ?. eapply tri_conseq; [apply pres_ws_handle_S| | |]; cbn; auto.
      + eapply tri_bind with (Mid := fun _ => Dead).
        { destruct (is_ascii m); [apply tri_ret; auto|apply tri_raise; apply Dead_Serial]. }
        intros ?. eapply tri_bind with (Mid := fun _ => Serial).
        { apply tri_modify. intros p [D N] _ _. exact N. }
        intros ?. eapply tri_conseq; [apply pres_http_handle_S| | |]; cbn; auto.
    - intros ?. apply pres_bind; [apply pres_modify; unfold Serial; cbn; auto|intros ?].
      apply pres_emit. discriminate.
  Qed.
End Run.



Section Run.
  Variable cfg : h11cfg.
  Variable stream_headers : list header -> list header.
  Variable ws_token : list header -> bytes.
  Variable ws_ext : option bytes.
  Variable ws_sends : list (option bytes).

  Definition is_request (e : h11ev) : bool := match e with HRequest _ _ _ _ => true | _ => false end.

  (* receiving an event the parser contract allows: the invariant survives, and a Request finds the slot empty *)
  Lemma recv_step e p1 rest :
    tri (fun p => Serial p /\ p = set_events rest p1)
      (if p_ws_mode p1
       then match e with HNeedData => ret tt | _ => emit (ONote "h11-contract-violated") end
       else (if event_allowed (p_lib p1) e then ret tt else emit (ONote "h11-contract-violated")) ;;
            (if is_request_ev e && negb (cs_keep_alive (l_cs (p_lib p1))) then note "request-after-close" else ret tt) ;;
            modify (fun p => set_lib (recv (p_lib p) e) p) ;;
            p <- get ;; emit (OLib [VS "states"; v_of_h1state (our_state (p_lib p)); v_of_h1state (their_state (p_lib p))]))%M
      (fun _ p => Serial p /\ (is_request e = true -> Dead p)) Serial.
  Proof.
    destruct (p_ws_mode p1) eqn:W.
    - destruct e; try apply tri_emit_V. apply tri_ret. intros p [Hp _]. split; [exact Hp|discriminate].
    - destruct (event_allowed (p_lib p1) e) eqn:RP0.
      2:{ eapply tri_bind with (Mid := fun _ _ => False); [apply tri_emit_V|intros ?; apply tri_pre_false; intros p []].  }
      assert (RP : recv_possible (p_lib p1) e = true) by (unfold event_allowed in RP0; apply andb_true_iff in RP0; tauto). clear RP0.
      eapply tri_bind with (Mid := fun _ p => Serial p /\ p = set_events rest p1); [apply tri_ret; auto|intros ?].
      eapply tri_bind with (Mid := fun _ p => Serial p /\ p = set_events rest p1).
      { destruct (_ && negb _); [apply tri_emit; [discriminate|auto]|apply tri_ret; auto]. }
      intros ?.
      eapply tri_bind with (Mid := fun _ p => Serial p /\ (is_request e = true -> Dead p)).
      + apply tri_modify. intros p [Hp Ep]. subst p. set (p0 := set_events rest p1) in *.
        assert (EL : p_lib p0 = p_lib p1) by reflexivity. assert (W0 : p_ws_mode p0 = false) by exact W.
        rewrite <- EL in RP. clearbody p0.
        destruct (is_request e) eqn:RQ.
        * destruct e as [method target headers http_version| | | | | |]; try discriminate. apply recv_request_facts in RP as [TI NI].
          assert (D : Dead (set_lib (recv (p_lib p0) (HRequest method target headers http_version)) p0)).
          { split; [|exact NI]. cbn. destruct (p_stream_live p0) eqn:L; [|reflexivity].
            specialize (Hp W0 L). unfold nonidle in Hp. rewrite TI in Hp. discriminate. }
          split; [apply Dead_Serial, D|intros _; exact D].
        * split; [|discriminate]. apply (st_lib _ stable_Serial); [exact Hp|].
          apply recv_no_new_idle. intros m t h v ->. discriminate.
      + intros ?. eapply tri_bind with (Mid := fun _ p => Serial p /\ (is_request e = true -> Dead p)); [apply tri_get; auto|intros ?].
        apply tri_emit; [discriminate|auto].
  Qed.

  Lemma handle_one_tri : tri Serial (handle_one cfg stream_headers ws_token ws_ext ws_sends) (fun _ => Serial) Serial.
  Proof.
    unfold handle_one. apply tri_bind_get. intro p0.
    destruct (p_closed p0 || last_response_in_progress p0); [apply tri_ret; tauto|].
    eapply tri_bind with (Mid := fun _ => Serial).
    { eapply tri_conseq with (Pre' := Serial) (Q' := fun _ => Serial) (R' := Serial); [|tauto|auto|auto].
      destruct (_ && _); [apply pres_send_h11_event, stable_Serial|apply pres_ret]. }
    intros ?. apply tri_bind_get. intro p1.
    destruct (p_events p1) as [|[e|evs] rest].
    - eapply tri_bind with (Mid := fun _ => Serial); [apply tri_emit; [discriminate|tauto]|intros ?; apply pres_ret].
    - eapply tri_bind with (Mid := fun _ p => Serial p /\ p = set_events rest p1).
      { apply tri_modify. intros p [Hp Ep]. subst p. split; [apply (st_events _ stable_Serial), Hp|reflexivity]. }
      intros ?. eapply tri_bind with (Mid := fun _ p => Serial p /\ p = set_events rest p1); [apply tri_emit; [discriminate|auto]|intros ?].
      eapply tri_bind; [apply recv_step|intros ?].
      destruct e as [method target headers http_version|d| | | | |hint].
      + (* Request *)
        eapply tri_conseq with (Pre' := Dead) (Q' := fun _ => Serial) (R' := Serial); [|intros p [_ D]; apply D; reflexivity|auto|auto].
        eapply tri_bind with (Mid := fun _ => Dead).
        { eapply tri_conseq; [apply (pres_srv_send Dead stable_Dead)|auto|auto|apply Dead_Serial]. }
        intros ?. eapply tri_bind with (Mid := fun _ => Dead).
        { eapply tri_conseq; [apply (pres_check_protocol cfg Dead stable_Dead)|auto|auto|apply Dead_Serial]. }
        intros ?. eapply tri_bind; [apply create_stream_tri|intros ?; apply pres_ret].
      + (* Data *)
        eapply tri_conseq with (Pre' := Serial) (Q' := fun _ => Serial) (R' := Serial); [|tauto|auto|auto].
        apply pres_bind; [apply pres_get|intro p2]. destruct (negb _); [apply pres_ret|].
        apply pres_bind; [|intros ?; apply pres_ret].
        destruct (p_slot p2); [apply pres_ret|apply pres_http_handle_S|apply pres_ws_handle_S].
      + (* EndOfMessage *)
        eapply tri_conseq with (Pre' := Serial) (Q' := fun _ => Serial) (R' := Serial); [|tauto|auto|auto].
        apply pres_bind; [apply pres_get|intro p2]. destruct (negb _); [apply pres_ret|].
        apply pres_bind; [|intros ?; apply pres_ret].
        destruct (p_slot p2); [apply pres_ret|apply pres_http_handle_S|apply pres_ret].
      + eapply tri_conseq with (Pre' := Serial) (Q' := fun _ => Serial) (R' := Serial); [apply pres_ret|tauto|auto|auto].
      + eapply tri_conseq with (Pre' := Serial) (Q' := fun _ => Serial) (R' := Serial); [apply pres_ret|tauto|auto|auto].
      + (* PAUSED *)
        eapply tri_conseq with (Pre' := Serial) (Q' := fun _ => Serial) (R' := Serial); [|tauto|auto|auto].
        apply pres_bind; [apply pres_modify; intros; apply (st_can_read _ stable_Serial); assumption|intros ?].
        apply pres_bind; [apply pres_emit; discriminate|intros ?].
        apply pres_bind; [apply pres_emit; discriminate|intros ?].
        apply pres_bind; [apply pres_modify; intros; apply (st_parked _ stable_Serial); assumption|intros ?]. apply pres_ret.
      + (* RemoteProtocolError *)
        eapply tri_conseq with (Pre' := Serial) (Q' := fun _ => Serial) (R' := Serial); [|tauto|auto|auto].
        apply pres_bind; [apply pres_get|intro p2].
        apply pres_bind; [destruct (_ || _); [apply pres_send_error_response, stable_Serial|apply pres_ret]|intros ?].
        apply pres_bind; [apply pres_srv_send, stable_Serial|intros ?; apply pres_ret].
    - (* WebSocket data *)
      eapply tri_conseq with (Pre' := Serial) (Q' := fun _ => Serial) (R' := Serial); [|tauto|auto|auto].
      apply pres_bind; [apply pres_modify; intros; apply (st_events _ stable_Serial); assumption|intros ?].
      apply pres_bind; [apply pres_emit; discriminate|intros ?].
      apply pres_bind; [apply pres_get|intro p2]. destruct (negb _); [apply pres_ret|].
      apply pres_bind; [|intros ?; apply pres_ret].
      destruct (p_slot p2); [apply pres_ret|apply pres_ret|apply pres_ws_handle_S].
  Qed.

  Lemma handle_events_pres fuel : pres Serial (handle_events cfg stream_headers ws_token ws_ext ws_sends fuel).
  Proof.
    induction fuel as [|f IH]; cbn [handle_events]; [apply pres_emit; discriminate|].
    apply pres_bind; [apply handle_one_tri|intros [|]; [apply pres_ret|exact IH]].
  Qed.

  Lemma resume_pres evs : pres Serial (resume_if_ready cfg stream_headers ws_token ws_ext ws_sends evs).
  Proof.
    unfold resume_if_ready. apply pres_bind; [apply pres_get|intro p0]. destruct (_ && _); [|apply pres_ret].
    apply pres_bind; [apply pres_modify; intros; apply (st_parked _ stable_Serial); assumption|intros ?].
    apply pres_bind; [apply pres_emit; discriminate|intros ?].
    apply pres_bind; [apply pres_modify; intros; apply (st_events _ stable_Serial); assumption|intros ?].
    apply handle_events_pres.
  Qed.

  Definition step_ok (p : h11p) (x : h11p * list out * result (E:=exn) unit) : Prop :=
    In Vn (snd (fst x)) \/ (~ In Rn (snd (fst x)) /\ Serial (fst (fst x))).

  Lemma pres_step_ok (m : M exn out h11p unit) p : pres Serial m -> Serial p -> step_ok p (m p).
  Proof.
    intros H Hp. specialize (H p Hp). unfold post, good in H. unfold step_ok.
    destruct (m p) as [[p1 o1] r1]. cbn [fst snd] in *. destruct H as [H|[H1 H2]]; [left; exact H|right; split; [exact H1|]].
    destruct r1; exact H2.
  Qed.

  Lemma proto_step_ok i p : Serial p -> step_ok p (proto_step cfg stream_headers ws_token ws_ext ws_sends i p).
  Proof.
    intro Hp. destruct i as [evs| |m evs|].
    - apply pres_step_ok; [|exact Hp]. cbn [proto_step].
      apply pres_bind; [apply pres_get|intro p0]. destruct (p_closed p0 || last_response_in_progress p0); [apply pres_ret|].
      apply pres_bind; [apply pres_emit; discriminate|intros ?].
      apply pres_bind; [apply pres_modify; intros; apply (st_events _ stable_Serial); assumption|intros ?].
      apply handle_events_pres.
    - apply pres_step_ok; [|exact Hp]. cbn [proto_step].
      apply pres_bind; [apply pres_handle_closed, stable_Serial|intros ?; apply resume_pres].
    - cbn [proto_step].
      assert (A : pres Serial (match p_slot p with
             | SlotHttp _ => http_app_send (c_http cfg) get_h put_h (stream_send cfg) m
             | SlotWs _ => ws_app_send (c_ws cfg) get_w put_w (stream_send cfg) m
             | SlotNone => ret tt end)).
      { destruct (p_slot p); [apply pres_ret|apply pres_http_app_send_S|apply pres_ws_app_send_S]. }
      apply pres_step_ok with (p := p) in A; [|exact Hp]. unfold step_ok in *.
      match type of A with context [snd (fst ?x)] => destruct x as [[p1 o1] r1] end. cbn [fst snd] in A.
      destruct A as [A|[A1 A2]].
      + destruct (resume_if_ready _ _ _ _ _ evs p1) as [[p2 o2] r2]. cbn [fst snd]. left. apply in_or_app. auto.
      + pose proof (pres_step_ok _ p1 (resume_pres evs) A2) as B. unfold step_ok in B.
        destruct (resume_if_ready _ _ _ _ _ evs p1) as [[p2 o2] r2]. cbn [fst snd] in *.
        destruct B as [B|[B1 B2]]; [left; apply in_or_app; right; apply in_or_app; auto|].
        right. split; [|exact B2]. intro X. apply in_app_or in X as [X|X]; [auto|].
        apply in_app_or in X as [X|X]; [auto|]. destruct r2; [destruct X|]. destruct X as [X|[]]. discriminate.
    - apply pres_step_ok; [|exact Hp]. cbn [proto_step]. apply pres_modify; intros; apply (st_terminated _ stable_Serial); assumption.
  Qed.

  (* every run: unless the event oracle breaks the parser's contract, the stream slot is never overwritten *)
  Theorem serial_run p is :
    Serial p ->
    let outs := concat (map fst (proto_run cfg stream_headers ws_token ws_ext ws_sends p is)) in
    In Vn outs \/ ~ In Rn outs.
  Proof.
    revert p. induction is as [|i is IH]; intros p Hp; cbn [proto_run map concat]; [right; intros []|].
    pose proof (proto_step_ok i p Hp) as S. unfold step_ok in S.
    destruct (proto_step _ _ _ _ _ i p) as [[p1 o1] r1]. cbn [fst snd map concat] in *.
    destruct S as [S|[S1 S2]]; [left; apply in_or_app; auto|].
    destruct (IH p1 S2) as [T|T]; [left; apply in_or_app; auto|].
    right. intro X. apply in_app_or in X as [X|X]; auto.
  Qed.

  Lemma Serial_init sends writes : Serial (p_init sends writes).
  Proof. unfold Serial. cbn. discriminate. Qed.
End Run.
