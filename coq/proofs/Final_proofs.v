(* Whole runs of H11Protocol for invariants that no field update can break ("flags"): a property of the protocol
   state that every setter of the model preserves is preserved by every step of every run - the reader's loop, the
   application's sends re-entering through stream_send, failing writes re-entering through handle(Closed), recycling.
   Instance: once the protocol is closed it stays closed (and, by H11_proofs.closed_ignores_input, deaf).
   The Hoare logic is instantiated with a forbidden marker that the model never emits, so that only the "contract
   violated" escape remains. *)
From Coq Require Import String Ascii ZArith NArith List Bool Lia.
From HV Require Import lib.Bytes lib.Obs lib.Monad model.Asgi model.AsgiSpec model.GuardTypes model.HttpStream model.WsStream model.LibH11
   model.H11Proto proofs.LibH11_proofs proofs.H11_proofs proofs.Hoare proofs.Serial_proofs.
Import ListNotations.
Open Scope N_scope.

Definition Fn := ONote "no-such-note".
Lemma Fn_note : exists s, Fn = ONote s.
Proof. eexists. reflexivity. Qed.
Notation tri := (Hoare.tri Vn Fn).
Notation pres := (Hoare.pres Vn Fn).

(* the generic part of Serial_proofs, for the other marker *)
Section StableF.
  Variable cfg : h11cfg.
  Variable I : h11p -> Prop.
  Hypothesis SI : stable I.

  Lemma g_put_h_ok s p : I p -> I (put_h s p).
  Proof. unfold put_h. apply st_slot_same, SI. Qed.
  Lemma g_put_w_ok s p : I p -> I (put_w s p).
  Proof. unfold put_w. apply st_slot_same, SI. Qed.

  Lemma g_pres_stream_closed : pres I stream_closed.
  Proof.
    unfold stream_closed. apply pres_bind; [apply pres_get|intro p0].
    destruct (p_slot p0); [apply pres_ret|apply pres_http_stream_closed; [apply Fn_note|apply g_put_h_ok]|apply pres_ws_stream_closed; [apply Fn_note|apply g_put_w_ok]].
  Qed.

  Lemma g_close_stream_post : tri I close_stream (fun _ p => I p /\ p_stream_live p = false) I.
  Proof.
    unfold close_stream. apply tri_bind_get. intro p0. destruct (p_stream_live p0) eqn:L.
    - eapply tri_bind with (Mid := fun _ => I).
      + eapply tri_conseq; [apply g_pres_stream_closed| | |]; cbn; tauto.
      + intros _. apply tri_modify. intros p Hp. split; [apply st_slot_dead; assumption|reflexivity].
    - apply tri_ret. intros p [Hp Ep]. subst p. auto.
  Qed.
  Lemma g_pres_close_stream : pres I close_stream.
  Proof. eapply tri_conseq; [apply g_close_stream_post| | |]; cbn; tauto. Qed.

  Lemma g_pres_handle_closed : pres I handle_closed.
  Proof.
    unfold handle_closed.
    apply pres_bind; [apply pres_modify; intros; apply st_closed; assumption|intros ?].
    apply pres_bind; [apply pres_get|intro p0].
    apply pres_bind; [destruct (p_stream_live p0); [apply g_pres_close_stream|apply pres_ret]|intros ?].
    apply pres_bind; [apply pres_modify; intros; apply st_can_read; assumption|intros ?].
    apply pres_emit; discriminate.
  Qed.

  Lemma g_pres_srv_send e : pres I (srv_send e).
  Proof.
    unfold srv_send. apply pres_bind; [apply pres_emit; discriminate|intros _].
    destruct e; try apply pres_ret.
    apply pres_bind; [apply pres_get|intro p0].
    destruct (p_writes p0) as [|[|] rest]; [apply pres_ret| |].
    - apply pres_modify. intros. apply st_writes; assumption.
    - apply pres_bind; [apply pres_modify; intros; apply st_writes; assumption|intros _; apply g_pres_handle_closed].
  Qed.

  Lemma g_pres_send_h11_event e : pres I (send_h11_event e).
  Proof.
    unfold send_h11_event. apply tri_bind_get. intro p0.
    eapply tri_bind with (Mid := fun _ p => I p /\ p = p0). { apply tri_emit; [discriminate|auto]. } intros _.
    destruct (match p_sends p0 with [] => (Some [], []) | a :: r => (a, r) end) as [answer rest].
    eapply tri_bind with (Mid := fun _ p => I p /\ p_lib p = p_lib p0).
    { apply tri_modify. intros p [Hp Ep]. subst p. split; [apply st_sends; assumption|reflexivity]. } intros _.
    assert (LIB : forall ok, tri (fun p => I p /\ p_lib p = p_lib p0) (modify (set_lib (fst (LibH11.send (p_lib p0) e ok)))) (fun _ => I) I).
    { intro ok. apply tri_modify. intros p [Hp El]. apply st_lib; [exact SI|exact Hp|]. rewrite El. apply send_no_new_idle. }
    destruct (p_ws_mode p0).
    - destruct (LibH11.send (p_lib p0) e _) as [lib' ok] eqn:E.
      eapply tri_bind; [specialize (LIB (match answer with Some _ => true | None => false end)); rewrite E in LIB; exact LIB|intro].
      destruct ok; [apply g_pres_srv_send|apply pres_raise].
    - destruct (LibH11.send (p_lib p0) e _) as [lib' ok] eqn:E.
      eapply tri_bind; [specialize (LIB (match answer with Some _ => true | None => false end)); rewrite E in LIB; exact LIB|intro].
      apply pres_bind; [apply pres_emit; discriminate|intros _].
      destruct ok; [apply g_pres_srv_send|]. destruct (h1state_eqb _ _); [apply pres_ret|apply pres_raise].
  Qed.

  Lemma g_pres_send_error_response st : pres I (send_error_response cfg st).
  Proof. unfold send_error_response. apply pres_bind; [apply g_pres_send_h11_event|intros _; apply g_pres_send_h11_event]. Qed.

  Lemma g_pres_check_protocol m t h v : pres I (check_protocol cfg m t h v).
  Proof.
    unfold check_protocol. destruct (h2c_requested h).
    - apply pres_bind; [apply g_pres_send_h11_event|intros _; apply pres_raise].
    - destruct (_ && _); [apply pres_raise|apply pres_ret].
  Qed.
End StableF.

Record flag (I : h11p -> Prop) : Prop := {
  fl_stable : stable I;
  fl_lib : forall p l, I p -> I (set_lib l p);
  fl_slot : forall p sl live, I p -> I (set_slot sl live p);
  fl_wsmode : forall p b, I p -> I (set_wsmode b p);
  fl_requests : forall p n, I p -> I (set_requests n p) }.

Section Flag.
  Variable cfg : h11cfg.
  Variable stream_headers : list header -> list header.
  Variable ws_token : list header -> bytes.
  Variable ws_ext : option bytes.
  Variable ws_sends : list (option bytes).
  Variable I : h11p -> Prop.
  Hypothesis FI : flag I.

  Let SI : stable I := fl_stable I FI.

  Lemma f_maybe_recycle : pres I maybe_recycle.
  Proof.
    unfold maybe_recycle. apply pres_bind; [apply g_pres_close_stream, SI|intros ?].
    apply pres_bind; [apply pres_get|intro p0].
    destruct (_ && _).
    - destruct (next_cycle (p_lib p0)) as [lib'|].
      + apply pres_bind; [apply pres_emit; discriminate|intros ?].
        apply pres_bind; [apply pres_modify; intros; apply (fl_lib I FI); assumption|intros ?].
        apply pres_bind; [apply pres_modify; intros; apply (st_can_read I SI); assumption|intros ?].
        apply pres_bind; [apply pres_emit; discriminate|intros ?].
        apply g_pres_srv_send, SI.
      + apply pres_bind; [apply pres_emit; discriminate|intros ?]. apply g_pres_srv_send, SI.
    - apply pres_bind; [apply pres_modify; intros; apply (st_closed I SI); assumption|intros ?].
      apply pres_bind; [apply pres_modify; intros; apply (st_can_read I SI); assumption|intros ?].
      apply pres_bind; [apply pres_emit; discriminate|intros ?]. apply g_pres_srv_send, SI.
  Qed.

  Lemma f_stream_send ev : pres I (stream_send cfg ev).
  Proof.
    unfold stream_send. apply pres_bind; [apply pres_get|intro p0].
    destruct ev; try apply pres_ret; try (apply g_pres_send_h11_event, SI);
      try (apply g_pres_srv_send, SI); try apply f_maybe_recycle.
    destruct (200 <=? status)%Z; apply g_pres_send_h11_event, SI.
  Qed.

  Lemma f_http_handle ev : pres I (http_handle (c_http cfg) get_h put_h (stream_send cfg) ev).
  Proof. apply pres_http_handle; [apply Fn_note|intros; apply g_put_h_ok; [exact SI|assumption]|intros; apply f_stream_send]. Qed.
  Lemma f_ws_handle i : pres I (ws_handle (c_ws cfg) get_w put_w (stream_send cfg) i).
  Proof. apply pres_ws_handle; [apply Fn_note|intros; apply g_put_w_ok; [exact SI|assumption]|intros; apply f_stream_send]. Qed.
  Lemma f_http_app_send m : pres I (http_app_send (c_http cfg) get_h put_h (stream_send cfg) m).
  Proof. apply pres_http_app_send; [apply Fn_note|intros; apply g_put_h_ok; [exact SI|assumption]|intros; apply f_stream_send]. Qed.
  Lemma f_ws_app_send m : pres I (ws_app_send (c_ws cfg) get_w put_w (stream_send cfg) m).
  Proof. apply pres_ws_app_send; [apply Fn_note|intros; apply g_put_w_ok; [exact SI|assumption]|intros; apply f_stream_send]. Qed.

  Lemma f_create_stream m t h v : pres I (create_stream cfg stream_headers ws_token ws_ext ws_sends m t h v).
  Proof.
    unfold create_stream. apply pres_bind; [apply pres_get|intro p0].
    apply pres_bind; [destruct (p_stream_live p0); [apply pres_emit; discriminate|apply pres_ret]|intros ?].
    apply pres_bind; [destruct (_ && _); [apply pres_emit; discriminate|apply pres_ret]|intros ?].
    apply pres_bind.
    - destruct (wants_websocket m h).
      + apply pres_bind; [apply pres_modify; intros; apply (fl_slot I FI); assumption|intros ?].
        apply pres_bind; [apply pres_modify; intros; apply (fl_wsmode I FI); assumption|intros ?].
        apply f_ws_handle.
      + apply pres_bind; [destruct (is_ascii m); [apply pres_ret|apply pres_raise]|intros ?].
        apply pres_bind; [apply pres_modify; intros; apply (fl_slot I FI); assumption|intros ?].
        apply f_http_handle.
    - intros ?. apply pres_bind; [apply pres_modify; intros; apply (fl_requests I FI); assumption|intros ?].
      apply pres_emit. discriminate.
  Qed.

  Ltac fmod := apply pres_modify; intros;
    first [apply (st_events I SI) | apply (st_can_read I SI) | apply (st_parked I SI) | apply (st_terminated I SI)
          | apply (st_sends I SI) | apply (st_writes I SI) | apply (fl_lib I FI) | apply (fl_slot I FI)
          | apply (fl_wsmode I FI) | apply (fl_requests I FI)]; assumption.
  Ltac fstep :=
    first
      [ apply pres_ret | apply pres_raise | apply pres_get | apply pres_emit; discriminate | fmod
      | apply (g_pres_send_h11_event I SI) | apply (g_pres_srv_send I SI) | apply (g_pres_send_error_response cfg I SI)
      | apply (g_pres_check_protocol cfg I SI) | apply f_create_stream | apply f_http_handle | apply f_ws_handle
      | apply pres_bind; [|intro]
      | match goal with |- Hoare.pres _ _ _ (match ?x with _ => _ end) => destruct x end
      | match goal with |- Hoare.pres _ _ _ (if ?x then _ else _) => destruct x end ].
  Ltac fgo := repeat (cbv beta iota zeta; fstep).

  Lemma f_handle_one : pres I (handle_one cfg stream_headers ws_token ws_ext ws_sends).
  Proof. unfold handle_one, note. fgo. Qed.

  Lemma f_handle_events fuel : pres I (handle_events cfg stream_headers ws_token ws_ext ws_sends fuel).
  Proof.
    induction fuel as [|f IH]; cbn [handle_events]; [apply pres_emit; discriminate|].
    apply pres_bind; [apply f_handle_one|intros [|]; [apply pres_ret|exact IH]].
  Qed.

  Lemma f_resume evs : pres I (resume_if_ready cfg stream_headers ws_token ws_ext ws_sends evs).
  Proof.
    unfold resume_if_ready, note. apply pres_bind; [apply pres_get|intro p0]. destruct (_ && _); [|apply pres_ret].
    apply pres_bind; [fmod|intros ?]. apply pres_bind; [apply pres_emit; discriminate|intros ?].
    apply pres_bind; [fmod|intros ?]. apply f_handle_events.
  Qed.

  Definition fstep_ok (x : h11p * list out * result (E:=exn) unit) : Prop :=
    In Vn (snd (fst x)) \/ I (fst (fst x)).

  Lemma pres_fstep_ok (m : M exn out h11p unit) p : pres I m -> I p -> fstep_ok (m p).
  Proof.
    intros H Hp. specialize (H p Hp). unfold post, good in H. unfold fstep_ok.
    destruct (m p) as [[p1 o1] r1]. cbn [fst snd] in *. destruct H as [H|[H1 H2]]; [left; exact H|right].
    destruct r1; exact H2.
  Qed.

  Lemma f_proto_step i p : I p -> fstep_ok (proto_step cfg stream_headers ws_token ws_ext ws_sends i p).
  Proof.
    intro Hp. destruct i as [evs| |m evs|].
    - apply pres_fstep_ok; [|exact Hp]. cbn [proto_step].
      apply pres_bind; [apply pres_get|intro p0]. destruct (p_closed p0 || last_response_in_progress p0); [apply pres_ret|].
      apply pres_bind; [apply pres_emit; discriminate|intros ?].
      apply pres_bind; [fmod|intros ?]. apply f_handle_events.
    - apply pres_fstep_ok; [|exact Hp]. cbn [proto_step].
      apply pres_bind; [apply g_pres_handle_closed, SI|intros ?; apply f_resume].
    - cbn [proto_step].
      assert (A : pres I (match p_slot p with
             | SlotHttp _ => http_app_send (c_http cfg) get_h put_h (stream_send cfg) m
             | SlotWs _ => ws_app_send (c_ws cfg) get_w put_w (stream_send cfg) m
             | SlotNone => ret tt end)).
      { destruct (p_slot p); [apply pres_ret|apply f_http_app_send|apply f_ws_app_send]. }
      apply pres_fstep_ok with (p := p) in A; [|exact Hp]. unfold fstep_ok in *.
      match type of A with context [snd (fst ?x)] => destruct x as [[p1 o1] r1] end. cbn [fst snd] in A.
      destruct A as [A|A].
      + destruct (resume_if_ready _ _ _ _ _ evs p1) as [[p2 o2] r2]. cbn [fst snd]. left. apply in_or_app. auto.
      + pose proof (pres_fstep_ok _ p1 (f_resume evs) A) as B. unfold fstep_ok in B.
        destruct (resume_if_ready _ _ _ _ _ evs p1) as [[p2 o2] r2]. cbn [fst snd] in *.
        destruct B as [B|B]; [left; apply in_or_app; right; apply in_or_app; auto|right; exact B].
    - apply pres_fstep_ok; [|exact Hp]. cbn [proto_step]. fmod.
  Qed.

  (* the states a run goes through *)
  Fixpoint proto_states (p : h11p) (is : list pinput) : list h11p :=
    match is with
    | [] => []
    | i :: rest => let p' := fst (fst (proto_step cfg stream_headers ws_token ws_ext ws_sends i p)) in p' :: proto_states p' rest
    end.

  (* every run: unless the event oracle breaks the parser's contract, a flag invariant holds in every state reached *)
  Theorem flag_run p is :
    I p ->
    In Vn (concat (map fst (proto_run cfg stream_headers ws_token ws_ext ws_sends p is))) \/ Forall I (proto_states p is).
  Proof.
    revert p. induction is as [|i is IH]; intros p Hp; cbn [proto_run proto_states map concat]; [right; constructor|].
    pose proof (f_proto_step i p Hp) as S. unfold fstep_ok in S.
    destruct (proto_step _ _ _ _ _ i p) as [[p1 o1] r1] eqn:E. cbn [fst snd map concat] in *.
    destruct S as [S|S]; [left; apply in_or_app; auto|].
    destruct (IH p1 S) as [T|T]; [left; apply in_or_app; auto|].
    right. constructor; assumption.
  Qed.
End Flag.

(* ---- the instance: closed is final *)
Definition IsClosed (p : h11p) : Prop := p_closed p = true.
Lemma flag_IsClosed : flag IsClosed.
Proof.
  split; [split|..]; unfold IsClosed; intros; cbn; first [assumption|reflexivity].
Qed.
Theorem closed_is_final cfg stream_headers ws_token ws_ext ws_sends p is :
  p_closed p = true ->
  In Vn (concat (map fst (proto_run cfg stream_headers ws_token ws_ext ws_sends p is))) \/
  Forall (fun q => p_closed q = true) (proto_states cfg stream_headers ws_token ws_ext ws_sends p is).
Proof. intro H. apply (flag_run cfg stream_headers ws_token ws_ext ws_sends IsClosed flag_IsClosed p is H). Qed.
