From Coq Require Import String Ascii ZArith NArith List Bool Lia.
From HV Require Import lib.Bytes lib.Obs lib.Monad model.Asgi model.GuardTypes model.HttpStream model.WsStream model.LibH11 model.H11Proto model.ProtoWrapper.
Import ListNotations.
Open Scope N_scope.

(* _check_protocol takes the h2c / prior-knowledge exits exactly as [select] says; an h2c upgrade
   first writes the 101 (through h11), a prior-knowledge preface writes nothing *)
Lemma check_protocol_selects cfg method target hs version p :
  let '(p', o, res) := check_protocol cfg method target hs version p in
  match select false method target hs version with
  | SelH2c =>
      hd_error o = Some (OLib (VS "h11.send" :: v_of_send (SInfo 101 (c_server_headers cfg ++ [(B "connection", B "upgrade"); (B "upgrade", B "h2c")]))))
      /\ res <> Ok tt
  | SelH2Prior => res = Raise EH2Assumed /\ o = []
  | _ => res = Ok tt /\ o = [] /\ p' = p
  end.
Proof.
  unfold check_protocol, select.
  destruct (h2c_requested hs) eqn:E.
  - unfold bind at 1.
    assert (H : forall e, hd_error (snd (fst (send_h11_event e p))) = Some (OLib (VS "h11.send" :: v_of_send e))).
    { intro e. unfold send_h11_event. rewrite outputs_bind_get, outputs_bind_emit. reflexivity. }
    specialize (H (SInfo 101 (c_server_headers cfg ++ [(B "connection", B "upgrade"); (B "upgrade", B "h2c")]))).
    destruct (send_h11_event _ p) as [[p1 o1] r1]. cbn [fst snd] in H.
    destruct r1 as [u|e]; cbn.
    + split; [destruct o1; [discriminate|]; cbn in *; exact H|discriminate].
    + split; [exact H|discriminate].
  - destruct (beqb method (B "PRI") && beqb target (B "*") && beqb version (B "2.0")) eqn:P; cbn.
    + split; reflexivity.
    + destruct (wants_websocket method hs); repeat split; reflexivity.
Qed.

(* ALPN h2 selects HTTP/2 before any byte is read *)
Lemma alpn_selects_h2 sends writes : exists g, wrapper_init true sends writes = WH2 g /\ g_data g = [].
Proof. eexists. split; reflexivity. Qed.

(* once HTTP/2 has taken over, every later read is handed to it unchanged and in order *)
Definition h2_bytes (w : wproto) : bytes := match w with WH2 g => concat (g_data g) | WH11 _ => [] end.

Lemma h2_takes_every_byte cfg sh tok ext ws g data evs tr :
  let '(w', o, res) := wrapper_data cfg sh tok ext ws (WH2 g) data evs tr in
  h2_bytes w' = h2_bytes (WH2 g) ++ data /\ res = Ok tt.
Proof. cbn. rewrite concat_app. cbn. rewrite app_nil_r. split; reflexivity. Qed.

(* at the switch, HTTP/2 is given exactly what h11 had not consumed (with the preface line that
   h11 did consume put back in front for prior knowledge): no byte lost, none duplicated, given
   h11's contract  consumed ++ trailing_data = bytes fed *)
Lemma switch_hands_over_the_rest cfg sh tok ext ws p data evs tr :
  let '(w', o, res) := wrapper_data cfg sh tok ext ws (WH11 p) data evs tr in
  match w' with
  | WH2 g =>
      (g_headers g = None /\ h2_bytes w' = preface_line ++ tr) \/
      (g_headers g <> None /\ h2_bytes w' = tr)
  | WH11 _ => True
  end.
Proof.
  unfold wrapper_data. destruct (proto_step _ _ _ _ _ _ p) as [[p' o] res].
  destruct res as [u|e]; [exact I|]. destruct e; try exact I.
  - destruct (last_request evs) as [[[m t] hs]|]; [|exact I].
    destruct (h2c_headers m t hs) as [hh st]. right. split; [discriminate|].
    destruct tr; cbn; rewrite ?app_nil_r; reflexivity.
  - left. split; [reflexivity|]. cbn. rewrite app_nil_r. reflexivity.
Qed.

(* [select], characterised: the protocol depends only on how the client opens the connection *)
Lemma select_spec alpn method target hs version :
  select alpn method target hs version =
  if alpn then SelH2Alpn
  else if h2c_requested hs then SelH2c
  else if beqb method (B "PRI") && beqb target (B "*") && beqb version (B "2.0") then SelH2Prior
  else if wants_websocket method hs then SelWebSocket else SelHttp1.
Proof. reflexivity. Qed.

(* an h2c upgrade that carries a body is ignored *)
Lemma h2c_with_body_ignored hs :
  existsb (fun h => let n := lower (str_strip (fst h)) in beqb n (B "content-length") || beqb n (B "transfer-encoding")) hs = true ->
  h2c_requested hs = false.
Proof. intro H. unfold h2c_requested. cbv zeta. cbv zeta in H. rewrite H. cbn [negb]. apply andb_false_r. Qed.
