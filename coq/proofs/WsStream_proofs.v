(* Theorems about the WebSocket stream automaton (stand-alone rig, well-behaved protocol),
   the handshake and the message buffer. *)
From Coq Require Import String Ascii ZArith NArith List Bool Lia.
From HV Require Import lib.Bytes lib.Obs lib.Monad model.Asgi model.GuardTypes model.HttpStream model.WsStream model.StreamRig
     model.AsgiSpec gen.Consts_gen gen.Guards_gen proofs.Stream_proofs.
Import ListNotations.
Open Scope N_scope.

Definition the_wcfg (names : list bytes) (ssl : bool) (maxm : Z) (ping : bool) : wcfg :=
  {| wc_http := the_cfg names ssl; wc_max_message := maxm; wc_ping_interval := ping; wc_guards := ws_app_send_guards |}.

Definition ws_abs (s : wstream) : wsstate :=
  match ws_state s with
  | WHandshake => match ws_resp s with None => WSConnecting | Some _ => WSDenial false end
  | WConnected => WSOpen
  | WResponse => WSDenial true
  | WClosed | WHttpClosed => WSDone
  end.

(* where hypercorn accepts what the reference automaton rejects:
   DW1 websocket.http.response.start with a non-int status is stored (the error surfaces at the body);
   DW4 after websocket.http.response.start the handshake messages accept / close / a second start are still taken *)
Definition ws_deviation (s : wstream) (m : amsg) : bool :=
  match ws_state s, m with
  | WHandshake, MWsHttpStart None _ => true
  | WHandshake, MWsAccept _ _ | WHandshake, MWsClose _ _ | WHandshake, MWsHttpStart _ _ =>
      match ws_resp s with Some _ => true | None => false end
  | _, _ => false
  end.

Definition ws_typed (m : amsg) : Prop :=
  match m with
  | MWsAccept _ hs => Forall (fun h => snd h <> HI 0) hs
  | MWsSend (HI _) _ => False
  | _ => True
  end.

Definition wquiet (r : wrig) : Prop := wg_reacts r = [] /\ wg_auto_close r = true.

Section WInv.
Variables (names : list bytes) (ssl : bool) (maxm : Z) (ping : bool).
Variables (id : Z) (has_app : bool) (hk : option handshake) (has_conn : bool) (buf : wsbuffer) (cc : option Z)
          (resp : option (option Z * list (hval * hval))) (token : bytes) (ext : option bytes) (sends : list (option bytes)).
Definition wmk (st : wstate) : wrig :=
  {| wg_stream := {| ws_id := id; ws_closed := false; ws_state := st; ws_has_app := has_app; ws_hk := hk; ws_has_conn := has_conn;
                     ws_buffer := buf; ws_close_code := cc; ws_resp := resp; ws_token := token; ws_ext_accepts := ext; ws_sends := sends |};
     wg_reacts := []; wg_auto_close := true |}.

Ltac wexec := cbv -[validate_headers suppress_body body_bytes headers_ok forallb hk_accept map filter app B v_of_wssend].
Ltac wfin := cbv beta iota zeta; try (split; [reflexivity|eauto]).

Lemma ws_invalid_rejected st m :
  ws_spec_step (ws_abs (wg_stream (wmk st))) m = None -> ws_deviation (wg_stream (wmk st)) m = false -> ws_typed m ->
  let '(r', o, res) := wrig_step (the_wcfg names ssl maxm ping) (WIAppSend (Some m)) (wmk st) in
  o = [] /\ exists e, res = Raise e.
Proof.
  unfold wmk, ws_abs, ws_deviation. cbn [wg_stream ws_state ws_resp].
  intros SP DV TY.
  destruct m; destruct st; cbn in SP, DV; try (destruct resp; cbn in SP, DV); try discriminate; wexec; wfin.
  all: try (destruct (headers_ok headers) eqn:HO; [discriminate|];
            destruct (validate_headers_rejects headers HO TY) as [e ->]; wfin).
  all: try (destruct status; try discriminate; wfin).
  all: try (destruct bytes_ as [?|?|?|]; try contradiction; try discriminate; wfin; destruct text; try discriminate; wfin).
Qed.
End WInv.

(* ================================================================ C11: handshake and lifecycle *)
Definition has_upgrade_token (toks : list bytes) : bool := existsb (fun t => beqb (lower t) (B "upgrade")) toks.

(* Handshake.is_valid, characterised *)
Lemma is_valid_iff h :
  hk_upgrade h <> None ->
  (is_valid h = Ok true <->
   (hk_http_version h = B "1.1" /\ hk_key h <> None /\
    (exists toks, hk_tokens h = Some toks /\ has_upgrade_token toks = true) /\
    (exists u, hk_upgrade h = Some u /\ lower u = B "websocket") /\ hk_wsversion h = Some (B "13"))
   \/
   (bytes_ltb (hk_http_version h) (B "1.1") = false /\ hk_http_version h <> B "1.1" /\ hk_wsversion h = Some (B "13"))).
Proof.
  intro HU. unfold is_valid, has_upgrade_token.
  destruct (bytes_ltb (hk_http_version h) (B "1.1")) eqn:LT.
  - split; [discriminate|]. intros [(V & _)|(L & _)]; [rewrite V in LT; discriminate|congruence].
  - destruct (beqb (hk_http_version h) (B "1.1")) eqn:E11.
    + apply beqb_eq in E11. split.
      * intro H. left. split; [exact E11|].
        destruct (hk_key h) as [k|]; [|discriminate]. split; [discriminate|].
        destruct (hk_tokens h) as [toks|]; [|discriminate].
        destruct (existsb _ toks) eqn:EX; [|discriminate]. cbn [negb] in H.
        split; [exists toks; auto|].
        destruct (hk_upgrade h) as [u|]; [|discriminate].
        destruct (beqb (lower u) (B "websocket")) eqn:EU; [|discriminate]. cbn [negb] in H.
        split; [exists u; split; [reflexivity|apply beqb_eq; exact EU]|].
        destruct (hk_wsversion h) as [v|]; [|discriminate].
        destruct (beqb v (B "13")) eqn:EV; [|discriminate]. apply beqb_eq in EV. subst. reflexivity.
      * intros [(_ & K & (toks & T & X) & (u & U & UL) & W)|(_ & N & _)]; [|congruence].
        destruct (hk_key h); [|congruence]. rewrite T, X, U, W. simpl.
        rewrite UL. reflexivity.
    + apply beqb_neq in E11. split.
      * intro H. right. repeat split; auto.
        destruct (hk_wsversion h) as [v|]; [|discriminate].
        destruct (beqb v (B "13")) eqn:EV; [|discriminate]. apply beqb_eq in EV. subst. reflexivity.
      * intros [(V & _)|(_ & _ & W)]; [congruence|]. rewrite W. reflexivity.
Qed.

(* HTTP/1.0 (and anything older than 1.1) is never a valid WebSocket handshake *)
Lemma http10_never_valid h : hk_http_version h = B "1.0" -> is_valid h = Ok false.
Proof. intro V. unfold is_valid. rewrite V. reflexivity. Qed.

(* Handshake.accept, characterised *)
Lemma accept_faithful h token ext sub extra st hs :
  hk_accept h token ext sub extra = Ok (st, hs) ->
  st = (if beqb (hk_http_version h) (B "1.1") then 101 else 200)%Z /\
  (forall sp, sub = Some sp -> exists subs, hk_subs h = Some subs /\ existsb (beqb sp) subs = true) /\
  hs = ((match sub with Some sp => [(B "sec-websocket-protocol", sp)] | None => [] end)
       ++ (match hk_exts h, ext with Some _, Some (c :: a) => [(B "sec-websocket-extensions", c :: a)] | _, _ => [] end)
       ++ (match hk_key h with Some _ => [(B "sec-websocket-accept", token)] | None => [] end)
       ++ (if beqb (hk_http_version h) (B "1.1") then [(B "upgrade", B "WebSocket"); (B "connection", B "Upgrade")] else [])
       ++ extra)%list /\
  forallb (fun x => negb (beqb (lower (fst x)) (B "sec-websocket-protocol")) && negb (starts_with (B ":") (fst x))) extra = true.
Proof.
  unfold hk_accept. intro H.
  assert (S : (match sub with
               | None => Ok []
               | Some sp => match hk_subs h with
                            | Some subs => if existsb (beqb sp) subs then Ok [(B "sec-websocket-protocol", sp)] else Raise EException
                            | None => Raise EException end
               end = Ok (match sub with Some sp => [(B "sec-websocket-protocol", sp)] | None => [] end)) /\
              (forall sp, sub = Some sp -> exists subs, hk_subs h = Some subs /\ existsb (beqb sp) subs = true)).
  { destruct sub as [sp|]; [|split; [reflexivity|discriminate]].
    destruct (hk_subs h) as [subs|]; [|discriminate].
    destruct (existsb (beqb sp) subs) eqn:E; [|discriminate].
    split; [reflexivity|]. intros sp' Hs. injection Hs as <-. eauto. }
  destruct S as [S1 S2]. rewrite S1 in H.
  destruct (existsb (fun x : bytes * bytes => beqb (lower (fst x)) (B "sec-websocket-protocol") || starts_with (B ":") (fst x)) extra) eqn:EX;
    [discriminate|]. injection H as <- <-.
  repeat split; auto.
  - f_equal. f_equal. destruct (hk_exts h); destruct ext as [[|c a]|]; reflexivity.
  - rewrite forallb_forall. intros x Hx.
    assert (N := EX). rewrite <- not_true_iff_false in N.
    destruct (beqb (lower (fst x)) (B "sec-websocket-protocol") || starts_with (B ":") (fst x)) eqn:E.
    + exfalso. apply N. apply existsb_exists. exists x. auto.
    + apply orb_false_iff in E as [-> ->]. reflexivity.
Qed.

(* a subprotocol that was not offered is refused, whatever else the accept carries *)
Lemma accept_unoffered_refused h token ext sp extra :
  (match hk_subs h with Some subs => existsb (beqb sp) subs | None => false end) = false ->
  hk_accept h token ext (Some sp) extra = Raise EException.
Proof. unfold hk_accept. intro H. destruct (hk_subs h) as [subs|]; [rewrite H|]; reflexivity. Qed.

Section WLife.
Variables (names : list bytes) (ssl : bool) (maxm : Z) (ping : bool).
Variables (id : Z) (token : bytes) (ext : option bytes) (sends : list (option bytes)).
Let cfg := the_wcfg names ssl maxm ping.
Let fresh := new_wrig id token ext sends [] true.

Ltac wexec := cbv -[validate_headers suppress_body body_bytes headers_ok forallb hk_accept map filter app B v_of_wssend
                    new_handshake is_valid valid_server_name partition1 is_ascii pct_decode].

(* the request either raises (malformed header list / path), or is answered 404 / 400 with no
   application started, or starts exactly one application whose first message is websocket.connect *)
Lemma ws_request_outcome hs version raw_path :
  let '(r', o, res) := wrig_step cfg (WIHandle (WRequest hs version raw_path)) fresh in
  match new_handshake hs version with
  | Raise e => o = [] /\ res = Raise e
  | Ok hk =>
      if negb (is_ascii (fst (fst (partition1 63 raw_path)))) then o = [] /\ res = Raise EUnicodeDecode
      else if negb (valid_server_name (the_cfg names ssl) hs) then
        o = [OSend id (EvResponse 404 [(B "content-length", B "0"); (B "connection", B "close")]); OSend id EvEndBody; OLogAccess (Some 404%Z)]
        /\ ws_closed (wg_stream r') = true /\ ws_has_app (wg_stream r') = false
      else match is_valid hk with
           | Raise e => o = [] /\ res = Raise e
           | Ok false =>
               o = [OSend id (EvResponse 400 [(B "content-length", B "0"); (B "connection", B "close")]); OSend id EvEndBody; OLogAccess (Some 400%Z)]
               /\ ws_closed (wg_stream r') = true /\ ws_has_app (wg_stream r') = false
           | Ok true =>
               exists sc, o = [OSpawn id sc; OPut id RWsConnect] /\ res = Ok tt /\ ws_has_app (wg_stream r') = true
                          /\ sc_subprotocols sc = match hk_subs hk with Some l => l | None => [] end
           end
  end.
Proof.
  unfold fresh, cfg, new_wrig, new_wstream. wexec.
  destruct (new_handshake hs version) as [hk|e]; [|split; reflexivity].
  destruct (partition1 63 raw_path) as [[path f] q]. cbn [fst].
  destruct (is_ascii path); cbn [negb]; [|split; reflexivity].
  destruct (valid_server_name _ hs); cbn [negb]; [|repeat split; reflexivity].
  destruct (is_valid hk) as [[|]|e]; [|repeat split; reflexivity|split; reflexivity].
  eexists. repeat split; reflexivity.
Qed.
End WLife.

(* the disconnect code: 1000 after the application's own close (or HTTP denial), the client's
   code after a client-initiated close, 1006 when the connection was simply lost *)
Lemma disconnect_code (r : wrig) :
  ws_closed (wg_stream r) = false -> ws_has_app (wg_stream r) = true ->
  let '(r', o, res) := ws_stream_closed wrig_get wrig_set r in
  o = [OPut (ws_id (wg_stream r))
            (RWsDisconnect (if ws_idle (wg_stream r) then 1000
                            else match ws_close_code (wg_stream r) with Some c => c | None => 1006 end)%Z)]
  /\ ws_closed (wg_stream r') = true.
Proof.
  destruct r as [[id closed st has_app hk has_conn buf cc resp token ext sends] reacts auto]. simpl.
  intros -> ->. cbv -[ws_idle]. split; reflexivity.
Qed.

(* ... and a second closure delivers nothing: exactly one disconnect *)
Lemma disconnect_once (r : wrig) :
  ws_closed (wg_stream r) = true -> ws_stream_closed wrig_get wrig_set r = (r, [], Ok tt).
Proof.
  destruct r as [[id closed st has_app hk has_conn buf cc resp token ext sends] reacts auto]. simpl.
  intros ->. reflexivity.
Qed.

(* ================================================================ C10: message reassembly and limit *)
Fixpoint puts (o : list out) : list rmsg :=
  match o with [] => [] | OPut _ m :: r => m :: puts r | _ :: r => puts r end.
Definition is_pong (x : out) : list bytes :=
  match x with
  | OLib (a :: b :: VB p :: nil) => if val_eqb a (VS "ws.send") && val_eqb b (VS "pong") then [p] else []
  | _ => []
  end.
Definition pongs (o : list out) : list bytes := flat_map is_pong o.

Lemma puts_app a b : puts (a ++ b)%list = (puts a ++ puts b)%list.
Proof. induction a as [|x r IH]; [reflexivity|]. destruct x; simpl; rewrite ?IH; reflexivity. Qed.

Definition extend (b : wsbuffer) (t : bool) (d : bytes) : wsbuffer :=
  {| wb_started := true; wb_text := if wb_started b then wb_text b else t;
     wb_data := (wb_data b ++ d)%list; wb_length := (wb_length b + Zlen d)%Z |}.

(* what a sequence of received events delivers, as a pure function of the buffer *)
Fixpoint deliveries (b : wsbuffer) (evs : list wsevent) : list rmsg :=
  match evs with
  | [] => []
  | WMessage t d fin :: r =>
      let b' := extend b t d in
      if fin then RWsReceive (wb_text b') (wb_data b') :: deliveries wb_empty r else deliveries b' r
  | _ :: r => deliveries b r
  end.
Fixpoint final_buf (b : wsbuffer) (evs : list wsevent) : wsbuffer :=
  match evs with
  | [] => b
  | WMessage t d fin :: r => if fin then final_buf wb_empty r else final_buf (extend b t d) r
  | _ :: r => final_buf b r
  end.
Fixpoint ping_payloads (evs : list wsevent) : list bytes :=
  match evs with [] => [] | WPing p :: r => p :: ping_payloads r | _ :: r => ping_payloads r end.
(* no message in the sequence ever makes the accumulated length exceed the limit; no close frame *)
Fixpoint fits (max : Z) (b : wsbuffer) (evs : list wsevent) : bool :=
  match evs with
  | [] => true
  | WMessage t d fin :: r =>
      let b' := extend b t d in
      (wb_length b' <=? max)%Z && fits max (if fin then wb_empty else b') r
  | WClose _ _ _ :: _ => false
  | _ :: r => fits max b r
  end.

Definition ws_ready (r : wrig) : Prop :=
  wg_reacts r = [] /\ ws_has_app (wg_stream r) = true /\ ws_has_conn (wg_stream r) = true.

Section C10.
Variables (names : list bytes) (ssl : bool) (maxm : Z) (ping : bool).
Let cfg := the_wcfg names ssl maxm ping.

Definition rdy (id : Z) (closed : bool) (st : wstate) (hk : option handshake) (buf : wsbuffer) (cc : option Z)
           (resp : option (option Z * list (hval * hval))) (token : bytes) (ext : option bytes) (sends : list (option bytes))
           (auto : bool) : wrig :=
  {| wg_stream := {| ws_id := id; ws_closed := closed; ws_state := st; ws_has_app := true; ws_hk := hk; ws_has_conn := true;
                     ws_buffer := buf; ws_close_code := cc; ws_resp := resp; ws_token := token; ws_ext_accepts := ext; ws_sends := sends |};
     wg_reacts := []; wg_auto_close := auto |}.

Ltac wexec := cbv -[extend Z.gtb Z.leb app].

Lemma one_message id closed st hk buf cc resp token ext sends auto t d fin :
  (wb_length (extend buf t d) <=? maxm)%Z = true ->
  ws_one_event cfg wrig_get wrig_set wrig_psend (WMessage t d fin) (rdy id closed st hk buf cc resp token ext sends auto) =
  (rdy id closed st hk (if fin then wb_empty else extend buf t d) cc resp token ext sends auto,
   (if fin then [OPut id (RWsReceive (wb_text (extend buf t d)) (wb_data (extend buf t d)))] else []),
   Ok false).
Proof.
  destruct buf as [bs bt bd bl]. intro F.
  assert (G : (bl + Zlen d >? maxm)%Z = false) by (apply Z.leb_le in F; cbn in F; lia).
  assert (G0 : (bl >? maxm)%Z = false) by (apply Z.leb_le in F; cbn in F; pose proof (Zlen_nonneg d); lia).
  unfold extend, rdy, cfg, the_wcfg. cbv -[Z.gtb Z.add Zlen app]. rewrite G0, G. destruct fin; reflexivity.
Qed.

Lemma one_pong id closed st hk buf cc resp token ext sends auto p :
  ws_one_event cfg wrig_get wrig_set wrig_psend (WPong p) (rdy id closed st hk buf cc resp token ext sends auto) =
  (rdy id closed st hk buf cc resp token ext sends auto, [], Ok false).
Proof. reflexivity. Qed.

Lemma one_ping id closed st hk buf cc resp token ext sends auto p :
  exists o, ws_one_event cfg wrig_get wrig_set wrig_psend (WPing p) (rdy id closed st hk buf cc resp token ext sends auto) =
            (rdy id closed st hk buf cc resp token ext (tl sends) auto, o, Ok false)
            /\ puts o = [] /\ pongs o = [p].
Proof. destruct sends as [|[sd|] rest]; eexists; (split; [reflexivity|split; reflexivity]). Qed.

Lemma pongs_app a b : pongs (a ++ b)%list = (pongs a ++ pongs b)%list.
Proof. apply flat_map_app. Qed.

(* every event sequence that stays within the limit: deliveries are exactly the reassembled
   messages, every ping is answered by a pong with its payload, in order *)
Lemma handle_events_fit : forall evs id closed st hk buf cc resp token ext sends auto,
  fits maxm buf evs = true ->
  exists sends' o,
    ws_handle_events cfg wrig_get wrig_set wrig_psend evs (rdy id closed st hk buf cc resp token ext sends auto) =
    (rdy id closed st hk (final_buf buf evs) cc resp token ext sends' auto, o, Ok tt)
    /\ puts o = deliveries buf evs /\ pongs o = ping_payloads evs.
Proof.
  induction evs as [|e rest IH]; intros id closed st hk buf cc resp token ext sends auto F.
  - exists sends, []. repeat split; reflexivity.
  - cbn [ws_handle_events]. unfold bind.
    destruct e as [t d fin|p|p|code reason rc]; cbn [fits] in F.
    + apply andb_true_iff in F as [F1 F2]. rewrite (one_message _ _ _ _ _ _ _ _ _ _ _ _ _ _ F1).
      destruct fin.
      * destruct (IH id closed st hk wb_empty cc resp token ext sends auto F2) as (s' & o & E & P1 & P2).
        rewrite E. exists s'. eexists. split; [reflexivity|split].
        -- rewrite puts_app, P1. reflexivity.
        -- rewrite pongs_app, P2. reflexivity.
      * destruct (IH id closed st hk (extend buf t d) cc resp token ext sends auto F2) as (s' & o & E & P1 & P2).
        rewrite E. exists s'. eexists. split; [reflexivity|split].
        -- rewrite puts_app, P1. reflexivity.
        -- rewrite pongs_app, P2. reflexivity.
    + destruct (one_ping id closed st hk buf cc resp token ext sends auto p) as (o1 & E1 & Q1 & Q2). rewrite E1.
      destruct (IH id closed st hk buf cc resp token ext (tl sends) auto F) as (s' & o & E & P1 & P2).
      rewrite E. exists s'. eexists. split; [reflexivity|split].
      * rewrite puts_app, Q1, P1. reflexivity.
      * rewrite pongs_app, Q2, P2. reflexivity.
    + rewrite one_pong. destruct (IH id closed st hk buf cc resp token ext sends auto F) as (s' & o & E & P1 & P2).
      rewrite E. exists s', o. repeat split; assumption.
    + discriminate.
Qed.
End C10.

(* ---------------------------------------------------------------- fragmentation *)
(* a message = type flag + its fragments; each fragment may be preceded by pings *)
Definition fragment := (list bytes * bytes)%type.
Fixpoint frag_events (t : bool) (frags : list fragment) : list wsevent :=
  match frags with
  | [] => []
  | (ps, f) :: r => map WPing ps ++ [WMessage t f (match r with [] => true | _ => false end)] ++ frag_events t r
  end.
Definition msg_events (m : bool * list fragment) : list wsevent := frag_events (fst m) (snd m).
Definition payload (m : bool * list fragment) : bytes := concat (map snd (snd m)).
Definition msg_pings (m : bool * list fragment) : list bytes := concat (map fst (snd m)).

Lemma deliveries_pings b ps rest : deliveries b (map WPing ps ++ rest) = deliveries b rest.
Proof. induction ps as [|p r IH]; [reflexivity|exact IH]. Qed.

Lemma deliveries_frags t : forall frags b rest, frags <> [] ->
  deliveries b (frag_events t frags ++ rest) =
  RWsReceive (if wb_started b then wb_text b else t) (wb_data b ++ concat (map snd frags)) :: deliveries wb_empty rest.
Proof.
  induction frags as [|[ps f] r IH]; intros b rest NE; [contradiction|].
  cbn [frag_events]. rewrite <- !app_assoc, deliveries_pings. cbn [app deliveries].
  destruct r as [|f2 r2].
  - cbn. rewrite app_nil_r. reflexivity.
  - rewrite IH by discriminate. cbn [extend wb_started wb_text wb_data map concat snd].
    rewrite <- app_assoc. destruct (wb_started b); reflexivity.
Qed.

(* C10: for every message sequence and every fragmentation (pings between fragments included),
   each complete message is delivered exactly once, in order, with its type and payload *)
Theorem reassembly (msgs : list (bool * list fragment)) :
  Forall (fun m => snd m <> []) msgs ->
  deliveries wb_empty (flat_map msg_events msgs) = map (fun m => RWsReceive (fst m) (payload m)) msgs.
Proof.
  induction msgs as [|m r IH]; intro F; [reflexivity|]. inversion F as [|? ? F1 F2]; subst.
  cbn [flat_map map]. unfold msg_events at 1. rewrite deliveries_frags by exact F1. cbn [wb_empty wb_started wb_data app].
  rewrite IH by exact F2. reflexivity.
Qed.

Lemma ping_payloads_app a b : ping_payloads (a ++ b) = (ping_payloads a ++ ping_payloads b)%list.
Proof. induction a as [|x r IH]; [reflexivity|]. destruct x; simpl; rewrite ?IH; reflexivity. Qed.
Lemma ping_payloads_pings ps : ping_payloads (map WPing ps) = ps.
Proof. induction ps as [|p r IH]; [reflexivity|]. simpl. rewrite IH. reflexivity. Qed.

Lemma ping_payloads_frags t frags : ping_payloads (frag_events t frags) = concat (map fst frags).
Proof.
  induction frags as [|[ps f] r IH]; [reflexivity|]. cbn [frag_events].
  rewrite !ping_payloads_app, ping_payloads_pings. cbn [ping_payloads app map concat fst]. rewrite IH. reflexivity.
Qed.

(* every ping is answered: the pong payloads are the ping payloads, in order *)
Theorem pings_answered (msgs : list (bool * list fragment)) :
  ping_payloads (flat_map msg_events msgs) = concat (map msg_pings msgs).
Proof.
  induction msgs as [|m r IH]; [reflexivity|]. cbn [flat_map map concat].
  rewrite ping_payloads_app, IH. unfold msg_events, msg_pings. rewrite ping_payloads_frags. reflexivity.
Qed.

(* lengths: a message fits iff its total size is within the limit *)
Lemma fits_pings max b ps rest : fits max b (map WPing ps ++ rest) = fits max b rest.
Proof. induction ps as [|p r IH]; [reflexivity|exact IH]. Qed.

Lemma fits_frags max t : forall frags b rest, frags <> [] ->
  (wb_length b + Zlen (concat (map snd frags)) <= max)%Z ->
  fits max b (frag_events t frags ++ rest) = fits max wb_empty rest.
Proof.
  induction frags as [|[ps f] r IH]; intros b rest NE L; [contradiction|].
  cbn [frag_events]. rewrite <- !app_assoc, fits_pings. cbn [app fits].
  cbn [map concat snd] in L. rewrite Zlen_app in L.
  pose proof (Zlen_nonneg (concat (map snd r))). pose proof (Zlen_nonneg f).
  destruct r as [|f2 r2].
  - cbn. assert ((wb_length b + Zlen f <=? max)%Z = true) as -> by (apply Z.leb_le; cbn in L; lia). reflexivity.
  - cbn [extend wb_length].
    assert ((wb_length b + Zlen f <=? max)%Z = true) as -> by (apply Z.leb_le; lia).
    cbn [andb]. apply IH; [discriminate|]. cbn [extend wb_length]. lia.
Qed.

Theorem within_limit_fits max (msgs : list (bool * list fragment)) :
  Forall (fun m => snd m <> [] /\ (Zlen (payload m) <= max)%Z) msgs ->
  fits max wb_empty (flat_map msg_events msgs) = true.
Proof.
  induction msgs as [|m r IH]; intro F; [reflexivity|]. inversion F as [|? ? [F1 F1'] F2]; subst.
  cbn [flat_map]. unfold msg_events at 1. rewrite fits_frags; [apply IH; exact F2|exact F1|exact F1'].
Qed.

(* ---------------------------------------------------------------- the size limit *)
Fixpoint receives (o : list out) : list rmsg :=
  match o with
  | [] => []
  | OPut _ (RWsReceive t p) :: r => RWsReceive t p :: receives r
  | _ :: r => receives r
  end.
Lemma receives_app a b : receives (a ++ b)%list = (receives a ++ receives b)%list.
Proof.
  induction a as [|x r IH]; [reflexivity|]. destruct x as [? ?|? ?|? m|?|?|?|?|?]; simpl; try exact IH.
  destruct m; simpl; rewrite ?IH; reflexivity.
Qed.

Section C10Limit.
Variables (names : list bytes) (ssl : bool) (maxm : Z) (ping : bool).
Let cfg := the_wcfg names ssl maxm ping.

(* once the accumulated size has exceeded the limit the buffer is never reset, so whatever
   arrives afterwards (more fragments, new messages, pings, a close) delivers nothing *)
Lemma one_event_overflow e id closed st hk bs bt bd bl cc resp token ext sends auto :
  (bl > maxm)%Z ->
  exists closed' bs' bt' bd' bl' cc' sends' o res,
    ws_one_event cfg wrig_get wrig_set wrig_psend e
      (rdy id closed st hk {| wb_started := bs; wb_text := bt; wb_data := bd; wb_length := bl |} cc resp token ext sends auto) =
    (rdy id closed' st hk {| wb_started := bs'; wb_text := bt'; wb_data := bd'; wb_length := bl' |} cc' resp token ext sends' auto, o, res)
    /\ receives o = [] /\ (bl' > maxm)%Z.
Proof.
  intro G. destruct e as [t d fin|p|p|code reason rc].
  - assert (G' : (bl >? maxm)%Z = true) by (apply Z.gtb_lt; lia).
    unfold rdy, cfg, the_wcfg. destruct sends as [|[sd|] rest]; cbv -[Z.gtb Z.add Zlen app Z.gt]; rewrite G';
      do 9 eexists; (split; [reflexivity|split; [reflexivity|exact G]]).
  - destruct sends as [|[sd|] rest]; do 9 eexists; (split; [reflexivity|split; [reflexivity|exact G]]).
  - do 9 eexists. split; [reflexivity|split; [reflexivity|exact G]].
  - destruct rc; destruct sends as [|[sd|] rest]; destruct auto; destruct closed; destruct st;
      do 9 eexists; (split; [reflexivity|split; [reflexivity|exact G]]).
Qed.

Theorem overflow_no_delivery : forall evs id closed st hk bs bt bd bl cc resp token ext sends auto,
  (bl > maxm)%Z ->
  exists closed' bs' bt' bd' bl' cc' sends' o res,
    ws_handle_events cfg wrig_get wrig_set wrig_psend evs
      (rdy id closed st hk {| wb_started := bs; wb_text := bt; wb_data := bd; wb_length := bl |} cc resp token ext sends auto) =
    (rdy id closed' st hk {| wb_started := bs'; wb_text := bt'; wb_data := bd'; wb_length := bl' |} cc' resp token ext sends' auto, o, res)
    /\ receives o = [] /\ (bl' > maxm)%Z.
Proof.
  induction evs as [|e rest IH]; intros id closed st hk bs bt bd bl cc resp token ext sends auto G.
  - do 9 eexists. split; [reflexivity|split; [reflexivity|exact G]].
  - cbn [ws_handle_events]. unfold bind.
    destruct (one_event_overflow e id closed st hk bs bt bd bl cc resp token ext sends auto G)
      as (c1 & s1 & t1 & d1 & l1 & cc1 & sn1 & o1 & res1 & E1 & R1 & G1).
    rewrite E1. destruct res1 as [[|]|ex].
    + do 9 eexists. split; [reflexivity|split; [rewrite receives_app, R1; reflexivity|exact G1]].
    + destruct (IH id c1 st hk s1 t1 d1 l1 cc1 resp token ext sn1 auto G1)
        as (c2 & s2 & t2 & d2 & l2 & cc2 & sn2 & o2 & res2 & E2 & R2 & G2).
      rewrite E2. do 9 eexists. split; [reflexivity|split; [rewrite receives_app, R1, R2; reflexivity|exact G2]].
    + do 9 eexists. split; [reflexivity|split; [exact R1|exact G1]].
Qed.

(* the message that crosses the limit is answered with close code 1009 and is not delivered *)
Lemma crossing_the_limit id closed st hk bs bt bd bl cc resp token ext sends auto t d fin :
  (bl <= maxm)%Z -> (bl + Zlen d > maxm)%Z ->
  exists sends' o,
    ws_one_event cfg wrig_get wrig_set wrig_psend (WMessage t d fin)
      (rdy id closed st hk {| wb_started := bs; wb_text := bt; wb_data := bd; wb_length := bl |} cc resp token ext sends auto) =
    (rdy id closed st hk (extend {| wb_started := bs; wb_text := bt; wb_data := bd; wb_length := bl |} t d) cc resp token ext sends' auto,
     OLib [VS "ws.send"; VS "close"; VZ 1009; vnone] :: o, Ok true)
    /\ receives o = [].
Proof.
  intros G0 G. assert (G' : (bl + Zlen d >? maxm)%Z = true) by (apply Z.gtb_lt; lia).
  assert (G0' : (bl >? maxm)%Z = false) by lia.
  unfold rdy, cfg, the_wcfg, extend. destruct sends as [|[sd|] rest]; cbv -[Z.gtb Z.add Zlen app Z.gt]; rewrite G0', G';
    do 2 eexists; (split; [reflexivity|reflexivity]).
Qed.
End C10Limit.
