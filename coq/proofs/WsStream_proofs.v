(* Theorems about the WebSocket stream automaton (stand-alone rig, well-behaved protocol),
   the handshake and the message buffer. *)
From Coq Require Import String Ascii ZArith NArith List Bool Lia.
From HV Require Import lib.Bytes lib.Obs lib.Monad model.Asgi model.GuardTypes model.HttpStream model.WsStream model.StreamRig
     model.AsgiSpec gen.Consts_gen gen.Guards_gen proofs.Stream_proofs.
Import ListNotations.
Open Scope N_scope.

Definition the_wcfg (names : list bytes) (ssl : bool) (maxm : Z) (ping : bool) : wcfg :=
  {| wc_http := the_cfg names ssl; wc_max_message := maxm; wc_ping_interval := ping; wc_guards := ws_app_send_guards |}.

Definition ws_abs (s : wstream) : wsstate :=
  match ws_state s with
  | WHandshake => match ws_resp s with None => WSConnecting | Some _ => WSDenial false end
  | WConnected => WSOpen
  | WResponse => WSDenial true
  | WClosed | WHttpClosed => WSDone
  end.

(* where hypercorn accepts what the reference automaton rejects:
   DW1 websocket.http.response.start with a non-int status is stored (the error surfaces at the body);
   DW4 after websocket.http.response.start the handshake messages accept / close / a second start are still taken *)
Definition ws_deviation (s : wstream) (m : amsg) : bool :=
  match ws_state s, m with
  | WHandshake, MWsHttpStart None _ => true
  | WHandshake, MWsAccept _ _ | WHandshake, MWsClose _ _ | WHandshake, MWsHttpStart _ _ =>
      match ws_resp s with Some _ => true | None => false end
  | _, _ => false
  end.

Definition ws_typed (m : amsg) : Prop :=
  match m with
  | MWsAccept _ hs => Forall (fun h => snd h <> HI 0) hs
  | MWsSend (HI _) _ => False
  | _ => True
  end.

Definition wquiet (r : wrig) : Prop := wg_reacts r = [] /\ wg_auto_close r = true.

Section WInv.
Variables (names : list bytes) (ssl : bool) (maxm : Z) (ping : bool).
Variables (id : Z) (has_app : bool) (hk : option handshake) (has_conn : bool) (buf : wsbuffer) (cc : option Z)
          (resp : option (option Z * list (hval * hval))) (token : bytes) (ext : option bytes) (sends : list (option bytes)).
Definition wmk (st : wstate) : wrig :=
  {| wg_stream := {| ws_id := id; ws_closed := false; ws_state := st; ws_has_app := has_app; ws_hk := hk; ws_has_conn := has_conn;
                     ws_buffer := buf; ws_close_code := cc; ws_resp := resp; ws_token := token; ws_ext_accepts := ext; ws_sends := sends |};
     wg_reacts := []; wg_auto_close := true |}.

Ltac wexec := cbv -[validate_headers suppress_body body_bytes headers_ok forallb hk_accept map filter app B v_of_wssend].
Ltac wfin := cbv beta iota zeta; try (split; [reflexivity|eauto]).

Lemma ws_invalid_rejected st m :
  ws_spec_step (ws_abs (wg_stream (wmk st))) m = None -> ws_deviation (wg_stream (wmk st)) m = false -> ws_typed m ->
  let '(r', o, res) := wrig_step (the_wcfg names ssl maxm ping) (WIAppSend (Some m)) (wmk st) in
  o = [] /\ exists e, res = Raise e.
Proof.
  unfold wmk, ws_abs, ws_deviation. cbn [wg_stream ws_state ws_resp].
  intros SP DV TY.
  destruct m; destruct st; cbn in SP, DV; try (destruct resp; cbn in SP, DV); try discriminate; wexec; wfin.
  all: try (destruct (headers_ok headers) eqn:HO; [discriminate|];
            destruct (validate_headers_rejects headers HO TY) as [e ->]; wfin).
  all: try (destruct status; try discriminate; wfin).
  all: try (destruct bytes_ as [?|?|?|]; try contradiction; try discriminate; wfin; destruct text; try discriminate; wfin).
Qed.
End WInv.
