(* A small Hoare logic for the state + output + exception monad, "up to a contract violation":
   a triple holds of a run whose outputs contain the violation marker V whatever else happened;
   otherwise the run must not emit the forbidden marker Rp and must end in the postcondition
   (one for normal return, one for an exception). *)
From Coq Require Import String List Bool.
From HV Require Import lib.Monad model.Asgi.
Import ListNotations.

Section Hoare.
  Context {P : Type}.
  Variable V Rp : out.
  Notation MP := (M exn out P).
  Implicit Types Pre I R : P -> Prop.

  Definition good (o : list out) (X : Prop) : Prop := In V o \/ (~ In Rp o /\ X).

  Definition post {A} (x : P * list out * result (E:=exn) A) (Q : A -> P -> Prop) (R : P -> Prop) : Prop :=
    good (snd (fst x)) (match snd x with Ok a => Q a (fst (fst x)) | Raise _ => R (fst (fst x)) end).

  Definition tri {A} (Pre : P -> Prop) (m : MP A) (Q : A -> P -> Prop) (R : P -> Prop) : Prop :=
    forall p, Pre p -> post (m p) Q R.

  Lemma good_nil (X : Prop) : X -> good [] X.
  Proof. intro H. right. split; [intros []|exact H]. Qed.

  Lemma tri_ret {A} Pre (a : A) (Q : A -> P -> Prop) R : (forall p, Pre p -> Q a p) -> tri Pre (ret a) Q R.
  Proof. intros H p Hp. apply good_nil. cbn. auto. Qed.
  Lemma tri_raise {A} Pre e (Q : A -> P -> Prop) (R : P -> Prop) : (forall p, Pre p -> R p) -> tri Pre (raise e) Q R.
  Proof. intros H p Hp. apply good_nil. cbn. auto. Qed.
  Lemma tri_get Pre (Q : P -> P -> Prop) R : (forall p, Pre p -> Q p p) -> tri Pre get Q R.
  Proof. intros H p Hp. apply good_nil. cbn. auto. Qed.
  Lemma tri_modify Pre f (Q : unit -> P -> Prop) R : (forall p, Pre p -> Q tt (f p)) -> tri Pre (modify f) Q R.
  Proof. intros H p Hp. apply good_nil. cbn. auto. Qed.
  Lemma tri_emit Pre x (Q : unit -> P -> Prop) R : x <> Rp -> (forall p, Pre p -> Q tt p) -> tri Pre (emit x) Q R.
  Proof. intros N H p Hp. right. cbn. split; [intros [E|[]]; auto|auto]. Qed.
  Lemma tri_emit_V Pre (Q : unit -> P -> Prop) R : tri Pre (emit V) Q R.
  Proof. intros p Hp. left. cbn. auto. Qed.

  Lemma tri_bind {A B} Pre (m : MP A) (f : A -> MP B) Mid (Q : B -> P -> Prop) R :
    tri Pre m Mid R -> (forall a, tri (Mid a) (f a) Q R) -> tri Pre (bind m f) Q R.
  Proof.
    intros Hm Hf p Hp. specialize (Hm p Hp). unfold post, bind in *.
    destruct (m p) as [[p1 o1] r1]. cbn [fst snd] in *.
    destruct Hm as [HV|[HN HQ]].
    - destruct r1 as [a|e]; [destruct (f a p1) as [[p2 o2] r2]|]; cbn; left; try apply in_or_app; auto.
    - destruct r1 as [a|e].
      + specialize (Hf a p1 HQ). unfold post in Hf. destruct (f a p1) as [[p2 o2] r2]. cbn [fst snd] in *.
        destruct Hf as [HV2|[HN2 HQ2]]; [left; apply in_or_app; auto|].
        right. split; [|exact HQ2]. intro I. apply in_app_or in I as [I|I]; auto.
      + right. cbn. auto.
  Qed.

  (* the value read stays tied to the state *)
  Lemma tri_bind_get {B} Pre (f : P -> MP B) (Q : B -> P -> Prop) R :
    (forall p0, tri (fun p => Pre p /\ p = p0) (f p0) Q R) -> tri Pre (bind get f) Q R.
  Proof.
    intros H p Hp. specialize (H p p (conj Hp eq_refl)). unfold post, bind, get in *.
    destruct (f p p) as [[p2 o2] r2]. cbn [fst snd app] in *. exact H.
  Qed.

  Lemma tri_conseq {A} (Pre Pre' : P -> Prop) (m : MP A) (Q Q' : A -> P -> Prop) (R R' : P -> Prop) :
    tri Pre' m Q' R' -> (forall p, Pre p -> Pre' p) -> (forall a p, Q' a p -> Q a p) -> (forall p, R' p -> R p) -> tri Pre m Q R.
  Proof.
    intros H H1 H2 H3 p Hp. specialize (H p (H1 p Hp)). unfold post in *.
    destruct (m p) as [[p1 o1] r1]. cbn [fst snd] in *. destruct H as [HV|[HN HQ]]; [left; auto|right; split; auto].
    destruct r1; auto.
  Qed.

  Lemma tri_pre_false {A} (Pre : P -> Prop) (m : MP A) Q R : (forall p, Pre p -> False) -> tri Pre m Q R.
  Proof. intros H p Hp. destruct (H p Hp). Qed.

  (* ---- invariants *)
  Definition pres {A} (I : P -> Prop) (m : MP A) : Prop := tri I m (fun _ => I) I.

  Lemma pres_ret {A} I (a : A) : pres I (ret a).
  Proof. apply tri_ret. auto. Qed.
  Lemma pres_raise {A} I e : pres I (raise (A:=A) e).
  Proof. apply tri_raise. auto. Qed.
  Lemma pres_get I : pres I get.
  Proof. apply tri_get. auto. Qed.
  Lemma pres_modify I f : (forall p, I p -> I (f p)) -> pres I (modify f).
  Proof. intro H. apply tri_modify. auto. Qed.
  Lemma pres_emit I x : x <> Rp -> pres I (emit x).
  Proof. intro H. apply tri_emit; auto. Qed.
  Lemma pres_bind {A B} I (m : MP A) (f : A -> MP B) : pres I m -> (forall a, pres I (f a)) -> pres I (bind m f).
  Proof. intros H1 H2. eapply tri_bind; [exact H1|exact H2]. Qed.
  Lemma pres_when I b m : pres I m -> pres I (when b m).
  Proof. intro H. destruct b; [exact H|apply pres_ret]. Qed.
  Lemma pres_for_each {A} I (l : list A) f : (forall a, pres I (f a)) -> pres I (for_each l f).
  Proof. intro H. induction l as [|a l IH]; cbn; [apply pres_ret|apply pres_bind; auto]. Qed.
End Hoare.
