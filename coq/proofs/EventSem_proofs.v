From Coq Require Import ZArith List Bool Lia.
From HV Require Import model.EventSem.
Import ListNotations.
Open Scope Z_scope.

(* the trio state that corresponds to an asyncio state: every waiter waits on the current event *)
Definition related (a : aev) (t : tev) : Prop :=
  a_flag a = t_flag t /\ a_waiting a = map fst (t_waiting t) /\ Forall (fun w => snd w = t_gen t) (t_waiting t).

Lemma filter_all {A} (p : A -> bool) l : Forall (fun x => p x = true) l -> filter p l = l.
Proof. induction 1 as [|x l H _ IH]; [reflexivity|]. cbn. rewrite H, IH. reflexivity. Qed.
Lemma filter_none {A} (p : A -> bool) l : Forall (fun x => p x = false) l -> filter p l = [].
Proof. induction 1 as [|x l H _ IH]; [reflexivity|]. cbn. rewrite H. exact IH. Qed.

Lemma step_related a t o :
  related a t -> (match o with OClear => a_waiting a = [] | _ => True end) ->
  snd (astep a o) = snd (tstep t o) /\ related (fst (astep a o)) (fst (tstep t o)).
Proof.
  unfold related. intros (Hf & Hw & Hg) Hd. destruct o as [k| |]; cbn [astep tstep].
  - rewrite <- Hf. destruct (a_flag a) eqn:E; cbn [fst snd].
    + split; [reflexivity|]. split; [congruence | split; assumption].
    + split; [reflexivity|]. cbn. split; [congruence|]. split; [rewrite map_app, Hw; reflexivity|].
      apply Forall_app. split; [exact Hg | constructor; [reflexivity | constructor]].
  - cbn [fst snd].
    assert (H1 : filter (fun w => snd w =? t_gen t) (t_waiting t) = t_waiting t).
    { apply filter_all. eapply Forall_impl; [|exact Hg]. intros w Hw'. cbn in Hw'. rewrite Hw'. apply Z.eqb_refl. }
    assert (H2 : filter (fun w => negb (snd w =? t_gen t)) (t_waiting t) = []).
    { apply filter_none. eapply Forall_impl; [|exact Hg]. intros w Hw'. cbn in Hw'. rewrite Hw', Z.eqb_refl. reflexivity. }
    rewrite H1, H2. split; [exact Hw|]. repeat split; cbn; constructor.
  - cbn [fst snd]. split; [reflexivity|]. rewrite Hd in Hw. symmetry in Hw. apply map_eq_nil in Hw.
    repeat split; cbn; [rewrite Hd, Hw; reflexivity | rewrite Hw; constructor].
Qed.

(* Under the discipline the two event implementations wake the same tasks at the same operations. *)
Theorem same_wakeups : forall os a t, related a t -> disciplined a os -> arun a os = trun t os.
Proof.
  induction os as [|o r IH]; intros a t R D; [reflexivity|].
  cbn [arun trun disciplined] in *. destruct D as [D1 D2].
  destruct (step_related a t o R D1) as [Hw HR].
  destruct (astep a o) as [a' wa]; destruct (tstep t o) as [t' wt]. cbn [fst snd] in *.
  rewrite Hw. f_equal. apply IH; assumption.
Qed.

Lemma related_init : related a0 t0.
Proof. repeat split; constructor. Qed.

(* ... and without it they differ: a clear() while a task waits loses that task's wake-up on trio *)
Example undisciplined_differs :
  arun a0 [OWait 1; OClear; OSet] = [[]; []; [1]] /\ trun t0 [OWait 1; OClear; OSet] = [[]; []; []].
Proof. vm_compute. split; reflexivity. Qed.
