(* Theorems about the HTTP stream automaton (stand-alone rig, well-behaved protocol). *)
From Coq Require Import String Ascii ZArith NArith List Bool Lia.
From HV Require Import lib.Bytes lib.Obs lib.Monad model.Asgi model.GuardTypes model.HttpStream model.StreamRig
     model.AsgiSpec gen.Consts_gen gen.Guards_gen.
Import ListNotations.
Open Scope N_scope.

Definition the_cfg (names : list bytes) (ssl : bool) : hcfg :=
  {| cfg_server_names := names; cfg_ssl := ssl; cfg_trailers_versions := TRAILERS_VERSIONS;
     cfg_push_versions := PUSH_VERSIONS; cfg_hint_versions := EARLY_HINTS_VERSIONS; cfg_guards := http_app_send_guards |}.

(* ---------------------------------------------------------------- header validation *)
Lemma has_ctl_ctl_free b : has_ctl b = negb (ctl_free b).
Proof. unfold has_ctl, ctl_free. rewrite negb_involutive. reflexivity. Qed.

Lemma rev_repeat {A} (x : A) n : rev (repeat x n) = repeat x n.
Proof.
  induction n as [|n IH]; [reflexivity|]. simpl. rewrite IH. symmetry. apply repeat_cons.
Qed.

Lemma strip_zeros k : strip (repeat 0 (S k)) = repeat 0 (S k).
Proof.
  unfold strip, rstrip. change (lstrip (repeat 0 (S k))) with (repeat 0 (S k)).
  rewrite rev_repeat. change (lstrip (repeat 0 (S k))) with (repeat 0 (S k)). apply rev_repeat.
Qed.

(* a header the specification rejects is rejected (the only accepted non-bytes payload is the
   integer 0 as a value, which bytes() turns into the empty string) *)
Lemma validate_header_rejects h :
  header_ok h = false -> snd h <> HI 0 -> exists e, validate_header h = Raise e.
Proof.
  destruct h as [n v]. unfold header_ok, validate_header. simpl. intros H NZ.
  destruct n as [[|c r]|s|z|]; try (destruct s); eauto.
  destruct (c =? 58) eqn:E; [eauto|]. simpl in H.
  destruct v as [vb|s|z|]; simpl; eauto.
  - destruct (starts_colon (strip (c :: r))); [eauto|]. simpl in H. rewrite !has_ctl_ctl_free.
    destruct (ctl_free (strip (c :: r))); simpl in *; [|eauto].
    rewrite H. simpl. eauto.
  - destruct (z <? 0)%Z eqn:L; [eauto|].
    destruct z as [|p|p]; [congruence| |discriminate].
    assert (Hz : has_ctl (strip (repeat 0 (Z.to_nat (Z.pos p)))) = true).
    { assert (G : exists k, Z.to_nat (Z.pos p) = S k) by (exists (Nat.pred (Pos.to_nat p)); simpl; lia).
      destruct G as [k ->]. rewrite strip_zeros. reflexivity. }
    destruct (starts_colon (strip (c :: r))); [eauto|].
    rewrite Hz, orb_true_r. eauto.
Qed.

Lemma validate_headers_rejects hs :
  headers_ok hs = false -> Forall (fun h => snd h <> HI 0) hs -> exists e, validate_headers hs = Raise e.
Proof.
  induction hs as [|h r IH]; simpl; [discriminate|]. intros H F. inversion F as [|? ? F1 F2]; subst.
  destruct (header_ok h) eqn:E; simpl in H.
  - destruct (validate_header h); [|eauto]. destruct (IH H F2) as [e ->]. eauto.
  - destruct (validate_header_rejects h E F1) as [e ->]. eauto.
Qed.

(* whatever passes validation carries no NUL / CR / LF *)
Lemma validate_header_clean h n v : validate_header h = Ok (n, v) -> has_ctl n = false /\ has_ctl v = false.
Proof.
  destruct h as [hn hv]. unfold validate_header.
  destruct hn as [[|c r]|s|z|]; try discriminate; try (destruct s; discriminate).
  destruct (c =? 58); [discriminate|].
  destruct (bytes_of_hval hv) as [vb|]; [|discriminate].
  destruct (starts_colon (strip (c :: r))); [discriminate|].
  destruct (has_ctl (strip (c :: r)) || has_ctl (strip vb)) eqn:E; [discriminate|].
  intro H. injection H as <- <-. apply orb_false_iff in E. exact E.
Qed.

(* ... and is no pseudo header: the name that reaches the wire does not begin with a colon, whatever white space the
   application put around it (finding F67) *)
Lemma validate_header_no_pseudo h n v : validate_header h = Ok (n, v) -> starts_colon n = false.
Proof.
  destruct h as [hn hv]. unfold validate_header.
  destruct hn as [[|c r]|s|z|]; try discriminate; try (destruct s; discriminate).
  destruct (c =? 58); [discriminate|].
  destruct (bytes_of_hval hv) as [vb|]; [|discriminate].
  destruct (starts_colon (strip (c :: r))) eqn:P; [discriminate|].
  destruct (has_ctl (strip (c :: r)) || has_ctl (strip vb)); [discriminate|].
  intro H. injection H as <- <-. exact P.
Qed.
Lemma validate_headers_no_pseudo hs l :
  validate_headers hs = Ok l -> Forall (fun h => starts_colon (fst h) = false) l.
Proof.
  revert l. induction hs as [|h r IH]; simpl; intros l H.
  - injection H as <-. constructor.
  - destruct (validate_header h) as [[n v]|] eqn:E; [|discriminate].
    destruct (validate_headers r) as [r'|]; [|discriminate]. injection H as <-.
    constructor; [apply (validate_header_no_pseudo _ _ _ E)|apply IH; reflexivity].
Qed.

Lemma validate_headers_clean hs l :
  validate_headers hs = Ok l -> Forall (fun h => has_ctl (fst h) = false /\ has_ctl (snd h) = false) l.
Proof.
  revert l. induction hs as [|h r IH]; simpl; intros l H.
  - injection H as <-. constructor.
  - destruct (validate_header h) as [[n v]|] eqn:E; [|discriminate].
    destruct (validate_headers r) as [r'|]; [|discriminate]. injection H as <-.
    constructor; [apply (validate_header_clean _ _ _ E)|apply IH; reflexivity].
Qed.

Lemma header_ok_validate h : header_ok h = true -> exists h', validate_header h = Ok h'.
Proof.
  destruct h as [n v]. unfold header_ok, validate_header. simpl.
  destruct n as [[|c r]|s|z|]; try discriminate. destruct v as [vb|s|z|]; try discriminate.
  intro H. apply andb_true_iff in H as [H H3]. apply andb_true_iff in H as [H H2]. apply andb_true_iff in H as [H1 H0].
  apply negb_true_iff in H1, H0. rewrite H1. simpl. rewrite H0. rewrite !has_ctl_ctl_free, H2, H3. simpl. eauto.
Qed.

Lemma headers_ok_validate hs : headers_ok hs = true -> exists l, validate_headers hs = Ok l.
Proof.
  induction hs as [|h r IH]; simpl; [eauto|]. intro H. apply andb_true_iff in H as [H1 H2].
  destruct (header_ok_validate h H1) as [h' ->]. destruct (IH H2) as [l ->]. eauto.
Qed.

(* suppress_body is exactly: HEAD, 1xx, 204, 304 *)
Lemma suppress_iff m s :
  suppress_body m s = true <-> m = B "HEAD" \/ (100 <= s < 200)%Z \/ s = 204%Z \/ s = 304%Z.
Proof.
  unfold suppress_body. rewrite !orb_true_iff, andb_true_iff, beqb_eq, !Z.eqb_eq, Z.leb_le, Z.ltb_lt. tauto.
Qed.

(* ---------------------------------------------------------------- the application-facing automaton *)
Definition abs_state (s : hstream) : sstate :=
  match hs_state s with HRequest => SReq | HResponse => SResp (hs_resp_trailers s) | HTrailers => STrail | HClosed => SDone end.
Definition exts_of (s : hstream) : exts :=
  {| x_trailers := mem_version (version_of s) TRAILERS_VERSIONS; x_push := mem_version (version_of s) PUSH_VERSIONS;
     x_hint := mem_version (version_of s) EARLY_HINTS_VERSIONS |}.

(* a protocol that neither raises nor closes under the stream's feet, and re-enters on StreamClosed *)
Definition quiet (r : rig) : Prop := rg_reacts r = [] /\ rg_auto_close r = true.

(* the places where hypercorn accepts what the reference automaton rejects (known findings of C12):
   D1 http.response.trailers before http.response.start on a trailers-capable version;
   D2 http.response.push after the response has completed;
   D5 trailers for a client that did not send te: trailers are dropped without being examined *)
Definition deviation (s : hstream) (m : amsg) : bool :=
  match m, hs_state s with
  | MTrailers _ _, HRequest => mem_version (version_of s) TRAILERS_VERSIONS
  | MTrailers _ _, HTrailers => mem_version (version_of s) TRAILERS_VERSIONS && negb (te_trailers (headers_of s))
  | MPush _ _, HClosed => mem_version (version_of s) PUSH_VERSIONS
  | _, _ => false
  end.

Definition no_int0 (m : amsg) : Prop :=
  match m with
  | MStart _ hs _ | MTrailers hs _ | MPush _ hs => Forall (fun h => snd h <> HI 0) hs
  | MEarlyHint links => Forall (fun l => l <> HI 0) links
  | _ => True
  end.

Ltac exec := cbv -[validate_headers mem_version te_trailers suppress_body body_bytes headers_ok forallb link_ok
                   TRAILERS_VERSIONS PUSH_VERSIONS EARLY_HINTS_VERSIONS map filter app B].
Ltac split_matches :=
  repeat match goal with
         | |- context [match ?x with _ => _ end] =>
             lazymatch x with
             | context [match _ with _ => _ end] => fail
             | _ => destruct x eqn:?
             end
         end.

Lemma forallb_map' {A B} (f : A -> B) (p : B -> bool) l : forallb p (map f l) = forallb (fun x => p (f x)) l.
Proof. induction l as [|x r IH]; simpl; [reflexivity|]. rewrite IH. reflexivity. Qed.

Lemma links_rejected links :
  forallb link_ok links = false -> Forall (fun l => l <> HI 0) links ->
  exists e, validate_headers (map (fun l => (HB (B "link"), l)) links) = Raise e.
Proof.
  intros H F. apply validate_headers_rejects.
  - unfold headers_ok. rewrite forallb_map'. exact H.
  - apply Forall_map. simpl. exact F.
Qed.

Lemma validate_ok_headers_ok hs l :
  validate_headers hs = Ok l -> Forall (fun h => snd h <> HI 0) hs -> headers_ok hs = true.
Proof.
  intros H F. destruct (headers_ok hs) eqn:E; [reflexivity|].
  destruct (validate_headers_rejects hs E F) as [e He]. congruence.
Qed.

Lemma links_ok_of_validate links l :
  validate_headers (map (fun x => (HB (B "link"), x)) links) = Ok l -> Forall (fun x => x <> HI 0) links ->
  forallb link_ok links = true.
Proof.
  intros H F. destruct (forallb link_ok links) eqn:E; [reflexivity|].
  destruct (links_rejected links E F) as [e He]. congruence.
Qed.

Ltac fin := cbv beta iota zeta; try (split; [reflexivity|eauto]).

Section Inv.
Variables (names : list bytes) (ssl : bool) (id : Z) (closed : bool) (has_app has_resp : bool) (status : Z) (tr : bool).
Variables (ws : bool) (ver meth scheme spath raw query : bytes) (rhs : list header) (x1 x2 x3 : bool) (subs : list bytes).
Definition sc : scope := {| sc_ws := ws; sc_version := ver; sc_method := meth; sc_scheme := scheme; sc_path := spath; sc_raw_path := raw;
  sc_query := query; sc_headers := rhs; sc_ext_trailers := x1; sc_ext_push := x2; sc_ext_hint := x3; sc_subprotocols := subs |}.
Arguments mem_version : simpl never.
Arguments te_trailers : simpl never.
Definition mk (st : hstate) : rig :=
  {| rg_stream := {| hs_id := id; hs_closed := closed; hs_state := st; hs_scope := Some sc; hs_has_app := has_app;
                     hs_has_response := has_resp; hs_status := status; hs_resp_trailers := tr |};
     rg_reacts := []; rg_auto_close := true |}.

Definition rejected (st : hstate) (m : amsg) : Prop :=
  let '(r', o, res) := rig_step (the_cfg names ssl) (IAppSend (Some m)) (mk st) in o = [] /\ exists e, res = Raise e.

Definition spec_none (st : hstate) (m : amsg) : Prop :=
  spec_step (exts_of (rg_stream (mk st))) (abs_state (rg_stream (mk st))) m = None.

Ltac start := unfold rejected, spec_none, mk, abs_state, exts_of, deviation, version_of, headers_of, sc; simpl.
Ltac vers := repeat match goal with
           | |- context [mem_version ?v ?l] => destruct (mem_version v l) eqn:?
           end.

Lemma rej_start st status' hs trl :
  spec_none st (MStart status' hs trl) -> Forall (fun h => snd h <> HI 0) hs -> rejected st (MStart status' hs trl).
Proof.
  start. intros SP NI. destruct st; simpl in SP; exec; fin.
  destruct status' as [s'|].
  - destruct (headers_ok hs) eqn:HO; [discriminate|].
    destruct (validate_headers_rejects hs HO NI) as [e ->]. fin.
  - destruct (validate_headers hs); fin.
Qed.

Lemma rej_body st body more : spec_none st (MBody body more) -> rejected st (MBody body more).
Proof. start. intros SP. destruct st; simpl in SP; try discriminate; exec; fin. Qed.

Lemma rej_trailers st hs more :
  spec_none st (MTrailers hs more) -> deviation (rg_stream (mk st)) (MTrailers hs more) = false ->
  Forall (fun h => snd h <> HI 0) hs -> rejected st (MTrailers hs more).
Proof.
  start. intros SP DV NI. destruct st; simpl in SP, DV; exec; vers; fin; try discriminate.
  simpl in DV, SP. destruct (te_trailers rhs); [|discriminate].
  destruct (headers_ok hs) eqn:HO; [destruct more; discriminate|].
  destruct (validate_headers_rejects hs HO NI) as [e ->]. fin.
Qed.

Lemma rej_push st path hs :
  spec_none st (MPush path hs) -> deviation (rg_stream (mk st)) (MPush path hs) = false ->
  Forall (fun h => snd h <> HI 0) hs -> rejected st (MPush path hs).
Proof.
  start. intros SP DV NI.
  destruct st; simpl in SP, DV; exec; vers; fin; try discriminate;
    destruct path; fin; simpl in SP;
    destruct (headers_ok hs) eqn:HO; try discriminate;
    destruct (validate_headers_rejects hs HO NI) as [e ->]; fin.
Qed.

Lemma rej_hint st links :
  spec_none st (MEarlyHint links) -> Forall (fun l => l <> HI 0) links -> rejected st (MEarlyHint links).
Proof.
  start. intros SP NI. destruct st; simpl in SP; exec; vers; fin.
  simpl in SP. destruct (forallb link_ok links) eqn:HO; [discriminate|].
  destruct (links_rejected links HO NI) as [e ->]. fin.
Qed.

Lemma rej_other st m :
  match m with MStart _ _ _ | MBody _ _ | MTrailers _ _ | MPush _ _ | MEarlyHint _ => False | _ => True end ->
  rejected st m.
Proof. start. intro H. destruct m; try contradiction; destruct st; exec; fin. Qed.

(* ---- every step: at most one final response head, and only from REQUEST ---- *)
Fixpoint finals (o : list out) : nat :=
  match o with
  | [] => 0%nat
  | OSend _ (EvResponse st _) :: r => ((if (200 <=? st)%Z then 1 else 0) + finals r)%nat
  | _ :: r => finals r
  end.

Definition shape_kept (r' : rig) : Prop :=
  rg_reacts r' = [] /\ rg_auto_close r' = true /\ hs_scope (rg_stream r') = Some sc.

Ltac exec2 := cbv -[validate_headers mem_version te_trailers suppress_body body_bytes headers_ok forallb link_ok
                   TRAILERS_VERSIONS PUSH_VERSIONS EARLY_HINTS_VERSIONS map filter app B finals Z.leb].
Ltac crunch :=
  repeat (fin; match goal with
               | |- context [match ?x with _ => _ end] =>
                   lazymatch x with
                   | context [match _ with _ => _ end] => fail
                   | _ => destruct x eqn:?
                   end
               | |- context [if ?x then _ else _] =>
                   lazymatch x with
                   | context [if _ then _ else _] => fail
                   | context [match _ with _ => _ end] => fail
                   | _ => destruct x eqn:?
                   end
               end).

Lemma step_finals st (m : option amsg) :
  let '(r', o, res) := rig_step (the_cfg names ssl) (IAppSend m) (mk st) in
  (finals o <= (match st with HRequest => 1 | _ => 0 end))%nat /\
  (finals o = 1%nat -> hs_state (rg_stream r') <> HRequest) /\
  (hs_state (rg_stream r') = HRequest -> st = HRequest) /\ shape_kept r'.
Proof.
  unfold mk, sc, shape_kept. destruct m as [m|]; [destruct m|]; destruct st; exec2; crunch.
  all: cbn [finals app]; repeat match goal with |- context [(200 <=? ?z)%Z] => destruct (200 <=? z)%Z end.
  all: repeat split; (lia || congruence || reflexivity || discriminate).
Qed.

Definition not_request (ev : sevent) : Prop := match ev with EvRequest _ _ _ _ => False | _ => True end.

Lemma step_handle st ev : not_request ev ->
  let '(r', o, res) := rig_step (the_cfg names ssl) (IHandle ev) (mk st) in
  finals o = 0%nat /\ hs_state (rg_stream r') = st /\ shape_kept r'.
Proof.
  unfold mk, sc, shape_kept. intro NR. destruct ev; try contradiction; destruct st; exec2; crunch.
  all: cbn [finals app]; repeat split; reflexivity.
Qed.

(* ---- valid messages are accepted and hypercorn's state follows the reference automaton ---- *)
Definition body_typed (m : amsg) : Prop :=
  match m with MBody (HB _) _ => True | MBody _ _ => False | _ => True end.

Lemma step_valid st m s' :
  has_app = true -> (st <> HRequest -> has_resp = true) ->
  spec_step (exts_of (rg_stream (mk st))) (abs_state (rg_stream (mk st))) m = Some s' -> body_typed m ->
  let '(r', o, res) := rig_step (the_cfg names ssl) (IAppSend (Some m)) (mk st) in
  res = Ok tt /\ abs_state (rg_stream r') = s' /\ hs_has_app (rg_stream r') = true /\
  (hs_state (rg_stream r') <> HRequest -> hs_has_response (rg_stream r') = true) /\ shape_kept r'.
Proof.
  unfold mk, sc, shape_kept, abs_state, exts_of, version_of. cbn [rg_stream hs_state hs_scope sc_version hs_resp_trailers].
  intros HA HR SP BT. subst has_app.
  destruct m; destruct st; cbn [spec_step] in SP; try discriminate.
  all: try (rewrite HR in * by discriminate).
  all: exec; crunch.
  all: try discriminate.
  all: repeat match goal with
         | H : (if ?c then _ else _) = Some _ |- _ => destruct c eqn:?; try discriminate
         | H : Some _ = Some _ |- _ => injection H as <-
         end.
  all: try contradiction.
  all: try (match goal with H : match ?p with _ => _ end = Some _ |- _ => destruct p; try discriminate; cbn in H; try discriminate end).
  all: cbn [x_trailers x_push x_hint] in *.
  all: repeat match goal with H : _ && _ = true |- _ => apply andb_true_iff in H as [? ?] end.
  all: repeat match goal with
         | H : headers_ok ?h = true, H2 : validate_headers ?h = Raise _ |- _ =>
             destruct (headers_ok_validate h H) as [? ?]; congruence
         | H : forallb link_ok ?l = true, H2 : validate_headers (map _ ?l) = Raise _ |- _ =>
             exfalso; assert (headers_ok (map (fun x => (HB (B "link"), x)) l) = true) as HH by (unfold headers_ok; rewrite forallb_map'; exact H);
             destruct (headers_ok_validate _ HH) as [? ?]; congruence
         end.
  all: try (repeat split; try reflexivity; try congruence; intros; congruence).
Qed.

(* ---- request body delivery (C01) and end-of-response (C02) ---- *)
Fixpoint ends (o : list out) : nat :=
  match o with
  | [] => 0%nat
  | OSend _ EvEndBody :: r => S (ends r)
  | _ :: r => ends r
  end.
Fixpoint bodies (o : list out) : list bytes :=
  match o with
  | [] => []
  | OSend _ (EvBody d) :: r => d :: bodies r
  | _ :: r => bodies r
  end.

Ltac exec3 := cbv -[validate_headers mem_version te_trailers suppress_body body_bytes headers_ok forallb link_ok
                    TRAILERS_VERSIONS PUSH_VERSIONS EARLY_HINTS_VERSIONS map filter app B finals ends bodies Z.leb].

(* every step emits at most one EndBody, only if the response was not already complete, and then
   the response is complete; nothing but StreamClosed is sent to the protocol afterwards *)
Lemma step_ends st (m : option amsg) :
  let '(r', o, res) := rig_step (the_cfg names ssl) (IAppSend m) (mk st) in
  (ends o <= (match st with HClosed => 0 | _ => 1 end))%nat /\
  (ends o = 1%nat -> hs_state (rg_stream r') = HClosed) /\
  (st = HClosed -> hs_state (rg_stream r') = HClosed /\ bodies o = []) /\ shape_kept r'.
Proof.
  unfold mk, sc, shape_kept. destruct m as [m|]; [destruct m|]; destruct st; exec3; crunch.
  all: cbn [ends bodies app].
  all: repeat split; (lia || congruence || reflexivity || discriminate).
Qed.

(* a body message in the RESPONSE state hands exactly its bytes to the protocol (nothing when the
   body must be omitted or is empty) *)
Lemma step_body d more :
  has_resp = true -> has_app = true ->
  let '(r', o, res) := rig_step (the_cfg names ssl) (IAppSend (Some (MBody (HB d) more))) (mk HResponse) in
  res = Ok tt /\
  bodies o = (if suppress_body meth status then [] else match d with [] => [] | _ => [d] end) /\
  hs_state (rg_stream r') = (if more then HResponse else if tr then HTrailers else HClosed) /\
  ends o = (if more then 0 else if tr then 0 else 1)%nat.
Proof.
  intros HR HA. unfold mk, sc. rewrite HR, HA.
  cbv -[validate_headers mem_version te_trailers suppress_body headers_ok forallb link_ok
        TRAILERS_VERSIONS PUSH_VERSIONS EARLY_HINTS_VERSIONS map filter app B finals ends bodies Z.leb].
  crunch; cbn [ends bodies app]; repeat split; reflexivity.
Qed.

(* request body events reach the application unchanged, one message each *)
Lemma step_request_body d :
  has_app = true -> closed = false ->
  forall st, let '(r', o, res) := rig_step (the_cfg names ssl) (IHandle (EvBody d)) (mk st) in
  o = [OPut id (RHttpRequest d true)] /\ res = Ok tt /\ r' = mk st.
Proof. intros HA HC st. unfold mk, sc. rewrite HA, HC. destruct st; exec3; repeat split; reflexivity. Qed.

Lemma step_request_end :
  has_app = true -> closed = false ->
  forall st, let '(r', o, res) := rig_step (the_cfg names ssl) (IHandle EvEndBody) (mk st) in
  o = [OPut id (RHttpRequest [] false)] /\ res = Ok tt /\ r' = mk st.
Proof. intros HA HC st. unfold mk, sc. rewrite HA, HC. destruct st; exec3; repeat split; reflexivity. Qed.

(* after closure nothing is delivered any more *)
Lemma step_closed_silent ev :
  closed = true -> forall st, rig_step (the_cfg names ssl) (IHandle ev) (mk st) = (mk st, [], Ok tt).
Proof. intros HC st. unfold mk, sc. rewrite HC. destruct st; exec3; reflexivity. Qed.

(* C05: the application ends.  Nothing started: a complete 500 with connection: close, then the
   stream is closed; otherwise only the stream closure (no end-of-body: the response stays
   incomplete unless it had been completed) *)
Lemma step_app_exit st :
  closed = false -> has_app = true ->
  let '(r', o, res) := rig_step (the_cfg names ssl) (IAppSend None) (mk st) in
  res = Ok tt /\
  match st with
  | HRequest =>
      o = [OSend id (EvResponse 500 [(B "content-length", B "0"); (B "connection", B "close")]); OSend id EvEndBody;
           OLogAccess (Some 500%Z); OSend id EvStreamClosed; OPut id RHttpDisconnect]
  | HClosed => o = [OSend id EvStreamClosed; OPut id RHttpDisconnect]
  | _ => o = [OSend id EvStreamClosed; OLogAccess None; OPut id RHttpDisconnect] /\ ends o = 0%nat
  end.
Proof. intros HC HA. unfold mk, sc. rewrite HC, HA. destruct st; exec3; repeat split; reflexivity. Qed.

Lemma step_body_more d :
  has_resp = true -> has_app = true ->
  rig_step (the_cfg names ssl) (IAppSend (Some (MBody (HB d) true))) (mk HResponse) =
  (mk HResponse, (if suppress_body meth status then [] else match d with [] => [] | _ => [OSend id (EvBody d)] end), Ok tt).
Proof.
  intros HR HA. unfold mk, sc. rewrite HR, HA.
  cbv -[validate_headers mem_version te_trailers suppress_body headers_ok forallb link_ok
        TRAILERS_VERSIONS PUSH_VERSIONS EARLY_HINTS_VERSIONS map filter app B finals ends bodies Z.leb].
  crunch; reflexivity.
Qed.


(* ---- C03: access records and disconnects, per step ---- *)
Fixpoint logs (o : list out) : nat :=
  match o with [] => 0%nat | OLogAccess _ :: r => S (logs r) | _ :: r => logs r end.
Fixpoint discs (o : list out) : nat :=
  match o with [] => 0%nat | OPut _ RHttpDisconnect :: r => S (discs r) | _ :: r => discs r end.
Fixpoint puts_of (o : list out) : nat :=
  match o with [] => 0%nat | OPut _ _ :: r => S (puts_of r) | _ :: r => puts_of r end.
(* the request has its access record: its response completed, or the stream was told it is closed *)
Definition logged (st : hstate) (c : bool) : nat := if c then 1%nat else match st with HClosed => 1%nat | _ => 0%nat end.
Definition b2n (b : bool) : nat := if b then 1%nat else 0%nat.

Ltac exec4 := cbv -[validate_headers mem_version te_trailers suppress_body body_bytes headers_ok forallb link_ok
                    TRAILERS_VERSIONS PUSH_VERSIONS EARLY_HINTS_VERSIONS map filter app B finals ends bodies logs discs puts_of Z.leb].

(* trailers before the response start: known deviation F31 (no response head, no access record) *)
Definition early_trailers (st : hstate) (m : option amsg) : Prop :=
  match st, m with HRequest, Some (MTrailers _ _) => True | _, _ => False end.

Lemma step_closure_app st (m : option amsg) :
  has_app = true -> (st = HRequest \/ st = HClosed \/ has_resp = true) -> ~ early_trailers st m ->
  let '(r', o, res) := rig_step (the_cfg names ssl) (IAppSend m) (mk st) in
  (logs o + logged st closed = logged (hs_state (rg_stream r')) (hs_closed (rg_stream r')))%nat /\
  (discs o + b2n closed = b2n (hs_closed (rg_stream r')))%nat /\ puts_of o = discs o /\
  (closed = true -> res = Ok tt \/ exists e, res = Raise e /\ o = []) /\
  hs_has_app (rg_stream r') = true /\
  (hs_state (rg_stream r') = HRequest \/ hs_state (rg_stream r') = HClosed \/ hs_has_response (rg_stream r') = true) /\
  shape_kept r'.
Proof.
  unfold mk, sc, shape_kept, early_trailers. intros HA HR NE. rewrite HA.
  destruct m as [m|]; [destruct m|]; destruct st; try (exfalso; apply NE; exact I); clear NE;
    destruct closed; destruct HR as [HR|[HR|HR]]; try discriminate; try rewrite HR;
    exec4; crunch.
  all: cbn [logs discs puts_of app logged b2n].
  all: repeat split; try reflexivity; try lia; try congruence; auto; try (right; eexists; split; reflexivity).
Qed.

Lemma step_closure_handle st ev : not_request ev ->
  has_app = true ->
  let '(r', o, res) := rig_step (the_cfg names ssl) (IHandle ev) (mk st) in
  (logs o + logged st closed = logged (hs_state (rg_stream r')) (hs_closed (rg_stream r')))%nat /\
  (discs o + b2n closed = b2n (hs_closed (rg_stream r')))%nat /\
  (closed = true -> o = []) /\
  (discs o = 1%nat -> exists pre, o = pre ++ [OPut id RHttpDisconnect]) /\
  hs_has_app (rg_stream r') = true /\ hs_has_response (rg_stream r') = has_resp /\ hs_state (rg_stream r') = st.
Proof.
  unfold mk, sc. intros NR HA. rewrite HA. destruct ev; try contradiction; destruct st; destruct closed; exec4; crunch.
  all: cbn [logs discs puts_of app logged b2n].
  all: repeat split; try reflexivity; try lia; try congruence; auto; try (intros; discriminate).
  all: try (intros _; eexists [_]; reflexivity); try (intros _; exists []; reflexivity).
Qed.

Lemma step_handle_quiet st ev : not_request ev ->
  let '(r', o, res) := rig_step (the_cfg names ssl) (IHandle ev) (mk st) in
  ends o = 0%nat /\ bodies o = [] /\ finals o = 0%nat /\ hs_state (rg_stream r') = st /\ shape_kept r'.
Proof.
  unfold mk, sc, shape_kept. intro NR. destruct ev; try contradiction; destruct st; exec3; crunch.
  all: cbn [finals ends bodies app]; repeat split; reflexivity.
Qed.
End Inv.

(* ---------------------------------------------------------------- general forms *)
Lemma quiet_rig_shape r sc0 : quiet r -> hs_scope (rg_stream r) = Some sc0 ->
  r = mk (hs_id (rg_stream r)) (hs_closed (rg_stream r)) (hs_has_app (rg_stream r)) (hs_has_response (rg_stream r))
         (hs_status (rg_stream r)) (hs_resp_trailers (rg_stream r))
         (sc_ws sc0) (sc_version sc0) (sc_method sc0) (sc_scheme sc0) (sc_path sc0) (sc_raw_path sc0) (sc_query sc0)
         (sc_headers sc0) (sc_ext_trailers sc0) (sc_ext_push sc0) (sc_ext_hint sc0) (sc_subprotocols sc0)
         (hs_state (rg_stream r)).
Proof.
  destruct r as [[id closed st sc has_app has_resp status tr] reacts auto]. intros [Q1 Q2] S. simpl in *.
  subst. destruct sc0. reflexivity.
Qed.

Lemma finals_app a b : finals (a ++ b) = (finals a + finals b)%nat.
Proof.
  induction a as [|x r IH]; [reflexivity|]. simpl.
  destruct x as [i ev|i sc0|i m|st|e|c|w|w]; try exact IH. destruct ev; try exact IH. rewrite IH. lia.
Qed.

Fixpoint run_outs (cfg : hcfg) (r : rig) (is : list sinput) : list out :=
  match is with
  | [] => []
  | i :: rest => let '(r', o, _) := rig_step cfg i r in o ++ run_outs cfg r' rest
  end.

Definition drives_ok (is : list sinput) : Prop :=
  Forall (fun i => match i with IHandle ev => not_request ev | IAppSend _ => True end) is.

(* C12: whatever the application sends, in whatever order, valid or not, and however the request
   body / closure events interleave: at most one final response head, and none unless the request
   was still unanswered. *)
Theorem one_final_head_from names ssl : forall is r sc0,
  quiet r -> hs_scope (rg_stream r) = Some sc0 -> drives_ok is ->
  (finals (run_outs (the_cfg names ssl) r is) <= match hs_state (rg_stream r) with HRequest => 1 | _ => 0 end)%nat.
Proof.
  induction is as [|i rest IH]; intros r sc0 Q S D; [simpl; destruct (hs_state (rg_stream r)); lia|].
  inversion D as [|? ? Di Dr]; subst. simpl.
  rewrite (quiet_rig_shape r sc0 Q S) at 1.
  destruct i as [ev|m].
  - pose proof (step_handle names ssl (hs_id (rg_stream r)) (hs_closed (rg_stream r)) (hs_has_app (rg_stream r))
                  (hs_has_response (rg_stream r)) (hs_status (rg_stream r)) (hs_resp_trailers (rg_stream r))
                  (sc_ws sc0) (sc_version sc0) (sc_method sc0) (sc_scheme sc0) (sc_path sc0) (sc_raw_path sc0) (sc_query sc0)
                  (sc_headers sc0) (sc_ext_trailers sc0) (sc_ext_push sc0) (sc_ext_hint sc0) (sc_subprotocols sc0)
                  (hs_state (rg_stream r)) ev Di) as H.
    destruct (rig_step _ _ _) as [[r' o] res]. destruct H as (F & St & Q1 & Q2 & S').
    rewrite finals_app, F. simpl. rewrite <- St. eapply IH; [split; eassumption|exact S'|exact Dr].
  - pose proof (step_finals names ssl (hs_id (rg_stream r)) (hs_closed (rg_stream r)) (hs_has_app (rg_stream r))
                  (hs_has_response (rg_stream r)) (hs_status (rg_stream r)) (hs_resp_trailers (rg_stream r))
                  (sc_ws sc0) (sc_version sc0) (sc_method sc0) (sc_scheme sc0) (sc_path sc0) (sc_raw_path sc0) (sc_query sc0)
                  (sc_headers sc0) (sc_ext_trailers sc0) (sc_ext_push sc0) (sc_ext_hint sc0) (sc_subprotocols sc0)
                  (hs_state (rg_stream r)) m) as H.
    destruct (rig_step _ _ _) as [[r' o] res]. destruct H as (F & F1 & St & Q1 & Q2 & S').
    rewrite finals_app.
    assert (IHr := IH r' _ (conj Q1 Q2) S' Dr).
    destruct (hs_state (rg_stream r)) eqn:E.
    + destruct (hs_state (rg_stream r')) eqn:E'; try lia.
      assert (finals o <> 1%nat) by (intro X; apply F1 in X; congruence). lia.
    + destruct (hs_state (rg_stream r')) eqn:E'; try lia. specialize (St eq_refl). discriminate.
    + destruct (hs_state (rg_stream r')) eqn:E'; try lia. specialize (St eq_refl). discriminate.
    + destruct (hs_state (rg_stream r')) eqn:E'; try lia. specialize (St eq_refl). discriminate.
Qed.

Corollary one_final_head names ssl is r sc0 :
  quiet r -> hs_scope (rg_stream r) = Some sc0 -> drives_ok is ->
  (finals (run_outs (the_cfg names ssl) r is) <= 1)%nat.
Proof.
  intros Q S D. pose proof (one_final_head_from names ssl is r sc0 Q S D) as H.
  destruct (hs_state (rg_stream r)); lia.
Qed.

(* invalid messages: general form *)
Theorem invalid_rejected names ssl r m sc0 :
  quiet r -> hs_scope (rg_stream r) = Some sc0 ->
  spec_step (exts_of (rg_stream r)) (abs_state (rg_stream r)) m = None ->
  deviation (rg_stream r) m = false -> no_int0 m ->
  let '(r', o, res) := rig_step (the_cfg names ssl) (IAppSend (Some m)) r in
  o = [] /\ exists e, res = Raise e.
Proof.
  intros Q S. rewrite (quiet_rig_shape r sc0 Q S). intros SP DV NI.
  set (id := hs_id (rg_stream r)) in *. set (cl := hs_closed (rg_stream r)) in *. set (ha := hs_has_app (rg_stream r)) in *.
  set (hr := hs_has_response (rg_stream r)) in *. set (stt := hs_status (rg_stream r)) in *. set (tr := hs_resp_trailers (rg_stream r)) in *.
  set (st := hs_state (rg_stream r)) in *.
  destruct m.
  - apply (rej_start names ssl id cl ha hr stt tr _ _ _ _ _ _ _ _ _ _ _ _ st); assumption.
  - apply (rej_body names ssl id cl ha hr stt tr _ _ _ _ _ _ _ _ _ _ _ _ st); assumption.
  - apply (rej_trailers names ssl id cl ha hr stt tr _ _ _ _ _ _ _ _ _ _ _ _ st); assumption.
  - apply (rej_push names ssl id cl ha hr stt tr _ _ _ _ _ _ _ _ _ _ _ _ st); assumption.
  - apply (rej_hint names ssl id cl ha hr stt tr _ _ _ _ _ _ _ _ _ _ _ _ st); assumption.
  - apply (rej_other names ssl id cl ha hr stt tr _ _ _ _ _ _ _ _ _ _ _ _ st). exact I.
  - apply (rej_other names ssl id cl ha hr stt tr _ _ _ _ _ _ _ _ _ _ _ _ st). exact I.
  - apply (rej_other names ssl id cl ha hr stt tr _ _ _ _ _ _ _ _ _ _ _ _ st). exact I.
  - apply (rej_other names ssl id cl ha hr stt tr _ _ _ _ _ _ _ _ _ _ _ _ st). exact I.
  - apply (rej_other names ssl id cl ha hr stt tr _ _ _ _ _ _ _ _ _ _ _ _ st). exact I.
  - apply (rej_other names ssl id cl ha hr stt tr _ _ _ _ _ _ _ _ _ _ _ _ st). exact I.
Qed.

(* valid runs: every message of a run the reference automaton accepts is accepted, and the
   automaton state is tracked *)
Fixpoint spec_run (x : exts) (s : sstate) (ms : list amsg) : option sstate :=
  match ms with
  | [] => Some s
  | m :: r => match spec_step x s m with Some s' => spec_run x s' r | None => None end
  end.

Fixpoint run_results (cfg : hcfg) (r : rig) (ms : list amsg) : list (result (E:=exn) unit) * rig :=
  match ms with
  | [] => ([], r)
  | m :: rest => let '(r', _, res) := rig_step cfg (IAppSend (Some m)) r in
                 let '(l, rf) := run_results cfg r' rest in (res :: l, rf)
  end.

Definition wf_stream (s : hstream) : Prop :=
  hs_has_app s = true /\ (hs_state s <> HRequest -> hs_has_response s = true).

Theorem valid_run_accepted names ssl : forall ms r sc0 s',
  quiet r -> hs_scope (rg_stream r) = Some sc0 -> wf_stream (rg_stream r) ->
  spec_run (exts_of (rg_stream r)) (abs_state (rg_stream r)) ms = Some s' -> Forall body_typed ms ->
  let '(l, rf) := run_results (the_cfg names ssl) r ms in
  Forall (fun x => x = Ok tt) l /\ abs_state (rg_stream rf) = s'.
Proof.
  induction ms as [|m rest IH]; intros r sc0 s' Q S [W1 W2] SR BT.
  - cbn in *. injection SR as <-. split; [constructor|reflexivity].
  - inversion BT as [|? ? B1 B2]; subst.
    cbn [spec_run] in SR. cbn [run_results].
    destruct (spec_step (exts_of (rg_stream r)) (abs_state (rg_stream r)) m) as [s1|] eqn:SP; [|discriminate].
    pose proof (quiet_rig_shape r sc0 Q S) as E.
    pose proof (step_valid names ssl (hs_id (rg_stream r)) (hs_closed (rg_stream r)) (hs_has_app (rg_stream r))
                  (hs_has_response (rg_stream r)) (hs_status (rg_stream r)) (hs_resp_trailers (rg_stream r))
                  (sc_ws sc0) (sc_version sc0) (sc_method sc0) (sc_scheme sc0) (sc_path sc0) (sc_raw_path sc0) (sc_query sc0)
                  (sc_headers sc0) (sc_ext_trailers sc0) (sc_ext_push sc0) (sc_ext_hint sc0) (sc_subprotocols sc0)
                  (hs_state (rg_stream r)) m s1 W1 W2) as H.
    rewrite <- E in H. specialize (H SP B1).
    destruct (rig_step (the_cfg names ssl) (IAppSend (Some m)) r) as [[r' o] res].
    destruct H as (R & A & HA & HR & Q1 & Q2 & S').
    assert (X : exts_of (rg_stream r') = exts_of (rg_stream r)).
    { unfold exts_of, version_of. rewrite S', S. destruct sc0; reflexivity. }
    specialize (IH r' _ s' (conj Q1 Q2) S' (conj HA HR)). rewrite X, A in IH. specialize (IH SR B2).
    destruct (run_results (the_cfg names ssl) r' rest) as [l rf]. destruct IH as [I1 I2].
    split; [constructor; assumption|exact I2].
Qed.


(* ---------------------------------------------------------------- C02: end of response, body fidelity *)
Lemma ends_app a b : ends (a ++ b) = (ends a + ends b)%nat.
Proof.
  induction a as [|x r IH]; [reflexivity|]. simpl.
  destruct x as [i ev|i sc0|i m|st|e|c|w|w]; try exact IH. destruct ev; try exact IH. rewrite IH. reflexivity.
Qed.
Lemma bodies_app a b : bodies (a ++ b) = bodies a ++ bodies b.
Proof.
  induction a as [|x r IH]; [reflexivity|]. simpl.
  destruct x as [i ev|i sc0|i m|st|e|c|w|w]; try exact IH. destruct ev; try exact IH. simpl. rewrite IH. reflexivity.
Qed.

(* end-of-response is signalled at most once, whatever the application sends and however body and
   closure events interleave *)
Theorem end_once_from names ssl : forall is r sc0,
  quiet r -> hs_scope (rg_stream r) = Some sc0 -> drives_ok is ->
  (ends (run_outs (the_cfg names ssl) r is) <= match hs_state (rg_stream r) with HClosed => 0 | _ => 1 end)%nat.
Proof.
  induction is as [|i rest IH]; intros r sc0 Q S D; [simpl; destruct (hs_state (rg_stream r)); lia|].
  inversion D as [|? ? Di Dr]; subst. simpl.
  rewrite (quiet_rig_shape r sc0 Q S) at 1.
  destruct i as [ev|m].
  - pose proof (step_handle_quiet names ssl (hs_id (rg_stream r)) (hs_closed (rg_stream r)) (hs_has_app (rg_stream r))
                  (hs_has_response (rg_stream r)) (hs_status (rg_stream r)) (hs_resp_trailers (rg_stream r))
                  (sc_ws sc0) (sc_version sc0) (sc_method sc0) (sc_scheme sc0) (sc_path sc0) (sc_raw_path sc0) (sc_query sc0)
                  (sc_headers sc0) (sc_ext_trailers sc0) (sc_ext_push sc0) (sc_ext_hint sc0) (sc_subprotocols sc0)
                  (hs_state (rg_stream r)) ev Di) as H.
    destruct (rig_step _ _ _) as [[r' o] res]. destruct H as (E & _ & _ & St & Q1 & Q2 & S').
    rewrite ends_app, E. simpl. rewrite <- St. eapply IH; [split; eassumption|exact S'|exact Dr].
  - pose proof (step_ends names ssl (hs_id (rg_stream r)) (hs_closed (rg_stream r)) (hs_has_app (rg_stream r))
                  (hs_has_response (rg_stream r)) (hs_status (rg_stream r)) (hs_resp_trailers (rg_stream r))
                  (sc_ws sc0) (sc_version sc0) (sc_method sc0) (sc_scheme sc0) (sc_path sc0) (sc_raw_path sc0) (sc_query sc0)
                  (sc_headers sc0) (sc_ext_trailers sc0) (sc_ext_push sc0) (sc_ext_hint sc0) (sc_subprotocols sc0)
                  (hs_state (rg_stream r)) m) as H.
    destruct (rig_step _ _ _) as [[r' o] res]. destruct H as (F & F1 & St & Q1 & Q2 & S').
    rewrite ends_app.
    assert (IHr := IH r' _ (conj Q1 Q2) S' Dr).
    destruct (hs_state (rg_stream r)) eqn:E.
    + destruct (hs_state (rg_stream r')) eqn:E'; try lia;
        (assert (ends o <> 1%nat) by (intro X; apply F1 in X; congruence)); lia.
    + destruct (hs_state (rg_stream r')) eqn:E'; try lia;
        (assert (ends o <> 1%nat) by (intro X; apply F1 in X; congruence)); lia.
    + destruct (hs_state (rg_stream r')) eqn:E'; try lia;
        (assert (ends o <> 1%nat) by (intro X; apply F1 in X; congruence)); lia.
    + destruct (St eq_refl) as [St' _]. rewrite St' in IHr. lia.
Qed.

(* the chunks of a streamed body reach the protocol in order and unchanged; empty chunks send nothing *)
Fixpoint nonempty (l : list bytes) : list bytes :=
  match l with [] => [] | [] :: r => nonempty r | d :: r => d :: nonempty r end.
Lemma concat_nonempty l : concat (nonempty l) = concat l.
Proof. induction l as [|d r IH]; [reflexivity|]. destruct d; simpl; rewrite IH; reflexivity. Qed.

Theorem body_chunks_in_order names ssl id closed status tr ws ver meth scheme spath raw query rhs x1 x2 x3 subs : forall ds,
  bodies (run_outs (the_cfg names ssl)
            (mk id closed true true status tr ws ver meth scheme spath raw query rhs x1 x2 x3 subs HResponse)
            (map (fun d => IAppSend (Some (MBody (HB d) true))) ds)) =
  (if suppress_body meth status then [] else nonempty ds).
Proof.
  induction ds as [|d rest IH].
  - simpl. destruct (suppress_body meth status); reflexivity.
  - cbn [map run_outs].
    rewrite (step_body_more names ssl id closed true true status tr ws ver meth scheme spath raw query rhs x1 x2 x3 subs d eq_refl eq_refl).
    cbv beta iota zeta. rewrite bodies_app, IH.
    destruct (suppress_body meth status); [reflexivity|]. destruct d; reflexivity.
Qed.

(* ---------------------------------------------------------------- C01: scope and request body *)
Lemma make_scope_spec names ssl hs version method raw sc :
  make_scope (the_cfg names ssl) hs version method raw = Ok sc ->
  let '(path, found, query) := partition1 63 raw in
  is_ascii path = true /\ mem_byte 63 path = false /\
  raw = path ++ (if found then 63 :: query else []) /\
  sc_raw_path sc = path /\ sc_query sc = query /\ sc_path sc = pct_decode path /\
  sc_method sc = method /\ sc_version sc = version /\ sc_headers sc = hs /\ sc_ws sc = false /\
  sc_scheme sc = (if ssl then B "https" else B "http").
Proof.
  unfold make_scope. pose proof (partition1_spec 63 raw) as P.
  destruct (partition1 63 raw) as [[path found] query]. destruct P as (P1 & P2 & _).
  destruct (is_ascii path) eqn:A; cbn [negb]; [|discriminate].
  intro H. injection H as <-. cbn. repeat split; assumption || reflexivity.
Qed.

(* exactly one application instance per request, with that scope; an unknown server name is
   answered 404 without an application; a non-ASCII path is refused before anything happens *)
Lemma request_outcome names ssl id hs version method raw :
  let '(r', o, res) := rig_step (the_cfg names ssl) (IHandle (EvRequest hs version method raw)) (new_rig id [] true) in
  match make_scope (the_cfg names ssl) hs version method raw with
  | Raise e => o = [] /\ res = Raise e
  | Ok sc =>
      if valid_server_name (the_cfg names ssl) hs
      then o = [OSpawn id sc] /\ res = Ok tt /\ hs_has_app (rg_stream r') = true /\ hs_scope (rg_stream r') = Some sc
      else o = [OSend id (EvResponse 404 [(B "content-length", B "0"); (B "connection", B "close")]); OSend id EvEndBody; OLogAccess (Some 404%Z)]
           /\ hs_closed (rg_stream r') = true /\ hs_has_app (rg_stream r') = false
  end.
Proof.
  unfold new_rig, new_hstream.
  cbv -[make_scope valid_server_name B].
  destruct (make_scope _ hs version method raw) as [sc|e]; [|split; reflexivity].
  destruct (valid_server_name _ hs); repeat split; reflexivity.
Qed.

Lemma pct_decode_plain b : mem_byte 37 b = false -> pct_decode b = b.
Proof.
  induction b as [|c r IH]; [reflexivity|]. cbn [mem_byte]. intro H. apply orb_false_iff in H as [H1 H2].
  cbn [pct_decode]. rewrite H1, IH by exact H2. reflexivity.
Qed.

(* percent-decoding inverts percent-encoding of every byte *)
Definition hexd (n : N) : N := if n <? 10 then 48 + n else 55 + n.
Definition quote1 (c : N) : bytes := [37; hexd (c / 16); hexd (c mod 16)].
Lemma hex_val_hexd n : n < 16 -> hex_val (hexd n) = Some n.
Proof.
  intro H. assert (E : n = 0 \/ n = 1 \/ n = 2 \/ n = 3 \/ n = 4 \/ n = 5 \/ n = 6 \/ n = 7 \/ n = 8 \/ n = 9 \/ n = 10 \/ n = 11 \/
                      n = 12 \/ n = 13 \/ n = 14 \/ n = 15) by lia.
  repeat (destruct E as [->|E]; [reflexivity|]). subst. reflexivity.
Qed.
Lemma pct_decode_quote bs : Forall (fun c => c < 256) bs -> pct_decode (flat_map quote1 bs) = bs.
Proof.
  induction bs as [|c r IH]; intro F; [reflexivity|]. inversion F as [|? ? Hc Fr]; subst.
  cbn [flat_map quote1 app pct_decode]. cbn [N.eqb Pos.eqb].
  assert (H1 : c / 16 < 16) by (apply N.div_lt_upper_bound; lia).
  assert (H2 : c mod 16 < 16) by (apply N.mod_lt; lia).
  change (37 =? 37) with true. cbv iota.
  rewrite (hex_val_hexd _ H1), (hex_val_hexd _ H2), IH by exact Fr.
  f_equal. pose proof (N.div_mod c 16). lia.
Qed.

(* ---------------------------------------------------------------- C03: exactly one access record, exactly one disconnect *)
Lemma logs_app a b : logs (a ++ b) = (logs a + logs b)%nat.
Proof. induction a as [|x r IH]; [reflexivity|]. simpl. destruct x; try exact IH. rewrite IH. reflexivity. Qed.
Lemma discs_app a b : discs (a ++ b) = (discs a + discs b)%nat.
Proof.
  induction a as [|x r IH]; [reflexivity|]. simpl. destruct x as [i ev|i sc0|i m|st|e|c|w|w]; try exact IH.
  destruct m; try exact IH. rewrite IH. reflexivity.
Qed.

Fixpoint run_state (cfg : hcfg) (r : rig) (is : list sinput) : rig :=
  match is with
  | [] => r
  | i :: rest => let '(r', _, _) := rig_step cfg i r in run_state cfg r' rest
  end.

(* no http.response.trailers while the request is unanswered (the accepted-though-invalid place F31) *)
Fixpoint no_early_trailers (cfg : hcfg) (r : rig) (is : list sinput) : Prop :=
  match is with
  | [] => True
  | i :: rest =>
      match i with IAppSend m => ~ early_trailers (hs_state (rg_stream r)) m | _ => True end /\
      let '(r', _, _) := rig_step cfg i r in no_early_trailers cfg r' rest
  end.

Definition answerable (s : hstream) : Prop :=
  hs_state s = HRequest \/ hs_state s = HClosed \/ hs_has_response s = true.

(* However the application's messages (valid or not), the request body events and closure events
   interleave: the access records written plus the one already due add up to the one due at the
   end, and likewise for the disconnect message. *)
Theorem closure_once_from names ssl : forall is r sc0,
  quiet r -> hs_scope (rg_stream r) = Some sc0 -> drives_ok is ->
  hs_has_app (rg_stream r) = true -> answerable (rg_stream r) -> no_early_trailers (the_cfg names ssl) r is ->
  (logs (run_outs (the_cfg names ssl) r is) + logged (hs_state (rg_stream r)) (hs_closed (rg_stream r))
   = logged (hs_state (rg_stream (run_state (the_cfg names ssl) r is))) (hs_closed (rg_stream (run_state (the_cfg names ssl) r is))))%nat /\
  (discs (run_outs (the_cfg names ssl) r is) + b2n (hs_closed (rg_stream r))
   = b2n (hs_closed (rg_stream (run_state (the_cfg names ssl) r is))))%nat.
Proof.
  induction is as [|i rest IH]; intros r sc0 Q S D HA AN NE; [simpl; split; lia|].
  inversion D as [|? ? Di Dr]; subst. cbn [run_state run_outs no_early_trailers] in *. destruct NE as [NE1 NE2].
  pose proof (quiet_rig_shape r sc0 Q S) as Hr.
  destruct i as [ev|m].
  - pose proof (step_closure_handle names ssl (hs_id (rg_stream r)) (hs_closed (rg_stream r)) (hs_has_app (rg_stream r))
                  (hs_has_response (rg_stream r)) (hs_status (rg_stream r)) (hs_resp_trailers (rg_stream r))
                  (sc_ws sc0) (sc_version sc0) (sc_method sc0) (sc_scheme sc0) (sc_path sc0) (sc_raw_path sc0) (sc_query sc0)
                  (sc_headers sc0) (sc_ext_trailers sc0) (sc_ext_push sc0) (sc_ext_hint sc0) (sc_subprotocols sc0)
                  (hs_state (rg_stream r)) ev Di HA) as H.
    pose proof (step_handle_quiet names ssl (hs_id (rg_stream r)) (hs_closed (rg_stream r)) (hs_has_app (rg_stream r))
                  (hs_has_response (rg_stream r)) (hs_status (rg_stream r)) (hs_resp_trailers (rg_stream r))
                  (sc_ws sc0) (sc_version sc0) (sc_method sc0) (sc_scheme sc0) (sc_path sc0) (sc_raw_path sc0) (sc_query sc0)
                  (sc_headers sc0) (sc_ext_trailers sc0) (sc_ext_push sc0) (sc_ext_hint sc0) (sc_subprotocols sc0)
                  (hs_state (rg_stream r)) ev Di) as HQ.
    rewrite <- Hr in H, HQ.
    destruct (rig_step (the_cfg names ssl) (IHandle ev) r) as [[r1 o1] res1]. destruct H as (L & Dc & _ & _ & HA1 & HR1 & St1).
    destruct HQ as (_ & _ & _ & _ & Q1 & Q2 & S1).
    assert (AN1 : answerable (rg_stream r1)) by (unfold answerable in *; rewrite St1, HR1; exact AN).
    destruct (IH r1 _ (conj Q1 Q2) S1 Dr HA1 AN1 NE2) as [I1 I2].
    rewrite logs_app, discs_app. split; lia.
  - pose proof (step_closure_app names ssl (hs_id (rg_stream r)) (hs_closed (rg_stream r)) (hs_has_app (rg_stream r))
                  (hs_has_response (rg_stream r)) (hs_status (rg_stream r)) (hs_resp_trailers (rg_stream r))
                  (sc_ws sc0) (sc_version sc0) (sc_method sc0) (sc_scheme sc0) (sc_path sc0) (sc_raw_path sc0) (sc_query sc0)
                  (sc_headers sc0) (sc_ext_trailers sc0) (sc_ext_push sc0) (sc_ext_hint sc0) (sc_subprotocols sc0)
                  (hs_state (rg_stream r)) m HA AN NE1) as H.
    rewrite <- Hr in H.
    destruct (rig_step (the_cfg names ssl) (IAppSend m) r) as [[r1 o1] res1]. destruct H as (L & Dc & _ & _ & HA1 & AN1 & Q1 & Q2 & S1).
    destruct (IH r1 _ (conj Q1 Q2) S1 Dr HA1 AN1 NE2) as [I1 I2].
    rewrite logs_app, discs_app. split; lia.
Qed.

Corollary access_at_most_once names ssl is r sc0 :
  quiet r -> hs_scope (rg_stream r) = Some sc0 -> drives_ok is ->
  hs_has_app (rg_stream r) = true -> answerable (rg_stream r) -> no_early_trailers (the_cfg names ssl) r is ->
  (logs (run_outs (the_cfg names ssl) r is) + logged (hs_state (rg_stream r)) (hs_closed (rg_stream r)) <= 1)%nat /\
  (discs (run_outs (the_cfg names ssl) r is) + b2n (hs_closed (rg_stream r)) <= 1)%nat.
Proof.
  intros Q S D HA AN NE. destruct (closure_once_from names ssl is r sc0 Q S D HA AN NE) as [H1 H2].
  rewrite H1, H2. unfold logged, b2n.
  set (r' := run_state (the_cfg names ssl) r is).
  destruct (hs_closed (rg_stream r')); destruct (hs_state (rg_stream r')); split; lia.
Qed.
