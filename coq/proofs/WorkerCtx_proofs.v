From Coq Require Import ZArith List Bool Lia.
From HV Require Import model.WorkerCtx.
Import ListNotations.
Open Scope Z_scope.

Lemma mark_n_requests max j n :
  wx_requests (mark_n n (wctx_init (Some max) j)) = Z.of_nat n /\ wx_max (mark_n n (wctx_init (Some max) j)) = Some (max + j).
Proof.
  induction n as [|k [IH1 IH2]]; [split; reflexivity|].
  cbn [mark_n]. unfold mark_request. rewrite IH2. cbn [wx_requests wx_max]. rewrite IH1. split; [lia|reflexivity].
Qed.

(* the worker asks to be replaced exactly when it has taken on more than max_requests + jitter *)
Lemma recycle_iff max j n : 0 <= max + j ->
  (wx_terminate (mark_n n (wctx_init (Some max) j)) = true <-> Z.of_nat n > max + j).
Proof.
  intro NN. induction n as [|k IH].
  - cbn. split; [discriminate|lia].
  - destruct (mark_n_requests max j k) as [R M].
    cbn [mark_n]. unfold mark_request. rewrite M. cbn [wx_terminate]. rewrite R, orb_true_iff, IH, Z.ltb_lt. lia.
Qed.

(* without max_requests the worker never asks to be replaced *)
Lemma no_max_never j n : wx_terminate (mark_n n (wctx_init None j)) = false.
Proof. induction n as [|k IH]; [reflexivity|]. cbn [mark_n]. unfold mark_request. 
  assert (wx_max (mark_n k (wctx_init None j)) = None) as ->.
  { clear IH. induction k as [|k IHk]; [reflexivity|]. cbn [mark_n]. unfold mark_request. rewrite IHk. exact IHk. }
  exact IH.
Qed.
