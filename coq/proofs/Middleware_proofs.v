From Coq Require Import String Ascii ZArith NArith List Bool Lia Arith.
From HV Require Import lib.Bytes lib.Obs model.Middleware.
Import ListNotations.
Open Scope N_scope.

(* ---------------------------------------------------------------- ProxyFix *)
Lemma values_app name a b : values name (a ++ b) = values name a ++ values name b.
Proof. unfold values. apply flat_map_app. Qed.

Lemma pick_app vp vs k : (1 <= k <= length vs)%nat -> pick (vp ++ vs) k = pick vs k.
Proof.
  intros [H1 H2]. unfold pick.
  destruct (Nat.eqb_spec k 0) as [->|_]; [lia|].
  rewrite app_length.
  destruct (Nat.leb_spec k (length vp + length vs)) as [_|?]; [|lia].
  destruct (Nat.leb_spec k (length vs)) as [_|?]; [|lia].
  rewrite nth_error_app2 by lia. f_equal. lia.
Qed.

(* Anything placed to the left of the trusted values — extra headers, or (next lemma) extra
   comma-separated elements inside a header — is never used. *)
Lemma trust_boundary name k pre suf :
  (1 <= k <= length (values name suf))%nat -> trusted name (pre ++ suf) k = trusted name suf k.
Proof. intro H. unfold trusted. rewrite values_app. apply pick_app. exact H. Qed.

Lemma split1_app_sep sep a b : split1 sep (a ++ sep :: b) = split1 sep a ++ split1 sep b.
Proof.
  induction a as [|c r IH]; simpl.
  - rewrite N.eqb_refl. reflexivity.
  - destruct (c =? sep) eqn:E.
    + rewrite IH. reflexivity.
    + rewrite IH. pose proof (split1_nonempty sep r) as NE.
      destruct (split1 sep r) as [|h t]; [contradiction|]. reflexivity.
Qed.

Lemma values_comma name n a b hs :
  values name ((n, a ++ 44 :: b) :: hs) = values name ((n, a) :: (n, b) :: hs).
Proof.
  unfold values. simpl. destruct (beqb (lower n) name); [|reflexivity].
  rewrite split1_app_sep, map_app, app_assoc. reflexivity.
Qed.

Lemma pick_too_few vs k : (k = 0 \/ length vs < k)%nat -> pick vs k = None.
Proof.
  intros [->|H]; unfold pick; [reflexivity|].
  destruct (Nat.eqb k 0); [reflexivity|].
  destruct (Nat.leb_spec k (length vs)); [lia|reflexivity].
Qed.

Definition too_few (modern : bool) (k : nat) (hs : list header) : Prop :=
  k = 0%nat \/
  if modern then (length (values (B "forwarded") hs) < k)%nat
  else (length (values (B "x-forwarded-for") hs) < k)%nat /\
       (length (values (B "x-forwarded-proto") hs) < k)%nat /\
       (length (values (B "x-forwarded-host") hs) < k)%nat.

Lemma proxy_untouched modern k sc : too_few modern k (ps_headers sc) -> proxy_fix modern k sc = sc.
Proof.
  intro H. destruct sc as [www cl sch hs]. unfold proxy_fix. simpl in *.
  destruct www; [|reflexivity]. simpl.
  assert (P : forall n, (k = 0 \/ length (values n hs) < k)%nat -> trusted n hs k = None)
    by (intros n Hn; apply pick_too_few; exact Hn).
  destruct modern.
  - rewrite P; [reflexivity|]. destruct H as [H|H]; auto.
  - rewrite !P; [reflexivity| | |]; destruct H as [H|(H1 & H2 & H3)]; auto.
Qed.

(* the forwarded values decide the result: two header lists with the same relevant values and the
   same other content give the same client / scheme *)
Lemma proxy_client_from_trusted k sc :
  ps_www sc = true ->
  ps_client (proxy_fix false k sc) =
  match trusted (B "x-forwarded-for") (ps_headers sc) k with Some c => Some (c, 0%Z) | None => ps_client sc end.
Proof. intro W. unfold proxy_fix. rewrite W. reflexivity. Qed.

(* ---------------------------------------------------------------- Dispatcher *)
Definition no_match (path : bytes) (l : list bytes) : bool :=
  forallb (fun q => negb (starts_with q path)) l.

Lemma route_first_match mounts path : forall i j p',
  route_from i mounts path = Some (j, p') ->
  exists l1 pre l2, mounts = l1 ++ pre :: l2 /\ j = (i + length l1)%nat /\
    no_match path l1 = true /\ starts_with pre path = true /\
    p' = (match skipn (length pre) path with [] => B "/" | rest => rest end) /\ p' <> [].
Proof.
  induction mounts as [|p r IH]; intros i j p' H; simpl in H; [discriminate|].
  destruct (starts_with p path) eqn:E.
  - injection H as <- <-. exists [], p, r. simpl. repeat split; auto.
    all: try (destruct (skipn (length p) path); discriminate).
  - apply IH in H as (l1 & pre & l2 & -> & -> & H1 & H2 & H3 & H4).
    exists (p :: l1), pre, l2. simpl. rewrite E. simpl. repeat split; auto; try lia.
Qed.

Lemma route_none mounts path : forall i,
  route_from i mounts path = None <-> no_match path mounts = true.
Proof.
  induction mounts as [|p r IH]; intro i; simpl; [tauto|].
  destruct (starts_with p path); simpl; [split; discriminate|]. apply IH.
Qed.

(* lifespan fan-out *)
Lemma nth_set_nth_other i j st : i <> j -> nth j (set_nth i st) true = nth j st true.
Proof.
  revert i j. induction st as [|b r IH]; intros i j N; simpl.
  - destruct i; reflexivity.
  - destruct i, j; simpl; try congruence; try reflexivity. apply IH. congruence.
Qed.

Lemma all_true_nth st j : forallb (fun b => b) st = true -> nth j st true = true.
Proof.
  revert j. induction st as [|b r IH]; intros j H; simpl in *.
  - destruct j; reflexivity.
  - apply andb_true_iff in H as [-> H]. destruct j; [reflexivity|]. apply IH. exact H.
Qed.

Lemma fan_once : forall is st, NoDup is -> (forall i, In i is -> nth i st true = false) ->
  (snd (fan_run st is) <= 1)%nat /\
  (snd (fan_run st is) = 1%nat <-> forallb (fun b => b) (fst (fan_run st is)) = true /\ is <> []).
Proof.
  induction is as [|i r IH]; intros st ND Hf; simpl.
  - split; [lia|]. split; [discriminate|]. intros [_ H]. contradiction.
  - unfold fan_step. set (st' := set_nth i st).
    inversion ND as [|? ? Hnotin ND']; subst.
    assert (Hf' : forall j, In j r -> nth j st' true = false).
    { intros j Hj. unfold st'. rewrite nth_set_nth_other.
      - apply Hf. right. exact Hj.
      - intro; subst. contradiction. }
    specialize (IH st' ND' Hf') as [IH1 IH2].
    destruct (fan_run st' r) as [st'' n] eqn:R. simpl in *.
    destruct (forallb (fun b => b) st') eqn:E.
    + destruct r as [|j r'].
      * simpl in R. injection R as <- <-. split; [lia|]. split; [intros _; split; [exact E|discriminate]|reflexivity].
      * exfalso. specialize (Hf' j (or_introl eq_refl)). rewrite (all_true_nth _ _ E) in Hf'. discriminate.
    + split; [exact IH1|]. rewrite IH2. split.
      * intros [H _]. split; [exact H|discriminate].
      * intros [H _]. split; [exact H|]. intros ->. simpl in R. injection R as <- <-. congruence.
Qed.

(* an aggregate completion is only ever forwarded when every mount has completed *)
Lemma fan_step_sound st i st' : fan_step st i = (st', true) -> forallb (fun b => b) st' = true.
Proof. unfold fan_step. intro H. injection H as <- H. exact H. Qed.

(* ---------------------------------------------------------------- redirect *)
Definition determinable (cfg_host : option bytes) (sc : rscope) : option bytes :=
  match cfg_host with Some h => Some h | None => find_host (rs_headers sc) end.

Definition expected_url (scheme host : bytes) (sc : rscope) : bytes :=
  scheme ++ B "://" ++ host ++ rs_root sc ++ rs_raw_path sc ++
  (match rs_query sc with [] => [] | q => 63 :: q end).

Definition abs_or_empty (p : bytes) : bool := match p with [] => true | c :: _ => c =? 47 end.

Lemma urlunsplit_abs scheme host path query :
  abs_or_empty path = true ->
  urlunsplit scheme host path query = scheme ++ B "://" ++ host ++ path ++ (match query with [] => [] | q => 63 :: q end).
Proof.
  unfold urlunsplit, abs_or_empty. intro H. destruct path as [|c r]; [reflexivity|]. rewrite H. reflexivity.
Qed.

Lemma redirect_http cfg_host sc h :
  rs_type sc = 0 -> rs_scheme sc = B "http" -> determinable cfg_host sc = Some h ->
  abs_or_empty (rs_root sc ++ rs_raw_path sc) = true ->
  redirect cfg_host sc = RHttp (expected_url (B "https") h sc).
Proof.
  intros T S D A. unfold redirect, new_url. rewrite T, S. simpl.
  unfold determinable in D. rewrite D. rewrite urlunsplit_abs by exact A.
  unfold expected_url. rewrite <- !app_assoc. destruct (rs_query sc); reflexivity.
Qed.

Lemma redirect_ws cfg_host sc h :
  rs_type sc = 1 -> rs_scheme sc = B "ws" -> rs_has_ext sc = true -> determinable cfg_host sc = Some h ->
  abs_or_empty (rs_root sc ++ rs_raw_path sc) = true ->
  redirect cfg_host sc = RWs (expected_url (if rs_h2 sc then B "https" else B "wss") h sc).
Proof.
  intros T S X D A. unfold redirect, new_url. rewrite T, S, X. simpl.
  unfold determinable in D. rewrite D. rewrite urlunsplit_abs by exact A.
  unfold expected_url. rewrite <- !app_assoc. destruct (rs_query sc); reflexivity.
Qed.

Lemma redirect_secure_pass cfg_host sc :
  rs_scheme sc <> B "http" -> rs_scheme sc <> B "ws" -> redirect cfg_host sc = RPass.
Proof.
  intros H1 H2. unfold redirect.
  apply beqb_neq in H1, H2. rewrite H1, H2, !andb_false_r. reflexivity.
Qed.
