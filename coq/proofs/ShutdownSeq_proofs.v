From Coq Require Import ZArith List Lia ZifyBool.
From HV Require Import model.ShutdownSeq.
Import ListNotations.
Open Scope Z_scope.

Lemma drain_cons G d ds : drain_end G (d :: ds) = Z.max (Z.min d G) (drain_end G ds).
Proof. reflexivity. Qed.

Lemma drain_bounded G ds : 0 <= G -> 0 <= drain_end G ds <= G.
Proof.
  intro HG. induction ds as [|d ds IH].
  - change (drain_end G []) with 0. lia.
  - rewrite drain_cons. lia.
Qed.

(* bounded, however many connections are stuck and for however long *)
Theorem return_bounded G St ds ls : 0 <= G -> 0 <= St -> 0 <= ls -> serve_return G St ds ls <= G + St.
Proof. intros HG HS Hl. unfold serve_return. pose proof (drain_bounded G ds HG). lia. Qed.

(* a request that completes within the grace period is not cut short, and shutdown waits for it *)
Theorem within_grace_delivered G d : d <= G -> delivered G d = true /\ conn_end G d = d.
Proof. intro H. unfold delivered, conn_end. split; lia. Qed.
Theorem waits_for_in_flight G St ds ls d : In d ds -> 0 <= d <= G -> 0 <= ls -> 0 <= St -> d <= serve_return G St ds ls.
Proof.
  intros Hin Hd Hl HS. unfold serve_return.
  assert (d <= drain_end G ds).
  { induction ds as [|x xs IH]; [contradiction|]. rewrite drain_cons. destruct Hin as [->|Hin]; [lia | specialize (IH Hin); lia]. }
  lia.
Qed.
(* nothing to wait for: shutdown is immediate up to lifespan *)
Theorem idle_only G ds : Forall (fun d => d = 0) ds -> 0 <= G -> drain_end G ds = 0.
Proof. intros H HG. induction H as [|d ds Hd _ IH]; [reflexivity|]. rewrite drain_cons. subst. lia. Qed.
