(* C06 / C18, whole runs: at most keep_alive_max_requests requests (at least one) are taken on per HTTP/1 connection.
   Invariant [Capped]: once the connection has counted as many requests as the maximum allows (and at least one),
   h11's state is "armed": the client side is not IDLE and the server side can no longer complete a response with
   keep-alive on ([capG]), so start_next_cycle is impossible and no further Request can be delivered.  It is
   established at the end of _create_stream (the server side is in SEND_RESPONSE, or an error answer carrying
   Connection: close has switched keep-alive off) and kept by every later step because every response head sent
   from then on carries Connection: close. *)
From Coq Require Import String Ascii ZArith NArith List Bool Lia.
From HV Require Import lib.Bytes lib.Obs lib.Monad model.Asgi model.AsgiSpec model.GuardTypes model.HttpStream model.WsStream model.LibH11
   model.H11Proto proofs.LibH11_proofs proofs.H11_proofs proofs.Hoare proofs.Serial_proofs.
Import ListNotations.
Open Scope N_scope.

Definition Ln := ONote "request-over-limit".
Lemma Ln_note : exists s, Ln = ONote s.
Proof. eexists; reflexivity. Qed.
Notation tri := (Hoare.tri Vn Ln).
Notation pres := (Hoare.pres Vn Ln).

(* ---- h11 facts *)
Definition armed_lib (l : h11lib) : Prop := capG (l_cs l) = true /\ is_idle (their_state l) = false.

Lemma impb_mp a b : impb a b = true -> a = true -> b = true.
Proof. unfold impb. destruct a; cbn; intros; [assumption|discriminate]. Qed.

Definition send_closing (e : h11send) : bool :=
  match e with SResponse _ hs => has_token hs (B "connection") (B "close") | _ => true end.

Lemma cap_ev c role k sw c' :
  process_event c role k sw = Some c' -> capG c = true ->
  (if negb role && is_response k then capG (keep_alive_disabled c') else capG c') = true.
Proof.
  intros E G. pose proof (chk_cap_event_holds c role k sw) as H. unfold chk_cap_event in H. rewrite E in H.
  apply (impb_mp _ _ H G).
Qed.
Lemma cap_ev_response c sw c' :
  process_event c false KResponse sw = Some c' -> capG c = true -> capG (keep_alive_disabled c') = true.
Proof.
  intros E G. pose proof (chk_cap_response_holds c sw) as H. unfold chk_cap_response in H. rewrite E in H.
  apply (impb_mp _ _ H G).
Qed.
Lemma cap_misc c b1 b2 :
  capG c = true -> capG (process_error c b1) = true /\ capG (propose c b1 b2) = true /\ capG (keep_alive_disabled c) = true
                   /\ start_next_cycle c = None.
Proof.
  intro G. pose proof (chk_cap_misc_holds c b1 b2) as M. unfold chk_cap_misc in M. apply (fun X => impb_mp _ _ X G) in M.
  apply andb_true_iff in M as [M M4]. apply andb_true_iff in M as [M M3]. apply andb_true_iff in M as [M1 M2].
  repeat split; try assumption. destruct (start_next_cycle c); [discriminate|reflexivity].
Qed.

Lemma send_keeps_capG l e ok :
  send_closing e = true -> capG (l_cs l) = true -> capG (l_cs (fst (LibH11.send l e ok))) = true.
Proof.
  intros CL G. destruct l as [c w m v]. unfold LibH11.send, our_state. cbn [l_cs] in *.
  destruct (cap_misc c false false G) as (ERR & _ & _ & _).
  destruct (h1state_eqb (cs_server c) ERROR); [exact G|].
  destruct ok; cbn [negb]; [|exact ERR].
  destruct e as [st hs|st hs|d|].
  - destruct (process_event c false KInfo _) as [c'|] eqn:E; cbn [fst l_cs with_cs]; [pose proof (cap_ev _ _ _ _ _ E G) as X; cbn [negb andb is_response] in X; exact X|exact ERR].
  - destruct (process_event c false KResponse _) as [c'|] eqn:E; [|exact ERR].
    assert (RC : response_closes {| l_cs := c; l_waiting_100 := w; l_method := m; l_their_version := v |} st hs = true)
      by (unfold response_closes; unfold send_closing in CL; rewrite CL; apply orb_true_r).
    pose proof (cap_ev_response _ _ _ E G) as X.
    generalize dependent (keep_alive_disabled c'). intros k X.
    destruct (response_closes _ st hs); [|discriminate RC]. cbn [fst l_cs]. exact X.
  - destruct (process_event c false KData SwNone) as [c'|] eqn:E; cbn [fst l_cs with_cs]; [pose proof (cap_ev _ _ _ _ _ E G) as X; cbn [negb andb is_response] in X; exact X|exact ERR].
  - destruct (process_event c false KEndOfMessage SwNone) as [c'|] eqn:E; cbn [fst l_cs with_cs]; [pose proof (cap_ev _ _ _ _ _ E G) as X; cbn [negb andb is_response] in X; exact X|exact ERR].
Qed.

Lemma send_keeps_armed l e ok : send_closing e = true -> armed_lib l -> armed_lib (fst (LibH11.send l e ok)).
Proof.
  intros CL [G N]. split; [apply send_keeps_capG; assumption|].
  destruct (is_idle (their_state (fst (LibH11.send l e ok)))) eqn:X; [|reflexivity].
  apply send_no_new_idle in X. congruence.
Qed.

Lemma recv_keeps_capG l e : (forall m t h v, e <> HRequest m t h v) -> capG (l_cs l) = true -> capG (l_cs (recv l e)) = true.
Proof.
  intros NR G. destruct l as [c w m0 v0]. cbn [l_cs] in *.
  destruct (cap_misc c true false G) as (ERR & _ & _ & _).
  destruct e as [m t h v|d| | | | |hint]; cbn [recv l_cs]; try exact G.
  - destruct (NR m t h v eq_refl).
  - destruct (process_event c true KData SwNone) as [c'|] eqn:E; cbn [fst l_cs with_cs]; [pose proof (cap_ev _ _ _ _ _ E G) as X; cbn [negb andb is_response] in X; exact X|exact ERR].
  - destruct (process_event c true KEndOfMessage SwNone) as [c'|] eqn:E; cbn [fst l_cs with_cs]; [pose proof (cap_ev _ _ _ _ _ E G) as X; cbn [negb andb is_response] in X; exact X|exact ERR].
  - destruct (process_event c true KConnectionClosed SwNone) as [c'|] eqn:E; cbn [fst l_cs with_cs]; [pose proof (cap_ev _ _ _ _ _ E G) as X; cbn [negb andb is_response] in X; exact X|exact ERR].
  - cbn [l_cs with_cs]. exact ERR.
Qed.

Lemma recv_keeps_armed l e : (forall m t h v, e <> HRequest m t h v) -> armed_lib l -> armed_lib (recv l e).
Proof.
  intros NR [G N]. split; [apply recv_keeps_capG; assumption|].
  destruct (is_idle (their_state (recv l e))) eqn:X; [|reflexivity]. apply recv_no_new_idle in X; [congruence|exact NR].
Qed.

(* an allowed Request arms the library whatever it was before, and comes from IDLE *)
Lemma allowed_request_arms l m t h v :
  event_allowed l (HRequest m t h v) = true -> armed_lib (recv l (HRequest m t h v)) /\ their_state l = IDLE.
Proof.
  unfold event_allowed. intro A. apply andb_true_iff in A as [RP RA].
  destruct (recv_request_facts _ _ _ _ _ RP) as [TI NI]. split; [|exact TI]. split; [|exact NI].
  unfold request_accepted in RA. cbn [recv].
  pose proof (chk_cap_request_holds (l_cs l) (negb match comma_header h (B "upgrade") with [] => true | _ => false end)
                (beqb m (B "CONNECT")) (msg_keep_alive h v)) as C. unfold chk_cap_request in C.
  destruct (request_cs _ _ _ _) as [c'|]; [exact C|discriminate].
Qed.

Lemma armed_no_cycle l : capG (l_cs l) = true -> next_cycle l = None.
Proof.
  intro G. unfold next_cycle. destruct (cap_misc (l_cs l) false false G) as (_ & _ & _ & N). rewrite N. reflexivity.
Qed.

Lemma has_token_app a b n t : has_token (a ++ b) n t = has_token a n t || has_token b n t.
Proof. unfold has_token, comma_header. rewrite flat_map_app, existsb_app. reflexivity. Qed.

(* ---- the protocol *)
Definition Armed (p : h11p) : Prop := armed_lib (p_lib p).
Section Capped.
  Variable cfg : h11cfg.

  Definition cap_reached (p : h11p) : Prop := (c_max_requests cfg <= p_requests p)%Z /\ (1 <= p_requests p)%Z.
  Definition Capped (p : h11p) : Prop := cap_reached p -> Armed p.

  (* invariants that read only the library state and the request counter *)
  Definition libinv (I : h11p -> Prop) : Prop :=
    forall p p', p_lib p' = p_lib p -> p_requests p' = p_requests p -> I p -> I p'.
  Lemma libinv_Armed : libinv Armed.
  Proof. intros p p' E _ H. unfold Armed in *. rewrite E. exact H. Qed.
  Lemma libinv_Capped : libinv Capped.
  Proof. intros p p' E R H [C1 C2]. unfold Armed. rewrite E. apply H. unfold cap_reached. rewrite <- R. auto. Qed.

  Section Lib.
    Variable I : h11p -> Prop.
    Hypothesis LI : libinv I.

    Lemma li_put_h s p : I p -> I (put_h s p).
    Proof. apply LI; reflexivity. Qed.
    Lemma li_put_w s p : I p -> I (put_w s p).
    Proof. apply LI; reflexivity. Qed.

    Lemma cpres_stream_closed : pres I stream_closed.
    Proof.
      unfold stream_closed. apply pres_bind; [apply pres_get|intro p0].
      destruct (p_slot p0); [apply pres_ret|apply pres_http_stream_closed; [apply Ln_note|apply li_put_h]|apply pres_ws_stream_closed; [apply Ln_note|apply li_put_w]].
    Qed.
    Lemma cpres_close_stream : pres I close_stream.
    Proof.
      unfold close_stream. apply pres_bind; [apply pres_get|intro p0]. destruct (p_stream_live p0); [|apply pres_ret].
      apply pres_bind; [apply cpres_stream_closed|intros ?]. apply pres_modify. intros p. apply LI; reflexivity.
    Qed.
    Lemma cpres_handle_closed : pres I handle_closed.
    Proof.
      unfold handle_closed.
      apply pres_bind; [apply pres_modify; intros p; apply LI; reflexivity|intros ?].
      apply pres_bind; [apply pres_get|intro p0].
      apply pres_bind; [destruct (p_stream_live p0); [apply cpres_close_stream|apply pres_ret]|intros ?].
      apply pres_bind; [apply pres_modify; intros p; apply LI; reflexivity|intros ?].
      apply pres_emit; discriminate.
    Qed.
    Lemma cpres_srv_send e : pres I (srv_send e).
    Proof.
      unfold srv_send. apply pres_bind; [apply pres_emit; discriminate|intros ?].
      destruct e; try apply pres_ret.
      apply pres_bind; [apply pres_get|intro p0].
      destruct (p_writes p0) as [|[|] rest]; [apply pres_ret| |].
      - apply pres_modify. intros p. apply LI; reflexivity.
      - apply pres_bind; [apply pres_modify; intros p; apply LI; reflexivity|intros ?; apply cpres_handle_closed].
    Qed.
  End Lib.

  (* sending through h11: the invariant survives if the library step keeps it *)
  Lemma send_h11_event_tri (I : h11p -> Prop) (ok_ev : h11p -> Prop) e :
    libinv I ->
    (forall p okb, I p -> ok_ev p -> I (set_lib (fst (LibH11.send (p_lib p) e okb)) p)) ->
    (forall p p', p_lib p' = p_lib p -> p_requests p' = p_requests p -> ok_ev p -> ok_ev p') ->
    tri (fun p => I p /\ ok_ev p) (send_h11_event e) (fun _ => I) I.
  Proof.
    intros LI STEP OKI. unfold send_h11_event. apply tri_bind_get. intro p0.
    eapply tri_bind with (Mid := fun _ p => (I p /\ ok_ev p) /\ p = p0). { apply tri_emit; [discriminate|auto]. } intros ?.
    destruct (match p_sends p0 with [] => (Some [], []) | a :: r => (a, r) end) as [answer rest].
    eapply tri_bind with (Mid := fun _ p => (I p /\ ok_ev p) /\ p_lib p = p_lib p0).
    { apply tri_modify. intros p [[Hp Ho] Ep]. subst p. repeat split; [apply (LI p0); auto|apply (OKI p0); auto]. } intros ?.
    assert (LIB : forall okb, tri (fun p => (I p /\ ok_ev p) /\ p_lib p = p_lib p0) (modify (set_lib (fst (LibH11.send (p_lib p0) e okb)))) (fun _ => I) I).
    { intro okb. apply tri_modify. intros p [[Hp Ho] El]. rewrite <- El. apply STEP; assumption. }
    destruct (p_ws_mode p0).
    - destruct (LibH11.send (p_lib p0) e _) as [lib' ok] eqn:E.
      eapply tri_bind; [specialize (LIB (match answer with Some _ => true | None => false end)); rewrite E in LIB; exact LIB|intro].
      destruct ok; [apply cpres_srv_send; exact LI|apply pres_raise].
    - destruct (LibH11.send (p_lib p0) e _) as [lib' ok] eqn:E.
      eapply tri_bind; [specialize (LIB (match answer with Some _ => true | None => false end)); rewrite E in LIB; exact LIB|intro].
      apply pres_bind; [apply pres_emit; discriminate|intros ?].
      destruct ok; [apply cpres_srv_send; exact LI|]. destruct (h1state_eqb _ _); [apply pres_ret|apply pres_raise].
  Qed.

  (* Armed: kept by any send that announces close when it is a response *)
  Lemma armed_send e : send_closing e = true -> pres Armed (send_h11_event e).
  Proof.
    intro CL. eapply tri_conseq; [apply (send_h11_event_tri Armed (fun _ => True) e libinv_Armed)| | |]; cbn; auto.
    intros p okb A _. unfold Armed in *. cbn. apply send_keeps_armed; assumption.
  Qed.

  (* Capped: a response must announce close once the cap is reached *)
  Definition resp_ok (e : h11send) (p : h11p) : Prop := cap_reached p -> send_closing e = true.
  Lemma capped_send e : tri (fun p => Capped p /\ resp_ok e p) (send_h11_event e) (fun _ => Capped) Capped.
  Proof.
    apply (send_h11_event_tri Capped (resp_ok e) e libinv_Capped).
    - intros p okb C RO CR. unfold Armed. cbn. cbn in CR. apply send_keeps_armed; [apply RO, CR|apply C, CR].
    - intros p p' _ R RO CR. apply RO. unfold cap_reached in *. rewrite <- R. exact CR.
  Qed.
  Lemma capped_send_closing e : send_closing e = true -> pres Capped (send_h11_event e).
  Proof. intro CL. eapply tri_conseq; [apply (capped_send e)| | |]; cbn; auto. intros p C. split; [exact C|intros _; exact CL]. Qed.

  Lemma error_headers_close : has_token (error_headers cfg) (B "connection") (B "close") = true.
  Proof. unfold error_headers. rewrite has_token_app. reflexivity. Qed.

  Lemma cpres_send_error_response I st :
    (forall e, send_closing e = true -> pres I (send_h11_event e)) -> pres I (send_error_response cfg st).
  Proof.
    intro H. unfold send_error_response. apply pres_bind; [apply H; cbn; apply error_headers_close|intros ?; apply H; reflexivity].
  Qed.
  Lemma cpres_check_protocol I m t h v :
    (forall e, send_closing e = true -> pres I (send_h11_event e)) -> pres I (check_protocol cfg m t h v).
  Proof.
    intro H. unfold check_protocol. destruct (h2c_requested h).
    - apply pres_bind; [apply H; reflexivity|intros ?; apply pres_raise].
    - destruct (_ && _); [apply pres_raise|apply pres_ret].
  Qed.

  Lemma armed_maybe_recycle : pres Armed maybe_recycle.
  Proof.
    unfold maybe_recycle. apply pres_bind; [apply cpres_close_stream, libinv_Armed|intros ?].
    apply tri_bind_get. intro p0. destruct (_ && _).
    - destruct (next_cycle (p_lib p0)) as [lib'|] eqn:N.
      + apply tri_pre_false. intros p [[G _] E]. subst p. rewrite (armed_no_cycle _ G) in N. discriminate.
      + eapply tri_conseq with (Pre' := Armed) (Q' := fun _ => Armed) (R' := Armed); [|tauto|auto|auto].
        apply pres_bind; [apply pres_emit; discriminate|intros ?]. apply cpres_srv_send, libinv_Armed.
    - eapply tri_conseq with (Pre' := Armed) (Q' := fun _ => Armed) (R' := Armed); [|tauto|auto|auto].
      apply pres_bind; [apply pres_modify; intros p; apply libinv_Armed; reflexivity|intros ?].
      apply pres_bind; [apply pres_modify; intros p; apply libinv_Armed; reflexivity|intros ?].
      apply pres_bind; [apply pres_emit; discriminate|intros ?]. apply cpres_srv_send, libinv_Armed.
  Qed.

  Lemma capped_maybe_recycle : pres Capped maybe_recycle.
  Proof.
    unfold maybe_recycle. apply pres_bind; [apply cpres_close_stream, libinv_Capped|intros ?].
    apply tri_bind_get. intro p0. destruct (_ && _).
    - destruct (next_cycle (p_lib p0)) as [lib'|] eqn:N.
      + (* the cycle restarts: only possible below the cap, and the counter is unchanged *)
        eapply tri_bind with (Mid := fun _ p => Capped p /\ p = p0); [apply tri_emit; [discriminate|auto]|intros ?].
        eapply tri_bind with (Mid := fun _ p => ~ cap_reached p).
        { apply tri_modify. intros p [C E] CR. subst p. cbn in CR. destruct (C CR) as [G _]. rewrite (armed_no_cycle _ G) in N. discriminate. }
        intros ?. eapply tri_conseq with (Pre' := fun p => ~ cap_reached p) (Q' := fun _ p => ~ cap_reached p) (R' := fun p => ~ cap_reached p);
          [|auto|intros _ p H C; destruct (H C)|intros p H C; destruct (H C)].
        assert (LN : libinv (fun p => ~ cap_reached p)).
        { intros p p' _ R H C. apply H. unfold cap_reached in *. rewrite <- R. exact C. }
        apply pres_bind; [apply pres_modify; intros p; apply LN; reflexivity|intros ?].
        apply pres_bind; [apply pres_emit; discriminate|intros ?]. apply cpres_srv_send, LN.
      + eapply tri_conseq with (Pre' := Capped) (Q' := fun _ => Capped) (R' := Capped); [|tauto|auto|auto].
        apply pres_bind; [apply pres_emit; discriminate|intros ?]. apply cpres_srv_send, libinv_Capped.
    - eapply tri_conseq with (Pre' := Capped) (Q' := fun _ => Capped) (R' := Capped); [|tauto|auto|auto].
      apply pres_bind; [apply pres_modify; intros p; apply libinv_Capped; reflexivity|intros ?].
      apply pres_bind; [apply pres_modify; intros p; apply libinv_Capped; reflexivity|intros ?].
      apply pres_bind; [apply pres_emit; discriminate|intros ?]. apply cpres_srv_send, libinv_Capped.
  Qed.

  Lemma closing_response_headers st hs extra :
    has_token hs (B "connection") (B "close") = true -> send_closing (SResponse st (hs ++ extra)) = true.
  Proof. intro H. unfold send_closing. rewrite has_token_app, H. reflexivity. Qed.

  (* stream_send keeps Armed on closing events ... *)
  Lemma armed_stream_send ev : closing ev = true -> pres Armed (stream_send cfg ev).
  Proof.
    intro CL. unfold stream_send. apply pres_bind; [apply pres_get|intro p0].
    destruct ev; try apply pres_ret; try (apply armed_send; reflexivity);
      try (apply cpres_srv_send, libinv_Armed); try apply armed_maybe_recycle.
    destruct (200 <=? status)%Z; [|apply armed_send; reflexivity].
    apply armed_send. apply closing_response_headers. exact CL.
  Qed.

  (* ... and Capped on all of them: the response head gets Connection: close exactly when the cap is reached *)
  Lemma capped_stream_send ev : pres Capped (stream_send cfg ev).
  Proof.
    unfold stream_send. apply tri_bind_get. intro p0.
    destruct ev; try (apply tri_ret; tauto);
      try (eapply tri_conseq; [apply capped_send_closing; reflexivity|tauto|auto|auto]);
      try (eapply tri_conseq; [apply (cpres_srv_send Capped libinv_Capped)|tauto|auto|auto]);
      try (eapply tri_conseq; [apply capped_maybe_recycle|tauto|auto|auto]).
    destruct (200 <=? status)%Z; [|eapply tri_conseq; [apply capped_send_closing; reflexivity|tauto|auto|auto]].
    eapply tri_conseq; [apply capped_send| |auto|auto]. intros p [C E]. subst p. split; [exact C|].
    intros [CR _]. apply Z.leb_le in CR. rewrite CR. cbn. rewrite !has_token_app. rewrite !orb_true_iff. right. right. reflexivity.
  Qed.

  Variable stream_headers : list header -> list header.
  Variable ws_token : list header -> bytes.
  Variable ws_ext : option bytes.
  Variable ws_sends : list (option bytes).

  Lemma armed_http_handle ev : pres Armed (http_handle (c_http cfg) get_h put_h (stream_send cfg) ev).
  Proof. apply pres_http_handle; [apply Ln_note|intros; apply (li_put_h Armed libinv_Armed); assumption|apply armed_stream_send]. Qed.
  Lemma armed_ws_handle i : pres Armed (ws_handle (c_ws cfg) get_w put_w (stream_send cfg) i).
  Proof. apply pres_ws_handle; [apply Ln_note|intros; apply (li_put_w Armed libinv_Armed); assumption|apply armed_stream_send]. Qed.
  Lemma capped_http_handle ev : pres Capped (http_handle (c_http cfg) get_h put_h (stream_send cfg) ev).
  Proof. apply pres_http_handle; [apply Ln_note|intros; apply (li_put_h Capped libinv_Capped); assumption|intros; apply capped_stream_send]. Qed.
  Lemma capped_ws_handle i : pres Capped (ws_handle (c_ws cfg) get_w put_w (stream_send cfg) i).
  Proof. apply pres_ws_handle; [apply Ln_note|intros; apply (li_put_w Capped libinv_Capped); assumption|intros; apply capped_stream_send]. Qed.
  Lemma capped_http_app_send m : pres Capped (http_app_send (c_http cfg) get_h put_h (stream_send cfg) m).
  Proof. apply pres_http_app_send; [apply Ln_note|intros; apply (li_put_h Capped libinv_Capped); assumption|apply capped_stream_send]. Qed.
  Lemma capped_ws_app_send m : pres Capped (ws_app_send (c_ws cfg) get_w put_w (stream_send cfg) m).
  Proof. apply pres_ws_app_send; [apply Ln_note|intros; apply (li_put_w Capped libinv_Capped); assumption|apply capped_stream_send]. Qed.

  (* _create_stream is entered below the cap (or for the first request) with the library armed by the Request just
     received; it leaves the library armed, so the new count is covered *)
  Definition Fresh (p : h11p) : Prop := Armed p /\ ~ cap_reached p.
  Lemma create_stream_capped m t h v :
    tri Fresh (create_stream cfg stream_headers ws_token ws_ext ws_sends m t h v) (fun _ => Capped) Capped.
  Proof.
    assert (AC : forall p, Armed p -> Capped p) by (intros p A _; exact A).
    unfold create_stream. apply tri_bind_get. intro p0.
    eapply tri_bind with (Mid := fun _ p => Fresh p /\ p = p0).
    { destruct (p_stream_live p0); [apply tri_emit; [discriminate|auto]|apply tri_ret; auto]. }
    intros ?. eapply tri_bind with (Mid := fun _ => Armed).
    { destruct ((c_max_requests cfg <=? p_requests p0)%Z && (1 <=? p_requests p0)%Z) eqn:CR.
      - apply tri_pre_false. intros p [[_ NC] E]. subst p. apply NC. apply andb_true_iff in CR as [C1 C2].
        apply Z.leb_le in C1, C2. split; assumption.
      - apply tri_ret. intros p [[A _] _]. exact A. }
    intros ?. eapply tri_conseq with (Pre' := Armed) (Q' := fun _ => Armed) (R' := Armed); [|auto|intros _; apply AC|apply AC].
    apply pres_bind.
    - destruct (wants_websocket m h).
      + apply pres_bind; [apply pres_modify; intros p; apply libinv_Armed; reflexivity|intros ?].
        apply pres_bind; [apply pres_modify; intros p; apply libinv_Armed; reflexivity|intros ?]. apply armed_ws_handle.
      + apply pres_bind; [destruct (is_ascii m); [apply pres_ret|apply pres_raise]|intros ?].
        apply pres_bind; [apply pres_modify; intros p; apply libinv_Armed; reflexivity|intros ?]. apply armed_http_handle.
    - intros ?. apply pres_bind; [apply pres_modify; intros p A; exact A|intros ?]. apply pres_emit. discriminate.
  Qed.

  Lemma recv_step_capped e p1 rest :
    tri (fun p => Capped p /\ p = set_events rest p1)
      (if p_ws_mode p1
       then match e with HNeedData => ret tt | _ => emit (ONote "h11-contract-violated") end
       else (if event_allowed (p_lib p1) e then ret tt else emit (ONote "h11-contract-violated")) ;;
            (if is_request_ev e && negb (cs_keep_alive (l_cs (p_lib p1))) then note "request-after-close" else ret tt) ;;
            modify (fun p => set_lib (recv (p_lib p) e) p) ;;
            p <- get ;; emit (OLib [VS "states"; v_of_h1state (our_state (p_lib p)); v_of_h1state (their_state (p_lib p))]))%M
      (fun _ p => Capped p /\ (is_request e = true -> Fresh p)) Capped.
  Proof.
    destruct (p_ws_mode p1) eqn:W.
    - destruct e; try apply tri_emit_V. apply tri_ret. intros p [Hp _]. split; [exact Hp|discriminate].
    - destruct (event_allowed (p_lib p1) e) eqn:EA.
      2:{ eapply tri_bind with (Mid := fun _ _ => False); [apply tri_emit_V|intros ?; apply tri_pre_false; intros p []]. }
      eapply tri_bind with (Mid := fun _ p => Capped p /\ p = set_events rest p1); [apply tri_ret; auto|intros ?].
      eapply tri_bind with (Mid := fun _ p => Capped p /\ p = set_events rest p1).
      { destruct (_ && negb _); [apply tri_emit; [discriminate|auto]|apply tri_ret; auto]. }
      intros ?.
      eapply tri_bind with (Mid := fun _ p => Capped p /\ (is_request e = true -> Fresh p)).
      + apply tri_modify. intros p [Hp Ep]. subst p. set (p0 := set_events rest p1) in *.
        assert (EL : p_lib p0 = p_lib p1) by reflexivity. rewrite <- EL in EA. clearbody p0.
        destruct (is_request e) eqn:RQ.
        * destruct e as [method target headers http_version| | | | | |]; try discriminate.
          destruct (allowed_request_arms _ _ _ _ _ EA) as [A TI].
          assert (NC : ~ cap_reached p0).
          { intro CR. destruct (Hp CR) as [_ N]. rewrite TI in N. discriminate. }
          assert (F : Fresh (set_lib (recv (p_lib p0) (HRequest method target headers http_version)) p0)).
          { split; [exact A|exact NC]. }
          split; [intros _; exact A|intros _; exact F].
        * split; [|discriminate]. intros CR. unfold Armed. cbn. apply recv_keeps_armed; [intros m t h v ->; discriminate|apply Hp, CR].
      + intros ?. eapply tri_bind with (Mid := fun _ p => Capped p /\ (is_request e = true -> Fresh p)); [apply tri_get; auto|intros ?].
        apply tri_emit; [discriminate|auto].
  Qed.

  Lemma handle_one_capped : tri Capped (handle_one cfg stream_headers ws_token ws_ext ws_sends) (fun _ => Capped) Capped.
  Proof.
    assert (FC : forall p, Fresh p -> Capped p) by (intros p [A _] _; exact A).
    unfold handle_one. apply tri_bind_get. intro p0.
    destruct (p_closed p0 || last_response_in_progress p0); [apply tri_ret; tauto|].
    eapply tri_bind with (Mid := fun _ => Capped).
    { eapply tri_conseq with (Pre' := Capped) (Q' := fun _ => Capped) (R' := Capped); [|tauto|auto|auto].
      destruct (_ && _); [apply capped_send_closing; reflexivity|apply pres_ret]. }
    intros ?. apply tri_bind_get. intro p1.
    destruct (p_events p1) as [|[e|evs] rest].
    - eapply tri_bind with (Mid := fun _ => Capped); [apply tri_emit; [discriminate|tauto]|intros ?; apply pres_ret].
    - eapply tri_bind with (Mid := fun _ p => Capped p /\ p = set_events rest p1).
      { apply tri_modify. intros p [Hp Ep]. subst p. split; [apply (libinv_Capped p1); auto|reflexivity]. }
      intros ?. eapply tri_bind with (Mid := fun _ p => Capped p /\ p = set_events rest p1); [apply tri_emit; [discriminate|auto]|intros ?].
      eapply tri_bind; [apply recv_step_capped|intros ?].
      destruct e as [method target headers http_version|d| | | | |hint].
      + eapply tri_conseq with (Pre' := Fresh) (Q' := fun _ => Capped) (R' := Capped); [|intros p [_ D]; apply D; reflexivity|auto|auto].
        assert (LF : libinv Fresh).
        { intros p p' E R [A NC]. split; [apply (libinv_Armed p); assumption|]. intro C. apply NC. unfold cap_reached in *. rewrite <- R. exact C. }
        assert (FS : forall e, send_closing e = true -> pres Fresh (send_h11_event e)).
        { intros e CL. eapply tri_conseq; [apply (send_h11_event_tri Fresh (fun _ => True) e LF)| | |]; cbn; auto.
          intros p okb [A NC] _. split; [unfold Armed; cbn; apply send_keeps_armed; assumption|exact NC]. }
        eapply tri_bind with (Mid := fun _ => Fresh).
        { eapply tri_conseq; [apply (cpres_srv_send Fresh LF)|auto|auto|apply FC]. }
        intros ?. eapply tri_bind with (Mid := fun _ => Fresh).
        { eapply tri_conseq; [apply (cpres_check_protocol Fresh _ _ _ _ FS)|auto|auto|apply FC]. }
        intros ?. eapply tri_bind; [apply create_stream_capped|intros ?; apply pres_ret].
      + eapply tri_conseq with (Pre' := Capped) (Q' := fun _ => Capped) (R' := Capped); [|tauto|auto|auto].
        apply pres_bind; [apply pres_get|intro p2]. destruct (negb _); [apply pres_ret|].
        apply pres_bind; [|intros ?; apply pres_ret].
        destruct (p_slot p2); [apply pres_ret|apply capped_http_handle|apply capped_ws_handle].
      + eapply tri_conseq with (Pre' := Capped) (Q' := fun _ => Capped) (R' := Capped); [|tauto|auto|auto].
        apply pres_bind; [apply pres_get|intro p2]. destruct (negb _); [apply pres_ret|].
        apply pres_bind; [|intros ?; apply pres_ret].
        destruct (p_slot p2); [apply pres_ret|apply capped_http_handle|apply pres_ret].
      + eapply tri_conseq with (Pre' := Capped) (Q' := fun _ => Capped) (R' := Capped); [apply pres_ret|tauto|auto|auto].
      + eapply tri_conseq with (Pre' := Capped) (Q' := fun _ => Capped) (R' := Capped); [apply pres_ret|tauto|auto|auto].
      + eapply tri_conseq with (Pre' := Capped) (Q' := fun _ => Capped) (R' := Capped); [|tauto|auto|auto].
        apply pres_bind; [apply pres_modify; intros p; apply libinv_Capped; reflexivity|intros ?].
        apply pres_bind; [apply pres_emit; discriminate|intros ?].
        apply pres_bind; [apply pres_emit; discriminate|intros ?].
        apply pres_bind; [apply pres_modify; intros p; apply libinv_Capped; reflexivity|intros ?]. apply pres_ret.
      + eapply tri_conseq with (Pre' := Capped) (Q' := fun _ => Capped) (R' := Capped); [|tauto|auto|auto].
        apply pres_bind; [apply pres_get|intro p2].
        apply pres_bind; [destruct (_ || _); [apply cpres_send_error_response, capped_send_closing|apply pres_ret]|intros ?].
        apply pres_bind; [apply cpres_srv_send, libinv_Capped|intros ?; apply pres_ret].
    - eapply tri_conseq with (Pre' := Capped) (Q' := fun _ => Capped) (R' := Capped); [|tauto|auto|auto].
      apply pres_bind; [apply pres_modify; intros p; apply libinv_Capped; reflexivity|intros ?].
      apply pres_bind; [apply pres_emit; discriminate|intros ?].
      apply pres_bind; [apply pres_get|intro p2]. destruct (negb _); [apply pres_ret|].
      apply pres_bind; [|intros ?; apply pres_ret].
      destruct (p_slot p2); [apply pres_ret|apply pres_ret|apply capped_ws_handle].
  Qed.

  Lemma handle_events_capped fuel : pres Capped (handle_events cfg stream_headers ws_token ws_ext ws_sends fuel).
  Proof.
    induction fuel as [|f IH]; cbn [handle_events]; [apply pres_emit; discriminate|].
    apply pres_bind; [apply handle_one_capped|intros [|]; [apply pres_ret|exact IH]].
  Qed.

  Lemma resume_capped evs : pres Capped (resume_if_ready cfg stream_headers ws_token ws_ext ws_sends evs).
  Proof.
    unfold resume_if_ready. apply pres_bind; [apply pres_get|intro p0]. destruct (_ && _); [|apply pres_ret].
    apply pres_bind; [apply pres_modify; intros p; apply libinv_Capped; reflexivity|intros ?].
    apply pres_bind; [apply pres_emit; discriminate|intros ?].
    apply pres_bind; [apply pres_modify; intros p; apply libinv_Capped; reflexivity|intros ?].
    apply handle_events_capped.
  Qed.

  Definition cstep_ok (x : h11p * list out * result (E:=exn) unit) : Prop :=
    In Vn (snd (fst x)) \/ (~ In Ln (snd (fst x)) /\ Capped (fst (fst x))).

  Lemma pres_cstep_ok (m : M exn out h11p unit) p : pres Capped m -> Capped p -> cstep_ok (m p).
  Proof.
    intros H Hp. specialize (H p Hp). unfold post, good in H. unfold cstep_ok.
    destruct (m p) as [[p1 o1] r1]. cbn [fst snd] in *. destruct H as [H|[H1 H2]]; [left; exact H|right; split; [exact H1|]].
    destruct r1; exact H2.
  Qed.

  Lemma proto_step_capped i p : Capped p -> cstep_ok (proto_step cfg stream_headers ws_token ws_ext ws_sends i p).
  Proof.
    intro Hp. destruct i as [evs| |m evs|].
    - apply pres_cstep_ok; [|exact Hp]. cbn [proto_step].
      apply pres_bind; [apply pres_get|intro p0]. destruct (p_closed p0 || last_response_in_progress p0); [apply pres_ret|].
      apply pres_bind; [apply pres_emit; discriminate|intros ?].
      apply pres_bind; [apply pres_modify; intros q; apply libinv_Capped; reflexivity|intros ?].
      apply handle_events_capped.
    - apply pres_cstep_ok; [|exact Hp]. cbn [proto_step].
      apply pres_bind; [apply cpres_handle_closed, libinv_Capped|intros ?; apply resume_capped].
    - cbn [proto_step].
      assert (A : pres Capped (match p_slot p with
             | SlotHttp _ => http_app_send (c_http cfg) get_h put_h (stream_send cfg) m
             | SlotWs _ => ws_app_send (c_ws cfg) get_w put_w (stream_send cfg) m
             | SlotNone => ret tt end)).
      { destruct (p_slot p); [apply pres_ret|apply capped_http_app_send|apply capped_ws_app_send]. }
      apply pres_cstep_ok with (p := p) in A; [|exact Hp]. unfold cstep_ok in *.
      match type of A with context [snd (fst ?x)] => destruct x as [[p1 o1] r1] end. cbn [fst snd] in A.
      destruct A as [A|[A1 A2]].
      + destruct (resume_if_ready _ _ _ _ _ evs p1) as [[p2 o2] r2]. cbn [fst snd]. left. apply in_or_app. auto.
      + pose proof (pres_cstep_ok _ p1 (resume_capped evs) A2) as B. unfold cstep_ok in B.
        destruct (resume_if_ready _ _ _ _ _ evs p1) as [[p2 o2] r2]. cbn [fst snd] in *.
        destruct B as [B|[B1 B2]]; [left; apply in_or_app; right; apply in_or_app; auto|].
        right. split; [|exact B2]. intro X. apply in_app_or in X as [X|X]; [auto|].
        apply in_app_or in X as [X|X]; [auto|]. destruct r2; [destruct X|]. destruct X as [X|[]]. discriminate.
    - apply pres_cstep_ok; [|exact Hp]. cbn [proto_step]. apply pres_modify; intros q; apply libinv_Capped; reflexivity.
  Qed.

  (* every run: unless the event oracle breaks the parser's contract, no request is taken on once the connection
     has counted keep_alive_max_requests of them (and at least one) *)
  Theorem capped_run p is :
    Capped p ->
    let outs := concat (map fst (proto_run cfg stream_headers ws_token ws_ext ws_sends p is)) in
    In Vn outs \/ ~ In Ln outs.
  Proof.
    revert p. induction is as [|i is IH]; intros p Hp; cbn [proto_run map concat]; [right; intros []|].
    pose proof (proto_step_capped i p Hp) as S. unfold cstep_ok in S.
    destruct (proto_step _ _ _ _ _ i p) as [[p1 o1] r1]. cbn [fst snd map concat] in *.
    destruct S as [S|[S1 S2]]; [left; apply in_or_app; auto|].
    destruct (IH p1 S2) as [T|T]; [left; apply in_or_app; auto|].
    right. intro X. apply in_app_or in X as [X|X]; auto.
  Qed.

  Lemma Capped_init sends writes : Capped (p_init sends writes).
  Proof. intros [_ C]. cbn in C. lia. Qed.
End Capped.
