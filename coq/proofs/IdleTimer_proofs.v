From Coq Require Import ZArith List Bool Lia ZifyBool.
From HV Require Import model.IdleTimer.
Import ListNotations.
Open Scope Z_scope.

(* busy: no timer is pending, so nothing closes the connection until the next event *)
Lemma busy_disarms T s now :
  closed_at (fire s now) = None -> deadline (tstep T s (now, TBusy)) = None /\ closed_at (tstep T s (now, TBusy)) = None.
Proof. intro H. unfold tstep. rewrite H. cbn. split; reflexivity. Qed.

Lemma fire_no_deadline s now : deadline s = None -> fire s now = s.
Proof. intro H. unfold fire. rewrite H. destruct (closed_at s); reflexivity. Qed.

(* while no timer is armed nothing but an explicit Closed closes the connection *)
Lemma unarmed_stays_open T s now ev :
  deadline s = None -> closed_at s = None -> ev <> TClosed -> closed_at (tstep T s (now, ev)) = None.
Proof.
  intros Hd Hc He. unfold tstep. rewrite (fire_no_deadline s now Hd), Hc.
  destruct ev; cbn; try reflexivity; try congruence. destruct (finished s); [exact Hc | reflexivity].
Qed.

(* idle: the timer expires exactly T after it was armed, unless something happens before *)
Lemma arm_sets_deadline T s now :
  closed_at (fire s now) = None -> finished (fire s now) = false -> terminated (fire s now) = false ->
  deadline (tstep T s (now, TArm)) = Some (now + T).
Proof. intros Hc Hf Ht. unfold tstep. rewrite Hc, Hf, Ht. reflexivity. Qed.

Lemma expiry_exact s d later :
  closed_at s = None -> deadline s = Some d -> d <= later -> closed_at (fire s later) = Some d.
Proof.
  intros Hc Hd Hl. unfold fire. rewrite Hc, Hd. destruct (d <=? later) eqn:E; [reflexivity | lia].
Qed.
Lemma no_early_expiry s d earlier :
  closed_at s = None -> deadline s = Some d -> earlier < d -> fire s earlier = s.
Proof.
  intros Hc Hd Hl. unfold fire. rewrite Hc, Hd. destruct (d <=? earlier) eqn:E; [lia | reflexivity].
Qed.

(* shutdown: an armed timer fires at once *)
Lemma terminate_fires_now T s now d :
  closed_at (fire s now) = None -> deadline (fire s now) = Some d ->
  final_close (tstep T s (now, TTerminate)) = Some now.
Proof. intros Hc Hd. unfold tstep, final_close. rewrite Hc, Hd. reflexivity. Qed.

(* once reading is over the timer is never armed again *)
Lemma finished_step T s now ev :
  finished s = true -> deadline s = None -> closed_at s = None -> ev <> TClosed ->
  let s' := tstep T s (now, ev) in finished s' = true /\ deadline s' = None /\ closed_at s' = None.
Proof.
  intros Hf Hd Hc He. unfold tstep. rewrite (fire_no_deadline s now Hd), Hc.
  destruct ev; cbn; rewrite ?Hf, ?Hd; try (repeat split; (reflexivity || assumption)). congruence.
Qed.

Lemma finished_never_rearmed T : forall es s,
  finished s = true -> deadline s = None -> closed_at s = None ->
  (forall e, In e es -> snd e <> TClosed) ->
  closed_at (fold_left (tstep T) es s) = None /\ deadline (fold_left (tstep T) es s) = None.
Proof.
  induction es as [|[now ev] es IH]; intros s Hf Hd Hc Hn; [split; assumption|].
  cbn [fold_left].
  destruct (finished_step T s now ev Hf Hd Hc (Hn (now, ev) (or_introl eq_refl))) as (F & D & Cl).
  apply IH; try assumption. intros e He. apply Hn. right. exact He.
Qed.

(* the transport is closed at most once: the first closing time is final *)
Lemma closed_is_final T : forall es s c, closed_at s = Some c -> closed_at (fold_left (tstep T) es s) = Some c.
Proof.
  induction es as [|[now ev] es IH]; intros s c Hc; [exact Hc|]. cbn [fold_left]. apply IH.
  unfold tstep, fire. rewrite Hc. cbn. rewrite Hc. exact Hc.
Qed.
