(* Invariants of the HTTP/2 send-path transition system (model.H2Send), for every label sequence,
   i.e. for every interleaving of the application tasks, the send task and the reader. *)
From Coq Require Import ZArith NArith List Bool Lia ZifyBool.
From HV Require Import gen.Consts_gen model.H2Send.
Import ListNotations.
Open Scope Z_scope.

Lemma HIGH_LOW : 0 < LOW /\ LOW <= HIGH.
Proof. vm_compute. split; [reflexivity | discriminate]. Qed.
Global Opaque HIGH LOW.
Local Arguments Z.mul : simpl never.
Local Arguments Z.add : simpl never.
Local Arguments Z.sub : simpl never.

Lemma zlen_nil {A} : zlen (@nil A) = 0. Proof. reflexivity. Qed.
Lemma zlen_app {A} (a b : list A) : zlen (a ++ b) = zlen a + zlen b.
Proof. unfold zlen. rewrite app_length. lia. Qed.
Lemma zlen_nonneg {A} (a : list A) : 0 <= zlen a. Proof. unfold zlen. lia. Qed.
Lemma zlen_skipn {A} n (a : list A) : zlen (skipn n a) = zlen a - Z.min (Z.of_nat n) (zlen a).
Proof. unfold zlen. rewrite skipn_length. lia. Qed.
Lemma zlen_firstn {A} n (a : list A) : zlen (firstn n a) = Z.min (Z.of_nat n) (zlen a).
Proof. unfold zlen. rewrite firstn_length. lia. Qed.
Lemma zlen_zero {A} (a : list A) : zlen a = 0 -> a = [].
Proof. destruct a; [reflexivity | unfold zlen; simpl; lia]. Qed.

Lemma upd_same f s x : upd f s x s = x.
Proof. unfold upd. rewrite Z.eqb_refl. reflexivity. Qed.
Lemma upd_other f s x k : k <> s -> upd f s x k = f k.
Proof. unfold upd. intro H. apply Z.eqb_neq in H. rewrite H. reflexivity. Qed.

(* ---- pop *)
Lemma pop_data b n : fst (sb_pop b n) = firstn (Z.to_nat (Z.min (zlen (b_data b)) n)) (b_data b).
Proof. reflexivity. Qed.
Lemma pop_rest b n : b_data (snd (sb_pop b n)) = skipn (Z.to_nat (Z.min (zlen (b_data b)) n)) (b_data b).
Proof. reflexivity. Qed.
Lemma pop_split b n : b_data b = (fst (sb_pop b n) ++ b_data (snd (sb_pop b n)))%list.
Proof. rewrite pop_data, pop_rest. symmetry. apply firstn_skipn. Qed.
Lemma pop_len b n : zlen (fst (sb_pop b n)) = Z.max 0 (Z.min (zlen (b_data b)) n).
Proof. rewrite pop_data, zlen_firstn. pose proof (zlen_nonneg (b_data b)). lia. Qed.
Lemma pop_rest_le b n : zlen (b_data (snd (sb_pop b n))) <= zlen (b_data b).
Proof. rewrite pop_rest, zlen_skipn. pose proof (zlen_nonneg (b_data b)). lia. Qed.
Lemma pop_paused b n :
  b_paused (snd (sb_pop b n)) = b_paused b || (zlen (b_data (snd (sb_pop b n))) <? LOW).
Proof. reflexivity. Qed.
Lemma pop_complete b n : b_complete (snd (sb_pop b n)) = b_complete b.
Proof. reflexivity. Qed.
Lemma pop_is_empty b n :
  b_is_empty (snd (sb_pop b n)) = b_is_empty b || match b_data (snd (sb_pop b n)) with [] => true | _ => false end.
Proof. reflexivity. Qed.

Ltac pop_facts :=
  match goal with
  | H : sb_pop ?b ?n = (?d, ?b') |- _ =>
      let H1 := fresh "Hsplit" in let H2 := fresh "Hlen" in let H3 := fresh "Hle" in
      let H4 := fresh "Hpaused" in let H5 := fresh "Hcompl" in let H6 := fresh "Hempty" in
      pose proof (pop_split b n) as H1; pose proof (pop_len b n) as H2; pose proof (pop_rest_le b n) as H3;
      pose proof (pop_paused b n) as H4; pose proof (pop_complete b n) as H5; pose proof (pop_is_empty b n) as H6;
      rewrite H in H1, H2, H3, H4, H5, H6; cbn [fst snd] in H1, H2, H3, H4, H5, H6; clear H
  end.
Global Opaque sb_pop.

(* destruct the scrutinee of the innermost-first match / if in the goal *)
Ltac brk :=
  match goal with
  | |- context [match ?x with _ => _ end] =>
      lazymatch x with
      | context [match _ with _ => _ end] => fail
      | _ => destruct x eqn:?
      end
  end.

Ltac upd_cases k s :=
  unfold with_strm, with_strms, with_has_data, with_task, with_cwin, emit, with_bad; cbn [strms out closed cwin has_data task ids maxf iw bad_pick reader_ok];
  unfold upd; destruct (Z.eqb_spec k s); [subst|]; auto.

Definition closing_state (t : st) (s : Z) (rest : list sop) : st :=
  let t1 := close_stream t s in
  let x1 := strms t1 s in
  if s_inbufs x1 && negb (b_complete (s_buf x1)) then
    if s_tree x1 then with_has_data (with_strm t1 s (set_pc (mark_abort x1) PReady rest)) true
    else with_strm t1 s (set_pc (set_buf x1 (sb_set_complete (s_buf x1))) PReady rest)
  else with_strm t1 s (set_pc x1 PReady rest).
Lemma do_op_close t s rest : do_op t s OClose rest = closing_state t s rest.
Proof. reflexivity. Qed.
Lemma do_op_exit t s rest :
  do_op t s OExit rest =
  if s_live (strms t s) then closing_state t s rest else with_strm t s (set_pc (strms t s) PReady rest).
Proof. reflexivity. Qed.

(* the stream record after _close_stream *)
Lemma close_stream_strm t s :
  strms (close_stream t s) s = (if s_live (strms t s) then set_live (strms t s) false else strms t s)
  /\ (forall k, k <> s -> strms (close_stream t s) k = strms t k)
  /\ out (close_stream t s) = out t /\ closed (close_stream t s) = closed t /\ cwin (close_stream t s) = cwin t
  /\ ids (close_stream t s) = ids t /\ task (close_stream t s) = task t /\ maxf (close_stream t s) = maxf t
  /\ reader_ok (close_stream t s) = reader_ok t.
Proof.
  unfold close_stream. destruct (s_live (strms t s)); cbn; [rewrite upd_same|]; repeat split; auto.
  intros k Hk. apply upd_other, Hk.
Qed.

(* ================================================================= C08: the buffer is bounded *)
Section Bound.
Variable m : Z.
Hypothesis m_nonneg : 0 <= m.

Definition op_ok (o : sop) : Prop := match o with OBody d => zlen d <= m | _ => True end.
Definition label_ok (l : label) : Prop :=
  match l with LClient (COpen _ prog) => Forall op_ok prog | _ => True end.

Definition bbound (x : strm) : Prop :=
  let n := zlen (b_data (s_buf x)) in
  match s_pc x with
  | PWaitPaused => if b_paused (s_buf x) then n < HIGH + m else n < HIGH + 2 * m
  | _ => if b_paused (s_buf x) then n < HIGH else n < HIGH + m
  end.
Definition sinv (x : strm) : Prop := bbound x /\ Forall op_ok (s_prog x).
Definition BInv (t : st) : Prop := forall k, sinv (strms t k).

Lemma sinv_none : sinv strm_none.
Proof. split; [|constructor]. unfold bbound; cbn. pose proof HIGH_LOW. lia. Qed.

Lemma BInv_init cw mf iw0 : BInv (init cw mf iw0).
Proof. intro k. apply sinv_none. Qed.



Lemma sinv_force x : sinv x -> sinv (force_close x).
Proof.
  intros [Hb Hp]. split; [|exact Hp]. unfold bbound in *. cbn. pose proof HIGH_LOW.
  destruct (s_pc x); lia.
Qed.

Lemma sinv_same_buf x y :
  s_buf y = s_buf x -> s_pc y = s_pc x -> s_prog y = s_prog x -> sinv x -> sinv y.
Proof. intros Hb Hpc Hpr [H1 H2]. split; [unfold bbound in *; rewrite Hb, Hpc; exact H1 | rewrite Hpr; exact H2]. Qed.

Lemma sinv_same_data x y pc prog :
  b_data (s_buf y) = b_data (s_buf x) -> b_paused (s_buf y) = b_paused (s_buf x) -> s_pc y = pc -> s_prog y = prog ->
  (pc = PReady \/ pc = PDone \/ pc = PWaitDrain) -> s_pc x = PReady -> Forall op_ok prog -> sinv x -> sinv y.
Proof.
  intros Hd Hp Hpc Hpr Hk Hx Hok [H1 H2]. split; [|rewrite Hpr; exact Hok].
  unfold bbound in *. rewrite Hd, Hp, Hpc. rewrite Hx in H1. destruct Hk as [->|[->| ->]]; exact H1.
Qed.

Lemma BInv_closing t s rest :
  s_pc (strms t s) = PReady -> Forall op_ok rest -> BInv t -> BInv (closing_state t s rest).
Proof.
  intros Hpc Hrest HI k. pose proof (HI k) as Hk. pose proof (HI s) as Hs.
  destruct (close_stream_strm t s) as (Hx & Ho & _).
  unfold closing_state. cbv zeta. rewrite Hx.
  assert (Hs1 : sinv (if s_live (strms t s) then set_live (strms t s) false else strms t s)
                /\ s_pc (if s_live (strms t s) then set_live (strms t s) false else strms t s) = PReady).
  { destruct (s_live (strms t s)); (split; [|assumption]); [eapply sinv_same_buf; [| | |exact Hs]; reflexivity | exact Hs]. }
  destruct Hs1 as [Hs1 Hpc1].
  set (x1 := if s_live (strms t s) then set_live (strms t s) false else strms t s) in *.
  destruct (s_inbufs x1 && negb (b_complete (s_buf x1))); [destruct (s_tree x1)|];
    cbn [strms with_has_data with_strm with_strms]; unfold upd; (destruct (Z.eqb_spec k s); [subst|rewrite Ho by assumption; exact Hk]).
  - eapply (sinv_same_data x1); try reflexivity; auto.
  - eapply (sinv_same_data x1); try reflexivity; auto.
  - eapply (sinv_same_data x1); try reflexivity; auto.
Qed.

Lemma BInv_app t s : BInv t -> BInv (app_step t s).
Proof.
  intros HI k. pose proof (HI k) as Hk. pose proof (HI s) as Hs. pose proof HIGH_LOW as HL.
  unfold app_step.
  destruct (s_pc (strms t s)) eqn:Hpc.
  - (* PReady *)
    destruct (s_prog (strms t s)) as [|o rest] eqn:Hprog.
    + upd_cases k s. destruct Hs as [Hb Hp]. split; [|constructor].
      unfold bbound in *. rewrite Hpc in Hb. cbn. exact Hb.
    + assert (Hrest : Forall op_ok rest) by (destruct Hs as [_ Hp]; rewrite Hprog in Hp; inversion Hp; assumption).
      assert (Ho : op_ok o) by (destruct Hs as [_ Hp]; rewrite Hprog in Hp; inversion Hp; assumption).
      assert (Hbb : let n := zlen (b_data (s_buf (strms t s))) in
                    if b_paused (s_buf (strms t s)) then n < HIGH else n < HIGH + m)
        by (destruct Hs as [Hb _]; unfold bbound in Hb; rewrite Hpc in Hb; exact Hb).
      cbn zeta in Hbb.
      destruct o; cbn [op_ok] in Ho; [unfold do_op | unfold do_op | unfold do_op | |].
      * (* OStart *) destruct (s_h2open (strms t s)); upd_cases k s;
          (split; [unfold bbound; cbn; exact Hbb | exact Hrest]).
      * (* OBody *)
        destruct (s_tree (strms t s)); cbn [negb].
        2:{ upd_cases k s. split; [unfold bbound; cbn; exact Hbb | exact Hrest]. }
        destruct (s_inbufs (strms t s)); cbn [negb].
        2:{ upd_cases k s. split; [unfold bbound; cbn; exact Hbb | exact Hrest]. }
        unfold sb_push. cbn [s_buf set_blocked].
        destruct (b_complete (s_buf (strms t s))).
        { upd_cases k s. split; [unfold bbound; cbn; exact Hbb | exact Hrest]. }
        destruct (HIGH <=? zlen (b_data (s_buf (strms t s)) ++ d)) eqn:Hh;
          upd_cases k s; (split; [|exact Hrest]); unfold bbound; cbn;
          rewrite zlen_app in *; destruct (b_paused (s_buf (strms t s))); lia.
      * (* OEnd *)
        destruct (s_inbufs (strms t s)); cbn [negb].
        2:{ upd_cases k s. split; [unfold bbound; cbn; exact Hbb | exact Hrest]. }
        cbn [s_tree set_buf]. destruct (s_tree (strms t s)); cbn [negb];
          upd_cases k s; (split; [|exact Hrest]); unfold bbound; cbn; exact Hbb.
      * (* OClose *) rewrite do_op_close. apply BInv_closing; assumption.
      * (* OExit *) rewrite do_op_exit.
        destruct (s_live (strms t s)); [apply BInv_closing; assumption|].
        upd_cases k s. split; [unfold bbound; cbn; exact Hbb | exact Hrest].
  - (* PWaitPaused *)
    destruct (b_paused (s_buf (strms t s))) eqn:Hp; [|exact Hk].
    upd_cases k s. destruct Hs as [Hb Hpr]. split; [|exact Hpr].
    unfold bbound in *. rewrite Hpc, Hp in Hb. cbn. exact Hb.
  - (* PWaitDrain *)
    destruct (b_is_empty (s_buf (strms t s))); [|exact Hk].
    upd_cases k s. destruct Hs as [Hb Hpr]. split; [|exact Hpr].
    unfold bbound in *. rewrite Hpc in Hb. cbn. exact Hb.
  - exact Hk.
Qed.

Lemma sinv_forget x : sinv x -> sinv (forget x).
Proof. apply sinv_same_buf; reflexivity. Qed.
Lemma sinv_set_blocked x v : sinv x -> sinv (set_blocked x v).
Proof. apply sinv_same_buf; reflexivity. Qed.
Lemma sinv_set_win x v : sinv x -> sinv (set_win x v).
Proof. apply sinv_same_buf; reflexivity. Qed.
Lemma sinv_set_h2open x v : sinv x -> sinv (set_h2open x v).
Proof. apply sinv_same_buf; reflexivity. Qed.
Lemma sinv_set_live x v : sinv x -> sinv (set_live x v).
Proof. apply sinv_same_buf; reflexivity. Qed.

Lemma sinv_pop x n d b : sb_pop (s_buf x) n = (d, b) -> sinv x -> sinv (set_buf x b).
Proof.
  intros Hpop [Hb Hp]. split; [|exact Hp]. pop_facts. pose proof HIGH_LOW.
  unfold bbound in *. cbn. rewrite Hpaused.
  destruct (s_pc x); destruct (b_paused (s_buf x)); cbn [orb];
    try (destruct (zlen (b_data b) <? LOW) eqn:?); lia.
Qed.

Lemma BInv_send_data t s : BInv t -> BInv (send_data t s).
Proof.
  intros HI k. pose proof (HI k) as Hk; pose proof (HI s) as Hs.
  unfold send_data.
  destruct (s_h2open (strms t s)); cbn [negb].
  2:{ destruct (s_inbufs (strms t s)); upd_cases k s; auto using sinv_forget, sinv_force. }
  destruct (s_inbufs (strms t s)); cbn [negb]; [|upd_cases k s; apply sinv_forget, Hs].
  destruct (sb_pop (s_buf (strms t s)) (chunk_size t (strms t s))) as [data b] eqn:Hpop.
  pose proof (sinv_pop _ _ _ _ Hpop Hs) as Hs1.
  destruct data; destruct (sb_complete b); upd_cases k s;
    auto using sinv_forget, sinv_set_h2open, sinv_set_blocked, sinv_set_win.
Qed.

Lemma BInv_send_iter t p : BInv t -> BInv (send_iter t p).
Proof.
  intros HI. unfold send_iter.
  destruct (task t); try exact HI. destruct (closed t); [exact HI|].
  destruct p as [s|].
  - destruct (eligible (strms t s)); [apply BInv_send_data; exact HI | exact HI].
  - destruct (existsb _ _); exact HI.
Qed.

Lemma BInv_send_wake t : BInv t -> BInv (send_wake t).
Proof. intros HI. unfold send_wake. destruct (task t); try exact HI. destruct (has_data t); exact HI. Qed.

Lemma BInv_map t g : (forall x, sinv x -> sinv (g x)) -> BInv t -> BInv (map_strms t g).
Proof. intros Hg HI k. cbn. apply Hg, HI. Qed.

Lemma BInv_globals t t' : strms t' = strms t -> BInv t -> BInv t'.
Proof. intros H HI k. rewrite H. apply HI. Qed.

Lemma BInv_unblock_or_crash t s : BInv t -> BInv (unblock_or_crash t s).
Proof.
  intros HI. unfold unblock_or_crash. destruct (s_inbufs (strms t s)); [|exact HI].
  destruct (s_tree (strms t s)); [|exact HI].
  intro k. upd_cases k s. apply sinv_set_blocked, HI.
Qed.

Lemma BInv_unblock_all t : BInv t -> BInv (unblock_all t).
Proof.
  intros HI. unfold unblock_all.
  assert (H : BInv (map_strms t (fun x => if s_inbufs x then set_blocked x false else x))).
  { apply BInv_map; [|exact HI]. intros x Hx. destruct (s_inbufs x); auto using sinv_set_blocked. }
  destruct (existsb _ _); exact H.
Qed.

Lemma sinv_prio x :
  sinv x ->
  sinv {| s_buf := s_buf x; s_inbufs := s_inbufs x; s_live := s_live x; s_tree := true; s_blocked := true;
          s_win := s_win x; s_h2open := s_h2open x; s_pc := s_pc x; s_prog := s_prog x;
          s_pushed := s_pushed x; s_forced := s_forced x; s_created := s_created x; s_abort := s_abort x |}.
Proof. apply sinv_same_buf; reflexivity. Qed.

Lemma BInv_client t c : label_ok (LClient c) -> BInv t -> BInv (client_step t c).
Proof.
  intros Hok HI. unfold client_step. destruct (closed t); [exact HI|].
  destruct c as [s prog|s n|n|n|s|s dep|s|s|]; cbn [label_ok] in Hok; try exact HI.
  - destruct (s_created (strms t s)); [exact HI|]. intro k. cbn [strms add_id]. upd_cases k s.
    split; [|exact Hok]. unfold bbound; cbn. pose proof HIGH_LOW; lia.
  - apply (BInv_globals (unblock_or_crash (with_strm t s (set_win (strms t s) (s_win (strms t s) + n))) s)); [reflexivity|].
    apply BInv_unblock_or_crash. intro k. upd_cases k s. apply sinv_set_win, HI.
  - apply (BInv_globals (unblock_all (with_cwin t (cwin t + n)))); [reflexivity|].
    apply BInv_unblock_all. exact HI.
  - apply BInv_unblock_all. intro k. cbn. destruct (s_h2open _); auto using sinv_set_win.
  - apply (BInv_globals (unblock_or_crash
        (let t1 := close_stream (with_strm t s (set_h2open (strms t s) false)) s in
         if s_inbufs (strms t1 s) then with_strm t1 s (force_close (strms t1 s)) else t1) s)); [reflexivity|].
    apply BInv_unblock_or_crash. cbn zeta.
    assert (H1 : BInv (close_stream (with_strm t s (set_h2open (strms t s) false)) s)).
    { unfold close_stream. cbn [strms with_strm with_strms]. rewrite upd_same. cbn [s_live set_h2open].
      destruct (s_live (strms t s)); intro k; upd_cases k s; rewrite ?Z.eqb_refl; auto using sinv_set_live, sinv_set_h2open. }
    destruct (s_inbufs _); [|exact H1]. intro k. upd_cases k s. apply sinv_force, H1.
  - (* CPriority *)
    assert (Hins : forall t0 k0, BInv t0 ->
              BInv (let x := strms t0 k0 in
                    if s_tree x then t0
                    else add_id (with_strm t0 k0
                           {| s_buf := s_buf x; s_inbufs := s_inbufs x; s_live := s_live x; s_tree := true; s_blocked := true;
                              s_win := s_win x; s_h2open := s_h2open x; s_pc := s_pc x; s_prog := s_prog x;
                              s_pushed := s_pushed x; s_forced := s_forced x; s_created := s_created x; s_abort := s_abort x |}) k0)).
    { intros t0 k0 H0. cbn zeta. destruct (s_tree (strms t0 k0)); [exact H0|].
      intro k. cbn [strms add_id]. upd_cases k k0. apply sinv_prio, H0. }
    intro k. cbn [strms with_has_data]. apply Hins. destruct (dep =? 0); [exact HI | apply Hins, HI].
  - intro k. cbn. destruct (s_inbufs _); auto using sinv_force, sinv_set_live.
Qed.

Lemma BInv_step t l : label_ok l -> BInv t -> BInv (step t l).
Proof.
  intros Hok HI. destruct l; cbn [step].
  - apply BInv_app, HI.
  - apply BInv_send_wake, HI.
  - apply BInv_send_iter, HI.
  - apply BInv_client; assumption.
Qed.

Lemma BInv_run ls : forall t, Forall label_ok ls -> BInv t -> BInv (run t ls).
Proof.
  induction ls as [|l ls IH]; intros t Hok HI; [exact HI|].
  cbn [run fold_left]. inversion Hok; subst. apply IH; [assumption|]. apply BInv_step; assumption.
Qed.

Lemma bbound_total x : bbound x -> zlen (b_data (s_buf x)) < HIGH + 2 * m.
Proof. unfold bbound. destruct (s_pc x); destruct (b_paused (s_buf x)); lia. Qed.

(* C08: however the tasks interleave and whatever the client does (in particular: grants no
   credit), no stream's buffer ever holds HIGH + 2m bytes or more, m being the largest body
   message the application sends *)
Theorem buffer_bounded cw mf iw0 ls k :
  Forall label_ok ls ->
  zlen (b_data (s_buf (strms (run (init cw mf iw0) ls) k))) < HIGH + 2 * m.
Proof.
  intro Hok. apply bbound_total. apply (BInv_run ls (init cw mf iw0) Hok (BInv_init cw mf iw0) k).
Qed.
End Bound.

(* ================================================================= per-stream invariants *)
Definition fstream (f : frame) : Z :=
  match f with FHeaders s | FData s _ | FEnd s | FRst s => s end.

Lemma sent_on_app s a b : sent_on s (a ++ b) = (sent_on s a ++ sent_on s b)%list.
Proof.
  induction a as [|f a IH]; [reflexivity|]. destruct f; cbn; try exact IH.
  destruct (s0 =? s); [rewrite IH, app_assoc; reflexivity | exact IH].
Qed.
Lemma ends_on_app s a b : ends_on s (a ++ b) = (ends_on s a + ends_on s b)%nat.
Proof.
  induction a as [|f a IH]; [reflexivity|]. destruct f; cbn; try exact IH.
  destruct (s0 =? s); [rewrite IH; reflexivity | exact IH].
Qed.
Lemma sent_on_other s f : fstream f <> s -> sent_on s [f] = [].
Proof. destruct f; cbn; intro H; try reflexivity. apply Z.eqb_neq in H. rewrite H. reflexivity. Qed.
Lemma ends_on_other s f : fstream f <> s -> ends_on s [f] = O.
Proof. destruct f; cbn; intro H; try reflexivity. apply Z.eqb_neq in H. rewrite H. reflexivity. Qed.

Definition not_stuck (x : strm) : Prop :=
  match s_pc x with
  | PWaitPaused => b_paused (s_buf x) = true
  | PWaitDrain => b_is_empty (s_buf x) = true
  | _ => True
  end.

Record SI (o : list frame) (c : bool) (s : Z) (x : strm) : Prop := {
  si_order : s_forced x = false -> s_pushed x = (sent_on s o ++ b_data (s_buf x))%list;
  si_tree : s_inbufs x = true -> s_tree x = true;
  si_forced_h2 : s_forced x = true -> s_h2open x = false \/ c = true;
  si_forced_buf : s_forced x = true ->
                  b_is_empty (s_buf x) = true /\ b_complete (s_buf x) = true /\ b_data (s_buf x) = [];
  si_compl_paused : b_complete (s_buf x) = true -> s_pc x = PWaitPaused -> b_paused (s_buf x) = true;
  si_gone : s_inbufs x = false -> not_stuck x;
  si_ended : (1 <= ends_on s o)%nat -> s_inbufs x = false /\ s_forced x = false /\ s_pushed x = sent_on s o;
  si_ends : (ends_on s o <= 1)%nat;
  si_closed : c = true -> s_inbufs x = true -> s_forced x = true;
  si_h2closed : s_h2open x = false -> s_inbufs x = true -> s_forced x = true;
  si_fresh : s_created x = false ->
             sent_on s o = [] /\ ends_on s o = O /\ s_pc x = PDone /\ s_inbufs x = false
}.

Definition SInv (t : st) : Prop := forall k, SI (out t) (closed t) k (strms t k).

Lemma SI_none o c s : ends_on s o = O -> sent_on s o = [] -> SI o c s strm_none.
Proof.
  intros He Hs. constructor; cbn; rewrite ?He, ?Hs; try discriminate; try reflexivity; try lia; auto.
Qed.

Lemma SInv_init cw mf iw0 : SInv (init cw mf iw0).
Proof. intro k. apply SI_none; reflexivity. Qed.

(* frames of other streams, and closing the connection, do not disturb a stream's invariant --
   provided the stream is force-closed if the connection closes *)
Lemma SI_frame o c s x f : fstream f <> s -> SI o c s x -> SI (o ++ [f]) c s x.
Proof.
  intros Hf H. destruct H. constructor; auto;
    rewrite ?sent_on_app, ?ends_on_app, ?sent_on_other, ?ends_on_other, ?app_nil_r, ?Nat.add_0_r by assumption; auto.
Qed.

Ltac si_simpl :=
  cbn [s_buf s_inbufs s_live s_tree s_blocked s_win s_h2open s_pc s_prog s_pushed s_forced s_created s_abort mark_abort
       set_buf set_blocked set_win set_h2open set_live set_pc add_pushed force_close forget
       b_data b_complete b_is_empty b_paused sb_close sb_set_complete sb_clear_paused sbuf_new not_stuck] in *.

(* a frame that is neither DATA nor END_STREAM of stream s *)
Definition quiet (s : Z) (f : frame) : Prop := sent_on s [f] = [] /\ ends_on s [f] = O.
Lemma quiet_other s f : fstream f <> s -> quiet s f.
Proof. intro H. split; [apply sent_on_other | apply ends_on_other]; exact H. Qed.
Lemma quiet_headers s k : quiet s (FHeaders k). Proof. split; reflexivity. Qed.
Lemma quiet_rst s k : quiet s (FRst k). Proof. split; reflexivity. Qed.

Lemma SI_quiet o c s x f : quiet s f -> SI o c s x -> SI (o ++ [f]) c s x.
Proof.
  intros [Hq1 Hq2] H. destruct H. constructor; auto;
    rewrite ?sent_on_app, ?ends_on_app, ?Hq1, ?Hq2, ?app_nil_r, ?Nat.add_0_r; auto.
Qed.

Ltac si_fresh :=
  match goal with
  | Hfr : s_created ?x = false -> _ |- s_created ?x = false -> _ =>
      let Hx := fresh in intros Hx; destruct (Hfr Hx) as (? & ? & ? & ?);
      first [congruence | repeat split; solve [assumption | congruence]]
  end.
Ltac si_close :=
  try assumption; try (intros; congruence); auto; try si_fresh;
  try (intros; exfalso; lia); try lia;
  try (intros; destruct (s_pc _) eqn:?; auto; fail).
Ltac si_frames :=
  rewrite ?sent_on_app, ?ends_on_app; cbn [sent_on ends_on]; rewrite ?Z.eqb_refl, ?app_nil_r, ?Nat.add_0_r.
Ltac si_start H := destruct H as [Ho Htr Hfh Hfb Hcp Hgo Hen Hes Hclo Hh2 Hfr]; constructor; si_simpl.

(* setters that touch nothing the invariant mentions *)
Lemma SI_set_blocked o c s x v : SI o c s x -> SI o c s (set_blocked x v).
Proof. intro H. si_start H; assumption. Qed.
Lemma SI_set_win o c s x v : SI o c s x -> SI o c s (set_win x v).
Proof. intro H. si_start H; assumption. Qed.
Lemma SI_set_live o c s x v : SI o c s x -> SI o c s (set_live x v).
Proof. intro H. si_start H; assumption. Qed.

(* the application task moves on without waiting *)
Lemma SI_pc_go o c s x pc prog :
  pc = PReady \/ pc = PDone -> s_created x = true -> SI o c s x -> SI o c s (set_pc x pc prog).
Proof.
  intros Hpc Hcr H. si_start H; try assumption; try (intros; congruence);
    destruct Hpc; subst; cbn; intros; auto; discriminate.
Qed.

Lemma SI_pc_wait_paused o c s x prog :
  b_complete (s_buf x) = false -> s_inbufs x = true -> SI o c s x -> SI o c s (set_pc x PWaitPaused prog).
Proof. intros Hc Hi H. si_start H; try assumption; try si_fresh; intros; congruence. Qed.

Lemma SI_pc_wait_drain o c s x prog :
  s_inbufs x = true -> SI o c s x -> SI o c s (set_pc x PWaitDrain prog).
Proof. intros Hi H. si_start H; try assumption; try si_fresh; intros; congruence. Qed.

Lemma SI_forced_complete o c s x : SI o c s x -> b_complete (s_buf x) = false -> s_forced x = false.
Proof.
  intros H Hc. destruct (s_forced x) eqn:Hf; [|reflexivity].
  destruct (si_forced_buf _ _ _ _ H Hf) as (_ & Hc' & _). congruence.
Qed.

Lemma SI_ends_inbufs o c s x : SI o c s x -> s_inbufs x = true -> ends_on s o = O.
Proof.
  intros H Hi. destruct (ends_on s o) eqn:He; [reflexivity|].
  assert (1 <= ends_on s o)%nat as Hx by lia. destruct (si_ended _ _ _ _ H Hx) as [Hx1 _]. congruence.
Qed.

(* push *)
Lemma SI_push o c s x d :
  b_complete (s_buf x) = false -> s_inbufs x = true -> SI o c s x ->
  SI o c s (add_pushed (set_buf x {| b_data := b_data (s_buf x) ++ d; b_complete := false;
                                      b_is_empty := false; b_paused := b_paused (s_buf x) |}) d).
Proof.
  intros Hc Hi H. pose proof (SI_forced_complete _ _ _ _ H Hc) as Hf.
  pose proof (SI_ends_inbufs _ _ _ _ H Hi) as He.
  si_start H; try assumption; try (intros; congruence); try si_fresh.
  - intros _. rewrite (Ho Hf), app_assoc. reflexivity.
  - rewrite He. lia.
Qed.

(* a resumed push clears the event *)
Lemma SI_clear_paused o c s x prog :
  s_pc x = PWaitPaused -> SI o c s x -> SI o c s (set_pc (set_buf x (sb_clear_paused (s_buf x))) PReady prog).
Proof. intros Hpc H. si_start H; try assumption; try (intros; congruence); auto; try si_fresh. Qed.

Lemma SI_set_complete o c s x :
  s_inbufs x = true -> s_pc x = PReady -> SI o c s x -> SI o c s (set_buf x (sb_set_complete (s_buf x))).
Proof. intros Hi Hpc H. si_start H; try assumption; try (intros; congruence); try si_fresh. intros Hf. destruct (Hfb Hf) as (? & ? & ?). auto. Qed.

(* StreamBuffer.close(), when the stream can no longer send or the connection is closed *)
Lemma SI_force o c s x :
  s_inbufs x = true -> s_h2open x = false \/ c = true -> SI o c s x -> SI o c s (force_close x).
Proof.
  intros Hi Hh H. pose proof (SI_ends_inbufs _ _ _ _ H Hi) as He.
  si_start H; si_close.
Qed.

Lemma SI_set_h2closed o c s x : s_inbufs x = true -> s_forced x = true -> SI o c s x -> SI o c s (set_h2open x false).
Proof. intros Hi Hf H. si_start H; try assumption; auto. Qed.
Lemma SI_set_h2closed' o c s x : s_inbufs x = false -> SI o c s x -> SI o c s (set_h2open x false).
Proof. intros Hi H. si_start H; try assumption; auto. intros; congruence. Qed.

(* reset_stream after close: h2open := false on a force-closed stream *)
Lemma SI_force_rst o c s x :
  s_inbufs x = true -> SI o c s x -> SI o c s (set_h2open (force_close x) false).
Proof.
  intros Hi H. pose proof (SI_ends_inbufs _ _ _ _ H Hi) as He.
  si_start H; si_close.
Qed.

Lemma SI_forget o c s x :
  s_forced x = true \/ (b_complete (s_buf x) = true /\ b_is_empty (s_buf x) = true) ->
  SI o c s x -> SI o c s (forget x).
Proof.
  intros Hd H. si_start H; try assumption; try (intros; congruence); auto; try si_fresh.
  - intros _. destruct Hd as [Hf | [Hc He]].
    + destruct (Hfb Hf) as (He & Hc & _). unfold not_stuck; cbn [s_pc s_buf forget]. destruct (s_pc x) eqn:?; auto.
    + unfold not_stuck; cbn [s_pc s_buf forget]. destruct (s_pc x) eqn:?; auto.
  - intros Hx. destruct (Hen Hx) as (? & ? & ?). auto.
Qed.

Lemma SI_forget_gone o c s x : s_inbufs x = false -> SI o c s x -> SI o c s (forget x).
Proof.
  intros Hi H. si_start H; try assumption; try (intros; congruence); auto; try si_fresh.
  intros Hx. destruct (Hen Hx) as (? & ? & ?). auto.
Qed.

(* pop and the DATA frame that carries what was popped *)
Lemma SI_pop_data o c s x n d b :
  sb_pop (s_buf x) n = (d, b) -> s_inbufs x = true -> s_forced x = false -> SI o c s x ->
  SI (o ++ [FData s d]) c s (set_buf x b).
Proof.
  intros Hpop Hi Hf H. pop_facts. pose proof (SI_ends_inbufs _ _ _ _ H Hi) as He.
  si_start H; si_frames; try assumption; try (intros; congruence); try si_fresh.
  - intros _. rewrite (Ho Hf), Hsplit, app_assoc. reflexivity.
  - rewrite Hcompl, Hpaused. intros Hc1 Hpc. rewrite (Hcp Hc1 Hpc). reflexivity.
  - rewrite He. intros Hx. inversion Hx.
Qed.
Lemma SI_pop_nodata o c s x n b :
  sb_pop (s_buf x) n = ([], b) -> s_inbufs x = true -> s_forced x = false -> SI o c s x ->
  SI o c s (set_buf x b).
Proof.
  intros Hpop Hi Hf H. pop_facts. pose proof (SI_ends_inbufs _ _ _ _ H Hi) as He.
  si_start H; try assumption; try (intros; congruence); try si_fresh.
  - intros _. rewrite (Ho Hf), Hsplit. reflexivity.
  - rewrite Hcompl, Hpaused. intros Hc1 Hpc. rewrite (Hcp Hc1 Hpc). reflexivity.
Qed.

Lemma sb_complete_spec b : sb_complete b = true <-> b_complete b = true /\ b_data b = [].
Proof.
  unfold sb_complete. destruct (b_complete b); destruct (b_data b); cbn; split; intros H;
    try discriminate; try (destruct H; discriminate); auto.
Qed.

(* END_STREAM, when the buffer is complete and empty: forget the stream *)
Lemma SI_end o c s x :
  s_inbufs x = true -> s_forced x = false -> sb_complete (s_buf x) = true -> b_is_empty (s_buf x) = true ->
  SI o c s x -> SI (o ++ [FEnd s]) c s (forget (set_h2open x false)).
Proof.
  intros Hi Hf Hc Hem H. apply sb_complete_spec in Hc as [Hc1 Hc2].
  pose proof (SI_ends_inbufs _ _ _ _ H Hi) as He.
  si_start H; si_frames; try assumption; try (intros; congruence); auto; try si_fresh.
  - intros _. unfold not_stuck; cbn [s_pc s_buf forget set_h2open]. destruct (s_pc x) eqn:?; auto.
  - intros _. split; [reflexivity|]. split; [assumption|]. rewrite (Ho Hf), Hc2, app_nil_r. reflexivity.
  - rewrite He. reflexivity.
Qed.

Lemma SI_mark_abort o c s x :
  s_inbufs x = true -> s_pc x = PReady -> SI o c s x -> SI o c s (mark_abort x).
Proof.
  intros Hi Hpc H. si_start H; try assumption; try (intros; congruence); auto; try si_fresh.
  intros Hf. destruct (Hfb Hf) as (? & ? & ?). auto.
Qed.

(* RST_STREAM instead of END_STREAM for an aborted stream, once its buffer has been flushed *)
Lemma SI_abort_end o c s x :
  s_inbufs x = true -> sb_complete (s_buf x) = true -> b_is_empty (s_buf x) = true ->
  SI o c s x -> SI (o ++ [FRst s]) c s (forget (set_h2open x false)).
Proof.
  intros Hi Hc Hem H. apply sb_complete_spec in Hc as [Hc1 Hc2]. apply SI_quiet; [apply quiet_rst|].
  pose proof (SI_ends_inbufs _ _ _ _ H Hi) as He.
  si_start H; try assumption; try (intros; congruence); auto; try si_fresh.
  - intros _. unfold not_stuck; cbn [s_pc s_buf forget set_h2open]. destruct (s_pc x) eqn:?; auto.
  - intros Hx. rewrite He in Hx. inversion Hx.
Qed.

(* the connection closes: every registered buffer is force-closed *)
Lemma SI_eof o s x :
  SI o false s x ->
  SI o true s (let y := set_live x false in if s_inbufs y then force_close y else y).
Proof.
  intro H. cbn zeta. cbn [s_inbufs set_live]. destruct (s_inbufs x) eqn:Hi.
  - pose proof (SI_ends_inbufs _ _ _ _ H Hi) as He. si_start H; si_close.
  - si_start H; si_close.
Qed.

Lemma SI_new o c s prog w bl :
  ends_on s o = O -> sent_on s o = [] -> c = false ->
  SI o c s {| s_buf := sbuf_new; s_inbufs := true; s_live := true; s_tree := true; s_blocked := bl;
              s_win := w; s_h2open := true; s_pc := PReady; s_prog := prog; s_pushed := [];
              s_forced := false; s_created := true; s_abort := false |}.
Proof. intros He Hs Hc. constructor; cbn; rewrite ?He, ?Hs; try discriminate; try reflexivity; try lia; auto; intros; congruence. Qed.

Ltac updc k s :=
  unfold with_strm, with_strms, with_has_data, with_task, with_cwin, emit, with_bad;
  cbn [strms out closed cwin has_data task ids maxf iw bad_pick reader_ok];
  unfold upd; destruct (Z.eqb_spec k s); [subst|].
Ltac quiet_any := first [apply quiet_headers | apply quiet_rst | apply quiet_other; cbn; congruence].
Ltac other Hk := first [exact Hk | apply SI_quiet; [quiet_any | exact Hk]].
Ltac si_auto Hs :=
  repeat first
   [ exact Hs
   | apply SI_quiet; [quiet_any |]
   | apply SI_pc_go; [solve [auto] | si_simpl; assumption |]
   | apply SI_set_blocked | apply SI_set_win | apply SI_set_live
   | apply SI_force_rst; [si_simpl; assumption |]
   | apply SI_force; [si_simpl; assumption | left; si_simpl; assumption |] ].
Ltac leaf k s Hs Hk := updc k s; [si_auto Hs | other Hk].

Lemma SInv_closing t s rest :
  s_pc (strms t s) = PReady -> s_created (strms t s) = true -> SInv t -> SInv (closing_state t s rest).
Proof.
  intros Hpc Hcr HI k. pose proof (HI k) as Hk. pose proof (HI s) as Hs.
  destruct (close_stream_strm t s) as (Hx & Ho & Hout & Hcl & _).
  unfold closing_state. cbv zeta. rewrite Hx.
  assert (Hs1 : SI (out t) (closed t) s (if s_live (strms t s) then set_live (strms t s) false else strms t s)).
  { destruct (s_live (strms t s)); [apply SI_set_live|]; exact Hs. }
  set (x1 := if s_live (strms t s) then set_live (strms t s) false else strms t s) in *.
  assert (Hpc1 : s_pc x1 = PReady) by (unfold x1; destruct (s_live (strms t s)); exact Hpc).
  assert (Hcr1 : s_created x1 = true) by (unfold x1; destruct (s_live (strms t s)); exact Hcr).
  destruct (s_inbufs x1) eqn:Hin; destruct (b_complete (s_buf x1)) eqn:Hc; cbn [andb negb]; try destruct (s_tree x1) eqn:Htr;
    cbn [strms out closed with_has_data with_strm with_strms]; rewrite ?Hout, ?Hcl; unfold upd;
    (destruct (Z.eqb_spec k s); [subst|rewrite Ho by assumption; exact Hk]).
  all: try (apply SI_pc_go; [auto | si_simpl; exact Hcr1 |]); try exact Hs1.
  - apply SI_mark_abort; assumption.
  - apply SI_set_complete; assumption.
Qed.

Lemma SInv_app t s : SInv t -> SInv (app_step t s).
Proof.
  intros HI k. pose proof (HI k) as Hk. pose proof (HI s) as Hs.
  unfold app_step.
  destruct (s_pc (strms t s)) eqn:Hpc; [| | |exact Hk].
  all: assert (Hcr : s_created (strms t s) = true)
    by (destruct (s_created (strms t s)) eqn:Hc; [reflexivity|];
        destruct (si_fresh _ _ _ _ Hs Hc) as (_ & _ & Hx & _); congruence).
  - destruct (s_prog (strms t s)) as [|o rest] eqn:Hprog.
    + leaf k s Hs Hk.
    + destruct o; [unfold do_op | unfold do_op | unfold do_op | |].
      * destruct (s_h2open (strms t s)) eqn:?; leaf k s Hs Hk.
      * destruct (s_tree (strms t s)) eqn:Htree; cbn [negb]; [|leaf k s Hs Hk].
        destruct (s_inbufs (strms t s)) eqn:Hin; cbn [negb]; [|leaf k s Hs Hk].
        unfold sb_push. cbn [s_buf set_blocked].
        destruct (b_complete (s_buf (strms t s))) eqn:Hcompl; [leaf k s Hs Hk|].
        destruct (HIGH <=? zlen (b_data (s_buf (strms t s)) ++ d)) eqn:Hh; updc k s; try other Hk.
        -- apply SI_pc_wait_paused; [reflexivity | exact Hin |].
           apply (SI_push _ _ _ (set_blocked (strms t s) false) d); [exact Hcompl | exact Hin |]. si_auto Hs.
        -- apply SI_pc_go; [auto|exact Hcr|].
           apply (SI_push _ _ _ (set_blocked (strms t s) false) d); [exact Hcompl | exact Hin |]. si_auto Hs.
      * (* OEnd *)
        destruct (s_inbufs (strms t s)) eqn:Hin; cbn [negb]; [|leaf k s Hs Hk].
        cbn [s_tree set_buf]. destruct (s_tree (strms t s)) eqn:?; cbn [negb]; updc k s; try other Hk.
        -- apply SI_pc_wait_drain; [exact Hin|]. apply SI_set_blocked. apply SI_set_complete; assumption.
        -- apply SI_pc_go; [auto|exact Hcr|]. apply SI_set_complete; assumption.
      * (* OClose *) rewrite do_op_close. apply SInv_closing; assumption.
      * (* OExit *) rewrite do_op_exit. destruct (s_live (strms t s)); [apply SInv_closing; assumption | leaf k s Hs Hk].
  - destruct (b_paused (s_buf (strms t s))) eqn:Hp; [|exact Hk]. updc k s; [|other Hk].
    apply SI_clear_paused; assumption.
  - destruct (b_is_empty (s_buf (strms t s))) eqn:?; [|exact Hk]. leaf k s Hs Hk.
Qed.

Lemma SInv_send_data t s : closed t = false -> SInv t -> SInv (send_data t s).
Proof.
  intros Hcl HI k. pose proof (HI k) as Hk; pose proof (HI s) as Hs.
  unfold send_data.
  destruct (s_h2open (strms t s)) eqn:Hopen; cbn [negb].
  - destruct (s_inbufs (strms t s)) eqn:Hin; cbn [negb].
    2:{ updc k s; [apply SI_forget_gone; assumption | exact Hk]. }
    destruct (sb_pop (s_buf (strms t s)) (chunk_size t (strms t s))) as [data b] eqn:Hpop.
    assert (Hnf : s_forced (strms t s) = false).
    { destruct (s_forced (strms t s)) eqn:Hf; [|reflexivity].
      destruct (si_forced_h2 _ _ _ _ Hs Hf); congruence. }
    assert (Hem : sb_complete b = true -> b_is_empty b = true).
    { intro Hc. apply sb_complete_spec in Hc as [_ Hc2].
      pose proof (pop_is_empty (s_buf (strms t s)) (chunk_size t (strms t s))) as He.
      rewrite Hpop in He. cbn [snd] in He. rewrite He, Hc2. apply orb_true_r. }
    destruct data as [|d0 data].
    + pose proof (SI_pop_nodata _ _ _ _ _ _ Hpop Hin Hnf Hs) as Hs1.
      destruct (sb_complete b) eqn:Hc; [si_simpl; destruct (s_abort (strms t s)) eqn:Hab|]; updc k s; try other Hk.
      * apply (SI_abort_end _ _ _ (set_blocked (set_buf (strms t s) b) true)); auto. apply SI_set_blocked, Hs1.
      * apply (SI_end _ _ _ (set_blocked (set_buf (strms t s) b) true)); auto. apply SI_set_blocked, Hs1.
      * apply SI_set_blocked, Hs1.
    + pose proof (SI_pop_data _ _ _ _ _ _ _ Hpop Hin Hnf Hs) as Hs1.
      destruct (sb_complete b) eqn:Hc; [si_simpl; destruct (s_abort (strms t s)) eqn:Hab|]; updc k s.
      * apply (SI_abort_end _ _ _ (set_win (set_buf (strms t s) b) _)); auto. apply SI_set_win, Hs1.
      * apply SI_quiet; [quiet_any|]. apply SI_quiet; [quiet_any|]. exact Hk.
      * apply (SI_end _ _ _ (set_win (set_buf (strms t s) b) _)); auto. apply SI_set_win, Hs1.
      * apply SI_quiet; [quiet_any|]. apply SI_quiet; [quiet_any|]. exact Hk.
      * apply SI_set_win, Hs1.
      * other Hk.
  - destruct (s_inbufs (strms t s)) eqn:Hin; (updc k s; [|exact Hk]).
    + apply SI_forget; [left; reflexivity|]. apply SI_force; [exact Hin | left; exact Hopen | exact Hs].
    + apply SI_forget_gone; assumption.
Qed.

Lemma SInv_send_iter t p : SInv t -> SInv (send_iter t p).
Proof.
  intros HI. unfold send_iter.
  destruct (task t); try exact HI. destruct (closed t) eqn:Hcl; [exact HI|].
  destruct p as [s|].
  - destruct (eligible (strms t s)); [apply SInv_send_data; assumption | exact HI].
  - destruct (existsb _ _); exact HI.
Qed.

Lemma SInv_send_wake t : SInv t -> SInv (send_wake t).
Proof. intros HI. unfold send_wake. destruct (task t); try exact HI. destruct (has_data t); exact HI. Qed.

Lemma SI_prio o c s x :
  SI o c s x ->
  SI o c s {| s_buf := s_buf x; s_inbufs := s_inbufs x; s_live := s_live x; s_tree := true; s_blocked := true;
              s_win := s_win x; s_h2open := s_h2open x; s_pc := s_pc x; s_prog := s_prog x;
              s_pushed := s_pushed x; s_forced := s_forced x; s_created := s_created x; s_abort := s_abort x |}.
Proof. intro H. si_start H; try assumption; auto. Qed.

Lemma SInv_globals t t' : strms t' = strms t -> out t' = out t -> closed t' = closed t -> SInv t -> SInv t'.
Proof. intros H1 H2 H3 HI k. rewrite H1, H2, H3. apply HI. Qed.

Lemma SInv_unblock_or_crash t s : SInv t -> SInv (unblock_or_crash t s).
Proof.
  intros HI. unfold unblock_or_crash. destruct (s_inbufs (strms t s)); [|exact HI].
  destruct (s_tree (strms t s)); [|exact HI].
  intro k. pose proof (HI k) as Hk. pose proof (HI s) as Hs. updc k s; [apply SI_set_blocked, Hs | exact Hk].
Qed.

Lemma SInv_unblock_all t : SInv t -> SInv (unblock_all t).
Proof.
  intros HI. unfold unblock_all.
  assert (H : SInv (map_strms t (fun x => if s_inbufs x then set_blocked x false else x))).
  { intro k. cbn. destruct (s_inbufs (strms t k)); [apply SI_set_blocked|]; apply HI. }
  destruct (existsb _ _); exact H.
Qed.

Lemma SInv_client t c : SInv t -> SInv (client_step t c).
Proof.
  intros HI. unfold client_step. destruct (closed t) eqn:Hcl; [exact HI|].
  destruct c as [s prog|s n|n|n|s|s dep|s|s|]; try exact HI.
  - destruct (s_created (strms t s)) eqn:Hcr; [exact HI|]. intro k. cbn [strms out closed add_id].
    pose proof (HI s) as Hs. pose proof (HI k) as Hk. updc k s; [|exact Hk].
    destruct (si_fresh _ _ _ _ Hs Hcr) as (H1 & H2 & _). apply SI_new; assumption.
  - apply (SInv_globals (unblock_or_crash (with_strm t s (set_win (strms t s) (s_win (strms t s) + n))) s));
      try reflexivity.
    apply SInv_unblock_or_crash. intro k. pose proof (HI s) as Hs. pose proof (HI k) as Hk.
    updc k s; [apply SI_set_win, Hs | exact Hk].
  - apply (SInv_globals (unblock_all (with_cwin t (cwin t + n)))); try reflexivity.
    apply SInv_unblock_all. exact HI.
  - apply SInv_unblock_all. intro k. pose proof (HI k) as Hk. cbn. destruct (s_h2open _); si_auto Hk.
  - apply (SInv_globals (unblock_or_crash
        (let t1 := close_stream (with_strm t s (set_h2open (strms t s) false)) s in
         if s_inbufs (strms t1 s) then with_strm t1 s (force_close (strms t1 s)) else t1) s)); try reflexivity.
    apply SInv_unblock_or_crash. cbn zeta.
    intro k. pose proof (HI s) as Hs. pose proof (HI k) as Hk. unfold close_stream.
    cbn [strms with_strm with_strms]. rewrite upd_same.
    cbn [s_live set_h2open]. destruct (s_live (strms t s)); cbn [strms with_strm with_strms with_has_data];
      rewrite ?upd_same; cbn [s_inbufs set_live set_h2open]; destruct (s_inbufs (strms t s)) eqn:Hin; updc k s;
      try exact Hk; rewrite ?upd_same; rewrite ?Z.eqb_refl.
    + apply (SI_force_rst _ _ _ (set_live (strms t s) false)); [exact Hin|]. apply SI_set_live, Hs.
    + apply SI_set_live. apply SI_set_h2closed'; assumption.
    + apply (SI_force_rst _ _ _ (strms t s)); [exact Hin|]. exact Hs.
    + apply SI_set_h2closed'; assumption.
  - (* CPriority *)
    assert (Hins : forall t0 k0, SInv t0 ->
              SInv (let x := strms t0 k0 in
                    if s_tree x then t0
                    else add_id (with_strm t0 k0
                           {| s_buf := s_buf x; s_inbufs := s_inbufs x; s_live := s_live x; s_tree := true; s_blocked := true;
                              s_win := s_win x; s_h2open := s_h2open x; s_pc := s_pc x; s_prog := s_prog x;
                              s_pushed := s_pushed x; s_forced := s_forced x; s_created := s_created x; s_abort := s_abort x |}) k0)).
    { intros t0 k0 H0. cbn zeta. destruct (s_tree (strms t0 k0)); [exact H0|].
      intro k. pose proof (H0 k0) as Hs. pose proof (H0 k) as Hk. cbn [strms out closed add_id].
      updc k k0; [apply SI_prio, Hs | exact Hk]. }
    intro k. cbn [strms out closed with_has_data]. apply Hins. destruct (dep =? 0); [exact HI | apply Hins, HI].
  - intro k. pose proof (HI k) as Hk. cbn [strms out closed map_strms with_strms]. rewrite Hcl in Hk.
    apply SI_eof. exact Hk.
Qed.

Lemma SInv_step t l : SInv t -> SInv (step t l).
Proof.
  intros HI. destruct l; cbn [step].
  - apply SInv_app, HI.
  - apply SInv_send_wake, HI.
  - apply SInv_send_iter, HI.
  - apply SInv_client, HI.
Qed.

Lemma SInv_run ls : forall t, SInv t -> SInv (run t ls).
Proof.
  induction ls as [|l ls IH]; intros t HI; [exact HI|].
  cbn [run fold_left]. apply IH, SInv_step, HI.
Qed.

Lemma SInv_reach cw mf iw0 ls : SInv (run (init cw mf iw0) ls).
Proof. apply SInv_run, SInv_init. Qed.

(* ================================================================= what a step may write *)
Definition frame_ok (t : st) (f : frame) : Prop :=
  match f with
  | FData s d =>
      eligible (strms t s) = true /\ s_inbufs (strms t s) = true /\ s_h2open (strms t s) = true /\
      closed t = false /\ task t = TTop /\
      0 < zlen d /\ zlen d <= s_win (strms t s) /\ zlen d <= cwin t /\ zlen d <= maxf t /\
      exists rest, b_data (s_buf (strms t s)) = (d ++ rest)%list
  | FEnd s =>
      eligible (strms t s) = true /\ s_inbufs (strms t s) = true /\ s_h2open (strms t s) = true /\
      closed t = false /\ b_complete (s_buf (strms t s)) = true
  | FHeaders s => True
  | FRst s => s_h2open (strms t s) = true /\ s_inbufs (strms t s) = true
  end.

Definition writes (t t' : st) (fs : list frame) : Prop := out t' = (out t ++ fs)%list.

Lemma writes_nil t t' : out t' = out t -> writes t t' []. 
Proof. intro H. unfold writes. rewrite app_nil_r. exact H. Qed.

Lemma closing_out t s rest : out (closing_state t s rest) = out t.
Proof.
  destruct (close_stream_strm t s) as (_ & _ & Hout & _).
  unfold closing_state. cbv zeta.
  destruct (s_inbufs _ && negb _); [destruct (s_tree _)|]; cbn [out with_has_data with_strm with_strms]; exact Hout.
Qed.

Lemma app_step_frames t s : exists fs, writes t (app_step t s) fs /\ Forall (frame_ok t) fs.
Proof.
  unfold app_step.
  destruct (s_pc (strms t s)) eqn:Hpc; try (exists []; split; [apply writes_nil; reflexivity | constructor]).
  - destruct (s_prog (strms t s)) as [|o rest] eqn:Hprog; [exists []; split; [apply writes_nil; reflexivity | constructor]|].
    destruct o; [unfold do_op | unfold do_op | unfold do_op | |].
    + destruct (s_h2open (strms t s)); [exists [FHeaders s] | exists []]; split;
        try (apply writes_nil; reflexivity); try reflexivity; repeat constructor.
    + exists []. split; [|constructor]. apply writes_nil.
      destruct (s_tree (strms t s)); cbn [negb]; [|reflexivity].
      destruct (s_inbufs (strms t s)); cbn [negb]; [|reflexivity].
      destruct (sb_push _ _) as [[b w]|]; reflexivity.
    + exists []. split; [|constructor]. apply writes_nil.
      destruct (s_inbufs (strms t s)); cbn [negb]; [|reflexivity].
      cbn [s_tree set_buf]. destruct (s_tree (strms t s)); reflexivity.
    + exists []. split; [|constructor]. apply writes_nil. rewrite do_op_close. apply closing_out.
    + exists []. split; [|constructor]. apply writes_nil. rewrite do_op_exit.
      destruct (s_live (strms t s)); [apply closing_out | reflexivity].
  - destruct (b_paused (s_buf (strms t s))); exists []; (split; [apply writes_nil; reflexivity | constructor]).
  - destruct (b_is_empty (s_buf (strms t s))); exists []; (split; [apply writes_nil; reflexivity | constructor]).
Qed.

Lemma send_data_frames t s :
  eligible (strms t s) = true -> closed t = false -> task t = TTop ->
  exists fs, writes t (send_data t s) fs /\ Forall (frame_ok t) fs.
Proof.
  intros Hel Hcl Htask. unfold send_data.
  destruct (s_h2open (strms t s)) eqn:Hopen; cbn [negb].
  2:{ destruct (s_inbufs (strms t s)); exists []; (split; [apply writes_nil; reflexivity | constructor]). }
  destruct (s_inbufs (strms t s)) eqn:Hin; cbn [negb];
    [|exists []; split; [apply writes_nil; reflexivity | constructor]].
  destruct (sb_pop (s_buf (strms t s)) (chunk_size t (strms t s))) as [data b] eqn:Hpop.
  pop_facts.
  destruct data as [|d0 data].
  - destruct (sb_complete b) eqn:Hc.
    + si_simpl. destruct (s_abort (strms t s)).
      * exists [FRst s]. split; [reflexivity|]. repeat constructor; assumption.
      * exists [FEnd s]. split; [reflexivity|]. repeat constructor; try assumption.
        apply sb_complete_spec in Hc as [Hc1 _]. congruence.
    + exists []. split; [apply writes_nil; reflexivity | constructor].
  - assert (Hd : frame_ok t (FData s (d0 :: data))).
    { cbn [frame_ok]. unfold chunk_size in Hlen.
      assert (Hpos : 0 < zlen (d0 :: data)) by (clear; unfold zlen; cbn [length]; lia).
      assert (Hnum : zlen (d0 :: data) <= s_win (strms t s) /\ zlen (d0 :: data) <= cwin t /\ zlen (d0 :: data) <= maxf t)
        by (clear - Hlen Hpos; lia).
      destruct Hnum as (? & ? & ?).
      repeat split; try assumption. exists (b_data b). exact Hsplit. }
    destruct (sb_complete b) eqn:Hc.
    + si_simpl. destruct (s_abort (strms t s)).
      * exists [FData s (d0 :: data); FRst s]. split; [unfold writes; cbn [out emit with_strm with_strms with_cwin]; rewrite <- app_assoc; reflexivity|].
        constructor; [exact Hd|]. repeat constructor; assumption.
      * exists [FData s (d0 :: data); FEnd s]. split; [unfold writes; cbn [out emit with_strm with_strms with_cwin]; rewrite <- app_assoc; reflexivity|].
        constructor; [exact Hd|]. repeat constructor; try assumption.
        apply sb_complete_spec in Hc as [Hc1 _]. congruence.
    + exists [FData s (d0 :: data)]. split; [reflexivity|]. constructor; [exact Hd | constructor].
Qed.

Lemma unblock_or_crash_out t s : out (unblock_or_crash t s) = out t.
Proof. unfold unblock_or_crash. destruct (s_inbufs _); [|reflexivity]. destruct (s_tree _); reflexivity. Qed.
Lemma unblock_all_out t : out (unblock_all t) = out t.
Proof. unfold unblock_all. destruct (existsb _ _); reflexivity. Qed.
Lemma close_stream_out t s : out (close_stream t s) = out t.
Proof. unfold close_stream. destruct (s_live _); reflexivity. Qed.

Lemma client_out t c : out (client_step t c) = out t.
Proof.
  unfold client_step. destruct (closed t); [reflexivity|].
  destruct c as [s prog|s n|n|n|s|s dep|s|s|]; try reflexivity.
  - destruct (s_created (strms t s)); reflexivity.
  - cbn [out with_has_data]. rewrite unblock_or_crash_out. reflexivity.
  - cbn [out with_has_data]. rewrite unblock_all_out. reflexivity.
  - rewrite unblock_all_out. reflexivity.
  - cbn [out with_has_data]. rewrite unblock_or_crash_out.
    destruct (s_inbufs _); cbn [out with_strm with_strms]; rewrite close_stream_out; reflexivity.
  - cbn [out with_has_data]. destruct (s_tree (strms (if dep =? 0 then t else _) s)); cbn [out add_id with_strm with_strms];
      destruct (dep =? 0); try reflexivity; destruct (s_tree (strms t dep)); reflexivity.
Qed.

Lemma step_frames t l : exists fs, writes t (step t l) fs /\ Forall (frame_ok t) fs.
Proof.
  destruct l as [s| |p|c]; cbn [step].
  - apply app_step_frames.
  - exists []. split; [|constructor]. apply writes_nil. unfold send_wake.
    destruct (task t); try reflexivity. destruct (has_data t); reflexivity.
  - unfold send_iter. destruct (task t) eqn:Htask; try (exists []; split; [apply writes_nil; reflexivity | constructor]).
    destruct (closed t) eqn:Hcl; [exists []; split; [apply writes_nil; reflexivity | constructor]|].
    destruct p as [s|].
    + destruct (eligible (strms t s)) eqn:Hel; [apply send_data_frames; assumption|].
      exists []; split; [apply writes_nil; reflexivity | constructor].
    + destruct (existsb _ _); exists []; (split; [apply writes_nil; reflexivity | constructor]).
  - exists []. split; [|constructor]. apply writes_nil. apply client_out.
Qed.

(* ================================================================= no lost wake-up *)
Definition is_nil {A} (l : list A) : bool := match l with [] => true | _ => false end.

(* stream x has something the send task could write now *)
Definition sendable (cl : bool) (cw : Z) (x : strm) : bool :=
  s_inbufs x && s_h2open x && negb cl &&
  ((negb (is_nil (b_data (s_buf x))) && (0 <? s_win x) && (0 <? cw)) || sb_complete (s_buf x)).

Record WInv (t : st) : Prop := {
  w_dom : forall s, s_tree (strms t s) = true -> In s (ids t);
  w_unblocked : forall s, sendable (closed t) (cwin t) (strms t s) = true -> s_blocked (strms t s) = false;
  w_wake : task t = TWaiting -> has_data t = false -> forall s, In s (ids t) -> eligible (strms t s) = false;
  w_closed : closed t = true -> task t = TWaiting -> has_data t = true;
  w_maxf : 0 < maxf t
}.

Lemma WInv_init cw mf iw0 : 0 < mf -> WInv (init cw mf iw0).
Proof. intro H. constructor; cbn; try discriminate; auto. Qed.

Lemma sendable_mono cl cw cw' x : cw' <= cw -> sendable cl cw' x = true -> sendable cl cw x = true.
Proof.
  unfold sendable. intros Hle H.
  destruct (s_inbufs x), (s_h2open x), cl; cbn in *; try discriminate.
  destruct (sb_complete (s_buf x)); [rewrite orb_true_r; reflexivity|].
  rewrite orb_false_r in *. destruct (is_nil _); cbn in *; try discriminate.
  destruct (0 <? s_win x); cbn in *; try discriminate. clear - H Hle. lia.
Qed.

Lemma WInv_send_wake t : WInv t -> WInv (send_wake t).
Proof.
  intros HW. unfold send_wake.
  destruct (task t) eqn:Ht; try exact HW.
  destruct (has_data t) eqn:Hd; [|exact HW].
  destruct HW as [H1 H2 H3 H4 H5]. constructor; cbn; auto; discriminate.
Qed.

(* the state of stream k, the globals, after a step that rewrote stream s to x and possibly raised has_data *)
Ltac w_start HW := destruct HW as [H1 H2 H3 H4 H5].

Lemma elig_eq x y : s_tree y = s_tree x -> s_blocked y = s_blocked x -> eligible y = eligible x.
Proof. unfold eligible. intros -> ->. reflexivity. Qed.

(* a rewrite of stream s that leaves the globals alone, keeps inbufs, and either raises has_data or
   keeps eligibility; and keeps "sendable -> unblocked" *)
Lemma WInv_rewrite t s x hd :
  WInv t ->
  s_tree x = s_tree (strms t s) ->
  (hd = true \/ (hd = has_data t /\ (eligible x = true -> eligible (strms t s) = true))) ->
  (sendable (closed t) (cwin t) x = true -> s_blocked x = false) ->
  WInv (with_has_data (with_strm t s x) hd).
Proof.
  intros HW Hin Hhd Hsb. w_start HW. constructor; cbn [strms ids has_data closed cwin task maxf with_has_data with_strm with_strms].
  - intros k. unfold upd. destruct (Z.eqb_spec k s); [subst; rewrite Hin|]; apply H1.
  - intros k. unfold upd. destruct (Z.eqb_spec k s); [subst; exact Hsb | apply H2].
  - intros Ht Hd k Hk. destruct Hhd as [-> | [-> He]]; [discriminate|].
    unfold upd. destruct (Z.eqb_spec k s); [subst|apply H3; assumption].
    destruct (eligible x) eqn:Hx; [|reflexivity]. rewrite <- (H3 Ht Hd s Hk). symmetry. apply He. reflexivity.
  - intros Hc Ht. destruct Hhd as [-> | [-> He]]; [reflexivity | apply H4; assumption].
  - exact H5.
Qed.

Lemma with_strm_as_rewrite t s x : with_strm t s x = with_has_data (with_strm t s x) (has_data t).
Proof. reflexivity. Qed.

Lemma WInv_emit t f : WInv t -> WInv (emit t f).
Proof. intros [H1 H2 H3 H4 H5]. constructor; cbn; assumption. Qed.

Lemma sendable_same c cw x y :
  s_inbufs y = s_inbufs x -> s_h2open y = s_h2open x -> b_data (s_buf y) = b_data (s_buf x) ->
  b_complete (s_buf y) = b_complete (s_buf x) -> s_win y = s_win x -> sendable c cw y = sendable c cw x.
Proof. unfold sendable, sb_complete. intros -> -> -> -> ->. reflexivity. Qed.
Lemma sendable_h2closed c cw x : s_h2open x = false -> sendable c cw x = false.
Proof. unfold sendable. intros ->. rewrite andb_false_r. reflexivity. Qed.
Lemma sendable_gone c cw x : s_inbufs x = false -> sendable c cw x = false.
Proof. unfold sendable. intros ->. reflexivity. Qed.
Lemma sendable_closed cw x : sendable true cw x = false.
Proof. unfold sendable. cbn. rewrite andb_false_r. reflexivity. Qed.

(* side conditions of WInv_rewrite *)
Ltac w_same H2 s :=
  let H := fresh in
  intro H; si_simpl;
  first [ reflexivity
        | apply (H2 s); rewrite <- H; symmetry; apply sendable_same; reflexivity
        | rewrite sendable_h2closed in H by (si_simpl; first [reflexivity | assumption]); discriminate
        | rewrite sendable_gone in H by (si_simpl; first [reflexivity | assumption]); discriminate ].
Ltac w_elig := first [left; reflexivity | right; split; [reflexivity | si_simpl; unfold eligible; si_simpl; auto]].

Ltac w_plain HW H2 s := rewrite with_strm_as_rewrite; apply WInv_rewrite; [exact HW | reflexivity | w_elig | w_same H2 s].
Ltac w_hd HW H2 s := apply WInv_rewrite; [exact HW | reflexivity | w_elig | w_same H2 s].

Lemma WInv_closing t s rest : SInv t -> WInv t -> WInv (closing_state t s rest).
Proof.
  intros HS HW. pose proof (HS s) as Hs. pose proof (w_unblocked _ HW) as H2.
  destruct (close_stream_strm t s) as (Hx & _).
  assert (HW1 : WInv (close_stream t s)).
  { unfold close_stream. destruct (s_live (strms t s)); [w_hd HW H2 s | exact HW]. }
  pose proof (w_unblocked _ HW1) as H2'.
  unfold closing_state. cbv zeta.
  set (t1 := close_stream t s) in *. clearbody t1.
  assert (Htree : s_inbufs (strms t1 s) = true -> s_tree (strms t1 s) = true).
  { rewrite Hx. destruct (s_live (strms t s)); si_simpl; apply (si_tree _ _ _ _ Hs). }
  destruct (s_inbufs (strms t1 s)) eqn:Hin; destruct (b_complete (s_buf (strms t1 s))) eqn:Hc; cbn [andb negb].
  - rewrite with_strm_as_rewrite. apply WInv_rewrite; [exact HW1 | reflexivity | w_elig | w_same H2' s].
  - rewrite (Htree eq_refl).
    apply WInv_rewrite; [exact HW1 | reflexivity | left; reflexivity | intros _; reflexivity].
  - rewrite with_strm_as_rewrite. apply WInv_rewrite; [exact HW1 | reflexivity | w_elig | w_same H2' s].
  - rewrite with_strm_as_rewrite. apply WInv_rewrite; [exact HW1 | reflexivity | w_elig | w_same H2' s].
Qed.

Lemma WInv_app t s : SInv t -> WInv t -> WInv (app_step t s).
Proof.
  intros HS HW. pose proof (HS s) as Hs. pose proof (w_unblocked _ HW) as H2.
  unfold app_step.
  destruct (s_pc (strms t s)) eqn:Hpc; [| | |exact HW].
  - destruct (s_prog (strms t s)) as [|o rest] eqn:Hprog.
    + w_plain HW H2 s.
    + destruct o.
      * unfold do_op. destruct (s_h2open (strms t s)) eqn:?.
        -- rewrite with_strm_as_rewrite. apply WInv_rewrite; [apply WInv_emit, HW | reflexivity | w_elig | w_same H2 s].
        -- w_plain HW H2 s.
      * unfold do_op. destruct (s_tree (strms t s)) eqn:Htree; cbn [negb]; [|w_plain HW H2 s].
        destruct (s_inbufs (strms t s)) eqn:Hin; cbn [negb]; [|w_hd HW H2 s].
        unfold sb_push. cbn [s_buf set_blocked].
        destruct (b_complete (s_buf (strms t s))) eqn:Hcompl; [w_hd HW H2 s|].
        destruct (HIGH <=? zlen (b_data (s_buf (strms t s)) ++ d)) eqn:Hh; w_hd HW H2 s.
      * (* OEnd *)
        unfold do_op. destruct (s_inbufs (strms t s)) eqn:Hin; cbn [negb]; [|w_plain HW H2 s].
        cbn [s_tree set_buf]. destruct (s_tree (strms t s)) eqn:Htree; cbn [negb]; [w_hd HW H2 s|].
        pose proof (si_tree _ _ _ _ Hs Hin). congruence.
      * rewrite do_op_close. apply WInv_closing; assumption.
      * rewrite do_op_exit. destruct (s_live (strms t s)); [apply WInv_closing; assumption | w_plain HW H2 s].
  - destruct (b_paused (s_buf (strms t s))) eqn:Hp; [|exact HW]. w_plain HW H2 s.
  - destruct (b_is_empty (s_buf (strms t s))) eqn:?; [|exact HW]. w_plain HW H2 s.
Qed.

Lemma pop_nothing b n d b' :
  sb_pop b n = (d, b') -> d = [] -> b_data b' = b_data b /\ (b_data b = [] \/ n <= 0).
Proof.
  intros Hpop ->. pop_facts. cbn [app] in Hsplit. split; [congruence|].
  rewrite zlen_nil in Hlen. destruct (b_data b) eqn:Hb; [left; reflexivity | right].
  assert (0 < zlen (n0 :: l)) by (clear; unfold zlen; cbn [length]; lia). clear - Hlen H. lia.
Qed.

Lemma WInv_send_data t s :
  SInv t -> WInv t -> eligible (strms t s) = true -> closed t = false -> task t = TTop ->
  WInv (send_data t s).
Proof.
  intros HS HW Hel Hcl Htask. pose proof (HS s) as Hs. destruct HW as [H1 H2 H3 H4 H5].
  assert (Hblk : s_blocked (strms t s) = false).
  { unfold eligible in Hel. destruct (s_tree (strms t s)), (s_blocked (strms t s)); cbn in Hel; congruence. }
  assert (Htree : s_tree (strms t s) = true).
  { unfold eligible in Hel. destruct (s_tree (strms t s)); [reflexivity | discriminate]. }
  (* forgetting the stream *)
  assert (Hforget : forall y, WInv (with_strm t s (forget y))).
  { intro y. constructor; cbn [strms ids has_data closed cwin task maxf with_strm with_strms]; try assumption;
      try (rewrite Htask; discriminate).
    - intros k. unfold upd. destruct (Z.eqb_spec k s); [subst; cbn; discriminate | apply H1].
    - intros k. unfold upd. destruct (Z.eqb_spec k s); [subst; rewrite sendable_gone by reflexivity; discriminate | apply H2]. }
  unfold send_data.
  destruct (s_h2open (strms t s)) eqn:Hopen; cbn [negb]; [|apply Hforget].
  destruct (s_inbufs (strms t s)) eqn:Hin; cbn [negb]; [|apply Hforget].
  destruct (sb_pop (s_buf (strms t s)) (chunk_size t (strms t s))) as [data b] eqn:Hpop.
  destruct data as [|d0 data].
  - destruct (pop_nothing _ _ _ _ Hpop eq_refl) as [Hsame Hwhy].
    destruct (sb_complete b) eqn:Hc;
      (constructor; cbn [strms ids has_data closed cwin task maxf with_strm with_strms emit]; try assumption;
       try (rewrite Htask; discriminate)).
    + intros k. unfold upd. destruct (Z.eqb_spec k s); [subst; cbn; discriminate | apply H1].
    + intros k. unfold upd. destruct (Z.eqb_spec k s); [subst; rewrite sendable_gone by reflexivity; discriminate | apply H2].
    + intros k. unfold upd. destruct (Z.eqb_spec k s); [subst; intros _; apply H1; exact Htree | apply H1].
    + intros k. unfold upd. destruct (Z.eqb_spec k s); [subst | apply H2].
      intro Hsd. exfalso. unfold sendable in Hsd. si_simpl. rewrite Hc, orb_false_r, Hsame in Hsd.
      destruct Hwhy as [Hnil | Hchunk].
      * rewrite Hnil in Hsd. cbn in Hsd. rewrite !andb_false_r in Hsd. discriminate.
      * unfold chunk_size in Hchunk.
        destruct (0 <? s_win (strms t s)) eqn:Hw; [|rewrite !andb_false_r in Hsd; cbn in Hsd; rewrite ?andb_false_r in Hsd; discriminate].
        destruct (0 <? cwin t) eqn:Hcw; [|rewrite !andb_false_r in Hsd; discriminate].
        clear - Hchunk Hw Hcw H5. lia.
  - assert (Hle : cwin t - zlen (d0 :: data) <= cwin t) by (clear; unfold zlen; lia).
    destruct (sb_complete b) eqn:Hc;
      (constructor; cbn [strms ids has_data closed cwin task maxf with_strm with_strms emit with_cwin]; try assumption;
       try (rewrite Htask; discriminate)).
    + intros k. unfold upd. destruct (Z.eqb_spec k s); [subst; cbn; discriminate | apply H1].
    + intros k. unfold upd. destruct (Z.eqb_spec k s); [subst; rewrite sendable_gone by reflexivity; discriminate |].
      intro Hsd. apply H2. eapply sendable_mono; [exact Hle | exact Hsd].
    + intros k. unfold upd. destruct (Z.eqb_spec k s); [subst; intros _; apply H1; exact Htree | apply H1].
    + intros k. unfold upd. destruct (Z.eqb_spec k s); [subst; intros _; exact Hblk |].
      intro Hsd. apply H2. eapply sendable_mono; [exact Hle | exact Hsd].
Qed.

Lemma WInv_send_iter t p : SInv t -> WInv t -> WInv (send_iter t p).
Proof.
  intros HS HW. unfold send_iter.
  destruct (task t) eqn:Htask; try exact HW.
  destruct (closed t) eqn:Hcl.
  { destruct HW as [H1 H2 H3 H4 H5]. constructor; cbn; try assumption; intros; discriminate. }
  destruct p as [s|].
  - destruct (eligible (strms t s)) eqn:Hel; [apply WInv_send_data; assumption|].
    destruct HW as [H1 H2 H3 H4 H5]. constructor; cbn; try assumption.
  - destruct (existsb (fun s => eligible (strms t s)) (ids t)) eqn:Hex.
    + destruct HW as [H1 H2 H3 H4 H5]. constructor; cbn; try assumption.
    + destruct HW as [H1 H2 H3 H4 H5]. constructor; cbn; try assumption.
      * intros _ _ s Hs. destruct (eligible (strms t s)) eqn:He; [|reflexivity].
        assert (existsb (fun s => eligible (strms t s)) (ids t) = true) by (apply existsb_exists; exists s; auto).
        congruence.
      * intros Hc. congruence.
Qed.

(* the part of WInv that does not depend on the wake-up flag *)
Record WBase (t : st) : Prop := {
  wb_dom : forall s, s_tree (strms t s) = true -> In s (ids t);
  wb_unblocked : forall s, sendable (closed t) (cwin t) (strms t s) = true -> s_blocked (strms t s) = false;
  wb_maxf : 0 < maxf t
}.
Lemma WInv_base t : WInv t -> WBase t.
Proof. intros [H1 H2 H3 H4 H5]. constructor; assumption. Qed.
Lemma WBase_hd t : WBase t -> WInv (with_has_data t true).
Proof. intros [H1 H2 H3]. constructor; cbn; try assumption; try (intros; discriminate); auto. Qed.
Lemma WBase_hd' t : WBase t -> has_data t = true -> WInv t.
Proof. intros [H1 H2 H3] Hd. constructor; try assumption; intros; congruence. Qed.

(* priority.unblock of a registered stream, whatever was changed on it before *)
Lemma WBase_set_and_unblock t s x :
  WBase t -> s_tree x = s_tree (strms t s) -> (s_inbufs x = true -> s_tree x = true) ->
  WBase (unblock_or_crash (with_strm t s x) s).
Proof.
  intros [H1 H2 H3] Htr Hit. unfold unblock_or_crash. cbn [strms with_strm with_strms]. rewrite upd_same.
  destruct (s_inbufs x) eqn:Hin.
  - rewrite (Hit eq_refl).
    constructor; cbn [strms ids closed cwin maxf with_strm with_strms]; try assumption.
    + intros k. unfold upd. destruct (Z.eqb_spec k s); [subst; si_simpl; intros _; apply H1; rewrite <- Htr; auto|].
      destruct (Z.eqb_spec k s); [contradiction | apply H1].
    + intros k. unfold upd. destruct (Z.eqb_spec k s); [subst; intros _; reflexivity|].
      destruct (Z.eqb_spec k s); [contradiction | apply H2].
  - constructor; cbn [strms ids closed cwin maxf with_strm with_strms]; try assumption.
    + intros k. unfold upd. destruct (Z.eqb_spec k s); [subst; rewrite Htr; apply H1 | apply H1].
    + intros k. unfold upd. destruct (Z.eqb_spec k s); [subst|apply H2].
      intro Hsd. rewrite sendable_gone in Hsd by exact Hin. discriminate.
Qed.

Lemma WBase_unblock t s :
  WBase t -> (s_inbufs (strms t s) = true -> s_tree (strms t s) = true) -> WBase (unblock_or_crash t s).
Proof.
  intros [H1 H2 H3] Hit. unfold unblock_or_crash.
  destruct (s_inbufs (strms t s)) eqn:Hin; [|constructor; assumption].
  rewrite (Hit eq_refl).
  constructor; cbn [strms ids closed cwin maxf with_strm with_strms]; try assumption.
  - intros k. unfold upd. destruct (Z.eqb_spec k s); [subst; si_simpl; apply H1 | apply H1].
  - intros k. unfold upd. destruct (Z.eqb_spec k s); [subst; intros _; reflexivity | apply H2].
Qed.

(* unblock every registered stream: nothing is required of "sendable -> unblocked" beforehand *)
Lemma WBase_unblock_all t :
  (forall s, s_tree (strms t s) = true -> In s (ids t)) -> 0 < maxf t -> WBase (unblock_all t).
Proof.
  intros H1 H3. unfold unblock_all.
  assert (H : WBase (map_strms t (fun x => if s_inbufs x then set_blocked x false else x))).
  { constructor; cbn [strms ids closed cwin maxf map_strms with_strms]; try assumption.
    - intros k. destruct (s_inbufs (strms t k)); si_simpl; apply H1.
    - intros k. destruct (s_inbufs (strms t k)) eqn:Hin; [intros _; reflexivity|].
      intro Hsd. rewrite sendable_gone in Hsd by exact Hin. discriminate. }
  destruct (existsb _ _); [|exact H]. destruct H as [A B C]. constructor; cbn; assumption.
Qed.

(* insertion of a stream in the priority tree by a PRIORITY frame *)
Definition prio_insert (t : st) (k : Z) : st :=
  let x := strms t k in
  if s_tree x then t
  else add_id (with_strm t k
         {| s_buf := s_buf x; s_inbufs := s_inbufs x; s_live := s_live x; s_tree := true; s_blocked := true;
            s_win := s_win x; s_h2open := s_h2open x; s_pc := s_pc x; s_prog := s_prog x;
            s_pushed := s_pushed x; s_forced := s_forced x; s_created := s_created x; s_abort := s_abort x |}) k.

Lemma In_add_id t s k : In k (ids (add_id t s)) <-> k = s \/ In k (ids t).
Proof.
  cbn [ids add_id]. destruct (existsb (Z.eqb s) (ids t)) eqn:He.
  - split; [auto|]. intros [->|H]; [|exact H]. apply existsb_exists in He as (y & Hy & Hys). apply Z.eqb_eq in Hys. subst. exact Hy.
  - cbn [In]. split; intros [H|H]; auto.
Qed.

Lemma WBase_prio_insert t k :
  WBase t -> (s_inbufs (strms t k) = true -> s_tree (strms t k) = true) -> WBase (prio_insert t k).
Proof.
  intros [H1 H2 H3] Hit. unfold prio_insert. destruct (s_tree (strms t k)) eqn:Htr; [constructor; assumption|].
  assert (Hin : s_inbufs (strms t k) = false) by (destruct (s_inbufs (strms t k)); [specialize (Hit eq_refl); discriminate | reflexivity]).
  constructor; cbn [strms closed cwin maxf add_id with_strm with_strms]; try assumption.
  - intros j Hj. apply In_add_id. revert Hj. cbn [strms with_strm with_strms]. unfold upd.
    destruct (Z.eqb_spec j k); [left; assumption | intro Hj; right; apply H1; exact Hj].
  - intros j. unfold upd. destruct (Z.eqb_spec j k); [subst|apply H2].
    intro Hsd. rewrite sendable_gone in Hsd by exact Hin. discriminate.
Qed.

Lemma SInv_tree t : SInv t -> forall s, s_inbufs (strms t s) = true -> s_tree (strms t s) = true.
Proof. intros HS s. apply (si_tree _ _ _ _ (HS s)). Qed.

Definition reset_pre (t : st) (s : Z) : st :=
  let t1 := close_stream (with_strm t s (set_h2open (strms t s) false)) s in
  if s_inbufs (strms t1 s) then with_strm t1 s (force_close (strms t1 s)) else t1.

Lemma SInv_reset_pre t s : SInv t -> SInv (reset_pre t s).
Proof.
  intros HI. unfold reset_pre. cbn zeta.
  intro k. pose proof (HI s) as Hs. pose proof (HI k) as Hk. unfold close_stream.
  cbn [strms with_strm with_strms]. rewrite upd_same.
  cbn [s_live set_h2open]. destruct (s_live (strms t s)); cbn [strms with_strm with_strms with_has_data];
    rewrite ?upd_same; cbn [s_inbufs set_live set_h2open]; destruct (s_inbufs (strms t s)) eqn:Hin; updc k s;
    try exact Hk; rewrite ?upd_same; rewrite ?Z.eqb_refl.
  + apply (SI_force_rst _ _ _ (set_live (strms t s) false)); [exact Hin|]. apply SI_set_live, Hs.
  + apply SI_set_live. apply SI_set_h2closed'; assumption.
  + apply (SI_force_rst _ _ _ (strms t s)); [exact Hin|]. exact Hs.
  + apply SI_set_h2closed'; assumption.
Qed.

Lemma WInv_reset_pre t s : WInv t -> WInv (reset_pre t s).
Proof.
  intros HW. unfold reset_pre. cbn zeta.
  assert (HW0 : WInv (with_strm t s (set_h2open (strms t s) false))).
  { rewrite with_strm_as_rewrite. apply WInv_rewrite; [exact HW | reflexivity | w_elig |].
    intro Hx. rewrite sendable_h2closed in Hx by reflexivity. discriminate. }
  set (t0 := with_strm t s (set_h2open (strms t s) false)) in *.
  assert (Hx0 : strms t0 s = set_h2open (strms t s) false) by (unfold t0; cbn; apply upd_same).
  clearbody t0.
  assert (HW1 : WInv (close_stream t0 s)).
  { unfold close_stream. destruct (s_live (strms t0 s)); [|exact HW0].
    apply WInv_rewrite; [exact HW0 | reflexivity | left; reflexivity |].
    intro Hx. rewrite Hx0 in Hx. rewrite sendable_h2closed in Hx by reflexivity. discriminate. }
  assert (Hx1 : s_h2open (strms (close_stream t0 s) s) = false).
  { unfold close_stream. destruct (s_live (strms t0 s)); [cbn; rewrite upd_same|]; rewrite Hx0; reflexivity. }
  set (t1 := close_stream t0 s) in *. clearbody t1.
  destruct (s_inbufs (strms t1 s)); [|exact HW1].
  rewrite with_strm_as_rewrite. apply WInv_rewrite; [exact HW1 | reflexivity | w_elig |].
  intro Hx. rewrite sendable_h2closed in Hx by exact Hx1. discriminate.
Qed.

Lemma prio_insert_tree t j k :
  (s_inbufs (strms t k) = true -> s_tree (strms t k) = true) ->
  s_inbufs (strms (prio_insert t j) k) = true -> s_tree (strms (prio_insert t j) k) = true.
Proof.
  intro H. unfold prio_insert. destruct (s_tree (strms t j)) eqn:Htr; [exact H|].
  cbn [strms add_id with_strm with_strms]. unfold upd. destruct (Z.eqb_spec k j); [intros _; reflexivity | exact H].
Qed.

Lemma WInv_client t c : SInv t -> WInv t -> WInv (client_step t c).
Proof.
  intros HS HW. pose proof (SInv_client t c HS) as HS'. revert HS'.
  unfold client_step. destruct (closed t) eqn:Hcl; [intros _; exact HW|].
  pose proof (WInv_base _ HW) as HB.
  destruct c as [s prog|s n|n|n|s|s dep|s|s|]; intro HS'; try exact HW.
  - (* COpen *)
    destruct (s_created (strms t s)) eqn:Hcr; [exact HW|].
    destruct HW as [H1 H2 H3 H4 H5].
    assert (Hnin : s_inbufs (strms t s) = false) by (destruct (si_fresh _ _ _ _ (HS s) Hcr) as (_ & _ & _ & Hx); exact Hx).
    constructor; cbn [strms has_data closed cwin task maxf add_id with_strm with_strms]; try assumption.
    + intros k Hk. apply In_add_id. revert Hk. cbn [strms with_strm with_strms]. unfold upd.
      destruct (Z.eqb_spec k s); [left; assumption | intro Hk; right; apply H1; exact Hk].
    + intros k. unfold upd. destruct (Z.eqb_spec k s); [subst|apply H2].
      intro Hx. unfold sendable in Hx; cbn in Hx; rewrite ?andb_false_r in Hx; discriminate.
    + intros Ht Hd k Hk. apply In_add_id in Hk. cbn [strms with_strm with_strms]. unfold upd.
      destruct (Z.eqb_spec k s); [subst|destruct Hk as [Hk|Hk]; [contradiction | apply H3; assumption]].
      unfold eligible. cbn [s_tree s_blocked andb].
      destruct (s_tree (strms t s)) eqn:Htr; [|reflexivity].
      pose proof (H3 Ht Hd s (H1 s Htr)) as He. unfold eligible in He. rewrite Htr in He. exact He.
  - (* CWin *)
    apply WBase_hd. apply WBase_set_and_unblock; [exact HB | reflexivity|].
    si_simpl. apply (SInv_tree _ HS).
  - (* CConnWin *)
    apply WBase_hd. apply WBase_unblock_all; [apply (wb_dom _ HB) | apply (wb_maxf _ HB)].
  - (* CInitialWindow *)
    apply WBase_hd'; [|unfold unblock_all; destruct (existsb _ _); reflexivity].
    apply WBase_unblock_all; cbn [strms ids maxf map_strms with_strms]; [|apply (wb_maxf _ HB)].
    intros k. destruct (s_h2open (strms t k)); si_simpl; apply (wb_dom _ HB).
  - (* CReset *)
    apply WBase_hd. change (WBase (unblock_or_crash (reset_pre t s) s)). apply WBase_unblock.
    + apply WInv_base, WInv_reset_pre, HW.
    + apply (SInv_tree _ (SInv_reset_pre t s HS)).
  - (* CPriority *)
    apply WBase_hd. change (WBase (prio_insert (if dep =? 0 then t else prio_insert t dep) s)).
    destruct (dep =? 0).
    + apply WBase_prio_insert; [exact HB | apply (SInv_tree _ HS)].
    + apply WBase_prio_insert; [apply WBase_prio_insert; [exact HB | apply (SInv_tree _ HS)]|].
      apply prio_insert_tree. apply (SInv_tree _ HS).
  - (* CEof *)
    destruct HW as [H1 H2 H3 H4 H5].
    constructor; cbn [strms ids has_data closed cwin task maxf with_has_data with_strms map_strms];
      try assumption; try (intros; discriminate); auto.
    + intros k. si_simpl. destruct (s_inbufs (strms t k)) eqn:Hin; si_simpl; apply H1.
    + intros k Hx. rewrite sendable_closed in Hx. discriminate.
Qed.

(* ================================================================= C04: the reader never crashes *)
Lemma reader_ok_app t s : reader_ok (app_step t s) = reader_ok t.
Proof.
  unfold app_step. destruct (s_pc (strms t s)); try reflexivity.
  - destruct (s_prog (strms t s)) as [|o rest]; [reflexivity|]. unfold do_op, close_stream.
    destruct o; repeat (match goal with |- context [if ?b then _ else _] => destruct b end); try reflexivity;
      try (destruct (sb_push _ _) as [[? ?]|]; reflexivity).
  - destruct (b_paused _); reflexivity.
  - destruct (b_is_empty _); reflexivity.
Qed.

Lemma reader_ok_send_data t s : reader_ok (send_data t s) = reader_ok t.
Proof.
  unfold send_data. destruct (s_h2open (strms t s)); cbn [negb]; [|reflexivity].
  destruct (s_inbufs (strms t s)); cbn [negb]; [|reflexivity].
  destruct (sb_pop _ _) as [data b]. destruct data; destruct (sb_complete b); reflexivity.
Qed.

Lemma unblock_or_crash_ok t s :
  (s_inbufs (strms t s) = true -> s_tree (strms t s) = true) -> reader_ok (unblock_or_crash t s) = reader_ok t.
Proof.
  intro H. unfold unblock_or_crash. destruct (s_inbufs (strms t s)); [|reflexivity]. rewrite (H eq_refl). reflexivity.
Qed.

Lemma unblock_all_ok t :
  (forall s, s_inbufs (strms t s) = true -> s_tree (strms t s) = true) -> reader_ok (unblock_all t) = reader_ok t.
Proof.
  intro H. unfold unblock_all.
  destruct (existsb (fun s => s_inbufs (strms t s) && negb (s_tree (strms t s))) (ids t)) eqn:He; [|reflexivity].
  apply existsb_exists in He as (s & _ & Hs). apply andb_true_iff in Hs as [Hi Ht]. rewrite (H s Hi) in Ht. discriminate.
Qed.

Lemma reader_ok_step t l : SInv t -> reader_ok (step t l) = reader_ok t.
Proof.
  intro HS. destruct l as [s| |p|c]; cbn [step].
  - apply reader_ok_app.
  - unfold send_wake. destruct (task t); try reflexivity. destruct (has_data t); reflexivity.
  - unfold send_iter. destruct (task t); try reflexivity. destruct (closed t); [reflexivity|].
    destruct p as [s|]; [|destruct (existsb _ _); reflexivity].
    destruct (eligible (strms t s)); [apply reader_ok_send_data | reflexivity].
  - unfold client_step. destruct (closed t) eqn:Hcl; [reflexivity|].
    destruct c as [s prog|s n|n|n|s|s dep|s|s|]; try reflexivity.
    + destruct (s_created (strms t s)); reflexivity.
    + cbn [reader_ok with_has_data]. rewrite unblock_or_crash_ok; [reflexivity|].
      cbn [strms with_strm with_strms]. rewrite upd_same. si_simpl. apply (SInv_tree _ HS).
    + cbn [reader_ok with_has_data]. rewrite unblock_all_ok; [reflexivity|]. apply (SInv_tree _ HS).
    + rewrite unblock_all_ok; [reflexivity|]. cbn [strms map_strms with_strms].
      intro k. destruct (s_h2open (strms t k)); si_simpl; apply (SInv_tree _ HS).
    + change (reader_ok (with_has_data (unblock_or_crash (reset_pre t s) s) true) = reader_ok t).
      cbn [reader_ok with_has_data]. rewrite unblock_or_crash_ok by (apply (SInv_tree _ (SInv_reset_pre t s HS))).
      unfold reset_pre, close_stream. cbn [strms with_strm with_strms]. rewrite upd_same. cbn [s_live set_h2open].
      destruct (s_live (strms t s)); cbn [strms with_strm with_strms with_has_data]; rewrite ?upd_same;
        cbn [s_inbufs set_live set_h2open]; destruct (s_inbufs (strms t s)); reflexivity.
    + change (reader_ok (with_has_data (prio_insert (if dep =? 0 then t else prio_insert t dep) s) true) = reader_ok t).
      cbn [reader_ok with_has_data]. unfold prio_insert.
      destruct (dep =? 0); repeat (match goal with |- context [if ?b then _ else _] => destruct b end); reflexivity.
Qed.

Theorem reader_never_crashes cw mf iw0 ls : reader_ok (run (init cw mf iw0) ls) = true.
Proof.
  assert (H : forall ls t, SInv t -> reader_ok (run t ls) = reader_ok t).
  { clear. induction ls as [|l r IH]; intros t HS; [reflexivity|].
    cbn [run fold_left]. fold (run (step t l) r). rewrite IH by (apply SInv_step, HS). apply reader_ok_step, HS. }
  rewrite H by apply SInv_init. reflexivity.
Qed.

Lemma WInv_step t l : SInv t -> WInv t -> WInv (step t l).
Proof.
  intros HS HW. destruct l; cbn [step].
  - apply WInv_app; assumption.
  - apply WInv_send_wake; assumption.
  - apply WInv_send_iter; assumption.
  - apply WInv_client; assumption.
Qed.

Lemma WInv_run ls : forall t, SInv t -> WInv t -> WInv (run t ls).
Proof.
  induction ls as [|l ls IH]; intros t HS HW; [exact HW|].
  cbn [run fold_left]. apply IH; [apply SInv_step, HS | apply WInv_step; assumption].
Qed.

(* ================================================================= theorems about every run *)
Section Runs.
Variables cw mf iw0 : Z.
Hypothesis mf_pos : 0 < mf.
Variable ls : list label.
Let t := run (init cw mf iw0) ls.

Lemma reach_S : SInv t. Proof. apply SInv_reach. Qed.
Lemma reach_W : WInv t. Proof. apply WInv_run; [apply SInv_init | apply WInv_init, mf_pos]. Qed.

(* C09: what has been written for a stream is, in order, a prefix of what its application pushed;
   the rest is still in the buffer (unless the buffer was force-closed: reset / connection lost) *)
Theorem delivered_in_order s :
  s_forced (strms t s) = false ->
  s_pushed (strms t s) = (sent_on s (out t) ++ b_data (s_buf (strms t s)))%list.
Proof. apply (si_order _ _ _ _ (reach_S s)). Qed.

Theorem end_stream_at_most_once s : (ends_on s (out t) <= 1)%nat.
Proof. apply (si_ends _ _ _ _ (reach_S s)). Qed.

(* END_STREAM is written only after everything the application pushed has been written *)
Theorem end_stream_means_complete s :
  (1 <= ends_on s (out t))%nat -> s_forced (strms t s) = false /\ s_pushed (strms t s) = sent_on s (out t).
Proof. intro H. destruct (si_ended _ _ _ _ (reach_S s) H) as (_ & H1 & H2). auto. Qed.

(* C08: a sender is never left waiting on a stream that can no longer send, nor once the
   connection is closed *)
Theorem released_when_stream_closed s : s_h2open (strms t s) = false -> not_stuck (strms t s).
Proof.
  intro Hc. pose proof (reach_S s) as H. destruct (s_inbufs (strms t s)) eqn:Hin.
  - pose proof (si_h2closed _ _ _ _ H Hc Hin) as Hf. destruct (si_forced_buf _ _ _ _ H Hf) as (He & Hcm & _).
    unfold not_stuck. destruct (s_pc (strms t s)) eqn:Hpc; auto. apply (si_compl_paused _ _ _ _ H Hcm Hpc).
  - apply (si_gone _ _ _ _ H Hin).
Qed.

Theorem released_when_connection_closed s : closed t = true -> not_stuck (strms t s).
Proof.
  intro Hc. pose proof (reach_S s) as H. destruct (s_inbufs (strms t s)) eqn:Hin.
  - pose proof (si_closed _ _ _ _ H Hc Hin) as Hf. destruct (si_forced_buf _ _ _ _ H Hf) as (He & Hcm & _).
    unfold not_stuck. destruct (s_pc (strms t s)) eqn:Hpc; auto. apply (si_compl_paused _ _ _ _ H Hcm Hpc).
  - apply (si_gone _ _ _ _ H Hin).
Qed.

(* C09: the send task sleeps only when nothing can be written: no stream has data and window, or a
   pending END_STREAM *)
Theorem asleep_only_when_nothing_to_send s :
  task t = TWaiting -> has_data t = false -> sendable (closed t) (cwin t) (strms t s) = false.
Proof.
  intros Ht Hd. destruct (sendable (closed t) (cwin t) (strms t s)) eqn:Hs; [|reflexivity].
  pose proof reach_W as HW. pose proof (w_unblocked _ HW s Hs) as Hb.
  assert (Hin : s_inbufs (strms t s) = true).
  { unfold sendable in Hs. destruct (s_inbufs (strms t s)); [reflexivity | discriminate]. }
  pose proof (w_wake _ HW Ht Hd s (w_dom _ HW s (si_tree _ _ _ _ (reach_S s) Hin))) as He.
  unfold eligible in He. rewrite (si_tree _ _ _ _ (reach_S s) Hin), Hb in He. discriminate.
Qed.

(* once the connection is closed the send task is not left asleep *)
Theorem send_task_woken_on_close : closed t = true -> task t = TWaiting -> has_data t = true.
Proof. apply (w_closed _ reach_W). Qed.
End Runs.

(* ---- after END_STREAM nothing more is written for the stream *)
Lemma no_frames_when_gone t s fs :
  s_inbufs (strms t s) = false -> Forall (frame_ok t) fs -> sent_on s fs = [] /\ ends_on s fs = O.
Proof.
  intros Hin Hok. induction Hok as [|f fs Hf _ IH]; [split; reflexivity|].
  destruct IH as [IH1 IH2]. destruct f as [k|k d|k|k]; cbn [sent_on ends_on]; try (split; assumption).
  - destruct (Z.eqb_spec k s); [subst|split; assumption].
    cbn in Hf. destruct Hf as (_ & Hi & _). congruence.
  - destruct (Z.eqb_spec k s); [subst|split; assumption].
    cbn in Hf. destruct Hf as (_ & Hi & _). congruence.
Qed.

Lemma ended_step t s l :
  SInv t -> (1 <= ends_on s (out t))%nat ->
  sent_on s (out (step t l)) = sent_on s (out t) /\ ends_on s (out (step t l)) = ends_on s (out t).
Proof.
  intros HS He. destruct (si_ended _ _ _ _ (HS s) He) as (Hin & _).
  destruct (step_frames t l) as (fs & Hw & Hok). unfold writes in Hw. rewrite Hw, sent_on_app, ends_on_app.
  destruct (no_frames_when_gone t s fs Hin Hok) as [-> ->]. rewrite app_nil_r, Nat.add_0_r. split; reflexivity.
Qed.

Theorem ended_is_final ls' : forall t s,
  SInv t -> (1 <= ends_on s (out t))%nat ->
  sent_on s (out (run t ls')) = sent_on s (out t) /\ ends_on s (out (run t ls')) = ends_on s (out t).
Proof.
  induction ls' as [|l ls' IH]; intros t s HS He; [split; reflexivity|].
  cbn [run fold_left]. destruct (ended_step t s l HS He) as [H1 H2].
  destruct (IH (step t l) s (SInv_step _ _ HS)) as [H3 H4]; [rewrite H2; exact He|].
  fold (run (step t l) ls') in *. rewrite H3, H4, H1, H2. split; reflexivity.
Qed.

(* ---- C09: flow control.  Every DATA frame fits the stream window, the connection window and
   the maximum frame size as they were when it was written, along every run *)
Fixpoint frames_ok_along (t : st) (ls : list label) : Prop :=
  match ls with
  | [] => True
  | l :: r => (exists fs, writes t (step t l) fs /\ Forall (frame_ok t) fs) /\ frames_ok_along (step t l) r
  end.
Theorem flow_control_respected ls : forall t, frames_ok_along t ls.
Proof. induction ls as [|l r IH]; intro t; cbn; [exact I | split; [apply step_frames | apply IH]]. Qed.

(* the connection window is never overdrawn *)
Definition credit_ok (l : label) : Prop := match l with LClient (CConnWin n) => 0 <= n | _ => True end.

Lemma unblock_or_crash_cwin t s : cwin (unblock_or_crash t s) = cwin t.
Proof. unfold unblock_or_crash. destruct (s_inbufs _); [|reflexivity]. destruct (s_tree _); reflexivity. Qed.
Lemma unblock_all_cwin t : cwin (unblock_all t) = cwin t.
Proof. unfold unblock_all. destruct (existsb _ _); reflexivity. Qed.
Lemma close_stream_cwin t s : cwin (close_stream t s) = cwin t.
Proof. unfold close_stream. destruct (s_live _); reflexivity. Qed.
Lemma prio_insert_cwin t k : cwin (prio_insert t k) = cwin t.
Proof. unfold prio_insert. destruct (s_tree _); reflexivity. Qed.

Lemma client_cwin t c :
  cwin (client_step t c) = if closed t then cwin t else match c with CConnWin n => cwin t + n | _ => cwin t end.
Proof.
  unfold client_step. destruct (closed t); [reflexivity|].
  destruct c as [s prog|s n|n|n|s|s dep|s|s|]; try reflexivity.
  - destruct (s_created (strms t s)); reflexivity.
  - cbn [cwin with_has_data]. rewrite unblock_or_crash_cwin. reflexivity.
  - cbn [cwin with_has_data]. rewrite unblock_all_cwin. reflexivity.
  - rewrite unblock_all_cwin. reflexivity.
  - change (cwin (with_has_data (unblock_or_crash (reset_pre t s) s) true) = cwin t).
    cbn [cwin with_has_data]. rewrite unblock_or_crash_cwin. unfold reset_pre. cbn zeta.
    destruct (s_inbufs _); cbn [cwin with_strm with_strms]; rewrite close_stream_cwin; reflexivity.
  - change (cwin (with_has_data (prio_insert (if dep =? 0 then t else prio_insert t dep) s) true) = cwin t).
    cbn [cwin with_has_data]. rewrite prio_insert_cwin. destruct (dep =? 0); [reflexivity | apply prio_insert_cwin].
Qed.

Lemma cwin_step t l : credit_ok l -> 0 <= cwin t -> 0 <= cwin (step t l).
Proof.
  intros Hl H0. destruct (step_frames t l) as (fs & Hw & Hok).
  destruct l as [s| |p|c]; cbn [step].
  - unfold app_step. destruct (s_pc (strms t s)); try exact H0.
    + destruct (s_prog (strms t s)) as [|o rest]; [exact H0|]. unfold do_op, close_stream.
      destruct o; repeat (match goal with |- context [if ?b then _ else _] => destruct b end); try exact H0;
        try (destruct (sb_push _ _) as [[? ?]|]; exact H0).
    + destruct (b_paused _); exact H0.
    + destruct (b_is_empty _); exact H0.
  - unfold send_wake. destruct (task t); try exact H0. destruct (has_data t); exact H0.
  - unfold send_iter. destruct (task t); try exact H0. destruct (closed t); [exact H0|].
    destruct p as [s|]; [|destruct (existsb _ _); exact H0].
    destruct (eligible (strms t s)); [|exact H0].
    unfold send_data. destruct (s_h2open (strms t s)); cbn [negb]; [|destruct (s_inbufs _); exact H0].
    destruct (s_inbufs (strms t s)); cbn [negb]; [|exact H0].
    destruct (sb_pop _ _) as [data b] eqn:Hpop. pop_facts. unfold chunk_size in Hlen.
    destruct data as [|d0 data]; destruct (sb_complete b); cbn [cwin emit with_strm with_strms with_cwin]; try exact H0;
      (assert (0 < zlen (d0 :: data)) by (clear; unfold zlen; cbn [length]; lia); clear - Hlen H H0; lia).
  - rewrite client_cwin. destruct (closed t); [exact H0|]. destruct c; cbn [credit_ok] in Hl; try exact H0. lia.
Qed.

Theorem connection_window_never_overdrawn ls : forall t,
  Forall credit_ok ls -> 0 <= cwin t -> 0 <= cwin (run t ls).
Proof.
  induction ls as [|l r IH]; intros t Hok H0; [exact H0|]. inversion Hok; subst.
  cbn [run fold_left]. apply IH; [assumption | apply cwin_step; assumption].
Qed.

(* ---- C09: the send task cannot spin.  Each iteration that finds a stream strictly decreases
   the measure "bytes buffered + number of eligible streams" *)
Definition weight (x : strm) : Z := zlen (b_data (s_buf x)) + (if eligible x then 1 else 0).
Fixpoint measure (f : Z -> strm) (l : list Z) : Z :=
  match l with [] => 0 | s :: r => weight (f s) + measure f r end.

Lemma weight_nonneg x : 0 <= weight x.
Proof. unfold weight. pose proof (zlen_nonneg (b_data (s_buf x))). destruct (eligible x); lia. Qed.
Lemma measure_nonneg f l : 0 <= measure f l.
Proof. induction l as [|s r IH]; cbn; [lia|]. pose proof (weight_nonneg (f s)). lia. Qed.

Lemma measure_le f g l : (forall k, weight (f k) <= weight (g k)) -> measure f l <= measure g l.
Proof. intro H. induction l as [|s r IH]; cbn; [lia|]. specialize (H s). lia. Qed.
Lemma measure_lt f g l s :
  (forall k, weight (f k) <= weight (g k)) -> weight (f s) < weight (g s) -> In s l -> measure f l < measure g l.
Proof.
  intros H Hs. induction l as [|a r IH]; cbn; [contradiction|]. intros [->|Hin].
  - pose proof (measure_le f g r H). lia.
  - specialize (IH Hin). specialize (H a). lia.
Qed.

Lemma measure_upd f s x l : weight x < weight (f s) -> In s l -> measure (upd f s x) l < measure f l.
Proof.
  intros Hw Hin. apply measure_lt with (s := s); [| rewrite upd_same; exact Hw | exact Hin].
  intro k. unfold upd. destruct (Z.eqb_spec k s); [subst; lia | lia].
Qed.

Theorem send_iteration_decreases t s :
  SInv t -> WInv t -> task t = TTop -> closed t = false -> eligible (strms t s) = true ->
  measure (strms (send_iter t (Some s))) (ids (send_iter t (Some s))) < measure (strms t) (ids t).
Proof.
  intros HS HW Ht Hcl Hel. unfold send_iter. rewrite Ht, Hcl, Hel.
  assert (Htree : s_tree (strms t s) = true) by (unfold eligible in Hel; destruct (s_tree (strms t s)); [reflexivity | discriminate]).
  pose proof (w_dom _ HW s Htree) as Hid.
  assert (Hw1 : weight (strms t s) = zlen (b_data (s_buf (strms t s))) + 1) by (unfold weight; rewrite Hel; reflexivity).
  assert (Hforget : forall y, zlen (b_data (s_buf y)) <= zlen (b_data (s_buf (strms t s))) ->
                    measure (strms (with_strm t s (forget y))) (ids (with_strm t s (forget y))) < measure (strms t) (ids t)).
  { intros y Hy. cbn [strms ids with_strm with_strms]. apply measure_upd; [|exact Hid].
    rewrite Hw1. unfold weight, eligible. si_simpl. cbn [andb]. clear - Hy. lia. }
  unfold send_data.
  destruct (s_h2open (strms t s)) eqn:Hopen; cbn [negb].
  2:{ apply Hforget. destruct (s_inbufs (strms t s)); si_simpl; [|lia].
      change (zlen (@nil N)) with 0. apply zlen_nonneg. }
  destruct (s_inbufs (strms t s)) eqn:Hin; cbn [negb]; [|apply Hforget; lia].
  destruct (sb_pop _ _) as [data b] eqn:Hpop. pop_facts.
  assert (Hrest : zlen (b_data (s_buf (strms t s))) = zlen data + zlen (b_data b)) by (rewrite Hsplit, zlen_app; reflexivity).
  clear Hsplit Hlen Hle Hpaused Hcompl Hempty.
  destruct data as [|d0 data].
  - rewrite zlen_nil in Hrest.
    destruct (sb_complete b); cbn [strms ids emit with_strm with_strms with_cwin];
      (apply measure_upd; [|exact Hid]); rewrite Hw1; unfold weight, eligible; si_simpl; rewrite ?Htree; cbn [andb negb];
      clear - Hrest; lia.
  - assert (Hpos : 0 < zlen (d0 :: data)) by (clear; unfold zlen; cbn [length]; lia).
    destruct (sb_complete b); cbn [strms ids emit with_strm with_strms with_cwin];
      (apply measure_upd; [|exact Hid]); rewrite Hw1; unfold weight, eligible; si_simpl; rewrite ?Htree; cbn [andb negb].
    + clear - Hrest Hpos; lia.
    + unfold eligible in Hel. rewrite Htree in Hel. cbn [andb] in Hel. rewrite Hel. clear - Hrest Hpos; lia.
Qed.

(* ---- isolation: what happens on stream s leaves every other stream's state alone *)
Definition touches (l : label) (s : Z) : Prop :=
  match l with
  | LApp k | LSendIter (Some k) | LClient (COpen k _) | LClient (CWin k _) | LClient (CReset k) => k = s
  | LClient (CPriority k dep) => k = s \/ dep = s
  | LSendWake | LSendIter None | LClient (CData _) | LClient (CEnded _) => False
  | LClient (CConnWin _) | LClient (CInitialWindow _) | LClient CEof => True
  end.

Lemma upd_neq f s x k : k <> s -> upd f s x k = f k.
Proof. apply upd_other. Qed.

Lemma unblock_or_crash_other t s k : k <> s -> strms (unblock_or_crash t s) k = strms t k.
Proof.
  intro Hk. unfold unblock_or_crash. destruct (s_inbufs _); [|reflexivity]. destruct (s_tree _); [|reflexivity].
  cbn. apply upd_neq, Hk.
Qed.
Lemma close_stream_other t s k : k <> s -> strms (close_stream t s) k = strms t k.
Proof. intro Hk. unfold close_stream. destruct (s_live _); [cbn; apply upd_neq, Hk | reflexivity]. Qed.
Lemma reset_pre_other t s k : k <> s -> strms (reset_pre t s) k = strms t k.
Proof.
  intro Hk. unfold reset_pre. cbn zeta. destruct (s_inbufs _); cbn [strms with_strm with_strms];
    rewrite ?upd_neq by exact Hk; rewrite close_stream_other by exact Hk; cbn; apply upd_neq, Hk.
Qed.
Lemma prio_insert_other t j k : k <> j -> strms (prio_insert t j) k = strms t k.
Proof. intro Hk. unfold prio_insert. destruct (s_tree _); [reflexivity|]. cbn. apply upd_neq, Hk. Qed.

Theorem other_streams_untouched t l k : ~ touches l k -> strms (step t l) k = strms t k.
Proof.
  intro Hn. destruct l as [s| |[s|]|c]; cbn [step touches] in *.
  - assert (Hk : k <> s) by congruence. unfold app_step.
    destruct (s_pc (strms t s)); try reflexivity.
    + destruct (s_prog (strms t s)) as [|o rest]; [cbn; apply upd_neq, Hk|].
      unfold do_op, close_stream.
      destruct o; repeat (match goal with |- context [if ?b then _ else _] => destruct b end);
        try (destruct (sb_push _ _) as [[? ?]|]); cbn [strms with_strm with_strms with_has_data emit];
        rewrite ?upd_neq by exact Hk; reflexivity.
    + destruct (b_paused _); [cbn; apply upd_neq, Hk | reflexivity].
    + destruct (b_is_empty _); [cbn; apply upd_neq, Hk | reflexivity].
  - unfold send_wake. destruct (task t); try reflexivity. destruct (has_data t); reflexivity.
  - assert (Hk : k <> s) by congruence. unfold send_iter.
    destruct (task t); try reflexivity. destruct (closed t); [reflexivity|].
    destruct (eligible (strms t s)); [|reflexivity].
    unfold send_data. destruct (s_h2open (strms t s)); cbn [negb]; [|cbn; apply upd_neq, Hk].
    destruct (s_inbufs (strms t s)); cbn [negb]; [|cbn; apply upd_neq, Hk].
    destruct (sb_pop _ _) as [data b]. destruct data; destruct (sb_complete b);
      cbn [strms with_strm with_strms emit with_cwin]; apply upd_neq, Hk.
  - unfold send_iter. destruct (task t); try reflexivity. destruct (closed t); [reflexivity|].
    destruct (existsb _ _); reflexivity.
  - unfold client_step. destruct (closed t); [reflexivity|].
    destruct c as [s prog|s n|n|n|s|s dep|s|s|]; try (exfalso; apply Hn; exact I); try reflexivity.
    + assert (Hk : k <> s) by congruence. destruct (s_created _); [reflexivity|]. cbn. apply upd_neq, Hk.
    + assert (Hk : k <> s) by congruence. cbn [strms with_has_data]. rewrite unblock_or_crash_other by exact Hk.
      cbn. apply upd_neq, Hk.
    + assert (Hk : k <> s) by congruence.
      change (strms (with_has_data (unblock_or_crash (reset_pre t s) s) true) k = strms t k).
      cbn [strms with_has_data]. rewrite unblock_or_crash_other by exact Hk. apply reset_pre_other, Hk.
    + assert (Hk : k <> s) by (intro; apply Hn; left; congruence).
      assert (Hd : k <> dep) by (intro; apply Hn; right; congruence).
      change (strms (with_has_data (prio_insert (if dep =? 0 then t else prio_insert t dep) s) true) k = strms t k).
      cbn [strms with_has_data]. rewrite prio_insert_other by exact Hk.
      destruct (dep =? 0); [reflexivity | apply prio_insert_other, Hd].
Qed.

(* ---- a stream with data and window is served whatever the state of the others: the iteration
   that picks it writes a non-empty DATA frame for it *)
Theorem eligible_stream_is_served t k :
  task t = TTop -> closed t = false -> eligible (strms t k) = true ->
  s_inbufs (strms t k) = true -> s_h2open (strms t k) = true ->
  b_data (s_buf (strms t k)) <> [] -> 0 < s_win (strms t k) -> 0 < cwin t -> 0 < maxf t ->
  exists d rest, d <> [] /\ out (send_iter t (Some k)) = (out t ++ FData k d :: rest)%list.
Proof.
  intros Ht Hcl Hel Hin Hopen Hdata Hw Hcw Hmf.
  unfold send_iter. rewrite Ht, Hcl, Hel. unfold send_data. rewrite Hopen, Hin. cbn [negb].
  destruct (sb_pop _ _) as [data b] eqn:Hpop. pop_facts. unfold chunk_size in Hlen.
  destruct data as [|d0 data].
  - exfalso. rewrite zlen_nil in Hlen.
    assert (0 < zlen (b_data (s_buf (strms t k)))).
    { destruct (b_data (s_buf (strms t k))); [congruence|]. clear. unfold zlen. cbn [length]. lia. }
    clear - Hlen H Hw Hcw Hmf. lia.
  - destruct (sb_complete b); cbn [out emit with_strm with_strms with_cwin].
    + eexists (d0 :: data), [_]. split; [discriminate|]. rewrite <- app_assoc. reflexivity.
    + exists (d0 :: data), []. split; [discriminate | reflexivity].
Qed.

(* ================================================================= the premises are satisfiable *)
(* a sender parked at the high-water mark with more than HIGH bytes buffered at a 10-byte window,
   a second stream being served meanwhile, then the reset that releases the first *)
Definition demo_labels : list label :=
  [ LSendIter None; LSendWake;
    LClient (COpen 1 [OStart; OBody (List.repeat 7%N 10); OBody (List.repeat 8%N 40000); OBody (List.repeat 9%N 40000); OEnd; OClose; OExit]);
    LApp 1; LApp 1; LSendWake; LSendIter (Some 1); LSendIter (Some 1); LSendIter None;
    LApp 1; LApp 1; LApp 1 ].
Definition demo : st := run (init 65535 16384 10) demo_labels.

Example demo_parked :
  s_pc (strms demo 1) = PWaitPaused /\ zlen (b_data (s_buf (strms demo 1))) = 80000 /\
  b_paused (s_buf (strms demo 1)) = false /\ sent_on 1 (out demo) = List.repeat 7%N 10.
Proof. vm_compute. repeat split. Qed.

Example demo_reset_releases :
  let t := run demo [LClient (CReset 1); LApp 1] in
  s_pc (strms t 1) = PReady /\ b_data (s_buf (strms t 1)) = [] /\ s_forced (strms t 1) = true.
Proof. vm_compute. repeat split. Qed.

Example demo_credit_resumes :
  let t := run demo [LClient (CWin 1 100000); LSendWake; LSendIter (Some 1); LSendIter (Some 1); LSendIter (Some 1);
                     LSendIter (Some 1); LSendIter (Some 1); LApp 1] in
  s_pc (strms t 1) = PReady /\ zlen (sent_on 1 (out t)) = 65535 /\ zlen (b_data (s_buf (strms t 1))) = 14475.
Proof. vm_compute. repeat split. Qed.

(* ================================================================= C05 on HTTP/2: an aborted stream is reset, never ended *)
Lemma closing_marks_abort t s rest :
  s_inbufs (strms t s) = true -> s_tree (strms t s) = true -> b_complete (s_buf (strms t s)) = false ->
  let x := strms (closing_state t s rest) s in
  s_abort x = true /\ b_complete (s_buf x) = true /\ s_blocked x = false /\ b_data (s_buf x) = b_data (s_buf (strms t s))
  /\ has_data (closing_state t s rest) = true.
Proof.
  intros Hin Htr Hc. destruct (close_stream_strm t s) as (Hx & _).
  unfold closing_state. cbv zeta. rewrite Hx.
  destruct (s_live (strms t s)); si_simpl; rewrite Hin, Hc, Htr; cbn [andb negb];
    cbn [strms has_data with_has_data with_strm with_strms]; rewrite upd_same; si_simpl; repeat split; reflexivity.
Qed.

Lemma app_self_nil {A} (l fs : list A) : l = (l ++ fs)%list -> fs = [].
Proof. intro H. rewrite <- (app_nil_r l) in H at 1. apply app_inv_head in H. symmetry. exact H. Qed.

Lemma aborted_is_never_ended t s fs :
  s_abort (strms t s) = true -> writes t (send_data t s) fs -> ~ In (FEnd s) fs.
Proof.
  intros Hab Hw Hin. unfold writes, send_data in Hw.
  destruct (s_h2open (strms t s)); cbn [negb] in Hw.
  2:{ cbn [out with_strm with_strms] in Hw. apply app_self_nil in Hw. subst. contradiction. }
  destruct (s_inbufs (strms t s)); cbn [negb] in Hw.
  2:{ cbn [out with_strm with_strms] in Hw. apply app_self_nil in Hw. subst. contradiction. }
  destruct (sb_pop _ _) as [data b]. destruct data as [|d0 data]; destruct (sb_complete b); si_simpl; rewrite ?Hab in Hw;
    cbn [out emit with_strm with_strms with_cwin] in Hw; rewrite <- ?app_assoc in Hw.
  - apply app_inv_head in Hw. subst. cbn in Hin. destruct Hin as [Hin|[]]. discriminate.
  - apply app_self_nil in Hw. subst. contradiction.
  - apply app_inv_head in Hw. subst. cbn in Hin. destruct Hin as [Hin|[Hin|[]]]; discriminate.
  - apply app_inv_head in Hw. subst. cbn in Hin. destruct Hin as [Hin|[]]. discriminate.
Qed.
