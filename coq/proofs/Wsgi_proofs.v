From Coq Require Import String Ascii ZArith NArith List Bool Lia.
From HV Require Import lib.Bytes lib.Obs model.Wsgi.
Import ListNotations.
Open Scope N_scope.

(* ---------------------------------------------------------------- body limit *)
Fixpoint body_upto (msgs : list (option rmsg)) : bytes :=
  match msgs with
  | [] => []
  | None :: _ => []
  | Some (b, more) :: r => if more then b ++ body_upto r else b
  end.
(* the final body message arrives, and no disconnect before it *)
Fixpoint ends (msgs : list (option rmsg)) : bool :=
  match msgs with [] => false | None :: _ => false | Some (_, more) :: r => negb more || ends r end.
(* the client leaves before the body is complete *)
Fixpoint leaves (msgs : list (option rmsg)) : bool :=
  match msgs with [] => false | None :: _ => true | Some (_, more) :: r => more && leaves r end.


Lemma accumulate_spec max : forall msgs acc, ends msgs = true ->
  accumulate max acc msgs =
  if (Zlen (acc ++ body_upto msgs) >? max)%Z then TooLarge else Complete (acc ++ body_upto msgs).
Proof.
  induction msgs as [|[[b more]|] r IH]; intros acc E; simpl in *; [discriminate| |discriminate].
  destruct more; simpl in E.
  - rewrite app_assoc.
    destruct (Zlen (acc ++ b) >? max)%Z eqn:G.
    + assert (Zlen ((acc ++ b) ++ body_upto r) >? max = true)%Z as ->; [|reflexivity].
      rewrite Zlen_app. pose proof (Zlen_nonneg (body_upto r)). lia.
    + apply IH. exact E.
  - destruct (Zlen (acc ++ b) >? max)%Z; reflexivity.
Qed.

(* a client that leaves mid-body: the application is not called (finding F59), whatever had arrived; the only thing
   that can still be said is the 400 for a body already over the limit *)
Lemma disconnect_never_calls max : forall msgs acc, leaves msgs = true ->
  accumulate max acc msgs = Gone \/ accumulate max acc msgs = TooLarge.
Proof.
  induction msgs as [|[[b more]|] r IH]; intros acc E; simpl in *; [discriminate| |left; reflexivity].
  destruct more; simpl in E; [|discriminate].
  destruct (Zlen (acc ++ b) >? max)%Z; [right; reflexivity|apply IH; exact E].
Qed.
Lemma disconnect_not_served max msgs sc a : leaves msgs = true -> rr_called (handle_http max msgs sc a) = 0%nat.
Proof.
  intro E. unfold handle_http. destruct (disconnect_never_calls max msgs [] E) as [-> | ->]; reflexivity.
Qed.

(* the application is called exactly once iff the complete body fits, never for a larger one *)
Lemma limit_exact max msgs sc a : ends msgs = true ->
  let r := handle_http max msgs sc a in
  ((Zlen (body_upto msgs) > max)%Z -> rr_called r = 0%nat /\ rr_sends r = [SStart 400 []; SBody [] false]) /\
  ((Zlen (body_upto msgs) <= max)%Z -> build_environ sc <> None -> rr_called r = 1%nat).
Proof.
  intros E r. unfold r, handle_http. rewrite accumulate_spec by exact E. simpl.
  split; intro H.
  - assert (Zlen (body_upto msgs) >? max = true)%Z as -> by lia. split; reflexivity.
  - intro NE. assert (Zlen (body_upto msgs) >? max = false)%Z as -> by lia.
    destruct (build_environ sc); [|congruence].
    unfold run_app. destruct (run_call (wa_call a) None); simpl; [|reflexivity].
    destruct (run_iter _ _ _ _) as [s raised]. destruct raised; reflexivity.
Qed.

(* ---------------------------------------------------------------- environ *)
Lemma env_get_set_same k v e : env_get k (env_set k v e) = Some v.
Proof.
  induction e as [|[k' v'] r IH]; simpl.
  - rewrite beqb_refl. reflexivity.
  - destruct (beqb k k') eqn:E; simpl; [rewrite beqb_refl; reflexivity|]. rewrite E. exact IH.
Qed.

Lemma env_get_set_other k k2 v e : k <> k2 -> env_get k (env_set k2 v e) = env_get k e.
Proof.
  intro N. induction e as [|[k' v'] r IH]; simpl.
  - apply beqb_neq in N. rewrite N. reflexivity.
  - destruct (beqb k2 k') eqn:E; simpl.
    + apply beqb_eq in E. subst k'. apply beqb_neq in N. rewrite N. reflexivity.
    + destruct (beqb k k'); [reflexivity|exact IH].
Qed.

Definition matching (K : bytes) (hs : list header) : list bytes :=
  map snd (filter (fun h => beqb (corrected_name (fst h)) K) hs).

Lemma join1_cons sep x l : l <> [] -> join1 sep (x :: l) = x ++ sep :: join1 sep l.
Proof. destruct l; [contradiction|reflexivity]. Qed.

Lemma environ_join K : forall hs e,
  env_get K (fold_left add_header hs e) =
  match env_get K e, matching K hs with
  | o, [] => o
  | None, l => Some (join1 44 l)
  | Some v, l => Some (v ++ 44 :: join1 44 l)
  end.
Proof.
  induction hs as [|h r IH]; intro e; simpl.
  - destruct (env_get K e); reflexivity.
  - rewrite IH. unfold matching. simpl. unfold add_header at 1.
    destruct (beqb (corrected_name (fst h)) K) eqn:E.
    + apply beqb_eq in E. rewrite E. simpl.
      destruct (env_get K e) as [old|] eqn:G; rewrite env_get_set_same;
        fold (matching K r); destruct (matching K r) as [|x l] eqn:M; try reflexivity.
      simpl. rewrite <- app_assoc. reflexivity.
    + apply beqb_neq in E.
      assert (G : env_get K (match env_get (corrected_name (fst h)) e with
                             | Some old => env_set (corrected_name (fst h)) (old ++ 44 :: snd h) e
                             | None => env_set (corrected_name (fst h)) (snd h) e end) = env_get K e).
      { destruct (env_get (corrected_name (fst h)) e); apply env_get_set_other; congruence. }
      rewrite G. reflexivity.
Qed.

Definition base_keys : list bytes :=
  [B "REQUEST_METHOD"; B "SCRIPT_NAME"; B "PATH_INFO"; B "QUERY_STRING"; B "SERVER_NAME"; B "SERVER_PROTOCOL";
   B "wsgi.url_scheme"; B "REMOTE_ADDR"].

(* HTTP_* / CONTENT_* variables: every header, repeated ones comma-joined in arrival order *)
Lemma environ_headers sc e port K :
  build_environ sc = Some (e, port) -> ~ In K base_keys ->
  env_get K e = match matching K (ws_headers sc) with [] => None | l => Some (join1 44 l) end.
Proof.
  unfold build_environ. destruct (starts_with (ws_root sc) (ws_path sc)); [|discriminate].
  intros H NI. injection H as <- _. rewrite environ_join.
  assert (G : forall base, (forall k v, In (k, v) base -> In k base_keys) -> env_get K base = None).
  { induction base as [|[k v] r IHb]; intro Hb; simpl; [reflexivity|].
    destruct (beqb K k) eqn:E.
    - apply beqb_eq in E. subst. exfalso. apply NI. eapply Hb. left. reflexivity.
    - apply IHb. intros k' v' Hin. eapply Hb. right. exact Hin. }
  rewrite G; [destruct (matching K (ws_headers sc)); reflexivity|].
  intros k v Hin. unfold base_keys. simpl in Hin.
  repeat (destruct Hin as [Hin|Hin]; [injection Hin as <- _; simpl; tauto|]).
  destruct (ws_client sc); simpl in Hin; [destruct Hin as [Hin|[]]; injection Hin as <- _; simpl; tauto|destruct Hin].
Qed.

Lemma starts_with_split p s : starts_with p s = true -> s = p ++ skipn (length p) s.
Proof.
  revert s. induction p as [|x p IH]; intros s H; simpl in *; [reflexivity|].
  destruct s as [|y s]; [discriminate|]. apply andb_true_iff in H as [H1 H2].
  apply N.eqb_eq in H1. subst. f_equal. apply IH. exact H2.
Qed.

(* SCRIPT_NAME / PATH_INFO split the path at root_path; PATH_INFO is never empty *)
Lemma environ_path_split sc e port :
  build_environ sc = Some (e, port) ->
  exists rest, ws_path sc = ws_root sc ++ rest /\
    env_get (B "SCRIPT_NAME") e = Some (utf8 (ws_root sc)) /\
    env_get (B "PATH_INFO") e = Some (utf8 (match rest with [] => B "/" | _ => rest end)) /\
    env_get (B "REQUEST_METHOD") e = Some (ws_method sc) /\
    env_get (B "QUERY_STRING") e = Some (ws_query sc) /\
    env_get (B "SERVER_PROTOCOL") e = Some (B "HTTP/" ++ ws_version sc).
Proof.
  unfold build_environ. destruct (starts_with (ws_root sc) (ws_path sc)) eqn:S; [|discriminate].
  intro H. injection H as <- _. exists (skipn (length (ws_root sc)) (ws_path sc)).
  split; [apply starts_with_split; exact S|].
  assert (NM : forall K, In K base_keys -> forall hs, matching K hs = []).
  { intros K HK hs. unfold matching. induction hs as [|h r IH]; [reflexivity|]. simpl.
    destruct (beqb (corrected_name (fst h)) K) eqn:E; [|exact IH]. exfalso.
    apply beqb_eq in E. unfold corrected_name in E.
    destruct (beqb (fst h) (B "content-length")); [subst; simpl in HK; intuition discriminate|].
    destruct (beqb (fst h) (B "content-type")); [subst; simpl in HK; intuition discriminate|].
    subst K. simpl in HK. intuition discriminate. }
  repeat split; rewrite environ_join, NM by (simpl; tauto); reflexivity.
Qed.

(* ---------------------------------------------------------------- run_app *)
Lemma run_iter_yields st : forall cs acc,
  run_iter (map IYield cs) st false acc = (acc ++ map (fun c => SBody c true) cs, false).
Proof.
  induction cs as [|c r IH]; intro acc; simpl; [rewrite app_nil_r; reflexivity|].
  rewrite IH, <- app_assoc. reflexivity.
Qed.

Definition expected_sends (s : Z) (hs : list header) (chunks : list bytes) : list asgi_send :=
  SStart s (enc_headers hs) :: map (fun c => SBody c true) chunks.

(* status, headers and chunks pass through unchanged; start_response eager ... *)
Lemma passthrough_eager s hs chunks close :
  let a := {| wa_call := [CStart s hs]; wa_iter := map IYield chunks; wa_has_close := close |} in
  run_app a = {| rr_sends := expected_sends s hs chunks; rr_closes := if close then 1 else 0;
                 rr_raised := false; rr_called := 1 |}.
Proof.
  unfold run_app, expected_sends. simpl. destruct chunks as [|c r]; simpl; [reflexivity|].
  rewrite run_iter_yields. reflexivity.
Qed.

(* ... or lazy (called by the iterable before its first chunk) *)
Lemma passthrough_lazy s hs chunks close :
  let a := {| wa_call := []; wa_iter := IStart s hs :: map IYield chunks; wa_has_close := close |} in
  run_app a = {| rr_sends := expected_sends s hs chunks; rr_closes := if close then 1 else 0;
                 rr_raised := false; rr_called := 1 |}.
Proof.
  unfold run_app, expected_sends. simpl. destruct chunks as [|c r]; simpl; [reflexivity|].
  rewrite run_iter_yields. reflexivity.
Qed.

(* close() exactly once whenever the application returned an iterable, whatever happens later *)
Lemma close_once a st :
  run_call (wa_call a) None = Some st -> rr_closes (run_app a) = if wa_has_close a then 1%nat else 0%nat.
Proof. intro H. unfold run_app. rewrite H. destruct (run_iter _ _ _ _). reflexivity. Qed.

Lemma called_once a : rr_called (run_app a) = 1%nat.
Proof. unfold run_app. destruct (run_call _ _); [destruct (run_iter _ _ _ _)|]; reflexivity. Qed.

(* nothing is sent before start_response has been called: a body is always preceded by a start *)
Lemma run_iter_start_first : forall steps st first acc sends raised,
  run_iter steps st first acc = (sends, raised) ->
  (first = true -> acc = []) -> (first = false -> exists s hs r, acc = SStart s hs :: r) ->
  sends = [] \/ exists s hs r, sends = SStart s hs :: r.
Proof.
  induction steps as [|x r IH]; intros st first acc sends raised H Hf Hn; simpl in H.
  - destruct first.
    + rewrite (Hf eq_refl) in H. destruct st as [[s hs]|]; injection H as <- _; [right; eauto|left; reflexivity].
    + injection H as <- _. right. apply Hn. reflexivity.
  - destruct x as [c|s hs|].
    + destruct first.
      * rewrite (Hf eq_refl) in H. destruct st as [[s hs]|].
        -- eapply IH; [exact H|discriminate|]. intros _. simpl. eauto.
        -- injection H as <- _. left. reflexivity.
      * destruct (Hn eq_refl) as (s & hs & t & ->). eapply IH; [exact H|discriminate|]. intros _. simpl. eauto.
    + eapply IH; eassumption.
    + injection H as <- _. destruct first; [left; auto|right; apply Hn; reflexivity].
Qed.
