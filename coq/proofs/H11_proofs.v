(* Theorems about the H11Protocol model: recycling, response headers, error answers, and the
   invariant "their side IDLE implies no live stream" for the primitives that touch the library. *)
From Coq Require Import String Ascii ZArith NArith List Bool Lia.
From HV Require Import lib.Bytes lib.Obs lib.Monad model.Asgi model.AsgiSpec model.GuardTypes model.HttpStream model.WsStream model.LibH11 model.H11Proto
     gen.Consts_gen gen.Guards_gen proofs.LibH11_proofs proofs.Stream_proofs.
Import ListNotations.
Open Scope N_scope.

Ltac pexec := cbv -[validate_headers mem_version te_trailers suppress_body body_bytes headers_ok forallb link_ok
                   TRAILERS_VERSIONS PUSH_VERSIONS EARLY_HINTS_VERSIONS map filter app B
                   LibH11.send recv next_cycle our_state their_state recv_possible event_allowed l_waiting_100 h1state_eqb is_idle
                   new_handshake is_valid valid_server_name partition1 is_ascii pct_decode hk_accept wants_websocket
                   upper lower str_strip fold_left existsb Z.leb Z.add Z.ltb beqb length find_row].
Ltac pfin := cbv beta iota zeta.
Ltac pcrunch :=
  repeat (pfin; match goal with
               | |- context [match ?x with _ => _ end] =>
                   lazymatch x with
                   | context [match _ with _ => _ end] => fail
                   | _ => destruct x eqn:?
                   end
               | |- context [if ?x then _ else _] =>
                   lazymatch x with
                   | context [if _ then _ else _] => fail
                   | context [match _ with _ => _ end] => fail
                   | _ => destruct x eqn:?
                   end
               end).

(* ---- LibH11: consequences of the exhaustive checks, in readable form ---- *)
Lemma impb_elim a b : impb a b = true -> a = true -> b = true.
Proof. unfold impb. destruct a; cbn; intros; [assumption|discriminate]. Qed.

Lemma pe_facts c role k sw c' :
  process_event c role k sw = Some c' ->
  (is_idle (cs_client c') = true -> is_idle (cs_client c) = true) /\
  (is_idle (cs_server c') = true -> is_idle (cs_server c) = true) /\ cs_keep_alive c' = cs_keep_alive c.
Proof.
  intro E. pose proof (chk_event_holds c role k sw) as CK. unfold chk_event in CK. rewrite E in CK.
  apply andb_true_iff in CK as [K N]. unfold no_new_idle in N. apply andb_true_iff in N as [N1 N2].
  repeat split; [apply (impb_elim _ _ N1)|apply (impb_elim _ _ N2)|apply Bool.eqb_prop; exact K].
Qed.

Lemma err_client_idle c b : is_idle (cs_client (process_error c b)) = true -> is_idle (cs_client c) = true.
Proof. destruct c as [cl sv ka su sc]; destruct cl, sv, ka, su, sc, b; vm_compute; intro H; first [reflexivity|discriminate]. Qed.
Lemma kad_client_idle c : is_idle (cs_client (keep_alive_disabled c)) = true -> is_idle (cs_client c) = true.
Proof. destruct c as [cl sv ka su sc]; destruct cl, sv, ka, su, sc; vm_compute; intro H; first [reflexivity|discriminate]. Qed.
Lemma kad_keep_alive c : cs_keep_alive (keep_alive_disabled c) = false.
Proof. destruct c as [cl sv ka su sc]; destruct cl, sv, ka, su, sc; vm_compute; reflexivity. Qed.
Lemma misc_facts c b1 (b2 : bool) :
  (is_idle (cs_client (process_error c b1)) = true -> is_idle (cs_client c) = true) /\
  (is_idle (cs_client (keep_alive_disabled c)) = true -> is_idle (cs_client c) = true) /\
  True /\
  cs_keep_alive (keep_alive_disabled c) = false.
Proof. repeat split; [apply err_client_idle|apply kad_client_idle|apply kad_keep_alive]. Qed.

Lemma next_cycle_requires_done l l' :
  next_cycle l = Some l' -> our_state l = DONE /\ their_state l = DONE /\ our_state l' = IDLE /\ their_state l' = IDLE.
Proof.
  unfold next_cycle, our_state, their_state. destruct (start_next_cycle (l_cs l)) as [c'|] eqn:E; [|discriminate].
  intro H. injection H as <-. cbn. apply start_next_cycle_spec in E. tauto.
Qed.

(* sending never brings the client side back to IDLE *)
Lemma send_no_new_idle l e ok :
  is_idle (their_state (fst (LibH11.send l e ok))) = true -> is_idle (their_state l) = true.
Proof.
  destruct l as [c w m v]. unfold LibH11.send, their_state, our_state. cbn [l_cs].
  destruct (misc_facts c false false) as (ERR & _ & _ & _).
  destruct (h1state_eqb (cs_server c) ERROR); [cbn; auto|].
  destruct ok; cbn [negb]; [|cbn; exact ERR].
  destruct e as [st hs|st hs|d|].
  - destruct (process_event c false KInfo _) as [c'|] eqn:E; cbn; [apply (pe_facts _ _ _ _ _ E)|exact ERR].
  - destruct (process_event c false KResponse _) as [c'|] eqn:E; cbn; [|exact ERR].
    destruct (response_closes _ st hs); cbn; [|apply (pe_facts _ _ _ _ _ E)].
    intro I. apply (pe_facts _ _ _ _ _ E). destruct (misc_facts c' false false) as (_ & KA & _ & _). apply KA. exact I.
  - destruct (process_event c false KData SwNone) as [c'|] eqn:E; cbn; [apply (pe_facts _ _ _ _ _ E)|exact ERR].
  - destruct (process_event c false KEndOfMessage SwNone) as [c'|] eqn:E; cbn; [apply (pe_facts _ _ _ _ _ E)|exact ERR].
Qed.

(* a Request the parser contract allows comes from IDLE, and afterwards their side is not IDLE *)
Lemma recv_request_facts l method target hs version :
  recv_possible l (HRequest method target hs version) = true ->
  their_state l = IDLE /\ is_idle (their_state (recv l (HRequest method target hs version))) = false.
Proof.
  unfold recv_possible. destruct (their_state l) eqn:T; try discriminate. intros _. split; [reflexivity|].
  unfold their_state in T. unfold recv.
  pose proof (request_cs_not_idle (l_cs l) (negb match comma_header hs (B "upgrade") with [] => true | _ => false end)
                (beqb method (B "CONNECT")) (msg_keep_alive hs version) T) as F.
  destruct (request_cs _ _ _ _) as [c'|]; unfold their_state, with_cs; cbn [l_cs]; [apply F|exact F].
Qed.

(* ================================================================ the protocol *)
Definition srvs (o : list out) : list srvevent :=
  flat_map (fun x => match x with OSrv e => [e] | _ => [] end) o.
Definition spawns (o : list out) : nat :=
  length (filter (fun x => match x with OSpawn _ _ => true | _ => false end) o).

Lemma next_cycle_total l :
  h1state_eqb (our_state l) DONE = true -> h1state_eqb (their_state l) DONE = true -> exists l', next_cycle l = Some l'.
Proof.
  unfold next_cycle, our_state, their_state, start_next_cycle. intros -> ->. cbn. eauto.
Qed.

(* C06: the connection is reused exactly when nobody asked to stop and both sides completed their
   message (h11 then always grants a new cycle); otherwise it is closed.  In both cases a parked
   reader is released.  (non-WebSocket connections, transport accepting writes) *)
Lemma recycle_outcome p :
  p_ws_mode p = false -> p_stream_live p = false -> p_writes p = [] ->
  let reusable := negb (p_terminated p) && h1state_eqb (our_state (p_lib p)) DONE && h1state_eqb (their_state (p_lib p)) DONE in
  let '(p', o, res) := maybe_recycle p in
  res = Ok tt /\ p_can_read p' = true /\
  if reusable then srvs o = [SUpdated true] /\ next_cycle (p_lib p) = Some (p_lib p')
  else srvs o = [SClosed] /\ p_lib p' = p_lib p.
Proof.
  destruct p as [lib wsm sl live req cr pk tm sends writes evs tr sid cl]. cbn [p_ws_mode p_stream_live p_writes p_terminated p_lib].
  intros -> -> ->. pexec. pcrunch; repeat split; try reflexivity.
  all: try (destruct (next_cycle_total lib) as [l' E]; [assumption|assumption|congruence]).
Qed.

(* C06/C18: the final response head handed to h11 carries the application's headers, then the
   server's own, then `connection: close` exactly when the per-connection request maximum has been
   reached *)
Lemma response_headers_sent cfg p status hs :
  (200 <= status)%Z ->
  hd_error (snd (fst (stream_send cfg (EvResponse status hs) p))) =
  Some (OLib (VS "h11.send" :: v_of_send (SResponse status
      (hs ++ c_server_headers cfg ++ (if (c_max_requests cfg <=? p_requests p)%Z then [(B "connection", B "close")] else []))))).
Proof.
  intro H. apply Z.leb_le in H.
  destruct p as [lib wsm sl live req cr pk tm sends writes evs tr sid cl]. destruct cfg as [ch cw mx sh].
  pexec. rewrite H. pcrunch; reflexivity.
Qed.


(* ================================================================ a closed connection lets its reader go (finding F57)
   When the connection is not reused, _maybe_recycle marks the protocol closed before it releases the reader; from
   then on the loop of _handle_events is left at its first test and handle(RawData) ignores its input, whatever the
   parser would have said (it says PAUSED for ever after a 2xx answer to CONNECT, and with a pipelined request behind
   a response that is not followed by a new cycle). *)
Lemma closed_after_no_reuse p :
  p_ws_mode p = false -> p_stream_live p = false -> p_writes p = [] ->
  negb (p_terminated p) && h1state_eqb (our_state (p_lib p)) DONE && h1state_eqb (their_state (p_lib p)) DONE = false ->
  let p' := fst (fst (maybe_recycle p)) in
  p_closed p' = true /\ p_can_read p' = true /\ p_parked p' = p_parked p.
Proof.
  destruct p as [lib wsm sl live req cr pk tm sends writes evs tr sid cl]. cbn [p_ws_mode p_stream_live p_writes p_terminated p_lib p_parked].
  intros -> -> -> R. pexec. pcrunch; repeat split; try reflexivity.
  all: exfalso; repeat match goal with
         | H : ?t = false |- _ => is_var t; subst t
         | H : h1state_eqb _ _ = true |- _ => rewrite H in R; clear H
         end; cbn in R; discriminate.
Qed.

Section ClosedReader.
  Variable cfg : h11cfg.
  Variable stream_headers : list header -> list header.
  Variable ws_token : list header -> bytes.
  Variable ws_ext : option bytes.
  Variable ws_sends : list (option bytes).

  Lemma closed_loop_left p fuel :
    p_closed p = true -> handle_events cfg stream_headers ws_token ws_ext ws_sends (S fuel) p = (p, [], Ok tt).
  Proof.
    intro C. cbn [handle_events]. unfold handle_one, bind, get. cbn beta iota. rewrite C. reflexivity.
  Qed.

  Lemma closed_reader_leaves evs p :
    p_closed p = true -> p_parked p = true -> p_can_read p = true ->
    let '(p', o, res) := resume_if_ready cfg stream_headers ws_token ws_ext ws_sends evs p in
    res = Ok tt /\ p_parked p' = false /\ p_closed p' = true /\ o = [ONote "reader.resumed"].
  Proof.
    intros C K R. unfold resume_if_ready, bind, get. cbn beta iota. rewrite K, R. cbn [andb].
    unfold modify, note, emit. cbn beta iota zeta.
    rewrite closed_loop_left; [|destruct p; exact C]. cbn. repeat split. destruct p; exact C.
  Qed.

  Lemma closed_ignores_input evs p :
    p_closed p = true -> proto_step cfg stream_headers ws_token ws_ext ws_sends (IData evs) p = (p, [], Ok tt).
  Proof. intro C. cbn [proto_step]. unfold bind, get. cbn beta iota. rewrite C. reflexivity. Qed.
  (* however much the transport still delivers, in however many reads: nothing is written, nothing changes *)
  Lemma closed_quiet_run evss : forall p,
    p_closed p = true ->
    proto_run cfg stream_headers ws_token ws_ext ws_sends p (map IData evss) = map (fun _ => ([], Ok tt)) evss.
  Proof.
    induction evss as [|evs r IH]; intros p C; [reflexivity|].
    cbn [map proto_run]. rewrite (closed_ignores_input evs p C). f_equal. apply IH. exact C.
  Qed.
End ClosedReader.

(* handle(Closed): whenever it returns normally the reader has been released (can_read is set) *)
Lemma handle_closed_releases p :
  let '(p', o, r) := handle_closed p in r = Ok tt -> p_can_read p' = true.
Proof.
  unfold handle_closed, bind, modify, get, note, emit. cbn beta iota.
  destruct (p_stream_live (set_closed true p)).
  - destruct (close_stream (set_closed true p)) as [[p2 o2] [u|e]]; cbn; [reflexivity|discriminate].
  - cbn. reflexivity.
Qed.
