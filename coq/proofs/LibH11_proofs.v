(* Facts about the h11 state-machine model that the protocol theorems use, each proved by
   exhaustive evaluation (vm_compute) over the finite state space: 9 x 9 states, 3 flags,
   2 roles, 6 event kinds, 3 switch events. *)
From Coq Require Import String Ascii ZArith NArith List Bool Lia.
From HV Require Import lib.Bytes lib.Obs lib.Monad model.Asgi model.LibH11.
Import ListNotations.
Open Scope N_scope.

Definition is_idle (s : h1state) := h1state_eqb s IDLE.
Definition is_done (s : h1state) := h1state_eqb s DONE.
Definition impb (a b : bool) := negb a || b.
Definition no_new_idle (c c' : cstate) : bool :=
  impb (is_idle (cs_client c')) (is_idle (cs_client c)) && impb (is_idle (cs_server c')) (is_idle (cs_server c)).

Lemma h1state_eqb_eq a b : h1state_eqb a b = true <-> a = b.
Proof. destruct a, b; cbn; split; intro H; try reflexivity; try discriminate. Qed.

Ltac all_cs c := destruct c as [cl sv ka su sc]; destruct cl, sv, ka, su, sc.

(* events never change keep-alive and never bring a side back to IDLE *)
Definition chk_event (c : cstate) (role : bool) (k : evkind) (sw : switch) : bool :=
  match process_event c role k sw with
  | Some c' => Bool.eqb (cs_keep_alive c') (cs_keep_alive c) && no_new_idle c c'
  | None => true
  end.
Lemma chk_event_holds c role k sw : chk_event c role k sw = true.
Proof. all_cs c; destruct role, k, sw; vm_compute; reflexivity. Qed.

(* a Request is only possible from IDLE/IDLE and leaves IDLE on both sides *)
Definition chk_request (c : cstate) : bool :=
  match process_event c true KRequest SwNone with
  | Some c' => is_idle (cs_client c) && is_idle (cs_server c) && negb (is_idle (cs_client c')) && negb (is_idle (cs_server c'))
  | None => true
  end.
Lemma chk_request_holds c : chk_request c = true.
Proof. all_cs c; vm_compute; reflexivity. Qed.

(* errors, keep-alive changes and switch proposals never bring a side back to IDLE *)
Definition chk_misc (c : cstate) (b1 b2 : bool) : bool :=
  no_new_idle c (process_error c b1) && no_new_idle c (keep_alive_disabled c) && negb (cs_keep_alive (keep_alive_disabled c))
  && no_new_idle c (propose c b1 b2) && Bool.eqb (cs_keep_alive (propose c b1 b2)) (cs_keep_alive c).
Lemma chk_misc_holds c b1 b2 : chk_misc c b1 b2 = true.
Proof. all_cs c; destruct b1, b2; vm_compute; reflexivity. Qed.

(* with keep-alive off nobody is DONE once the transitions have fired: no cycle can be restarted *)
Definition chk_keep_alive (c : cstate) : bool :=
  impb (negb (cs_keep_alive c)) (negb (is_done (cs_client (fire c))) && negb (is_done (cs_server (fire c)))
                                 && match start_next_cycle (fire c) with None => true | Some _ => false end).
Lemma chk_keep_alive_holds c : chk_keep_alive c = true.
Proof. all_cs c; vm_compute; reflexivity. Qed.

(* the transition loop has reached its fixed point after four passes *)
Lemma fire_fixed c : fire_once (fire c) = fire c.
Proof. all_cs c; vm_compute; reflexivity. Qed.

(* every state the model produces is a fixed point of the transition loop (fire is idempotent) *)
Lemma fire_idem c : fire (fire c) = fire c.
Proof. all_cs c; vm_compute; reflexivity. Qed.

(* restarting a cycle needs DONE/DONE and gives IDLE/IDLE *)
Lemma start_next_cycle_spec c c' :
  start_next_cycle c = Some c' ->
  cs_client c = DONE /\ cs_server c = DONE /\ cs_client c' = IDLE /\ cs_server c' = IDLE /\ cs_keep_alive c' = cs_keep_alive c.
Proof.
  unfold start_next_cycle. destruct (h1state_eqb (cs_client c) DONE) eqn:E1; [|discriminate].
  destruct (h1state_eqb (cs_server c) DONE) eqn:E2; [|discriminate].
  cbn. intro H. injection H as <-. apply h1state_eqb_eq in E1, E2. repeat split; assumption.
Qed.

(* the server side becomes DONE / MUST_CLOSE only by sending EndOfMessage (or when the peer is gone) *)
Definition chk_server_done (c : cstate) (k : evkind) (sw : switch) : bool :=
  match process_event c false k sw with
  | Some c' =>
      impb (is_done (cs_server c') || h1state_eqb (cs_server c') MUST_CLOSE)
           (is_done (cs_server c) || h1state_eqb (cs_server c) MUST_CLOSE || is_idle (cs_server c)
            || match k with KEndOfMessage => true | _ => false end)
  | None => true
  end.
Lemma chk_server_done_holds c k sw : chk_server_done c k sw = true.
Proof. all_cs c; destruct k, sw; vm_compute; reflexivity. Qed.

(* a Request accepted from IDLE leaves the client side in a non-IDLE state; refused, the error
   state is not IDLE either *)
Lemma request_cs_not_idle c up conn ka :
  cs_client c = IDLE ->
  match request_cs c up conn ka with
  | Some c' => is_idle (cs_client c') = false /\ is_idle (cs_server c) = true
  | None => is_idle (cs_client (process_error c true)) = false
  end.
Proof. destruct c as [cl sv k su sc]. cbn. intros ->. destruct sv, k, su, sc, up, conn, ka; vm_compute; try split; reflexivity. Qed.

(* ---- the request cap: once the server side has left the states from which it can complete a response with
   keep-alive still on, no new cycle can start.  capG c: the server is not in SEND_BODY / DONE, or keep-alive is
   off and the server is not DONE.  It survives every event except a server Response (whose Connection: close
   switches keep-alive off, which restores it), errors, proposals; it holds after any accepted Request; and it
   rules out start_next_cycle. *)
Definition capG (c : cstate) : bool :=
  negb (h1state_eqb (cs_server c) SEND_BODY || is_done (cs_server c)) || (negb (cs_keep_alive c) && negb (is_done (cs_server c))).
Definition is_response (k : evkind) : bool := match k with KResponse => true | _ => false end.
Definition chk_cap_event (c : cstate) (role : bool) (k : evkind) (sw : switch) : bool :=
  match process_event c role k sw with
  | Some c' => impb (capG c) (if negb role && is_response k then capG (keep_alive_disabled c') else capG c')
  | None => true
  end.
Lemma chk_cap_event_holds c role k sw : chk_cap_event c role k sw = true.
Proof. all_cs c; destruct role, k, sw; vm_compute; reflexivity. Qed.
Definition chk_cap_misc (c : cstate) (b1 b2 : bool) : bool :=
  impb (capG c) (capG (process_error c b1) && capG (propose c b1 b2) && capG (keep_alive_disabled c)
                 && match start_next_cycle c with None => true | Some _ => false end).
Lemma chk_cap_misc_holds c b1 b2 : chk_cap_misc c b1 b2 = true.
Proof. all_cs c; destruct b1, b2; vm_compute; reflexivity. Qed.
Definition chk_cap_request (c : cstate) (up conn kal : bool) : bool :=
  match request_cs c up conn kal with Some c' => capG c' | None => true end.
Lemma chk_cap_request_holds c up conn kal : chk_cap_request c up conn kal = true.
Proof. all_cs c; destruct up, conn, kal; vm_compute; reflexivity. Qed.
Definition chk_cap_response (c : cstate) (sw : switch) : bool :=
  match process_event c false KResponse sw with
  | Some c' => impb (capG c) (capG (keep_alive_disabled c'))
  | None => true
  end.
Lemma chk_cap_response_holds c sw : chk_cap_response c sw = true.
Proof. all_cs c; destruct sw; vm_compute; reflexivity. Qed.

(* ---- once keep-alive is off: [blockedG c]: no new cycle can start (capG) and the two sides are not both IDLE, so no
   Request can be accepted either.  It holds after every Response that switches keep-alive off and after every accepted
   Request, and survives everything else. *)
Definition blockedG (c : cstate) : bool := capG c && negb (is_idle (cs_client c) && is_idle (cs_server c)).
Definition chk_blk_event (c : cstate) (role : bool) (k : evkind) (sw : switch) : bool :=
  match process_event c role k sw with
  | Some c' => impb (blockedG c) (if negb role && is_response k then blockedG (keep_alive_disabled c') else blockedG c')
  | None => true
  end.
Lemma chk_blk_event_holds c role k sw : chk_blk_event c role k sw = true.
Proof. all_cs c; destruct role, k, sw; vm_compute; reflexivity. Qed.
Definition chk_blk_misc (c : cstate) (b1 b2 : bool) : bool :=
  impb (blockedG c) (blockedG (process_error c b1) && blockedG (propose c b1 b2) && blockedG (keep_alive_disabled c))
  && Bool.eqb (cs_keep_alive (process_error c b1)) (cs_keep_alive c).
Lemma chk_blk_misc_holds c b1 b2 : chk_blk_misc c b1 b2 = true.
Proof. all_cs c; destruct b1, b2; vm_compute; reflexivity. Qed.
(* a Response can only be sent from IDLE / SEND_RESPONSE; with keep-alive switched off afterwards the state is blocked *)
Definition chk_resp_blk (c : cstate) (sw : switch) : bool :=
  match process_event c false KResponse sw with Some c' => blockedG (keep_alive_disabled c') | None => true end.
Lemma chk_resp_blk_holds c sw : chk_resp_blk c sw = true.
Proof. all_cs c; destruct sw; vm_compute; reflexivity. Qed.
(* an accepted Request comes from IDLE / IDLE and leaves a blocked state if it switches keep-alive off *)
Definition chk_req_blk (c : cstate) (up conn kal : bool) : bool :=
  match request_cs c up conn kal with
  | Some c' => is_idle (cs_client c) && is_idle (cs_server c) && impb (negb (cs_keep_alive c')) (blockedG c')
               && impb (cs_keep_alive c') (cs_keep_alive c)
  | None => true
  end.
Lemma chk_req_blk_holds c up conn kal : chk_req_blk c up conn kal = true.
Proof. all_cs c; destruct up, conn, kal; vm_compute; reflexivity. Qed.
