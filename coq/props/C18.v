(* C18  Configured limits and worker recycling are enforced against any client. *)
From Coq Require Import String Ascii ZArith NArith List Bool Lia.
From HV Require Import lib.Bytes lib.Obs lib.Monad model.Asgi model.AsgiSpec model.GuardTypes model.HttpStream model.WsStream model.StreamRig
     model.LibH11 model.H11Proto model.WorkerCtx gen.Consts_gen gen.Guards_gen
     proofs.Stream_proofs proofs.LibH11_proofs proofs.H11_proofs proofs.WorkerCtx_proofs.
Import ListNotations.
Open Scope N_scope.

(* keep_alive_max_requests: the response to the request that reaches the maximum announces close
   (C06_close_announced), which switches keep-alive off in h11, after which the cycle can never be
   restarted and no further request is parsed on the connection. *)
Theorem C18_keepalive_cap_head : forall cfg p status hs, (200 <= status)%Z ->
  hd_error (snd (fst (stream_send cfg (EvResponse status hs) p))) =
  Some (OLib (VS "h11.send" :: v_of_send (SResponse status
      (hs ++ c_server_headers cfg ++ (if (c_max_requests cfg <=? p_requests p)%Z then [(B "connection", B "close")] else []))))).
Proof. exact response_headers_sent. Qed.
Theorem C18_close_token_disables_keep_alive : forall l status hs,
  has_token hs (B "connection") (B "close") = true -> response_closes l status hs = true.
Proof. intros l status hs H. unfold response_closes. rewrite H. apply orb_true_r. Qed.
Theorem C18_no_cycle_without_keep_alive : forall c, chk_keep_alive c = true.
Proof. exact chk_keep_alive_holds. Qed.
Theorem C18_request_needs_idle : forall l method target hs version,
  recv_possible l (HRequest method target hs version) = true ->
  their_state l = IDLE /\ is_idle (their_state (recv l (HRequest method target hs version))) = false.
Proof. exact recv_request_facts. Qed.
Print Assumptions C18_keepalive_cap_head.
Print Assumptions C18_close_token_disables_keep_alive.
Print Assumptions C18_no_cycle_without_keep_alive.

(* max_requests + jitter: the worker asks to be replaced exactly when it has taken on more than
   max_requests + j requests, for any draw j of the jitter; never without a maximum. *)
Theorem C18_worker_recycle : forall max j n, (0 <= max + j)%Z ->
  (wx_terminate (mark_n n (wctx_init (Some max) j)) = true <-> (Z.of_nat n > max + j)%Z).
Proof. exact recycle_iff. Qed.
Theorem C18_no_max_never : forall j n, wx_terminate (mark_n n (wctx_init None j)) = false.
Proof. exact no_max_never. Qed.
Print Assumptions C18_worker_recycle.

Example C18_nonvacuous :
  wx_terminate (mark_n 3 (wctx_init (Some 2%Z) 0%Z)) = true /\ wx_terminate (mark_n 2 (wctx_init (Some 2%Z) 0%Z)) = false
  /\ wx_terminate (mark_n 5 (wctx_init (Some 2%Z) 3%Z)) = false.
Proof. vm_compute. repeat split. Qed.
