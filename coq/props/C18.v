(* C18  Configured limits and worker recycling are enforced against any client. *)
From Coq Require Import String Ascii ZArith NArith List Bool Lia.
From HV Require Import lib.Bytes lib.Obs lib.Monad model.Asgi model.AsgiSpec model.GuardTypes model.HttpStream model.WsStream model.StreamRig
     model.LibH11 model.H11Proto model.WorkerCtx gen.Consts_gen gen.Guards_gen
     proofs.Stream_proofs proofs.LibH11_proofs proofs.H11_proofs proofs.WorkerCtx_proofs proofs.Serial_proofs proofs.Capped_proofs.
Import ListNotations.
Open Scope N_scope.

(* keep_alive_max_requests: the response to the request that reaches the maximum announces close
   (C06_close_announced), which switches keep-alive off in h11, after which the cycle can never be
   restarted and no further request is parsed on the connection. *)
Theorem C18_keepalive_cap_head : forall cfg p status hs, (200 <= status)%Z ->
  hd_error (snd (fst (stream_send cfg (EvResponse status hs) p))) =
  Some (OLib (VS "h11.send" :: v_of_send (SResponse status
      (hs ++ c_server_headers cfg ++ (if (c_max_requests cfg <=? p_requests p)%Z then [(B "connection", B "close")] else []))))).
Proof. exact response_headers_sent. Qed.
Theorem C18_close_token_disables_keep_alive : forall l status hs,
  has_token hs (B "connection") (B "close") = true -> response_closes l status hs = true.
Proof. intros l status hs H. unfold response_closes. rewrite H. apply orb_true_r. Qed.
Theorem C18_no_cycle_without_keep_alive : forall c, chk_keep_alive c = true.
Proof. exact chk_keep_alive_holds. Qed.
Theorem C18_request_needs_idle : forall l method target hs version,
  recv_possible l (HRequest method target hs version) = true ->
  their_state l = IDLE /\ is_idle (their_state (recv l (HRequest method target hs version))) = false.
Proof. exact recv_request_facts. Qed.
Print Assumptions C18_keepalive_cap_head.
Print Assumptions C18_close_token_disables_keep_alive.
Print Assumptions C18_no_cycle_without_keep_alive.

(* Whole runs: along every run of the protocol from a fresh connection - any reads, any application behaviour, any
   failing writes - no request is taken on once the connection has counted keep_alive_max_requests of them (and at
   least one: a maximum below 1 still lets the first request through).  "request-over-limit" is the ghost note the
   model emits in _create_stream when keep_alive_requests has reached the maximum; the alternative is an event oracle
   that breaks h11's own contract. *)
Theorem C18_keepalive_cap_whole_run : forall cfg stream_headers ws_token ws_ext ws_sends sends writes inputs,
  let outs := concat (map fst (proto_run cfg stream_headers ws_token ws_ext ws_sends (p_init sends writes) inputs)) in
  In (ONote "h11-contract-violated") outs \/ ~ In (ONote "request-over-limit") outs.
Proof. intros. apply capped_run, Capped_init. Qed.
Print Assumptions C18_keepalive_cap_whole_run.

Definition cap_cfg (mx : Z) : h11cfg :=
  {| c_http := {| cfg_server_names := []; cfg_ssl := false; cfg_trailers_versions := []; cfg_push_versions := []; cfg_hint_versions := [];
                  cfg_guards := http_app_send_guards |};
     c_ws := {| wc_http := {| cfg_server_names := []; cfg_ssl := false; cfg_trailers_versions := []; cfg_push_versions := [];
                              cfg_hint_versions := []; cfg_guards := http_app_send_guards |};
                wc_max_message := 100; wc_ping_interval := false; wc_guards := ws_app_send_guards |};
     c_max_requests := mx; c_server_headers := [] |}.
Definition cap_req := RH (HRequest (B "GET") (B "/") [(B "host", B "x")] (B "1.1")).
Definition cap_outs (mx : Z) (inputs : list pinput) : list out :=
  concat (map fst (proto_run (cap_cfg mx) (fun h => h) (fun _ => []) None [] (p_init [] []) inputs)).
Definition cap_note (s : string) (o : list out) : bool :=
  existsb (fun x => match x with ONote t => String.eqb s t | _ => false end) o.
Definition serve_one : list pinput :=
  [IData [cap_req; RH HEndOfMessage; RH HPaused];
   IApp (Some (MStart (Some 200%Z) [(HB (B "content-length"), HB (B "0"))] false)) [];
   IApp (Some (MBody (HB []) false)) []].
(* the ghost is live: with a maximum of 1, an oracle that hands over a second Request while the first is being
   answered (h11 cannot) trips both notes; with a maximum of 2 a second request after the first response is legitimate
   and trips neither.  (Once the connection has been closed the protocol no longer asks the parser for anything.) *)
Example C18_cap_nonvacuous :
  let over := cap_outs 1 [IData [cap_req; RH HEndOfMessage]; IData [cap_req]] in
  cap_note "h11-contract-violated" over = true /\ cap_note "request-over-limit" over = true /\
  let fine := cap_outs 2 [IData [cap_req; RH HEndOfMessage; RH HPaused];
                          IApp (Some (MStart (Some 200%Z) [(HB (B "content-length"), HB (B "0"))] false)) [];
                          IApp (Some (MBody (HB []) false)) [cap_req; RH HEndOfMessage; RH HNeedData]] in
  cap_note "h11-contract-violated" fine = false /\ cap_note "request-over-limit" fine = false /\ spawns fine = 2%nat.
Proof. vm_compute. repeat split. Qed.

(* max_requests + jitter: the worker asks to be replaced exactly when it has taken on more than
   max_requests + j requests, for any draw j of the jitter; never without a maximum. *)
Theorem C18_worker_recycle : forall max j n, (0 <= max + j)%Z ->
  (wx_terminate (mark_n n (wctx_init (Some max) j)) = true <-> (Z.of_nat n > max + j)%Z).
Proof. exact recycle_iff. Qed.
Theorem C18_no_max_never : forall j n, wx_terminate (mark_n n (wctx_init None j)) = false.
Proof. exact no_max_never. Qed.
Print Assumptions C18_worker_recycle.

Example C18_nonvacuous :
  wx_terminate (mark_n 3 (wctx_init (Some 2%Z) 0%Z)) = true /\ wx_terminate (mark_n 2 (wctx_init (Some 2%Z) 0%Z)) = false
  /\ wx_terminate (mark_n 5 (wctx_init (Some 2%Z) 3%Z)) = false.
Proof. vm_compute. repeat split. Qed.
