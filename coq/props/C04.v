(* C04  No client input causes an internal error; HTTP/2 faults stay on their stream.
   The HTTP/2 connection level, proved on the transition system of model.H2Send, whose reader
   labels are the events h2 hands to H2Protocol._handle_events (request, DATA, END_STREAM,
   RST_STREAM, WINDOW_UPDATE on a stream / the connection, SETTINGS, PRIORITY for open, closed and
   idle streams with or without a parent, connection loss) in any order and interleaved in any way
   with the application tasks and the send task.  Malformed bytes (HTTP/1 and HTTP/2 framing) are
   the parsers' business and are covered by the end-to-end oracles of harness/c04.py. *)
From Coq Require Import ZArith NArith List Bool Lia.
From HV Require Import gen.Consts_gen model.H2Send proofs.H2Send_proofs.
Import ListNotations.
Open Scope Z_scope.

(* The dictionary and priority-tree operations of the reader that raise on a missing key
   (priority.unblock in _window_updated) are modelled as such; none of them is ever reached with
   a missing key: no exception escapes the reader. *)
Theorem C04_reader_never_crashes : forall cw mf iw0 ls, reader_ok (run (init cw mf iw0) ls) = true.
Proof. exact reader_never_crashes. Qed.
Print Assumptions C04_reader_never_crashes.

(* What the invariant behind it says: a registered buffer always has its stream in the priority tree. *)
Theorem C04_buffer_implies_tree : forall cw mf iw0 ls s,
  let t := run (init cw mf iw0) ls in
  s_inbufs (strms t s) = true -> s_tree (strms t s) = true.
Proof. intros cw mf iw0 ls s. apply (SInv_tree _ (SInv_reach cw mf iw0 ls)). Qed.

(* Faults stay on their stream: an event or task step that concerns stream s (or, for PRIORITY,
   s and its parent) leaves the state of every other stream exactly as it was. *)
Theorem C04_faults_stay_on_their_stream : forall t l k, ~ touches l k -> strms (step t l) k = strms t k.
Proof. exact other_streams_untouched. Qed.
(* ... and whatever happened to the others, a stream with data and window is served. *)
Theorem C04_other_streams_still_served : forall t k,
  task t = TTop -> closed t = false -> eligible (strms t k) = true ->
  s_inbufs (strms t k) = true -> s_h2open (strms t k) = true ->
  b_data (s_buf (strms t k)) <> [] -> 0 < s_win (strms t k) -> 0 < cwin t -> 0 < maxf t ->
  exists d rest, d <> [] /\ out (send_iter t (Some k)) = (out t ++ FData k d :: rest)%list.
Proof. exact eligible_stream_is_served. Qed.
Print Assumptions C04_faults_stay_on_their_stream.
Print Assumptions C04_other_streams_still_served.

(* The send task survives a stream that is in the priority tree without a buffer (PRIORITY on a
   reset stream followed by a late body message: finding F39): the iteration forgets the stream. *)
Definition f39_labels : list label :=
  [ LSendIter None; LSendWake;
    LClient (COpen 1 [OStart; OBody [1%N]; OBody [2%N]; OEnd; OClose; OExit]);
    LApp 1; LApp 1;                                   (* head and first chunk *)
    LClient (CReset 1); LSendWake; LSendIter (Some 1); (* the send task forgets stream 1 *)
    LClient (CPriority 1 0);                           (* PRIORITY re-inserts it *)
    LApp 1;                                            (* the late chunk unblocks it *)
    LSendIter (Some 1) ].                              (* picked without a buffer *)
Example C04_nonvacuous :
  let t := run (init 65535 16384 65535) f39_labels in
  task t = TTop /\ reader_ok t = true /\ s_tree (strms t 1) = false /\ bad_pick t = false
  /\ let t' := run (init 65535 16384 65535) (firstn 10 f39_labels) in
     eligible (strms t' 1) = true /\ s_inbufs (strms t' 1) = false.
Proof. vm_compute. repeat split. Qed.

From Coq Require Import String.
From HV Require Import lib.Bytes lib.Obs lib.Monad model.Asgi model.AsgiSpec model.GuardTypes model.HttpStream model.WsStream model.LibH11 model.H11Proto gen.Guards_gen proofs.H11_proofs proofs.Serial_proofs proofs.Final_proofs.
Open Scope string_scope.
(* ---- HTTP/1: the connection handler terminates (finding F57).  The reader task waits inside the protocol while a
   response is produced (h11 is PAUSED).  When the connection is then not reused - the worker is shutting down, a side
   asked to close, the client sent CONNECT and got a 2xx - the protocol marks itself closed before it releases the
   reader ... *)
Theorem C04_connection_not_reused_is_closed : forall p,
  p_ws_mode p = false -> p_stream_live p = false -> p_writes p = [] ->
  negb (p_terminated p) && h1state_eqb (our_state (p_lib p)) DONE && h1state_eqb (their_state (p_lib p)) DONE = false ->
  let p' := fst (fst (maybe_recycle p)) in
  p_closed p' = true /\ p_can_read p' = true /\ p_parked p' = p_parked p.
Proof. exact closed_after_no_reuse. Qed.
(* ... and a released reader of a closed protocol leaves the loop without asking the parser again, whatever the parser
   would answer (before the repair it asked, was told PAUSED again - pipelined bytes, or SWITCHED_PROTOCOL - and
   waited for a release that never came), ... *)
Theorem C04_closed_connection_reader_leaves : forall cfg stream_headers ws_token ws_ext ws_sends evs p,
  p_closed p = true -> p_parked p = true -> p_can_read p = true ->
  let '(p', o, res) := resume_if_ready cfg stream_headers ws_token ws_ext ws_sends evs p in
  res = Ok tt /\ p_parked p' = false /\ p_closed p' = true /\ o = [ONote "reader.resumed"].
Proof. exact closed_reader_leaves. Qed.
(* ... and whatever the transport still delivers is dropped: the reader cannot park again. *)
Theorem C04_closed_connection_ignores_input : forall cfg stream_headers ws_token ws_ext ws_sends evs p,
  p_closed p = true -> proto_step cfg stream_headers ws_token ws_ext ws_sends (IData evs) p = (p, [], Ok tt).
Proof. exact closed_ignores_input. Qed.
(* Closed is final: along every run from a closed protocol - reads, application sends re-entering the protocol, failing
   writes, Closed events, termination, in any order - every state reached is closed (unless the event oracle breaks the
   parser's contract, which the correspondence check observes the real h11 never to do). *)
Theorem C04_closed_is_final : forall cfg stream_headers ws_token ws_ext ws_sends p inputs,
  p_closed p = true ->
  In (ONote "h11-contract-violated") (List.concat (map fst (proto_run cfg stream_headers ws_token ws_ext ws_sends p inputs))) \/
  Forall (fun q => p_closed q = true) (proto_states cfg stream_headers ws_token ws_ext ws_sends p inputs).
Proof. exact closed_is_final. Qed.
Print Assumptions C04_closed_is_final.
(* handle(Closed) - the server telling the protocol that the connection is gone - releases the reader whenever it returns *)
Theorem C04_closed_event_releases_reader : forall p,
  let '(p', o, r) := handle_closed p in r = Ok tt -> p_can_read p' = true.
Proof. exact handle_closed_releases. Qed.
Print Assumptions C04_closed_event_releases_reader.
Theorem C04_closed_connection_stays_quiet : forall cfg stream_headers ws_token ws_ext ws_sends evss p,
  p_closed p = true ->
  proto_run cfg stream_headers ws_token ws_ext ws_sends p (map IData evss) = map (fun _ => ([], Ok tt)) evss.
Proof. exact closed_quiet_run. Qed.
Print Assumptions C04_closed_connection_stays_quiet.
Print Assumptions C04_connection_not_reused_is_closed.
Print Assumptions C04_closed_connection_reader_leaves.
Print Assumptions C04_closed_connection_ignores_input.

(* The premises are met by the very run that used to hang: CONNECT answered 200 (both sides SWITCHED_PROTOCOL), the
   application's body message is refused by h11, the application ends; the oracle keeps answering PAUSED.  The protocol
   ends closed with its reader gone. *)
Definition f57_cfg : h11cfg :=
  {| c_http := {| cfg_server_names := []; cfg_ssl := false; cfg_trailers_versions := []; cfg_push_versions := []; cfg_hint_versions := [];
                  cfg_guards := http_app_send_guards |};
     c_ws := {| wc_http := {| cfg_server_names := []; cfg_ssl := false; cfg_trailers_versions := []; cfg_push_versions := [];
                              cfg_hint_versions := []; cfg_guards := http_app_send_guards |};
                wc_max_message := 100; wc_ping_interval := false; wc_guards := ws_app_send_guards |};
     c_max_requests := 100; c_server_headers := [] |}.
Fixpoint f57_final (p : h11p) (is : list pinput) : h11p :=
  match is with
  | [] => p
  | i :: r => f57_final (fst (fst (proto_step f57_cfg (fun h => h) (fun _ => []) None [] i p))) r
  end.
Example C04_connect_nonvacuous :
  let inputs := [IData [RH (HRequest (B "CONNECT") (B "example.com:443") [(B "host", B "example.com:443")] (B "1.1")); RH HEndOfMessage; RH HPaused];
                 IApp (Some (MStart (Some 200%Z) [] false)) [RH HPaused];
                 IApp None [RH HPaused; RH HPaused]] in
  let mid := f57_final (p_init [] []) (firstn 2 inputs) in
  let p := f57_final (p_init [] []) inputs in
  p_parked mid = true /\ their_state (p_lib mid) = SWITCHED_PROTOCOL /\
  p_closed p = true /\ p_parked p = false /\ p_stream_live p = false /\
  f57_final p [IData [RH HPaused]] = p.
Proof. vm_compute. repeat split. Qed.

(* ... and the same release when the connection is lost instead (finding F64): a request is pipelined behind a streaming
   response (the reader waits), a write fails, the server tells the protocol Closed.  The protocol ends closed with its
   reader gone; before the repair handle(Closed) closed the stream and left the reader where it was. *)
Example C04_lost_connection_releases_reader :
  let req := RH (HRequest (B "GET") (B "/a") [(B "host", B "x")] (B "1.1")) in
  let inputs := [IData [req; RH HEndOfMessage; RH HPaused];
                 IApp (Some (MStart (Some 200%Z) [] false)) [];
                 IApp (Some (MBody (HB (B "part")) true)) [RH HPaused]] in
  let mid := f57_final (p_init [] [true]) (firstn 2 inputs) in
  let p := f57_final (p_init [] [true; false]) inputs in
  p_parked mid = true /\ p_closed mid = false /\
  p_closed p = true /\ p_parked p = false /\ p_stream_live p = false /\
  (let q := f57_final mid [IClosed] in p_closed q = true /\ p_parked q = false).
Proof. vm_compute. repeat split. Qed.
