(* C04  No client input causes an internal error; HTTP/2 faults stay on their stream.
   The HTTP/2 connection level, proved on the transition system of model.H2Send, whose reader
   labels are the events h2 hands to H2Protocol._handle_events (request, DATA, END_STREAM,
   RST_STREAM, WINDOW_UPDATE on a stream / the connection, SETTINGS, PRIORITY for open, closed and
   idle streams with or without a parent, connection loss) in any order and interleaved in any way
   with the application tasks and the send task.  Malformed bytes (HTTP/1 and HTTP/2 framing) are
   the parsers' business and are covered by the end-to-end oracles of harness/c04.py. *)
From Coq Require Import ZArith NArith List Bool Lia.
From HV Require Import gen.Consts_gen model.H2Send proofs.H2Send_proofs.
Import ListNotations.
Open Scope Z_scope.

(* The dictionary and priority-tree operations of the reader that raise on a missing key
   (priority.unblock in _window_updated) are modelled as such; none of them is ever reached with
   a missing key: no exception escapes the reader. *)
Theorem C04_reader_never_crashes : forall cw mf iw0 ls, reader_ok (run (init cw mf iw0) ls) = true.
Proof. exact reader_never_crashes. Qed.
Print Assumptions C04_reader_never_crashes.

(* What the invariant behind it says: a registered buffer always has its stream in the priority tree. *)
Theorem C04_buffer_implies_tree : forall cw mf iw0 ls s,
  let t := run (init cw mf iw0) ls in
  s_inbufs (strms t s) = true -> s_tree (strms t s) = true.
Proof. intros cw mf iw0 ls s. apply (SInv_tree _ (SInv_reach cw mf iw0 ls)). Qed.

(* Faults stay on their stream: an event or task step that concerns stream s (or, for PRIORITY,
   s and its parent) leaves the state of every other stream exactly as it was. *)
Theorem C04_faults_stay_on_their_stream : forall t l k, ~ touches l k -> strms (step t l) k = strms t k.
Proof. exact other_streams_untouched. Qed.
(* ... and whatever happened to the others, a stream with data and window is served. *)
Theorem C04_other_streams_still_served : forall t k,
  task t = TTop -> closed t = false -> eligible (strms t k) = true ->
  s_inbufs (strms t k) = true -> s_h2open (strms t k) = true ->
  b_data (s_buf (strms t k)) <> [] -> 0 < s_win (strms t k) -> 0 < cwin t -> 0 < maxf t ->
  exists d rest, d <> [] /\ out (send_iter t (Some k)) = (out t ++ FData k d :: rest)%list.
Proof. exact eligible_stream_is_served. Qed.
Print Assumptions C04_faults_stay_on_their_stream.
Print Assumptions C04_other_streams_still_served.

(* The send task survives a stream that is in the priority tree without a buffer (PRIORITY on a
   reset stream followed by a late body message: finding F39): the iteration forgets the stream. *)
Definition f39_labels : list label :=
  [ LSendIter None; LSendWake;
    LClient (COpen 1 [OStart; OBody [1%N]; OBody [2%N]; OEnd; OClose; OExit]);
    LApp 1; LApp 1;                                   (* head and first chunk *)
    LClient (CReset 1); LSendWake; LSendIter (Some 1); (* the send task forgets stream 1 *)
    LClient (CPriority 1 0);                           (* PRIORITY re-inserts it *)
    LApp 1;                                            (* the late chunk unblocks it *)
    LSendIter (Some 1) ].                              (* picked without a buffer *)
Example C04_nonvacuous :
  let t := run (init 65535 16384 65535) f39_labels in
  task t = TTop /\ reader_ok t = true /\ s_tree (strms t 1) = false /\ bad_pick t = false
  /\ let t' := run (init 65535 16384 65535) (firstn 10 f39_labels) in
     eligible (strms t' 1) = true /\ s_inbufs (strms t' 1) = false.
Proof. vm_compute. repeat split. Qed.
