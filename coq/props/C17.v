(* C17  WSGI adapter conforms to PEP 3333. *)
From Coq Require Import String Ascii ZArith NArith List Bool Lia.
From HV Require Import lib.Bytes lib.Obs model.Wsgi proofs.Wsgi_proofs.
Import ListNotations.
Open Scope N_scope.

(* A body larger than the limit is answered 400 without calling the application; a body within
   the limit (boundary exact) leads to exactly one call. *)
Theorem C17_limit : forall max msgs sc a, ends msgs = true ->
  let r := handle_http max msgs sc a in
  ((Zlen (body_upto msgs) > max)%Z -> rr_called r = 0%nat /\ rr_sends r = [SStart 400 []; SBody [] false]) /\
  ((Zlen (body_upto msgs) <= max)%Z -> build_environ sc <> None -> rr_called r = 1%nat).
Proof. exact limit_exact. Qed.
Theorem C17_called_once : forall a, rr_called (run_app a) = 1%nat.
Proof. exact called_once. Qed.
(* wsgi.input holds exactly the request body: a client that leaves before the body is complete (http.disconnect in
   place of a body message) does not get the application called with the part that had arrived (finding F59). *)
Theorem C17_disconnect_not_served : forall max msgs sc a, leaves msgs = true -> rr_called (handle_http max msgs sc a) = 0%nat.
Proof. exact disconnect_not_served. Qed.
Print Assumptions C17_disconnect_not_served.
Print Assumptions C17_limit.
Print Assumptions C17_called_once.

(* environ: path split by root_path, never-empty PATH_INFO, method, query, protocol ... *)
Theorem C17_environ_path : forall sc e port, build_environ sc = Some (e, port) ->
  exists rest, ws_path sc = ws_root sc ++ rest /\
    env_get (B "SCRIPT_NAME") e = Some (utf8 (ws_root sc)) /\
    env_get (B "PATH_INFO") e = Some (utf8 (match rest with [] => B "/" | _ => rest end)) /\
    env_get (B "REQUEST_METHOD") e = Some (ws_method sc) /\
    env_get (B "QUERY_STRING") e = Some (ws_query sc) /\
    env_get (B "SERVER_PROTOCOL") e = Some (B "HTTP/" ++ ws_version sc).
Proof. exact environ_path_split. Qed.
(* ... and every header as CONTENT_* / HTTP_*, repeated ones comma-joined in arrival order. *)
Theorem C17_environ_headers : forall sc e port K,
  build_environ sc = Some (e, port) -> ~ In K base_keys ->
  env_get K e = match matching K (ws_headers sc) with [] => None | l => Some (join1 44 l) end.
Proof. exact environ_headers. Qed.
Print Assumptions C17_environ_path.
Print Assumptions C17_environ_headers.

(* status, headers and iterated body reach the ASGI side unchanged, start_response eager or lazy *)
Theorem C17_passthrough_eager : forall s hs chunks close,
  run_app {| wa_call := [CStart s hs]; wa_iter := map IYield chunks; wa_has_close := close |} =
  {| rr_sends := expected_sends s hs chunks; rr_closes := if close then 1 else 0; rr_raised := false; rr_called := 1 |}.
Proof. exact passthrough_eager. Qed.
Theorem C17_passthrough_lazy : forall s hs chunks close,
  run_app {| wa_call := []; wa_iter := IStart s hs :: map IYield chunks; wa_has_close := close |} =
  {| rr_sends := expected_sends s hs chunks; rr_closes := if close then 1 else 0; rr_raised := false; rr_called := 1 |}.
Proof. exact passthrough_lazy. Qed.
(* close() exactly once whenever the application returned an iterable, even on error *)
Theorem C17_close_once : forall a st,
  run_call (wa_call a) None = Some st -> rr_closes (run_app a) = if wa_has_close a then 1%nat else 0%nat.
Proof. exact close_once. Qed.
Print Assumptions C17_passthrough_eager.
Print Assumptions C17_passthrough_lazy.
Print Assumptions C17_close_once.

Example C17_nonvacuous :
  rr_sends (run_app {| wa_call := []; wa_iter := [IStart 201 [(B "X-A", B "1")]; IYield (B "ab"); IRaise]; wa_has_close := true |})
    = [SStart 201 [(B "x-a", B "1")]; SBody (B "ab") true]
  /\ rr_closes (run_app {| wa_call := []; wa_iter := [IYield (B "ab")]; wa_has_close := true |}) = 1%nat
  /\ accumulate 3 [] [Some (B "ab", true); Some (B "cd", false)] = TooLarge
  /\ accumulate 4 [] [Some (B "ab", true); Some (B "cd", false)] = Complete (B "abcd")
  /\ accumulate 4 [] [Some (B "ab", true); None] = Gone /\ leaves [Some (B "ab", true); None] = true.
Proof. vm_compute. repeat split. Qed.
