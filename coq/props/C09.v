(* C09  HTTP/2 flow control is respected and multiplexed delivery is live and ordered. *)
From Coq Require Import ZArith NArith List Bool Lia.
From HV Require Import gen.Consts_gen model.H2Send proofs.H2Send_proofs.
Import ListNotations.
Open Scope Z_scope.

(* Every frame the server writes, along every interleaving of the application tasks, the send
   task and the reader (WINDOW_UPDATE, SETTINGS, RST_STREAM, EOF): a DATA frame is non-empty, fits
   the stream window, the connection window and the maximum frame size as they stand when it is
   written, and carries the front of the stream's buffer. *)
Theorem C09_flow_control_respected : forall ls t, frames_ok_along t ls.
Proof. exact flow_control_respected. Qed.
Theorem C09_connection_window_never_overdrawn : forall ls t,
  Forall credit_ok ls -> 0 <= cwin t -> 0 <= cwin (run t ls).
Proof. exact connection_window_never_overdrawn. Qed.
Print Assumptions C09_flow_control_respected.
Print Assumptions C09_connection_window_never_overdrawn.

(* In order, complete, one END_STREAM, nothing after it. *)
Theorem C09_delivered_in_order : forall cw mf iw0 ls s,
  let t := run (init cw mf iw0) ls in
  s_forced (strms t s) = false ->
  s_pushed (strms t s) = (sent_on s (out t) ++ b_data (s_buf (strms t s)))%list.
Proof. exact delivered_in_order. Qed.
Theorem C09_end_stream_at_most_once : forall cw mf iw0 ls s,
  (ends_on s (out (run (init cw mf iw0) ls)) <= 1)%nat.
Proof. exact end_stream_at_most_once. Qed.
Theorem C09_end_stream_means_complete : forall cw mf iw0 ls s,
  let t := run (init cw mf iw0) ls in
  (1 <= ends_on s (out t))%nat -> s_forced (strms t s) = false /\ s_pushed (strms t s) = sent_on s (out t).
Proof. exact end_stream_means_complete. Qed.
Theorem C09_nothing_after_end_stream : forall ls' t s,
  SInv t -> (1 <= ends_on s (out t))%nat ->
  sent_on s (out (run t ls')) = sent_on s (out t) /\ ends_on s (out (run t ls')) = ends_on s (out t).
Proof. exact ended_is_final. Qed.
Theorem C09_reachable_states_satisfy_SInv : forall cw mf iw0 ls, SInv (run (init cw mf iw0) ls).
Proof. exact SInv_reach. Qed.
Print Assumptions C09_delivered_in_order.
Print Assumptions C09_end_stream_at_most_once.
Print Assumptions C09_end_stream_means_complete.
Print Assumptions C09_nothing_after_end_stream.

(* Live and quiescent: the send task sleeps only when no stream has anything that can be written
   (so data goes out as soon as the windows permit, given a fair scheduler); a stream that has data
   and window is served by the iteration that picks it whatever the state of the other streams;
   steps on one stream do not touch the others; and the send task cannot spin: every iteration that
   finds a stream decreases a non-negative measure. *)
Theorem C09_asleep_only_when_nothing_to_send : forall cw mf iw0, 0 < mf -> forall ls s,
  let t := run (init cw mf iw0) ls in
  task t = TWaiting -> has_data t = false -> sendable (closed t) (cwin t) (strms t s) = false.
Proof. exact asleep_only_when_nothing_to_send. Qed.
Theorem C09_eligible_stream_is_served : forall t k,
  task t = TTop -> closed t = false -> eligible (strms t k) = true ->
  s_inbufs (strms t k) = true -> s_h2open (strms t k) = true ->
  b_data (s_buf (strms t k)) <> [] -> 0 < s_win (strms t k) -> 0 < cwin t -> 0 < maxf t ->
  exists d rest, d <> [] /\ out (send_iter t (Some k)) = (out t ++ FData k d :: rest)%list.
Proof. exact eligible_stream_is_served. Qed.
Theorem C09_other_streams_untouched : forall t l k, ~ touches l k -> strms (step t l) k = strms t k.
Proof. exact other_streams_untouched. Qed.
Theorem C09_send_task_cannot_spin : forall t s,
  SInv t -> WInv t -> task t = TTop -> closed t = false -> eligible (strms t s) = true ->
  0 <= measure (strms (send_iter t (Some s))) (ids (send_iter t (Some s))) < measure (strms t) (ids t).
Proof. intros. split; [apply measure_nonneg | apply send_iteration_decreases; assumption]. Qed.
Theorem C09_reachable_states_satisfy_WInv : forall cw mf iw0 ls, 0 < mf -> WInv (run (init cw mf iw0) ls).
Proof. intros. apply WInv_run; [apply SInv_init | apply WInv_init; assumption]. Qed.
Print Assumptions C09_asleep_only_when_nothing_to_send.
Print Assumptions C09_eligible_stream_is_served.
Print Assumptions C09_other_streams_untouched.
Print Assumptions C09_send_task_cannot_spin.

Example C09_nonvacuous :
  s_pc (strms demo 1) = PWaitPaused /\ zlen (b_data (s_buf (strms demo 1))) = 80000 /\
  b_paused (s_buf (strms demo 1)) = false /\ sent_on 1 (out demo) = List.repeat 7%N 10.
Proof. exact demo_parked. Qed.
