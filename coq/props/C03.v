(* C03  Exactly-once disconnect and access record; sends after close are no-ops. *)
From Coq Require Import String Ascii ZArith NArith List Bool Lia.
From HV Require Import lib.Bytes lib.Obs lib.Monad model.Asgi model.GuardTypes model.HttpStream model.WsStream model.StreamRig
     proofs.Stream_proofs proofs.WsStream_proofs.
Import ListNotations.
Open Scope N_scope.

(* HTTP streams.  For every sequence of application messages (valid or not, including the end of the
   application), request-body events and closure events, in any order: the access records written
   plus the one already due add up to exactly the one due at the end; likewise the disconnect
   messages.  [logged st closed] = 1 iff the response completed or the stream was told it is closed. *)
Theorem C03_http_once : forall names ssl is r sc0,
  quiet r -> hs_scope (rg_stream r) = Some sc0 -> drives_ok is ->
  hs_has_app (rg_stream r) = true -> answerable (rg_stream r) -> no_early_trailers (the_cfg names ssl) r is ->
  (logs (run_outs (the_cfg names ssl) r is) + logged (hs_state (rg_stream r)) (hs_closed (rg_stream r))
   = logged (hs_state (rg_stream (run_state (the_cfg names ssl) r is))) (hs_closed (rg_stream (run_state (the_cfg names ssl) r is))))%nat /\
  (discs (run_outs (the_cfg names ssl) r is) + b2n (hs_closed (rg_stream r))
   = b2n (hs_closed (rg_stream (run_state (the_cfg names ssl) r is))))%nat.
Proof. exact closure_once_from. Qed.
Theorem C03_http_at_most_once : forall names ssl is r sc0,
  quiet r -> hs_scope (rg_stream r) = Some sc0 -> drives_ok is ->
  hs_has_app (rg_stream r) = true -> answerable (rg_stream r) -> no_early_trailers (the_cfg names ssl) r is ->
  (logs (run_outs (the_cfg names ssl) r is) + logged (hs_state (rg_stream r)) (hs_closed (rg_stream r)) <= 1)%nat /\
  (discs (run_outs (the_cfg names ssl) r is) + b2n (hs_closed (rg_stream r)) <= 1)%nat.
Proof. exact access_at_most_once. Qed.
Print Assumptions C03_http_once.
Print Assumptions C03_http_at_most_once.

(* Nothing is delivered after the disconnect: once the stream is closed, events are dropped ... *)
Theorem C03_http_closed_is_silent : forall names ssl id has_app has_resp status tr ws ver meth scheme spath raw query rhs x1 x2 x3 subs ev st,
  rig_step (the_cfg names ssl) (IHandle ev)
    (mk id true has_app has_resp status tr ws ver meth scheme spath raw query rhs x1 x2 x3 subs st)
  = (mk id true has_app has_resp status tr ws ver meth scheme spath raw query rhs x1 x2 x3 subs st, [], Ok tt).
Proof. intros. apply step_closed_silent. reflexivity. Qed.
(* ... and the closure itself delivers the disconnect last; a message sent by the application after
   closure either is accepted (no exception) or is rejected with nothing sent at all, and delivers
   nothing to the application's queue but its own disconnect. *)
Theorem C03_http_step_after_closure : forall names ssl id has_app has_resp status tr ws ver meth scheme spath raw query rhs x1 x2 x3 subs st m,
  has_app = true -> (st = HRequest \/ st = HClosed \/ has_resp = true) -> ~ early_trailers st m ->
  let '(r', o, res) := rig_step (the_cfg names ssl) (IAppSend m)
                         (mk id true has_app has_resp status tr ws ver meth scheme spath raw query rhs x1 x2 x3 subs st) in
  puts_of o = discs o /\ discs o = 0%nat /\ (res = Ok tt \/ exists e, res = Raise e /\ o = []).
Proof.
  intros names ssl id has_app has_resp status tr ws ver meth scheme spath raw query rhs x1 x2 x3 subs st m HA HR NE.
  pose proof (step_closure_app names ssl id true has_app has_resp status tr ws ver meth scheme spath raw query rhs x1 x2 x3 subs st m HA HR NE) as H.
  destruct (rig_step _ _ _) as [[r' o] res]. destruct H as (_ & D & P & R & _).
  split; [exact P|]. split; [|apply R; reflexivity].
  unfold b2n in D. destruct (hs_closed (rg_stream r')); lia.
Qed.
Print Assumptions C03_http_closed_is_silent.
Print Assumptions C03_http_step_after_closure.

(* WebSocket streams: closure delivers one disconnect with the close code, a second closure nothing. *)
Theorem C03_ws_disconnect_once : forall (r : wrig),
  ws_closed (wg_stream r) = true -> ws_stream_closed wrig_get wrig_set r = (r, [], Ok tt).
Proof. exact disconnect_once. Qed.
Print Assumptions C03_ws_disconnect_once.

Example C03_nonvacuous :
  (* the client goes away mid-response, the application completes its response afterwards: one record *)
  let r0 := mk 1 false true true 200 false false (B "1.1") (B "GET") (B "http") (B "/") (B "/") [] [] false false false [] HResponse in
  let is := [IHandle EvStreamClosed; IAppSend (Some (MBody (HB (B "x")) false)); IAppSend None] in
  logs (run_outs (the_cfg [] false) r0 is) = 1%nat /\ discs (run_outs (the_cfg [] false) r0 is) = 1%nat
  /\ no_early_trailers (the_cfg [] false) r0 is.
Proof. vm_compute. repeat split; intros []. Qed.
