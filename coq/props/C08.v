(* C08  Send backpressure is applied, bounded, and always released (the HTTP/2 part; the
   transport-level part is covered by the end-to-end oracle of harness/c08.py). *)
From Coq Require Import ZArith NArith List Bool Lia.
From HV Require Import gen.Consts_gen model.H2Send proofs.H2Send_proofs.
Import ListNotations.
Open Scope Z_scope.

(* Applied and bounded: along every interleaving, whatever credit the client grants or withholds,
   a stream's buffer stays below HIGH + 2m, m the largest body message of the application --
   independent of the size of the response. *)
Theorem C08_buffer_bounded : forall m, 0 <= m -> forall cw mf iw0 ls k,
  Forall (label_ok m) ls ->
  zlen (b_data (s_buf (strms (run (init cw mf iw0) ls) k))) < HIGH + 2 * m.
Proof. exact buffer_bounded. Qed.
Theorem C08_high_water_mark : HIGH = 32768 /\ LOW = 16384.
Proof. vm_compute. split; reflexivity. Qed.
Print Assumptions C08_buffer_bounded.

(* Always released: no sender is left waiting on a stream that can no longer send (reset by
   either side, ended) nor once the connection is closed. *)
Theorem C08_released_when_stream_closed : forall cw mf iw0 ls s,
  let t := run (init cw mf iw0) ls in
  s_h2open (strms t s) = false -> not_stuck (strms t s).
Proof. exact released_when_stream_closed. Qed.
Theorem C08_released_when_connection_closed : forall cw mf iw0 ls s,
  let t := run (init cw mf iw0) ls in
  closed t = true -> not_stuck (strms t s).
Proof. exact released_when_connection_closed. Qed.
Theorem C08_send_task_woken_on_close : forall cw mf iw0, 0 < mf -> forall ls,
  let t := run (init cw mf iw0) ls in
  closed t = true -> task t = TWaiting -> has_data t = true.
Proof. exact send_task_woken_on_close. Qed.
Print Assumptions C08_released_when_stream_closed.
Print Assumptions C08_released_when_connection_closed.
Print Assumptions C08_send_task_woken_on_close.

(* A waiting send blocks no other stream: the stalled stream's steps leave the others' state
   alone, and a stream with data and window is served regardless. *)
Theorem C08_other_streams_untouched : forall t l k, ~ touches l k -> strms (step t l) k = strms t k.
Proof. exact other_streams_untouched. Qed.
Theorem C08_sibling_is_served : forall t k,
  task t = TTop -> closed t = false -> eligible (strms t k) = true ->
  s_inbufs (strms t k) = true -> s_h2open (strms t k) = true ->
  b_data (s_buf (strms t k)) <> [] -> 0 < s_win (strms t k) -> 0 < cwin t -> 0 < maxf t ->
  exists d rest, d <> [] /\ out (send_iter t (Some k)) = (out t ++ FData k d :: rest)%list.
Proof. exact eligible_stream_is_served. Qed.
(* When the pressure abates the waiting send returns: once the buffer has drained below the
   low-water mark the sender is runnable (pop sets the event the sender waits on). *)
Theorem C08_pop_below_low_water_releases : forall b n,
  zlen (b_data (snd (sb_pop b n))) < LOW -> b_paused (snd (sb_pop b n)) = true.
Proof. intros b n H. rewrite pop_paused. apply orb_true_iff. right. apply Z.ltb_lt. exact H. Qed.
Theorem C08_pop_to_empty_releases_drain : forall b n,
  b_data (snd (sb_pop b n)) = [] -> b_is_empty (snd (sb_pop b n)) = true.
Proof. intros b n H. rewrite pop_is_empty, H. apply orb_true_r. Qed.
Print Assumptions C08_other_streams_untouched.
Print Assumptions C08_sibling_is_served.
Print Assumptions C08_pop_below_low_water_releases.

Example C08_nonvacuous :
  (let t := run demo [LClient (CReset 1); LApp 1] in
   s_pc (strms t 1) = PReady /\ b_data (s_buf (strms t 1)) = [] /\ s_forced (strms t 1) = true)
  /\ Forall (label_ok 40000) demo_labels.
Proof.
  split; [exact demo_reset_releases|].
  repeat constructor; vm_compute; discriminate.
Qed.
