(* C11  WebSocket handshake validation and lifecycle mapping. *)
From Coq Require Import String Ascii ZArith NArith List Bool Lia.
From HV Require Import lib.Bytes lib.Obs lib.Monad model.Asgi model.GuardTypes model.HttpStream model.WsStream model.StreamRig
     gen.Consts_gen gen.Guards_gen proofs.Stream_proofs proofs.WsStream_proofs.
Import ListNotations.
Open Scope N_scope.

(* The handshake is valid exactly for: HTTP/1.1 with a key, a Connection token "upgrade" (any
   case), Upgrade: websocket (any case) and version 13; or a newer HTTP version (extended CONNECT)
   with version 13.  HTTP/1.0 never. *)
Theorem C11_valid_iff : forall h, hk_upgrade h <> None ->
  (is_valid h = Ok true <->
   (hk_http_version h = B "1.1" /\ hk_key h <> None /\
    (exists toks, hk_tokens h = Some toks /\ has_upgrade_token toks = true) /\
    (exists u, hk_upgrade h = Some u /\ lower u = B "websocket") /\ hk_wsversion h = Some (B "13"))
   \/ (bytes_ltb (hk_http_version h) (B "1.1") = false /\ hk_http_version h <> B "1.1" /\ hk_wsversion h = Some (B "13"))).
Proof. exact is_valid_iff. Qed.
Theorem C11_http10_never : forall h, hk_http_version h = B "1.0" -> is_valid h = Ok false.
Proof. exact http10_never_valid. Qed.
Print Assumptions C11_valid_iff.

(* What a request leads to: 404 / 400 without any application, or exactly one application whose
   first message is websocket.connect. *)
Theorem C11_request_outcome : forall names ssl maxm ping id token ext sends hs version raw_path,
  let '(r', o, res) := wrig_step (the_wcfg names ssl maxm ping) (WIHandle (WRequest hs version raw_path)) (new_wrig id token ext sends [] true) in
  match new_handshake hs version with
  | Raise e => o = [] /\ res = Raise e
  | Ok hk =>
      if negb (is_ascii (fst (fst (partition1 63 raw_path)))) then o = [] /\ res = Raise EUnicodeDecode
      else if negb (valid_server_name (the_cfg names ssl) hs) then
        o = [OSend id (EvResponse 404 [(B "content-length", B "0"); (B "connection", B "close")]); OSend id EvEndBody; OLogAccess (Some 404%Z)]
        /\ ws_closed (wg_stream r') = true /\ ws_has_app (wg_stream r') = false
      else match is_valid hk with
           | Raise e => o = [] /\ res = Raise e
           | Ok false =>
               o = [OSend id (EvResponse 400 [(B "content-length", B "0"); (B "connection", B "close")]); OSend id EvEndBody; OLogAccess (Some 400%Z)]
               /\ ws_closed (wg_stream r') = true /\ ws_has_app (wg_stream r') = false
           | Ok true =>
               exists sc, o = [OSpawn id sc; OPut id RWsConnect] /\ res = Ok tt /\ ws_has_app (wg_stream r') = true
                          /\ sc_subprotocols sc = match hk_subs hk with Some l => l | None => [] end
           end
  end.
Proof. intros. apply ws_request_outcome. Qed.
Print Assumptions C11_request_outcome.

(* accept is rendered faithfully: 101 on HTTP/1.1 and 200 otherwise, the accept token iff a key was
   sent, a subprotocol only if the client offered it, the extra headers appended in order, and no
   extra header may be a pseudo header or (in any case) sec-websocket-protocol *)
Theorem C11_accept_faithful : forall h token ext sub extra st hs,
  hk_accept h token ext sub extra = Ok (st, hs) ->
  st = (if beqb (hk_http_version h) (B "1.1") then 101 else 200)%Z /\
  (forall sp, sub = Some sp -> exists subs, hk_subs h = Some subs /\ existsb (beqb sp) subs = true) /\
  hs = ((match sub with Some sp => [(B "sec-websocket-protocol", sp)] | None => [] end)
       ++ (match hk_exts h, ext with Some _, Some (c :: a) => [(B "sec-websocket-extensions", c :: a)] | _, _ => [] end)
       ++ (match hk_key h with Some _ => [(B "sec-websocket-accept", token)] | None => [] end)
       ++ (if beqb (hk_http_version h) (B "1.1") then [(B "upgrade", B "WebSocket"); (B "connection", B "Upgrade")] else [])
       ++ extra)%list /\
  forallb (fun x => negb (beqb (lower (fst x)) (B "sec-websocket-protocol")) && negb (starts_with (B ":") (fst x))) extra = true.
Proof. exact accept_faithful. Qed.
Theorem C11_unoffered_subprotocol_refused : forall h token ext sp extra,
  (match hk_subs h with Some subs => existsb (beqb sp) subs | None => false end) = false ->
  hk_accept h token ext (Some sp) extra = Raise EException.
Proof. exact accept_unoffered_refused. Qed.
Print Assumptions C11_accept_faithful.

(* the disconnect code tells what happened, and there is exactly one disconnect *)
Theorem C11_disconnect_code : forall r : wrig,
  ws_closed (wg_stream r) = false -> ws_has_app (wg_stream r) = true ->
  let '(r', o, res) := ws_stream_closed wrig_get wrig_set r in
  o = [OPut (ws_id (wg_stream r))
            (RWsDisconnect (if ws_idle (wg_stream r) then 1000
                            else match ws_close_code (wg_stream r) with Some c => c | None => 1006 end)%Z)]
  /\ ws_closed (wg_stream r') = true.
Proof. exact disconnect_code. Qed.
Theorem C11_disconnect_once : forall r : wrig,
  ws_closed (wg_stream r) = true -> ws_stream_closed wrig_get wrig_set r = (r, [], Ok tt).
Proof. exact disconnect_once. Qed.
Print Assumptions C11_disconnect_code.

Example C11_nonvacuous :
  (exists h, new_handshake [(B "Connection", B "keep-alive, Upgrade"); (B "upgrade", B "WebSocket");
                             (B "sec-websocket-key", B "k"); (B "sec-websocket-version", B "13")] (B "1.1") = Ok h
             /\ is_valid h = Ok true)
  /\ (exists h, new_handshake [(B "connection", B "upgrade"); (B "upgrade", B "websocket");
                                (B "sec-websocket-key", B "k"); (B "sec-websocket-version", B "8")] (B "1.1") = Ok h
                /\ is_valid h = Ok false).
Proof. split; eexists; split; vm_compute; reflexivity. Qed.
