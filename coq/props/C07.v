(* C07  Idle connections time out, busy ones do not, dead ones are released (the timer logic of
   TCPServer, identical in both workers; which events the protocols send is established for
   HTTP/1 by the H11Proto theorems of C06/C18 and end to end for the rest). *)
From Coq Require Import ZArith List Bool Lia.
From HV Require Import model.IdleTimer proofs.IdleTimer_proofs.
Import ListNotations.
Open Scope Z_scope.

(* idle for keep_alive_timeout: closed at exactly that instant, not earlier *)
Theorem C07_armed_for_exactly_T : forall T s now,
  closed_at (fire s now) = None -> finished (fire s now) = false -> terminated (fire s now) = false ->
  deadline (tstep T s (now, TArm)) = Some (now + T).
Proof. exact arm_sets_deadline. Qed.
Theorem C07_expiry_exact : forall s d later,
  closed_at s = None -> deadline s = Some d -> d <= later -> closed_at (fire s later) = Some d.
Proof. exact expiry_exact. Qed.
Theorem C07_no_early_expiry : forall s d earlier,
  closed_at s = None -> deadline s = Some d -> earlier < d -> fire s earlier = s.
Proof. exact no_early_expiry. Qed.
(* at once when shutdown has begun *)
Theorem C07_terminate_fires_now : forall T s now d,
  closed_at (fire s now) = None -> deadline (fire s now) = Some d -> final_close (tstep T s (now, TTerminate)) = Some now.
Proof. exact terminate_fires_now. Qed.
(* never between a complete request head and the end of its response (busy disarms; unarmed stays open) *)
Theorem C07_busy_disarms : forall T s now,
  closed_at (fire s now) = None -> deadline (tstep T s (now, TBusy)) = None /\ closed_at (tstep T s (now, TBusy)) = None.
Proof. exact busy_disarms. Qed.
Theorem C07_unarmed_stays_open : forall T s now ev,
  deadline s = None -> closed_at s = None -> ev <> TClosed -> closed_at (tstep T s (now, ev)) = None.
Proof. exact unarmed_stays_open. Qed.
(* once the peer is gone the timer no longer keeps the handler *)
Theorem C07_finished_never_rearmed : forall T es s,
  finished s = true -> deadline s = None -> closed_at s = None ->
  (forall e, In e es -> snd e <> TClosed) ->
  closed_at (fold_left (tstep T) es s) = None /\ deadline (fold_left (tstep T) es s) = None.
Proof. exact finished_never_rearmed. Qed.
Theorem C07_closed_is_final : forall T es s c, closed_at s = Some c -> closed_at (fold_left (tstep T) es s) = Some c.
Proof. exact closed_is_final. Qed.
Print Assumptions C07_armed_for_exactly_T.
Print Assumptions C07_expiry_exact.
Print Assumptions C07_terminate_fires_now.
Print Assumptions C07_unarmed_stays_open.
Print Assumptions C07_finished_never_rearmed.
Print Assumptions C07_closed_is_final.

Example C07_nonvacuous :
  (* request at 0 answered at 1000, silence: closed at 6000; a request answered after 12 s keeps it open *)
  final_close (trun 5000 [(0, TArm); (0, TBusy); (1000, TArm)]) = Some 6000
  /\ final_close (trun 5000 [(0, TArm); (0, TBusy); (12000, TArm); (13000, TBusy)]) = None
  /\ final_close (trun 5000 [(0, TArm); (2000, TFinished); (2500, TArm)]) = None.
Proof. vm_compute. repeat split. Qed.
