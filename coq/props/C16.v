(* C16  Protocol behaviour does not depend on the worker class.
   The protocol layer (ProtocolWrapper, H11Protocol, H2Protocol, the streams) is one code base for
   both workers; what differs is TCPServer, TaskGroup, WorkerContext and the two EventWrapper /
   SingleTask classes.  Proved here: the two event implementations (asyncio: clear in place; trio:
   clear replaces the event object) wake the same tasks at the same operations under the discipline
   by which hypercorn uses them, and the idle-timer logic is one model for both TCPServer classes
   (props/C07.v; the correspondence check replays traces of both).  The equality of whole sessions
   is checked by differential execution of the two real workers under virtual time (harness/c16.py). *)
From Coq Require Import ZArith List Bool Lia.
From HV Require Import model.EventSem proofs.EventSem_proofs model.IdleTimer proofs.IdleTimer_proofs.
Import ListNotations.
Open Scope Z_scope.

Theorem C16_events_wake_the_same_tasks : forall os, disciplined a0 os -> arun a0 os = EventSem.trun EventSem.t0 os.
Proof. intros os D. apply same_wakeups; [apply related_init | exact D]. Qed.
Theorem C16_from_related_states : forall os a t, related a t -> disciplined a os -> arun a os = EventSem.trun t os.
Proof. exact same_wakeups. Qed.
(* the discipline is needed: a clear() while a task waits loses that task's wake-up on trio only *)
Theorem C16_discipline_is_needed :
  arun a0 [OWait 1; OClear; OSet] = [[]; []; [1]] /\ EventSem.trun EventSem.t0 [OWait 1; OClear; OSet] = [[]; []; []].
Proof. exact undisciplined_differs. Qed.
Print Assumptions C16_events_wake_the_same_tasks.
Print Assumptions C16_from_related_states.

Example C16_nonvacuous :
  (* the send task's use of has_data: wait, be woken by set, clear, wait again *)
  disciplined a0 [OWait 7; OSet; OClear; OWait 7; OSet; OSet; OClear; OSet; OWait 7]
  /\ arun a0 [OWait 7; OSet; OClear; OWait 7; OSet; OSet; OClear; OSet; OWait 7] = [[]; [7]; []; []; [7]; []; []; []; [7]].
Proof. vm_compute. repeat split. Qed.
