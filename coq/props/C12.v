(* C12  Invalid application messages are rejected without corrupting the wire. *)
From Coq Require Import String Ascii ZArith NArith List Bool Lia.
From HV Require Import lib.Bytes lib.Obs lib.Monad model.Asgi model.GuardTypes model.HttpStream model.WsStream model.StreamRig
     model.AsgiSpec gen.Consts_gen gen.Guards_gen proofs.Stream_proofs proofs.WsStream_proofs.
Import ListNotations.
Open Scope N_scope.

(* HTTP: whatever state the request is in, a message the reference automaton of the ASGI
   specification rejects raises into the application and emits nothing towards the protocol
   -- except in the three listed places (known findings: trailers before start, push after
   completion, trailers not examined without te: trailers).  The guard ladder of
   HTTPStream.app_send and the version sets are the tables generated from the source on this run. *)
Theorem C12_http_invalid_rejected_partial : forall names ssl r m sc0,
  quiet r -> hs_scope (rg_stream r) = Some sc0 ->
  spec_step (exts_of (rg_stream r)) (abs_state (rg_stream r)) m = None ->
  deviation (rg_stream r) m = false -> no_int0 m ->
  let '(r', o, res) := rig_step (the_cfg names ssl) (IAppSend (Some m)) r in
  o = [] /\ exists e, res = Raise e.
Proof. exact invalid_rejected. Qed.
Print Assumptions C12_http_invalid_rejected_partial.

(* The full statement (without the deviation guard) is false of the faithful model: *)
Definition d1_witness : rig :=
  {| rg_stream := {| hs_id := 1; hs_closed := false; hs_state := HRequest;
                     hs_scope := Some {| sc_ws := false; sc_version := B "2"; sc_method := B "GET"; sc_scheme := B "https";
                                         sc_path := B "/"; sc_raw_path := B "/"; sc_query := []; sc_headers := [(B "te", B "trailers")];
                                         sc_ext_trailers := true; sc_ext_push := true; sc_ext_hint := true; sc_subprotocols := [] |};
                     hs_has_app := true; hs_has_response := false; hs_status := 0; hs_resp_trailers := false |};
     rg_reacts := []; rg_auto_close := true |}.
Theorem C12_http_invalid_rejected_refuted :
  exists m, spec_step (exts_of (rg_stream d1_witness)) (abs_state (rg_stream d1_witness)) m = None /\
            let '(_, o, res) := rig_step (the_cfg [] false) (IAppSend (Some m)) d1_witness in o <> [] /\ res = Ok tt.
Proof.
  exists (MTrailers [(HB (B "x-t"), HB (B "1"))] false). split; [reflexivity|].
  vm_compute. split; [discriminate|reflexivity].
Qed.

(* WebSocket: the same, for the websocket.* alphabet. *)
Theorem C12_ws_invalid_rejected_partial : forall names ssl maxm ping id has_app hk has_conn buf cc resp token ext sends st m,
  let r := wmk id has_app hk has_conn buf cc resp token ext sends st in
  ws_spec_step (ws_abs (wg_stream r)) m = None -> ws_deviation (wg_stream r) m = false -> ws_typed m ->
  let '(r', o, res) := wrig_step (the_wcfg names ssl maxm ping) (WIAppSend (Some m)) r in
  o = [] /\ exists e, res = Raise e.
Proof. intros. apply ws_invalid_rejected; assumption. Qed.
Print Assumptions C12_ws_invalid_rejected_partial.

(* At most one final response head per request, for every sequence of application messages,
   request-body events and closure events. *)
Theorem C12_one_final_head : forall names ssl is r sc0,
  quiet r -> hs_scope (rg_stream r) = Some sc0 -> drives_ok is ->
  (finals (run_outs (the_cfg names ssl) r is) <= 1)%nat.
Proof. exact one_final_head. Qed.
Print Assumptions C12_one_final_head.

(* CR, LF and NUL never pass header validation; every header name and value of every response,
   informational response, trailers and push event the stream emits has passed it. *)
Theorem C12_no_ctl_in_validated_headers : forall hs l,
  validate_headers hs = Ok l -> Forall (fun h => has_ctl (fst h) = false /\ has_ctl (snd h) = false) l.
Proof. exact validate_headers_clean. Qed.
(* ... nor is any of them a pseudo header: no name that reaches the wire begins with a colon, whatever white space the
   application put around it (finding F67: " :status" used to pass the check and be stripped to ":status") *)
Theorem C12_no_pseudo_header_reaches_the_wire : forall hs l,
  validate_headers hs = Ok l -> Forall (fun h => starts_colon (fst h) = false) l.
Proof. exact validate_headers_no_pseudo. Qed.
Print Assumptions C12_no_pseudo_header_reaches_the_wire.
Print Assumptions C12_no_ctl_in_validated_headers.

(* Converse: every run the reference automaton accepts (with byte-string bodies) is accepted. *)
Theorem C12_valid_accepted : forall names ssl ms r sc0 s',
  quiet r -> hs_scope (rg_stream r) = Some sc0 -> wf_stream (rg_stream r) ->
  spec_run (exts_of (rg_stream r)) (abs_state (rg_stream r)) ms = Some s' -> Forall body_typed ms ->
  let '(l, rf) := run_results (the_cfg names ssl) r ms in
  Forall (fun x => x = Ok tt) l /\ abs_state (rg_stream rf) = s'.
Proof. exact valid_run_accepted. Qed.
Print Assumptions C12_valid_accepted.

Example C12_nonvacuous :
  quiet d1_witness /\ wf_stream (rg_stream d1_witness) /\
  spec_run (exts_of (rg_stream d1_witness)) SReq
           [MStart (Some 200%Z) [(HB (B "x-a"), HB (B "1"))] true; MBody (HB (B "hi")) false; MTrailers [(HB (B "x-t"), HB (B "v"))] false]
  = Some SDone.
Proof. repeat split; try reflexivity. intro H. exfalso. apply H. reflexivity. Qed.
