(* C10  WebSocket message fidelity and message-size limit. *)
From Coq Require Import String Ascii ZArith NArith List Bool Lia.
From HV Require Import lib.Bytes lib.Obs lib.Monad model.Asgi model.GuardTypes model.HttpStream model.WsStream model.StreamRig
     gen.Consts_gen gen.Guards_gen proofs.Stream_proofs proofs.WsStream_proofs.
Import ListNotations.
Open Scope N_scope.

(* Reassembly, as a pure function of the received event sequence: for every message sequence and
   every fragmentation, with pings between fragments, each complete message is delivered exactly
   once, in order, with its type and payload ... *)
Theorem C10_reassembly : forall msgs : list (bool * list fragment),
  Forall (fun m => snd m <> []) msgs ->
  deliveries wb_empty (flat_map msg_events msgs) = map (fun m => RWsReceive (fst m) (payload m)) msgs.
Proof. exact reassembly. Qed.
(* ... every ping is answered by a pong with the same payload, in order ... *)
Theorem C10_ping_pong : forall msgs : list (bool * list fragment),
  ping_payloads (flat_map msg_events msgs) = concat (map msg_pings msgs).
Proof. exact pings_answered. Qed.
(* ... and the stream automaton (any number of batches = network reads) realises that function as
   long as no message exceeds websocket_max_message_size. *)
Theorem C10_stream_delivers : forall names ssl maxm ping evs id closed st hk buf cc resp token ext sends auto,
  fits maxm buf evs = true ->
  exists sends' o,
    ws_handle_events (the_wcfg names ssl maxm ping) wrig_get wrig_set wrig_psend evs (rdy id closed st hk buf cc resp token ext sends auto) =
    (rdy id closed st hk (final_buf buf evs) cc resp token ext sends' auto, o, Ok tt)
    /\ puts o = deliveries buf evs /\ pongs o = ping_payloads evs.
Proof. exact handle_events_fit. Qed.
Theorem C10_within_limit_fits : forall max (msgs : list (bool * list fragment)),
  Forall (fun m => snd m <> [] /\ (Zlen (payload m) <= max)%Z) msgs ->
  fits max wb_empty (flat_map msg_events msgs) = true.
Proof. exact within_limit_fits. Qed.
Print Assumptions C10_reassembly.
Print Assumptions C10_ping_pong.
Print Assumptions C10_stream_delivers.
Print Assumptions C10_within_limit_fits.

(* The limit: the fragment that makes the accumulated size (bytes, or code points for text)
   exceed the limit is answered with close code 1009 and not delivered ... *)
Theorem C10_limit_close_1009 : forall names ssl maxm ping id closed st hk bs bt bd bl cc resp token ext sends auto t d fin,
  (bl <= maxm)%Z -> (bl + Zlen d > maxm)%Z ->
  exists sends' o,
    ws_one_event (the_wcfg names ssl maxm ping) wrig_get wrig_set wrig_psend (WMessage t d fin)
      (rdy id closed st hk {| wb_started := bs; wb_text := bt; wb_data := bd; wb_length := bl |} cc resp token ext sends auto) =
    (rdy id closed st hk (extend {| wb_started := bs; wb_text := bt; wb_data := bd; wb_length := bl |} t d) cc resp token ext sends' auto,
     OLib [VS "ws.send"; VS "close"; VZ 1009; vnone] :: o, Ok true)
    /\ receives o = [].
Proof. exact crossing_the_limit. Qed.
(* ... and nothing is delivered afterwards, whatever follows (the buffer is never reset). *)
Theorem C10_nothing_after_limit : forall names ssl maxm ping evs id closed st hk bs bt bd bl cc resp token ext sends auto,
  (bl > maxm)%Z ->
  exists closed' bs' bt' bd' bl' cc' sends' o res,
    ws_handle_events (the_wcfg names ssl maxm ping) wrig_get wrig_set wrig_psend evs
      (rdy id closed st hk {| wb_started := bs; wb_text := bt; wb_data := bd; wb_length := bl |} cc resp token ext sends auto) =
    (rdy id closed' st hk {| wb_started := bs'; wb_text := bt'; wb_data := bd'; wb_length := bl' |} cc' resp token ext sends' auto, o, res)
    /\ receives o = [] /\ (bl' > maxm)%Z.
Proof. exact overflow_no_delivery. Qed.
Print Assumptions C10_limit_close_1009.
Print Assumptions C10_nothing_after_limit.

Example C10_nonvacuous :
  deliveries wb_empty (flat_map msg_events [(true, [([], B "ab"); ([B "p"], B "c")]); (false, [([], B "xyz")])])
  = [RWsReceive true (B "abc"); RWsReceive false (B "xyz")]
  /\ fits 3 wb_empty (flat_map msg_events [(true, [([], B "ab"); ([B "p"], B "c")])]) = true
  /\ fits 2 wb_empty (flat_map msg_events [(true, [([], B "ab"); ([B "p"], B "c")])]) = false.
Proof. vm_compute. repeat split. Qed.
