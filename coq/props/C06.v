(* C06  HTTP/1.x persistent-connection and pipelining safety. *)
From Coq Require Import String Ascii ZArith NArith List Bool Lia.
From HV Require Import lib.Bytes lib.Obs lib.Monad model.Asgi model.AsgiSpec model.GuardTypes model.HttpStream model.WsStream model.StreamRig
     model.LibH11 model.H11Proto model.WorkerCtx gen.Consts_gen gen.Guards_gen
     proofs.Stream_proofs proofs.LibH11_proofs proofs.H11_proofs proofs.WorkerCtx_proofs proofs.Serial_proofs proofs.Capped_proofs proofs.Closing_proofs.
Import ListNotations.
Open Scope N_scope.

(* A new request is parsed only when h11 has restarted its cycle (their side IDLE), and parsing it
   leaves IDLE: requests are taken strictly one at a time. *)
Theorem C06_request_only_from_idle : forall l method target hs version,
  recv_possible l (HRequest method target hs version) = true ->
  their_state l = IDLE /\ is_idle (their_state (recv l (HRequest method target hs version))) = false.
Proof. exact recv_request_facts. Qed.
(* Nothing but start_next_cycle brings a side back to IDLE: not events, not errors, not sends. *)
Theorem C06_no_new_idle_by_events : forall c role k sw, chk_event c role k sw = true.
Proof. exact chk_event_holds. Qed.
Theorem C06_no_new_idle_by_send : forall l e ok,
  is_idle (their_state (fst (LibH11.send l e ok))) = true -> is_idle (their_state l) = true.
Proof. exact send_no_new_idle. Qed.
(* The cycle restarts only when both messages are complete ... *)
Theorem C06_cycle_needs_both_done : forall l l',
  next_cycle l = Some l' -> our_state l = DONE /\ their_state l = DONE /\ our_state l' = IDLE /\ their_state l' = IDLE.
Proof. exact next_cycle_requires_done. Qed.
(* ... and never once keep-alive is off (HTTP/1.0, Connection: close on either side). *)
Theorem C06_no_reuse_without_keep_alive : forall c, chk_keep_alive c = true.
Proof. exact chk_keep_alive_holds. Qed.
Print Assumptions C06_request_only_from_idle.
Print Assumptions C06_no_new_idle_by_events.
Print Assumptions C06_no_new_idle_by_send.
Print Assumptions C06_no_reuse_without_keep_alive.

(* Reuse exactly if nobody asked to stop and both messages completed; otherwise close.  Either way
   a reader parked behind the request is released. *)
Theorem C06_reuse_iff : forall p,
  p_ws_mode p = false -> p_stream_live p = false -> p_writes p = [] ->
  let reusable := negb (p_terminated p) && h1state_eqb (our_state (p_lib p)) DONE && h1state_eqb (their_state (p_lib p)) DONE in
  let '(p', o, res) := maybe_recycle p in
  res = Ok tt /\ p_can_read p' = true /\
  if reusable then srvs o = [SUpdated true] /\ next_cycle (p_lib p) = Some (p_lib p')
  else srvs o = [SClosed] /\ p_lib p' = p_lib p.
Proof. exact recycle_outcome. Qed.
Print Assumptions C06_reuse_iff.

(* The close is announced: the response head of the request that reaches keep_alive_max_requests
   carries connection: close (the comparison is the one in the source). *)
Theorem C06_close_announced : forall cfg p status hs, (200 <= status)%Z ->
  hd_error (snd (fst (stream_send cfg (EvResponse status hs) p))) =
  Some (OLib (VS "h11.send" :: v_of_send (SResponse status
      (hs ++ c_server_headers cfg ++ (if (c_max_requests cfg <=? p_requests p)%Z then [(B "connection", B "close")] else []))))).
Proof. exact response_headers_sent. Qed.
Print Assumptions C06_close_announced.

(* Whole runs: the requests of a connection are served strictly one at a time.  Along every run of the protocol
   from a fresh connection - any reads, any application behaviour, any failing writes, any point of termination -
   the stream slot is never overwritten while it still holds a stream ("stream-replaced" is the ghost note the model
   emits in _create_stream when self.stream is not None), unless the event oracle breaks the parser's contract
   (an event h11's own state machine forbids in the state it is in; the correspondence check observes that the real
   h11 never does). *)
Theorem C06_one_request_at_a_time : forall cfg stream_headers ws_token ws_ext ws_sends sends writes inputs,
  let outs := concat (map fst (proto_run cfg stream_headers ws_token ws_ext ws_sends (p_init sends writes) inputs)) in
  In (ONote "h11-contract-violated") outs \/ ~ In (ONote "stream-replaced") outs.
Proof. intros. apply serial_run, Serial_init. Qed.
Print Assumptions C06_one_request_at_a_time.

(* ... and the per-connection request maximum is never exceeded on any run (the same ghost-note form). *)
Theorem C06_request_maximum_whole_run : forall cfg stream_headers ws_token ws_ext ws_sends sends writes inputs,
  let outs := concat (map fst (proto_run cfg stream_headers ws_token ws_ext ws_sends (p_init sends writes) inputs)) in
  In (ONote "h11-contract-violated") outs \/ ~ In (ONote "request-over-limit") outs.
Proof. intros. apply capped_run, Capped_init. Qed.
Print Assumptions C06_request_maximum_whole_run.

(* ... and once keep-alive is off - the client said Connection: close or spoke HTTP/1.0, or a response announced close -
   no further request is taken on, on any run ("request-after-close" is the ghost note the model emits when a Request is
   received with keep-alive already off). *)
Theorem C06_no_request_after_close : forall cfg stream_headers ws_token ws_ext ws_sends sends writes inputs,
  let outs := concat (map fst (proto_run cfg stream_headers ws_token ws_ext ws_sends (p_init sends writes) inputs)) in
  In (ONote "h11-contract-violated") outs \/ ~ In (ONote "request-after-close") outs.
Proof. intros. apply closing_run, KOff_init. Qed.
Print Assumptions C06_no_request_after_close.

Definition demo_cfg : h11cfg :=
  {| c_http := {| cfg_server_names := []; cfg_ssl := false; cfg_trailers_versions := []; cfg_push_versions := []; cfg_hint_versions := [];
                  cfg_guards := http_app_send_guards |};
     c_ws := {| wc_http := {| cfg_server_names := []; cfg_ssl := false; cfg_trailers_versions := []; cfg_push_versions := [];
                              cfg_hint_versions := []; cfg_guards := http_app_send_guards |};
                wc_max_message := 100; wc_ping_interval := false; wc_guards := ws_app_send_guards |};
     c_max_requests := 100; c_server_headers := [] |}.
Definition demo_req := RH (HRequest (B "GET") (B "/") [(B "host", B "x")] (B "1.1")).
Definition demo_outs (inputs : list (pinput)) : list out :=
  concat (map fst (proto_run demo_cfg (fun h => h) (fun _ => []) None [] (p_init [] []) inputs)).
Definition has_note (s : string) (o : list out) : bool :=
  existsb (fun x => match x with ONote t => String.eqb s t | _ => false end) o.
(* the ghost is live: an oracle that delivers a second Request while the first is being served (which h11 cannot do)
   makes the model overwrite the slot, and both notes appear; the same two requests separated by a complete
   response produce neither, and two applications are spawned one after the other *)
Example C06_serial_nonvacuous :
  let bad := demo_outs [IData [demo_req; demo_req]] in
  has_note "h11-contract-violated" bad = true /\ has_note "stream-replaced" bad = true /\
  let good := demo_outs [IData [demo_req; RH HEndOfMessage; RH HPaused];
                         IApp (Some (MStart (Some 200%Z) [(HB (B "content-length"), HB (B "0"))] false)) [];
                         IApp (Some (MBody (HB []) false)) [demo_req; RH HEndOfMessage; RH HNeedData]] in
  has_note "h11-contract-violated" good = false /\ has_note "stream-replaced" good = false /\
  spawns good = 2%nat.
Proof. vm_compute. repeat split. Qed.

Definition demo_close_req := RH (HRequest (B "GET") (B "/") [(B "host", B "x"); (B "connection", B "close")] (B "1.1")).
(* the third ghost is live too: after a request that said Connection: close, an oracle handing over another Request
   (h11 cannot) trips it.  (It has to come before the first request's end: from then on the protocol ignores input.) *)
Example C06_closing_nonvacuous :
  let bad := demo_outs [IData [demo_close_req; demo_req]] in
  has_note "h11-contract-violated" bad = true /\ has_note "request-after-close" bad = true.
Proof. vm_compute. split; reflexivity. Qed.

Example C06_nonvacuous :
  (* a 1.1 request, a complete response: both DONE, the cycle restarts; with Connection: close it cannot *)
  let l1 := recv (recv lib_init (HRequest (B "GET") (B "/") [(B "host", B "x")] (B "1.1"))) HEndOfMessage in
  let l2 := fst (LibH11.send (fst (LibH11.send l1 (SResponse 200 [(B "content-length", B "0")]) true)) SEndOfMessage true) in
  (exists l', next_cycle l2 = Some l') /\
  let k1 := recv (recv lib_init (HRequest (B "GET") (B "/") [(B "host", B "x"); (B "connection", B "close")] (B "1.1"))) HEndOfMessage in
  let k2 := fst (LibH11.send (fst (LibH11.send k1 (SResponse 200 [(B "content-length", B "0")]) true)) SEndOfMessage true) in
  next_cycle k2 = None.
Proof. vm_compute. split; [eexists; reflexivity|reflexivity]. Qed.
