(* C01  HTTP request delivery fidelity (scope and body reach the application exactly). *)
From Coq Require Import String Ascii ZArith NArith List Bool Lia.
From HV Require Import lib.Bytes lib.Obs lib.Monad model.Asgi model.AsgiSpec model.GuardTypes model.HttpStream model.WsStream model.StreamRig
     model.LibH11 model.H11Proto model.WorkerCtx gen.Consts_gen gen.Guards_gen
     proofs.Stream_proofs proofs.LibH11_proofs proofs.H11_proofs proofs.WorkerCtx_proofs.
Import ListNotations.
Open Scope N_scope.

(* The scope: the target is split at the first '?', the path must be ASCII and is percent-decoded,
   raw path / query / method / version / headers are handed over unchanged, scheme from TLS. *)
Theorem C01_scope : forall names ssl hs version method raw sc,
  make_scope (the_cfg names ssl) hs version method raw = Ok sc ->
  let '(path, found, query) := partition1 63 raw in
  is_ascii path = true /\ mem_byte 63 path = false /\
  raw = path ++ (if found then 63 :: query else []) /\
  sc_raw_path sc = path /\ sc_query sc = query /\ sc_path sc = pct_decode path /\
  sc_method sc = method /\ sc_version sc = version /\ sc_headers sc = hs /\ sc_ws sc = false /\
  sc_scheme sc = (if ssl then B "https" else B "http").
Proof. exact make_scope_spec. Qed.
Theorem C01_unquote_plain : forall b, mem_byte 37 b = false -> pct_decode b = b.
Proof. exact pct_decode_plain. Qed.
Theorem C01_unquote_quote : forall bs, Forall (fun c => c < 256) bs -> pct_decode (flat_map quote1 bs) = bs.
Proof. exact pct_decode_quote. Qed.
Print Assumptions C01_scope.
Print Assumptions C01_unquote_quote.

(* Exactly one application instance per well-formed request, created with that scope. *)
Theorem C01_one_instance : forall names ssl id hs version method raw,
  let '(r', o, res) := rig_step (the_cfg names ssl) (IHandle (EvRequest hs version method raw)) (new_rig id [] true) in
  match make_scope (the_cfg names ssl) hs version method raw with
  | Raise e => o = [] /\ res = Raise e
  | Ok sc =>
      if valid_server_name (the_cfg names ssl) hs
      then o = [OSpawn id sc] /\ res = Ok tt /\ hs_has_app (rg_stream r') = true /\ hs_scope (rg_stream r') = Some sc
      else o = [OSend id (EvResponse 404 [(B "content-length", B "0"); (B "connection", B "close")]); OSend id EvEndBody; OLogAccess (Some 404%Z)]
           /\ hs_closed (rg_stream r') = true /\ hs_has_app (rg_stream r') = false
  end.
Proof. exact request_outcome. Qed.
Print Assumptions C01_one_instance.

(* The body: every Body event becomes one http.request message with exactly its bytes and
   more_body=true, EndBody becomes the single more_body=false message, in the order received;
   a closed stream delivers nothing more.  (What the protocol feeds as Body/EndBody is h11's / h2's
   event stream: a new request is only parsed from IDLE, see C06.) *)
Theorem C01_body_chunk : forall names ssl id closed has_app has_resp status tr ws ver meth scheme spath raw query rhs x1 x2 x3 subs d,
  has_app = true -> closed = false -> forall st,
  let '(r', o, res) := rig_step (the_cfg names ssl) (IHandle (EvBody d))
                         (mk id closed has_app has_resp status tr ws ver meth scheme spath raw query rhs x1 x2 x3 subs st) in
  o = [OPut id (RHttpRequest d true)] /\ res = Ok tt /\
  r' = mk id closed has_app has_resp status tr ws ver meth scheme spath raw query rhs x1 x2 x3 subs st.
Proof. intros. apply step_request_body; assumption. Qed.
Theorem C01_body_end : forall names ssl id closed has_app has_resp status tr ws ver meth scheme spath raw query rhs x1 x2 x3 subs,
  has_app = true -> closed = false -> forall st,
  let '(r', o, res) := rig_step (the_cfg names ssl) (IHandle EvEndBody)
                         (mk id closed has_app has_resp status tr ws ver meth scheme spath raw query rhs x1 x2 x3 subs st) in
  o = [OPut id (RHttpRequest [] false)] /\ res = Ok tt /\
  r' = mk id closed has_app has_resp status tr ws ver meth scheme spath raw query rhs x1 x2 x3 subs st.
Proof. intros. apply step_request_end; assumption. Qed.
Theorem C01_nothing_after_close : forall names ssl id closed has_app has_resp status tr ws ver meth scheme spath raw query rhs x1 x2 x3 subs ev,
  closed = true -> forall st,
  rig_step (the_cfg names ssl) (IHandle ev) (mk id closed has_app has_resp status tr ws ver meth scheme spath raw query rhs x1 x2 x3 subs st)
  = (mk id closed has_app has_resp status tr ws ver meth scheme spath raw query rhs x1 x2 x3 subs st, [], Ok tt).
Proof. intros. apply step_closed_silent; assumption. Qed.
Print Assumptions C01_body_chunk.

(* the request is only parsed as a new request when the previous cycle is over (h11 state machine) *)
Theorem C01_request_only_from_idle : forall l method target hs version,
  recv_possible l (HRequest method target hs version) = true ->
  their_state l = IDLE /\ is_idle (their_state (recv l (HRequest method target hs version))) = false.
Proof. exact recv_request_facts. Qed.
Print Assumptions C01_request_only_from_idle.

Example C01_nonvacuous :
  exists sc, make_scope (the_cfg [] false) [(B "host", B "x")] (B "1.1") (B "GET") (B "/a%20b/%zz?q=1?2") = Ok sc
             /\ sc_path sc = B "/a b/%zz" /\ sc_query sc = B "q=1?2" /\ sc_raw_path sc = B "/a%20b/%zz".
Proof. eexists. vm_compute. repeat split. Qed.
