(* C02  HTTP response delivery fidelity and legal framing. *)
From Coq Require Import String Ascii ZArith NArith List Bool Lia.
From HV Require Import lib.Bytes lib.Obs lib.Monad model.Asgi model.AsgiSpec model.GuardTypes model.HttpStream model.WsStream model.StreamRig
     model.LibH11 model.H11Proto model.WorkerCtx gen.Consts_gen gen.Guards_gen
     proofs.Stream_proofs proofs.LibH11_proofs proofs.H11_proofs proofs.WorkerCtx_proofs.
Import ListNotations.
Open Scope N_scope.

(* Bodies are omitted exactly for HEAD requests and 1xx / 204 / 304 statuses. *)
Theorem C02_suppress_iff : forall m s,
  suppress_body m s = true <-> m = B "HEAD" \/ (100 <= s < 200)%Z \/ s = 204%Z \/ s = 304%Z.
Proof. exact suppress_iff. Qed.
Print Assumptions C02_suppress_iff.

(* Every run of messages the ASGI reference automaton accepts is accepted, and state is tracked. *)
Theorem C02_valid_run_accepted : forall names ssl ms r sc0 s',
  quiet r -> hs_scope (rg_stream r) = Some sc0 -> wf_stream (rg_stream r) ->
  spec_run (exts_of (rg_stream r)) (abs_state (rg_stream r)) ms = Some s' -> Forall body_typed ms ->
  let '(l, rf) := run_results (the_cfg names ssl) r ms in
  Forall (fun x => x = Ok tt) l /\ abs_state (rg_stream rf) = s'.
Proof. exact valid_run_accepted. Qed.
Print Assumptions C02_valid_run_accepted.

(* The body chunks are handed to the protocol in order and unchanged (empty chunks send nothing;
   nothing at all when the body must be omitted): their concatenation is the concatenation of
   what the application sent. *)
Theorem C02_body_in_order : forall names ssl id closed status tr ws ver meth scheme spath raw query rhs x1 x2 x3 subs ds,
  bodies (run_outs (the_cfg names ssl)
            (mk id closed true true status tr ws ver meth scheme spath raw query rhs x1 x2 x3 subs HResponse)
            (map (fun d => IAppSend (Some (MBody (HB d) true))) ds)) =
  (if suppress_body meth status then [] else nonempty ds).
Proof. exact body_chunks_in_order. Qed.
Theorem C02_concat_preserved : forall l, concat (nonempty l) = concat l.
Proof. exact concat_nonempty. Qed.
Theorem C02_last_chunk : forall names ssl id closed has_app has_resp status tr ws ver meth scheme spath raw query rhs x1 x2 x3 subs d more,
  has_resp = true -> has_app = true ->
  let '(r', o, res) := rig_step (the_cfg names ssl) (IAppSend (Some (MBody (HB d) more)))
                         (mk id closed has_app has_resp status tr ws ver meth scheme spath raw query rhs x1 x2 x3 subs HResponse) in
  res = Ok tt /\
  bodies o = (if suppress_body meth status then [] else match d with [] => [] | _ => [d] end) /\
  hs_state (rg_stream r') = (if more then HResponse else if tr then HTrailers else HClosed) /\
  ends o = (if more then 0 else if tr then 0 else 1)%nat.
Proof. intros. apply step_body; assumption. Qed.
Print Assumptions C02_body_in_order.
Print Assumptions C02_last_chunk.

(* End-of-response is signalled at most once over any sequence of application messages and
   body / closure events; at most one final response head (see also C12). *)
Theorem C02_end_once : forall names ssl is r sc0,
  quiet r -> hs_scope (rg_stream r) = Some sc0 -> drives_ok is ->
  (ends (run_outs (the_cfg names ssl) r is) <= match hs_state (rg_stream r) with HClosed => 0 | _ => 1 end)%nat.
Proof. exact end_once_from. Qed.
Theorem C02_one_head : forall names ssl is r sc0,
  quiet r -> hs_scope (rg_stream r) = Some sc0 -> drives_ok is ->
  (finals (run_outs (the_cfg names ssl) r is) <= 1)%nat.
Proof. exact one_final_head. Qed.
Print Assumptions C02_end_once.

(* HTTP/1: the head given to h11 is the application's headers, then the server's own, then
   connection: close exactly at the per-connection request maximum. *)
Theorem C02_h1_head : forall cfg p status hs, (200 <= status)%Z ->
  hd_error (snd (fst (stream_send cfg (EvResponse status hs) p))) =
  Some (OLib (VS "h11.send" :: v_of_send (SResponse status
      (hs ++ c_server_headers cfg ++ (if (c_max_requests cfg <=? p_requests p)%Z then [(B "connection", B "close")] else []))))).
Proof. exact response_headers_sent. Qed.
Print Assumptions C02_h1_head.
