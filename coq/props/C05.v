(* C05  Application failures are contained and never yield a falsely complete response. *)
From Coq Require Import String Ascii ZArith NArith List Bool Lia.
From HV Require Import lib.Bytes lib.Obs lib.Monad model.Asgi model.AsgiSpec model.GuardTypes model.HttpStream model.WsStream model.StreamRig
     model.LibH11 model.H11Proto model.WorkerCtx gen.Consts_gen gen.Guards_gen
     proofs.Stream_proofs proofs.LibH11_proofs proofs.H11_proofs proofs.WorkerCtx_proofs.
Import ListNotations.
Open Scope N_scope.

(* When the application ends (raises or returns): with nothing started the client gets a complete
   500 carrying connection: close; otherwise no end-of-body is emitted (the response stays
   incomplete unless the application had completed it) and the stream is closed. *)
Theorem C05_app_exit : forall names ssl id closed has_app has_resp status tr ws ver meth scheme spath raw query rhs x1 x2 x3 subs st,
  closed = false -> has_app = true ->
  let '(r', o, res) := rig_step (the_cfg names ssl) (IAppSend None)
                         (mk id closed has_app has_resp status tr ws ver meth scheme spath raw query rhs x1 x2 x3 subs st) in
  res = Ok tt /\
  match st with
  | HttpStream.HRequest =>
      o = [OSend id (EvResponse 500 [(B "content-length", B "0"); (B "connection", B "close")]); OSend id EvEndBody;
           OLogAccess (Some 500%Z); OSend id EvStreamClosed; OPut id RHttpDisconnect]
  | HttpStream.HClosed => o = [OSend id EvStreamClosed; OPut id RHttpDisconnect]
  | _ => o = [OSend id EvStreamClosed; OLogAccess None; OPut id RHttpDisconnect] /\ ends o = 0%nat
  end.
Proof. intros. apply step_app_exit; assumption. Qed.
Print Assumptions C05_app_exit.

(* HTTP/1: after the stream has been closed the connection is reused only if h11 saw both
   messages complete; a response cut short leaves our side short of DONE, so the connection is
   closed and nothing more is served on it. *)
Theorem C05_h1_incomplete_closes : forall p,
  p_ws_mode p = false -> p_stream_live p = false -> p_writes p = [] ->
  let reusable := negb (p_terminated p) && h1state_eqb (our_state (p_lib p)) DONE && h1state_eqb (their_state (p_lib p)) DONE in
  let '(p', o, res) := maybe_recycle p in
  res = Ok tt /\ p_can_read p' = true /\
  if reusable then srvs o = [SUpdated true] /\ next_cycle (p_lib p) = Some (p_lib p')
  else srvs o = [SClosed] /\ p_lib p' = p_lib p.
Proof. exact recycle_outcome. Qed.
(* our side becomes DONE only by sending EndOfMessage *)
Theorem C05_done_needs_end_of_message : forall c k sw, chk_server_done c k sw = true.
Proof. exact chk_server_done_holds. Qed.
Print Assumptions C05_h1_incomplete_closes.
Print Assumptions C05_done_needs_end_of_message.

(* HTTP/2: when the stream is closed without its body having been ended (the application failed or
   returned mid-response) the stream is marked aborted: what is already buffered is still sent, the
   send task is woken, and the iteration that empties the buffer writes RST_STREAM -- never
   END_STREAM, so the client cannot take the truncated response for a complete one. *)
From HV Require Import model.H2Send proofs.H2Send_proofs.
Theorem C05_h2_abort_marks : forall t s rest,
  s_inbufs (strms t s) = true -> s_tree (strms t s) = true -> b_complete (s_buf (strms t s)) = false ->
  let x := strms (closing_state t s rest) s in
  s_abort x = true /\ b_complete (s_buf x) = true /\ s_blocked x = false /\ b_data (s_buf x) = b_data (s_buf (strms t s))
  /\ has_data (closing_state t s rest) = true.
Proof. exact closing_marks_abort. Qed.
Theorem C05_h2_aborted_is_never_ended : forall t s fs,
  s_abort (strms t s) = true -> writes t (send_data t s) fs -> ~ In (FEnd s) fs.
Proof. exact aborted_is_never_ended. Qed.
Print Assumptions C05_h2_abort_marks.
Print Assumptions C05_h2_aborted_is_never_ended.
