(* C15  Graceful shutdown is orderly and bounded (the timing skeleton of worker_serve's shutdown
   sequence, one model for both workers; what clients observe is checked on the real workers over
   loopback sockets by harness/c15.py). *)
From Coq Require Import ZArith List Lia.
From HV Require Import model.ShutdownSeq proofs.ShutdownSeq_proofs.
Import ListNotations.
Open Scope Z_scope.

Theorem C15_return_bounded : forall G St ds ls, 0 <= G -> 0 <= St -> 0 <= ls -> serve_return G St ds ls <= G + St.
Proof. exact return_bounded. Qed.
Theorem C15_within_grace_delivered : forall G d, d <= G -> delivered G d = true /\ conn_end G d = d.
Proof. exact within_grace_delivered. Qed.
Theorem C15_waits_for_in_flight : forall G St ds ls d, In d ds -> 0 <= d <= G -> 0 <= ls -> 0 <= St -> d <= serve_return G St ds ls.
Proof. exact waits_for_in_flight. Qed.
Theorem C15_idle_connections_do_not_delay : forall G ds, Forall (fun d => d = 0) ds -> 0 <= G -> drain_end G ds = 0.
Proof. exact idle_only. Qed.
Print Assumptions C15_return_bounded.
Print Assumptions C15_within_grace_delivered.
Print Assumptions C15_waits_for_in_flight.

Example C15_nonvacuous :
  serve_return 300 200 [0; 100; 5000; 5000; 5000] 50 = 350 /\ delivered 300 100 = true /\ delivered 300 5000 = false.
Proof. vm_compute. repeat split. Qed.
