(* C20  Middleware semantics: proxy trust boundary, dispatch routing, HTTPS redirect. *)
From Coq Require Import String Ascii ZArith NArith List Bool Lia Arith.
From HV Require Import lib.Bytes lib.Obs model.Middleware proofs.Middleware_proofs.
Import ListNotations.
Open Scope N_scope.

(* Whatever a client prepends — whole headers ... *)
Theorem C20_trust_boundary : forall name k pre suf,
  (1 <= k <= length (values name suf))%nat -> trusted name (pre ++ suf) k = trusted name suf k.
Proof. exact trust_boundary. Qed.
(* ... or comma-separated elements inside a header (which are the same thing) — is never used. *)
Theorem C20_comma_is_header : forall name n a b hs,
  values name ((n, a ++ 44 :: b) :: hs) = values name ((n, a) :: (n, b) :: hs).
Proof. exact values_comma. Qed.
(* With zero trusted hops or too few values the scope is left untouched, in both modes. *)
Theorem C20_untouched : forall modern k sc,
  too_few modern k (ps_headers sc) -> proxy_fix modern k sc = sc.
Proof. exact proxy_untouched. Qed.
Print Assumptions C20_trust_boundary.
Print Assumptions C20_comma_is_header.
Print Assumptions C20_untouched.

Example C20_proxy_nonvacuous :
  trusted (B "x-forwarded-for") [(B "X-Forwarded-For", B "6.6.6.6, 1.1.1.1"); (B "x-forwarded-for", B "10.0.0.1 ")] 1
  = Some (B "10.0.0.1")
  /\ trusted (B "x-forwarded-for") [(B "x-forwarded-for", B "6.6.6.6")] 2 = None.
Proof. vm_compute. split; reflexivity. Qed.

(* Dispatch: the first mount (in order) whose prefix matches, prefix stripped, never empty ... *)
Theorem C20_dispatch_first_match : forall mounts path j p',
  route mounts path = Some (j, p') ->
  exists l1 pre l2, mounts = l1 ++ pre :: l2 /\ j = length l1 /\
    no_match path l1 = true /\ starts_with pre path = true /\
    p' = (match skipn (length pre) path with [] => B "/" | rest => rest end) /\ p' <> [].
Proof. intros mounts path j p' H. apply route_first_match in H. exact H. Qed.
(* ... and 404 exactly when no mount matches. *)
Theorem C20_dispatch_404_iff : forall mounts path,
  route mounts path = None <-> no_match path mounts = true.
Proof. intros. apply route_none. Qed.
(* Lifespan fan-out: when every mount reports completion once, in any order, the aggregate
   completion is forwarded at most once, and exactly once iff every mount has reported. *)
Theorem C20_lifespan_fanout : forall is st, NoDup is -> (forall i, In i is -> nth i st true = false) ->
  (snd (fan_run st is) <= 1)%nat /\
  (snd (fan_run st is) = 1%nat <-> forallb (fun b => b) (fst (fan_run st is)) = true /\ is <> []).
Proof. exact fan_once. Qed.
Print Assumptions C20_dispatch_first_match.
Print Assumptions C20_dispatch_404_iff.
Print Assumptions C20_lifespan_fanout.

Example C20_dispatch_nonvacuous :
  route [B "/api/x"; B "/api"; B "/"] (B "/api") = Some (1%nat, B "/")
  /\ route [B "/api/x"; B "/api"; B "/"] (B "/api/x/y") = Some (0%nat, B "/y")
  /\ route [B "/a"] (B "/b") = None
  /\ fan_run [false; false; false] [2; 0; 1]%nat = ([true; true; true], 1%nat).
Proof. vm_compute. repeat split. Qed.

(* Redirect: every cleartext request goes to the same host, path and query under https / wss;
   secure requests are passed through unchanged. *)
Theorem C20_redirect_http : forall cfg_host sc h,
  rs_type sc = 0 -> rs_scheme sc = B "http" -> determinable cfg_host sc = Some h ->
  abs_or_empty (rs_root sc ++ rs_raw_path sc) = true ->
  redirect cfg_host sc = RHttp (expected_url (B "https") h sc).
Proof. exact redirect_http. Qed.
Theorem C20_redirect_ws : forall cfg_host sc h,
  rs_type sc = 1 -> rs_scheme sc = B "ws" -> rs_has_ext sc = true -> determinable cfg_host sc = Some h ->
  abs_or_empty (rs_root sc ++ rs_raw_path sc) = true ->
  redirect cfg_host sc = RWs (expected_url (if rs_h2 sc then B "https" else B "wss") h sc).
Proof. exact redirect_ws. Qed.
Theorem C20_redirect_secure_pass : forall cfg_host sc,
  rs_scheme sc <> B "http" -> rs_scheme sc <> B "ws" -> redirect cfg_host sc = RPass.
Proof. exact redirect_secure_pass. Qed.
Print Assumptions C20_redirect_http.
Print Assumptions C20_redirect_ws.
Print Assumptions C20_redirect_secure_pass.
