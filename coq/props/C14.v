(* C14  Lifespan protocol ordering, failure handling and state isolation (the Lifespan helper of both
   workers and the use worker_serve makes of it; the ordering against socket acceptance and
   connection draining, and the per-connection copy of the state, are checked on the real
   worker_serve of both workers by harness/c14.py). *)
From Coq Require Import ZArith List Bool Lia.
From HV Require Import model.Lifespan proofs.Lifespan_proofs.
Import ListNotations.

(* Serving starts only once the startup event is set -- by lifespan.startup.complete or by the end
   of the application (return, or an exception: no lifespan support) -- for every application script. *)
Theorem C14_serving_only_after_startup : forall script, fst (startup script) = Proceed ->
  supported (snd (startup script)) = false \/ ls_startup (snd (startup script)) = true.
Proof. exact proceed_means_started. Qed.
Theorem C14_startup_event_only_by_complete_or_end : forall script s,
  ls_startup (run_app script s) = true ->
  ls_startup s = true \/ sends_complete script = true \/ finished (ls_app (run_app script s)) = true.
Proof. exact run_app_startup. Qed.
(* lifespan.startup.failed (or shutdown.failed) aborts the server, whatever else the application did. *)
Theorem C14_failure_aborts : forall script b, ls_app (snd (startup script)) = Failed b -> fst (startup script) = AbortFailed.
Proof. exact failed_aborts. Qed.
(* The application is handed lifespan.startup first and lifespan.shutdown second, each at most once. *)
Theorem C14_messages_in_order : forall script,
  let s1 := snd (startup script) in
  let s2 := snd (shutdown s1) in
  exists rest, [false; true] = (ls_got s2 ++ rest)%list \/ [false] = (ls_got s2 ++ rest)%list \/ [] = (ls_got s2 ++ rest)%list.
Proof. exact messages_in_order. Qed.
Print Assumptions C14_serving_only_after_startup.
Print Assumptions C14_startup_event_only_by_complete_or_end.
Print Assumptions C14_failure_aborts.
Print Assumptions C14_messages_in_order.

Example C14_nonvacuous :
  fst (startup [LRecv; LSend LStartupComplete; LRecv; LSend LShutdownComplete]) = Proceed
  /\ fst (startup [LRecv; LSend LStartupFailed]) = AbortFailed
  /\ fst (startup [LRecv; LHang]) = AbortTimeout
  /\ fst (startup [LRaise]) = Proceed /\ supported (snd (startup [LRaise])) = false
  /\ fst (shutdown (snd (startup [LRecv; LSend LStartupComplete; LRecv; LHang]))) = AbortTimeout
  /\ ls_got (snd (shutdown (snd (startup [LRecv; LSend LStartupComplete; LRecv; LSend LShutdownComplete])))) = [false; true].
Proof. vm_compute. repeat split. Qed.
