(* C19  Configuration sources agree and binds parse to the intended sockets.
   Only statements, each closed by [exact <lemma>], and Print Assumptions. *)
From Coq Require Import String List ZArith NArith Bool Ascii.
From HV Require Import lib.Bytes lib.Obs model.CliTypes model.Config model.Cli model.CliSpec gen.Cli_gen
     proofs.Cli_proofs proofs.Config_proofs.
Import ListNotations.
Open Scope string_scope.

(* Every documented option string, given alone with any value, sets exactly its own setting to
   exactly that value (converted by its declared type) and nothing else; a value the type rejects
   makes argparse exit.  [specs]/[wiring] are the tables generated from __main__.py on this run. *)
Theorem C19_cli_exact :
  forall flag setting k, In (flag, setting, k) cli_spec ->
  forall s a c, run_cli specs wiring a [occ_of flag k s] c = spec_effect setting k s (with_app a c).
Proof. exact cli_exact. Qed.
Print Assumptions C19_cli_exact.

(* With no option given nothing but application_path is assigned: a configuration loaded from a
   file is never overridden by a default of the command line. *)
Theorem C19_cli_none : forall a c, run_cli specs wiring a [] c = Some (with_app a c).
Proof. exact cli_none. Qed.
Print Assumptions C19_cli_none.

Example C19_cli_nonvacuous :
  In ("--keep-alive", "keep_alive_timeout", KValue TInt) cli_spec /\
  run_cli specs wiring "m:app" [("--keep-alive", Some "75")] [("keep_alive_timeout", PInt 5); ("workers", PInt 3)]
  = Some [("keep_alive_timeout", PInt 75); ("workers", PInt 3); ("application_path", PStr "m:app")].
Proof. split; [unfold cli_spec; simpl; tauto | vm_compute; reflexivity]. Qed.

(* All loaders are the same fold of attribute assignments. *)
Theorem C19_loaders_agree : forall m,
  from_toml m = from_mapping m [] /\
  from_mapping [] m = from_mapping (merge [] m) [] /\
  (forallb (fun kv => negb (is_dunder (fst kv))) m = true -> from_object m = from_mapping m []) /\
  from_pyfile m = from_object m.
Proof. exact loaders_agree. Qed.
Print Assumptions C19_loaders_agree.

(* Bind strings of every documented shape parse to the intended family, address and port. *)
Theorem C19_bind_unix : forall p, parse_bind ("unix:" ++ p) = BUnix p.
Proof. exact bind_unix. Qed.
Theorem C19_bind_fd : forall n, parse_bind ("fd://" ++ dec n) = BFd (Some n).
Proof. exact bind_fd. Qed.
Theorem C19_bind_host_port : forall h p,
  let s := h ++ ":" ++ dec p in
  String.prefix "unix:" s = false -> String.prefix "fd://" s = false ->
  plain h = true -> contains ":" h = false -> (0 <= p)%Z ->
  parse_bind s = BInet false h p.
Proof. exact bind_host_port. Qed.
Theorem C19_bind_host : forall h,
  String.prefix "unix:" h = false -> String.prefix "fd://" h = false ->
  plain h = true -> contains ":" h = false ->
  parse_bind h = BInet false h 8000.
Proof. exact bind_host. Qed.
Theorem C19_bind_v6_port : forall h p,
  plain h = true -> contains ":" h = true -> (0 <= p)%Z ->
  parse_bind ("[" ++ h ++ "]:" ++ dec p) = BInet true h p.
Proof. exact bind_v6_port. Qed.
(* a bare host in brackets (an IPv6 address without a port) keeps all its colons and gets the default port: "[::1]"
   is ::1 port 8000, not host ":" port 1 (finding F63) *)
Theorem C19_bind_v6_bare : forall h, plain h = true -> parse_bind ("[" ++ h ++ "]") = BInet (contains ":" h) h 8000.
Proof. exact bind_v6_bare. Qed.
Print Assumptions C19_bind_v6_bare.
Print Assumptions C19_bind_unix.
Print Assumptions C19_bind_fd.
Print Assumptions C19_bind_host_port.
Print Assumptions C19_bind_host.
Print Assumptions C19_bind_v6_port.

Example C19_bind_nonvacuous :
  parse_bind "[::1]:8443" = BInet true "::1" 8443 /\ parse_bind "example.org:80" = BInet false "example.org" 80
  /\ parse_bind "0.0.0.0" = BInet false "0.0.0.0" 8000 /\ dec 8443 = "8443"
  /\ parse_bind "[::1]" = BInet true "::1" 8000 /\ parse_bind "[fe80::1]" = BInet true "fe80::1" 8000.
Proof. vm_compute. repeat split. Qed.

(* root_path is normalised: never a trailing slash, and normalising twice changes nothing. *)
Theorem C19_root_path_no_trailing_slash : forall s p, rstrip_slash s <> p ++ "/".
Proof. exact rstrip_slash_no_trailing. Qed.
Theorem C19_root_path_idempotent : forall s, rstrip_slash (rstrip_slash s) = rstrip_slash s.
Proof. exact rstrip_slash_idem. Qed.
Print Assumptions C19_root_path_no_trailing_slash.
Print Assumptions C19_root_path_idempotent.

(* The server's own headers: date first iff enabled, server next iff enabled, then exactly the
   configured alt-svc values; nothing else. *)
Theorem C19_response_headers : forall d s date proto alt,
  response_headers d s date proto alt =
  ((if d then [(B "date", date)] else []) ++
   (if s then [(B "server", B "hypercorn-" ++ proto)] else []) ++
   map (fun a => (B "alt-svc", a)) alt)%list.
Proof. exact response_headers_shape. Qed.
Print Assumptions C19_response_headers.
