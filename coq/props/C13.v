(* C13  Protocol selection and upgrades lose no bytes and ignore segmentation. *)
From Coq Require Import String Ascii ZArith NArith List Bool Lia.
From HV Require Import lib.Bytes lib.Obs lib.Monad model.Asgi model.GuardTypes model.HttpStream model.WsStream model.LibH11 model.H11Proto
     model.ProtoWrapper proofs.ProtoWrapper_proofs.
Import ListNotations.
Open Scope N_scope.

(* The protocol is determined by how the client opens the connection. *)
Theorem C13_selection : forall alpn method target hs version,
  select alpn method target hs version =
  if alpn then SelH2Alpn
  else if h2c_requested hs then SelH2c
  else if beqb method (B "PRI") && beqb target (B "*") && beqb version (B "2.0") then SelH2Prior
  else if wants_websocket method hs then SelWebSocket else SelHttp1.
Proof. exact select_spec. Qed.
Theorem C13_check_protocol_follows_selection : forall cfg method target hs version p,
  let '(p', o, res) := check_protocol cfg method target hs version p in
  match select false method target hs version with
  | SelH2c =>
      hd_error o = Some (OLib (VS "h11.send" :: v_of_send (SInfo 101 (c_server_headers cfg ++ [(B "connection", B "upgrade"); (B "upgrade", B "h2c")]))))
      /\ res <> Ok tt
  | SelH2Prior => res = Raise EH2Assumed /\ o = []
  | _ => res = Ok tt /\ o = [] /\ p' = p
  end.
Proof. exact check_protocol_selects. Qed.
Theorem C13_h2c_with_body_ignored : forall hs,
  existsb (fun h => let n := lower (str_strip (fst h)) in beqb n (B "content-length") || beqb n (B "transfer-encoding")) hs = true ->
  h2c_requested hs = false.
Proof. exact h2c_with_body_ignored. Qed.
Theorem C13_alpn : forall sends writes, exists g, wrapper_init true sends writes = WH2 g /\ g_data g = [].
Proof. exact alpn_selects_h2. Qed.
Print Assumptions C13_selection.
Print Assumptions C13_check_protocol_follows_selection.

(* No byte is lost or duplicated across a switch: HTTP/2 is given exactly the bytes h11 had not
   consumed (plus, for prior knowledge, the preface line h11 did consume), and every later read. *)
Theorem C13_switch_hands_over_the_rest : forall cfg sh tok ext ws p data evs tr,
  let '(w', o, res) := wrapper_data cfg sh tok ext ws (WH11 p) data evs tr in
  match w' with
  | WH2 g => (g_headers g = None /\ h2_bytes w' = preface_line ++ tr) \/ (g_headers g <> None /\ h2_bytes w' = tr)
  | WH11 _ => True
  end.
Proof. exact switch_hands_over_the_rest. Qed.
Theorem C13_h2_takes_every_later_byte : forall cfg sh tok ext ws g data evs tr,
  let '(w', o, res) := wrapper_data cfg sh tok ext ws (WH2 g) data evs tr in
  h2_bytes w' = h2_bytes (WH2 g) ++ data /\ res = Ok tt.
Proof. exact h2_takes_every_byte. Qed.
Print Assumptions C13_switch_hands_over_the_rest.
Print Assumptions C13_h2_takes_every_later_byte.

Example C13_nonvacuous :
  select false (B "GET") (B "/") [(B "upgrade", B "h2c"); (B "http2-settings", B "AAMAAABk")] (B "1.1") = SelH2c
  /\ select false (B "POST") (B "/") [(B "upgrade", B "h2c"); (B "content-length", B "3")] (B "1.1") = SelHttp1
  /\ select false (B "PRI") (B "*") [] (B "2.0") = SelH2Prior
  /\ select false (B "GET") (B "/ws") [(B "connection", B "keep-alive, Upgrade"); (B "upgrade", B "WebSocket")] (B "1.1") = SelWebSocket
  /\ select true (B "GET") (B "/") [] (B "1.1") = SelH2Alpn.
Proof. vm_compute. repeat split. Qed.
