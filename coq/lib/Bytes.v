(* Byte strings (and Python str as lists of code points) as [list N], with the handful of
   Python string operations hypercorn uses. Executable definitions only plus basic laws. *)
From Coq Require Import ZArith NArith List Bool Lia String Ascii.
Import ListNotations.
Open Scope N_scope.

Definition bytes := list N.

Fixpoint beqb (a b : bytes) : bool :=
  match a, b with
  | [], [] => true
  | x :: a', y :: b' => N.eqb x y && beqb a' b'
  | _, _ => false
  end.

Lemma beqb_eq a b : beqb a b = true <-> a = b.
Proof.
  revert b; induction a as [|x a IH]; intros [|y b]; simpl; split; intro H;
    try reflexivity; try discriminate.
  - apply andb_true_iff in H as [H1 H2]. apply N.eqb_eq in H1. apply IH in H2. congruence.
  - injection H as -> ->. rewrite N.eqb_refl. simpl. apply IH. reflexivity.
Qed.

Lemma beqb_refl a : beqb a a = true.
Proof. apply beqb_eq. reflexivity. Qed.

Lemma beqb_neq a b : beqb a b = false <-> a <> b.
Proof.
  split.
  - intros H E. apply beqb_eq in E. congruence.
  - intro H. destruct (beqb a b) eqn:E; [apply beqb_eq in E; contradiction | reflexivity].
Qed.

(* ASCII-only case mapping: what bytes.lower()/upper() do, and what str.lower() does on ASCII *)
Definition lower1 (c : N) : N := if (65 <=? c) && (c <=? 90) then c + 32 else c.
Definition upper1 (c : N) : N := if (97 <=? c) && (c <=? 122) then c - 32 else c.
Definition lower (b : bytes) : bytes := map lower1 b.
Definition upper (b : bytes) : bytes := map upper1 b.

(* bytes.strip() / bytes whitespace: space \t \n \r \x0b \x0c *)
Definition is_ws (c : N) : bool :=
  (c =? 32) || (c =? 9) || (c =? 10) || (c =? 13) || (c =? 11) || (c =? 12).

Fixpoint lstrip (b : bytes) : bytes :=
  match b with
  | c :: r => if is_ws c then lstrip r else b
  | [] => []
  end.
Definition rstrip (b : bytes) : bytes := rev (lstrip (rev b)).
Definition strip (b : bytes) : bytes := rstrip (lstrip b).

(* str.rstrip("/")-style: strip one given character from the right *)
Fixpoint lstrip_char (ch : N) (b : bytes) : bytes :=
  match b with
  | c :: r => if c =? ch then lstrip_char ch r else b
  | [] => []
  end.
Definition rstrip_char (ch : N) (b : bytes) : bytes := rev (lstrip_char ch (rev b)).

Fixpoint starts_with (p b : bytes) : bool :=
  match p, b with
  | [], _ => true
  | x :: p', y :: b' => (x =? y) && starts_with p' b'
  | _ :: _, [] => false
  end.

Fixpoint mem_byte (c : N) (b : bytes) : bool :=
  match b with [] => false | x :: r => (x =? c) || mem_byte c r end.

(* b.partition(sep) for a single-byte separator: (before, found, after) *)
Fixpoint partition1 (sep : N) (b : bytes) : bytes * bool * bytes :=
  match b with
  | [] => ([], false, [])
  | c :: r =>
      if c =? sep then ([], true, r)
      else let '(h, f, t) := partition1 sep r in (c :: h, f, t)
  end.

(* b.split(sep) for a single-byte separator (never returns the empty list) *)
Fixpoint split1 (sep : N) (b : bytes) : list bytes :=
  match b with
  | [] => [[]]
  | c :: r =>
      if c =? sep then [] :: split1 sep r
      else match split1 sep r with
           | h :: t => (c :: h) :: t
           | [] => [[c]]
           end
  end.

(* join with a single separator byte *)
Fixpoint join1 (sep : N) (l : list bytes) : bytes :=
  match l with
  | [] => []
  | [x] => x
  | x :: r => x ++ sep :: join1 sep r
  end.

Fixpoint all_bytes (p : N -> bool) (b : bytes) : bool :=
  match b with [] => true | c :: r => p c && all_bytes p r end.

Definition is_ascii (b : bytes) : bool := all_bytes (fun c => c <? 128) b.

(* string literal to bytes, for readable models: b"..." *)
Fixpoint bytes_of_string (s : string) : bytes :=
  match s with
  | EmptyString => []
  | String a r => N_of_ascii a :: bytes_of_string r
  end.
Definition B (s : string) : bytes := bytes_of_string s.

Definition Zlen (b : bytes) : Z := Z.of_nat (List.length b).

(* ---- basic laws ---- *)

Lemma partition1_spec sep b :
  let '(h, f, t) := partition1 sep b in
  mem_byte sep h = false /\ b = h ++ (if f then sep :: t else []) /\ (f = false -> t = []).
Proof.
  induction b as [|c r IH]; simpl.
  - repeat split; reflexivity.
  - destruct (c =? sep) eqn:E.
    + apply N.eqb_eq in E. subst. repeat split; try reflexivity. discriminate.
    + destruct (partition1 sep r) as [[h f] t]. destruct IH as (H1 & H2 & H3).
      simpl. rewrite E, H1. repeat split; [now rewrite H2 at 1|exact H3].
Qed.

Lemma split1_nonempty sep b : split1 sep b <> [].
Proof.
  destruct b as [|c r]; simpl; [discriminate|].
  destruct (c =? sep); [discriminate|]. destruct (split1 sep r); discriminate.
Qed.

Lemma join1_split1 sep b : join1 sep (split1 sep b) = b.
Proof.
  induction b as [|c r IH]; [reflexivity|].
  cbn [split1]. pose proof (split1_nonempty sep r) as NE.
  destruct (c =? sep) eqn:E.
  - apply N.eqb_eq in E; subst c. destruct (split1 sep r) as [|h t]; [contradiction|].
    cbn [join1 app]. cbn [join1] in IH. rewrite IH. reflexivity.
  - destruct (split1 sep r) as [|h t]; [contradiction|].
    destruct t as [|h2 t]; cbn [join1] in *.
    + subst. reflexivity.
    + rewrite <- IH. reflexivity.
Qed.

Lemma lstrip_char_idem ch b : lstrip_char ch (lstrip_char ch b) = lstrip_char ch b.
Proof.
  induction b as [|c r IH]; simpl; [reflexivity|].
  destruct (c =? ch) eqn:E; [exact IH|]. simpl. rewrite E. reflexivity.
Qed.

Lemma rstrip_char_idem ch b : rstrip_char ch (rstrip_char ch b) = rstrip_char ch b.
Proof. unfold rstrip_char. rewrite rev_involutive, lstrip_char_idem. reflexivity. Qed.

Lemma lstrip_char_hd ch b : forall c r, lstrip_char ch b = c :: r -> c <> ch.
Proof.
  induction b as [|x b IH]; simpl; intros c r H; [discriminate|].
  destruct (x =? ch) eqn:E.
  - eapply IH; eassumption.
  - injection H as <- _. apply N.eqb_neq. exact E.
Qed.

Lemma rstrip_char_last ch b : forall p c, rstrip_char ch b = p ++ [c] -> c <> ch.
Proof.
  unfold rstrip_char. intros p c H.
  apply (f_equal (@rev N)) in H. rewrite rev_involutive, rev_app_distr in H. simpl in H.
  eapply lstrip_char_hd; eassumption.
Qed.

(* str.strip() on text whose code points are < 256: ASCII white space, FS/GS/RS/US, NEL, NBSP *)
Definition str_ws (c : N) : bool :=
  is_ws c || ((28 <=? c) && (c <=? 31)) || (c =? 133) || (c =? 160).
Fixpoint str_lstrip (b : bytes) : bytes :=
  match b with c :: r => if str_ws c then str_lstrip r else b | [] => [] end.
Definition str_strip (b : bytes) : bytes := rev (str_lstrip (rev (str_lstrip b))).

(* lexicographic < on byte / code point strings (Python's str and bytes comparison) *)
Fixpoint bytes_ltb (a b : bytes) : bool :=
  match a, b with
  | [], [] => false
  | [], _ :: _ => true
  | _ :: _, [] => false
  | x :: a', y :: b' => if x <? y then true else if y <? x then false else bytes_ltb a' b'
  end.

Lemma Zlen_app a b : Zlen (a ++ b) = (Zlen a + Zlen b)%Z.
Proof. unfold Zlen. rewrite app_length. lia. Qed.
Lemma Zlen_nonneg a : (0 <= Zlen a)%Z.
Proof. unfold Zlen. lia. Qed.
