(* Universal observation trees.  Every model exposes its observable result as a [val];
   the harness encodes what the implementation did as a [val] too and the comparison is
   done inside Coq by [failing], so that no output parser is trusted. *)
From Coq Require Import ZArith NArith List Bool String Ascii.
Import ListNotations.
Open Scope Z_scope.

Inductive val : Type :=
| VZ (z : Z)
| VB (b : list N)            (* a byte string / list of code points *)
| VS (s : string)            (* an identifier-like ASCII string *)
| VL (l : list val).

Fixpoint list_N_eqb (a b : list N) : bool :=
  match a, b with
  | [], [] => true
  | x :: a', y :: b' => N.eqb x y && list_N_eqb a' b'
  | _, _ => false
  end.

Fixpoint val_eqb (a b : val) {struct a} : bool :=
  match a, b with
  | VZ x, VZ y => Z.eqb x y
  | VB x, VB y => list_N_eqb x y
  | VS x, VS y => String.eqb x y
  | VL x, VL y =>
      (fix go (x y : list val) {struct x} : bool :=
         match x, y with
         | [], [] => true
         | a :: x', b :: y' => val_eqb a b && go x' y'
         | _, _ => false
         end) x y
  | _, _ => false
  end.

Definition vbool (b : bool) : val := VZ (if b then 1 else 0).
Definition vnone : val := VL [].
Definition vsome (v : val) : val := VL [v].
Definition vopt {A} (f : A -> val) (o : option A) : val :=
  match o with None => vnone | Some a => vsome (f a) end.
Definition vlist {A} (f : A -> val) (l : list A) : val := VL (map f l).
Definition vpair (a b : val) : val := VL [a; b].

(* indices (from 0) of the cases on which the model's observation differs from the expected one *)
Fixpoint failing_from {I} (f : I -> val) (cases : list (I * val)) (i : N) : list N :=
  match cases with
  | [] => []
  | (x, e) :: r =>
      if val_eqb (f x) e then failing_from f r (N.succ i) else i :: failing_from f r (N.succ i)
  end.
Definition failing {I} (f : I -> val) (cases : list (I * val)) : list N := failing_from f cases 0%N.

Lemma list_N_eqb_eq a b : list_N_eqb a b = true <-> a = b.
Proof.
  revert b; induction a as [|x a IH]; intros [|y b]; simpl; split; intro H;
    try reflexivity; try discriminate.
  - apply andb_true_iff in H as [H1 H2]. apply N.eqb_eq in H1. apply IH in H2. congruence.
  - injection H as -> ->. rewrite N.eqb_refl. simpl. apply IH. reflexivity.
Qed.
