(* State + output + exception monad used by the sequential automata.
   A Python method of an object that lives inside a larger composite state P becomes
   [M P A]: it reads and writes the composite, appends observable outputs in order, and either
   returns or raises.  Re-entrant calls (a send that calls back into the same object) are just
   further [M P] computations run on the same composite state. *)
From Coq Require Import List.
Import ListNotations.

Section Monad.
  Context {E O P : Type}.

  Inductive result (A : Type) := Ok (a : A) | Raise (e : E).
  Arguments Ok {A} a.
  Arguments Raise {A} e.

  Definition M (A : Type) := P -> P * list O * result A.

  Definition ret {A} (a : A) : M A := fun p => (p, [], Ok a).
  Definition bind {A B} (m : M A) (f : A -> M B) : M B :=
    fun p => let '(p1, o1, r) := m p in
             match r with
             | Ok a => let '(p2, o2, r2) := f a p1 in (p2, o1 ++ o2, r2)
             | Raise e => (p1, o1, Raise e)
             end.
  Definition emit (o : O) : M unit := fun p => (p, [o], Ok tt).
  Definition raise {A} (e : E) : M A := fun p => (p, [], Raise e).
  Definition get : M P := fun p => (p, [], Ok p).
  Definition put (p : P) : M unit := fun _ => (p, [], Ok tt).
  Definition modify (f : P -> P) : M unit := fun p => (f p, [], Ok tt).
  (* try: m except E' -> h ; [catches e] decides *)
  Definition try_catch {A} (m : M A) (catches : E -> bool) (h : E -> M A) : M A :=
    fun p => let '(p1, o1, r) := m p in
             match r with
             | Ok a => (p1, o1, Ok a)
             | Raise e => if catches e then let '(p2, o2, r2) := h e p1 in (p2, o1 ++ o2, r2)
                          else (p1, o1, Raise e)
             end.
  (* try: m finally: f  (f runs on both paths; an exception in f replaces the original) *)
  Definition finally {A} (m : M A) (f : M unit) : M A :=
    fun p => let '(p1, o1, r) := m p in
             let '(p2, o2, r2) := f p1 in
             match r2 with
             | Ok _ => (p2, o1 ++ o2, r)
             | Raise e => (p2, o1 ++ o2, Raise e)
             end.
  Fixpoint for_each {A} (l : list A) (f : A -> M unit) : M unit :=
    match l with
    | [] => ret tt
    | x :: r => bind (f x) (fun _ => for_each r f)
    end.
  Definition when (b : bool) (m : M unit) : M unit := if b then m else ret tt.

  (* outputs of the two most common prefixes *)
  Lemma outputs_bind_get {A} (f : P -> M A) p : snd (fst (bind get f p)) = snd (fst (f p p)).
  Proof. unfold bind, get. destruct (f p p) as [[p2 o2] r2]. reflexivity. Qed.
  Lemma outputs_bind_emit {A} (x : O) (m : M A) p : snd (fst (bind (emit x) (fun _ => m) p)) = x :: snd (fst (m p)).
  Proof. unfold bind, emit. destruct (m p) as [[p2 o2] r2]. reflexivity. Qed.
End Monad.

Arguments Ok {E A} a.
Arguments Raise {E A} e.
Arguments M : clear implicits.

Declare Scope monad_scope.
Delimit Scope monad_scope with M.
Notation "x <- m ;; f" := (bind m (fun x => f)) (at level 61, m at next level, right associativity) : monad_scope.
Notation "m ;; f" := (bind m (fun _ => f)) (at level 61, right associativity) : monad_scope.
