"""C17: WSGI adapter (WSGIWrapper) against coq/model/Wsgi.v.
R-pure for _build_environ; application shapes through the real Asyncio/Trio WSGI middleware
(real executor threads) for run_app / handle_http."""
from __future__ import annotations

import asyncio
import threading

from . import common as C

PROP = "C17"
PREAMBLE = """From Coq Require Import String Ascii ZArith NArith List Bool.
From HV Require Import lib.Bytes lib.Obs model.Wsgi.
Import ListNotations.
"""

HDR_NAMES = [b"content-length", b"content-type", b"accept", b"x-forwarded-for", b"cookie", b"x-a-b", b"host", b"Accept", b"x_a_b"]
HDR_VALUES = [b"1", b"text/html; charset=utf-8", b"a,b", b"", b"caf\xe9", b"x y", b"*/*"]
PATHS = ["/", "/app", "/app/", "/app/x", "/café/€", "/a b", "", "/apple", "/\U0001F600", "/app/x%2Fy",
         "/app/static/app/logo.png", "/a/b/a/c", "/app/app", "/café/x/café", "/a/a"]     # the mount prefix occurs again further down
ROOTS = ["", "", "/app", "/app/", "/café", "/nope", "/a"]


def hs_term(hs):
    return C.clist([f"({C.cbytes(n)}, {C.cbytes(v)})" for n, v in hs], "(bytes * bytes)")


def scope_term(sc):
    server = sc.get("server")
    client = sc.get("client")
    return ("{| ws_method := %s; ws_path := %s; ws_root := %s; ws_query := %s; ws_version := %s; ws_scheme := %s; "
            "ws_server := %s; ws_client := %s; ws_headers := %s |}"
            % (C.cbytes(sc["method"].encode()), C.cpoints(sc["path"]), C.cpoints(sc["root_path"]),
               C.cbytes(sc["query_string"]), C.cbytes(sc["http_version"].encode()), C.cbytes(sc["scheme"].encode()),
               "None" if server is None else f"(Some ({C.cbytes(server[0].encode())}, {C.cZ(server[1])}))",
               "None" if client is None else f"(Some {C.cbytes(client[0].encode())})",
               hs_term(sc["headers"])))


def gen_scope(rng):
    hs = [(rng.choice(HDR_NAMES), rng.choice(HDR_VALUES)) for _ in range(rng.randint(0, 6))]
    return {
        "type": "http", "method": rng.choice(["GET", "POST", "PUT", "HEAD"]), "path": rng.choice(PATHS),
        "root_path": rng.choice(ROOTS), "query_string": rng.choice([b"", b"a=b", b"x=%20&y=1"]),
        "http_version": rng.choice(["1.0", "1.1", "2"]), "scheme": rng.choice(["http", "https"]),
        "server": rng.choice([None, ("127.0.0.1", 8000), ("srv.test", 443)]),
        "client": rng.choice([None, ("10.0.0.9", 5555)]), "headers": hs, "raw_path": b"/",
    }


def environ_cases(ctx, n):
    from hypercorn.app_wrappers import InvalidPathError, _build_environ

    rng = ctx.rng
    cases = []
    for idx in range(n):
        sc = gen_scope(rng)
        body = bytes(rng.randrange(256) for _ in range(rng.randint(0, 20)))
        fails = []
        try:
            env = _build_environ(sc, body)
        except InvalidPathError:
            env = None
        if env is None:
            obs = ["invalid-path"]
            if sc["path"].startswith(sc["root_path"]):
                fails.append({"case": None, "what": "InvalidPathError although path starts with root_path", "signature": "environ:invalid"})
        else:
            strs = [[k.encode("latin1"), v.encode("latin1")] for k, v in env.items() if isinstance(v, str)]
            obs = [strs, env["SERVER_PORT"]]
            # PEP 3333 oracle, written from the PEP, not from the model
            def native(s):
                return s.encode("latin1").decode("utf8")
            if env["wsgi.input"].read() != body:
                fails.append({"what": "wsgi.input is not the request body", "signature": "environ:input"})
            pi, sn = native(env["PATH_INFO"]), native(env["SCRIPT_NAME"])
            if not (sn + pi == sc["path"] or (pi == "/" and sn == sc["path"])) or pi == "":
                fails.append({"what": f"SCRIPT_NAME+PATH_INFO {sn!r}+{pi!r} != path {sc['path']!r}", "signature": "environ:path"})
            if env["REQUEST_METHOD"] != sc["method"] or env["QUERY_STRING"] != sc["query_string"].decode() \
                    or env["SERVER_PROTOCOL"] != "HTTP/" + sc["http_version"] or env["wsgi.url_scheme"] != sc["scheme"]:
                fails.append({"what": "method/query/protocol/scheme wrong", "signature": "environ:basic"})
            want = {}
            for nme, val in sc["headers"]:
                nm = nme.decode("latin1")
                key = {"content-length": "CONTENT_LENGTH", "content-type": "CONTENT_TYPE"}.get(nm, "HTTP_" + nm.upper().replace("-", "_"))
                want.setdefault(key, []).append(val.decode("latin1"))
            for key, vals in want.items():
                if env.get(key) != ",".join(vals):
                    fails.append({"what": f"{key} is {env.get(key)!r}, expected {','.join(vals)!r}", "signature": "environ:headers"})
            extra = [k for k in env if (k.startswith("HTTP_") or k.startswith("CONTENT_")) and k not in want]
            if extra:
                fails.append({"what": f"unexpected variables {extra}", "signature": "environ:extra"})
        case = {"kind": "environ", "scope": {k: v for k, v in sc.items()}, "obs": obs}
        for f in fails:
            f["case"] = case
        inp = f"(0%N, 0%Z, @nil (option rmsg), {scope_term(sc)}, dummy_app)"
        cases.append((inp, C.V(obs), case, fails))
    return cases


# ------------------------------------------------------------------ application shapes
class Shape:
    def __init__(self, call, it, has_close):
        self.call, self.it, self.has_close = call, it, has_close

    def term(self):
        def hs(h):
            return hs_term([(a.encode("latin1"), b.encode("latin1")) for a, b in h])
        call = C.clist([f"(CStart {C.cZ(s[1])} {hs(s[2])})" if s[0] == "start" else "CRaise" for s in self.call], "call_step")
        it = C.clist([f"(IYield {C.cbytes(s[1])})" if s[0] == "yield" else f"(IStart {C.cZ(s[1])} {hs(s[2])})" if s[0] == "start" else "IRaise" for s in self.it], "iter_step")
        return "{| wa_call := %s; wa_iter := %s; wa_has_close := %s |}" % (call, it, C.cbool(self.has_close))

    def describe(self):
        return {"call": self.call, "iter": [list(s) for s in self.it], "has_close": self.has_close}


REASONS = {200: "OK", 201: "Created", 204: "No Content", 404: "Not Found", 500: "Oops", 302: "Found"}


def gen_shape(rng):
    def start():
        code = rng.choice(list(REASONS))
        hs = [(rng.choice(["Content-Type", "X-A", "x-b", "Set-Cookie"]), rng.choice(["a", "text/plain", "k=v; Path=/", ""])) for _ in range(rng.randint(0, 3))]
        return ("start", code, hs)

    kind = rng.choice(["eager", "eager", "lazy", "lazy", "none", "late", "raise-call", "raise-iter", "double"])
    chunks = [bytes(rng.randrange(256) for _ in range(rng.choice([0, 1, 3, 10]))) for _ in range(rng.randint(0, 4))]
    it = [("yield", c) for c in chunks]
    call = []
    if kind == "eager":
        call = [start()]
    elif kind == "lazy":
        it = [start()] + it
    elif kind == "late" and it:
        it = it[:1] + [start()] + it[1:]
    elif kind == "raise-call":
        call = ([start()] if rng.random() < 0.5 else []) + [("raise",)]
    elif kind == "raise-iter":
        call = [start()] if rng.random() < 0.6 else []
        pos = rng.randint(0, len(it))
        it = it[:pos] + [("raise",)] + it[pos:]
    elif kind == "double":
        call = [start(), start()]
    return Shape(call, it, rng.random() < 0.6)


class AppBoom(Exception):
    pass


def make_app(shape, rec):
    def app(environ, start_response):
        rec["threads"].append(threading.get_ident())
        rec["calls"] += 1
        rec["body_seen"] = environ["wsgi.input"].read()
        for st in shape.call:
            if st[0] == "start":
                start_response(f"{st[1]} {REASONS[st[1]]}", list(st[2]))
            else:
                raise AppBoom()

        class It:
            def __init__(self):
                self.steps = list(shape.it)

            def __iter__(self):
                return self

            def __next__(self):
                while self.steps:
                    st = self.steps.pop(0)
                    if st[0] == "yield":
                        return st[1]
                    if st[0] == "start":
                        start_response(f"{st[1]} {REASONS[st[1]]}", list(st[2]))
                        continue
                    raise AppBoom()
                raise StopIteration

        it = It()

        def close():
            rec["closes"] += 1

        if rec.get("separate"):
            # PEP 3333: close() is looked for on the object the application returned, which need not be its own iterator
            class Body:
                def __iter__(self):
                    return it

            body = Body()
            if shape.has_close:
                body.close = close
            return body
        if shape.has_close:
            it.close = close
        return it

    return app


async def _run_asyncio(mw, scope, msgs, sent):
    q = list(msgs)

    async def receive():
        if q:
            return q.pop(0)
        return {"type": "http.disconnect"}

    async def send(m):
        sent.append(m)

    await mw(scope, receive, send)


def run_shape(worker, shape, scope, msgs, max_body, separate=False):
    from hypercorn.middleware.wsgi import AsyncioWSGIMiddleware, TrioWSGIMiddleware

    rec = {"threads": [], "calls": 0, "closes": 0, "loop_thread": threading.get_ident(), "body_seen": None,
           "separate": separate}
    sent = []
    app = make_app(shape, rec)
    raised = False
    if worker == "asyncio":
        mw = AsyncioWSGIMiddleware(app, max_body)
        try:
            asyncio.run(_run_asyncio(mw, scope, msgs, sent))
        except (AppBoom, RuntimeError):
            raised = True
    else:
        import trio

        mw = TrioWSGIMiddleware(app, max_body)
        try:
            trio.run(_run_asyncio, mw, scope, msgs, sent)
        except (AppBoom, RuntimeError):
            raised = True
    return rec, sent, raised


def shape_cases(ctx, n):
    rng = ctx.rng
    cases = []
    for idx in range(n):
        shape = gen_shape(rng)
        sc = gen_scope(rng)
        if rng.random() < 0.85:
            sc["root_path"] = ""
        max_body = rng.choice([0, 1, 5, 10, 16, 1000])
        nmsg = rng.randint(1, 4)
        msgs = []
        total = rng.choice([0, max_body, max_body + 1, max(0, max_body - 1), rng.randint(0, 20)])
        cuts = sorted(rng.randint(0, total) for _ in range(nmsg - 1))
        body = bytes(rng.randrange(256) for _ in range(total))
        parts = [body[a:b] for a, b in zip([0] + cuts, cuts + [total])]
        for i, p in enumerate(parts):
            msgs.append({"type": "http.request", "body": p, "more_body": i < len(parts) - 1})
        # the client leaves before its body is complete: http.disconnect in place of one of the body messages (and after it)
        gone_at = None
        if idx % 7 == 3:
            gone_at = rng.randrange(0, len(msgs))
            for m in msgs[:gone_at]:
                m["more_body"] = True
            msgs = msgs[:gone_at] + [{"type": "http.disconnect"}]
        worker = "asyncio" if idx % 2 == 0 else "trio"
        separate = idx % 3 == 2
        rec, sent, raised = run_shape(worker, shape, sc, [dict(m) for m in msgs], max_body, separate)
        sends = []
        for m in sent:
            if m["type"] == "http.response.start":
                sends.append(["start", m["status"], [[a, b] for a, b in m["headers"]]])
            else:
                sends.append(["body", m.get("body", b""), bool(m.get("more_body", False))])
        obs = [sends, rec["closes"], raised, rec["calls"]]
        if gone_at is not None:
            # oracle (property text: wsgi.input holds exactly the request body): never called with a part of it; a 400 for a
            # part that is already over the limit is the only possible answer
            arrived = sum(len(m.get("body", b"")) for m in msgs)
            case = {"kind": "shape-disconnect", "worker": worker, "max_body": max_body, "arrived": arrived, "messages": len(msgs), "obs": obs}
            fails = []
            if rec["calls"] != 0:
                fails.append({"case": case, "what": f"application called with {rec['body_seen']!r} although the client left before the body was complete",
                              "signature": "shape:called-after-disconnect"})
            inp = ("(1%%N, %s, %s, %s, %s)"
                   % (C.cZ(max_body), C.clist([("None" if m["type"] == "http.disconnect" else f"Some ({C.cbytes(m['body'])}, {C.cbool(m['more_body'])})") for m in msgs], "(option rmsg)"),
                      scope_term(sc), shape.term()))
            cases.append((inp, C.V(obs), case, fails))
            continue
        if raised and sends and sends[-1][0] == "body" and sends[-1][2] is False and gone_at is None:
            # an application that failed must not have its response completed behind its back (the server turns the missing
            # end into a 500 or a visibly cut-short response)
            pre_fail = {"case": {"kind": "shape", "worker": worker, "shape": shape.describe()},
                        "what": f"the application raised, yet the response was completed: {sends[-2:]}", "signature": "shape:completed-after-error"}
        else:
            pre_fail = None
        case = {"kind": "shape", "worker": worker, "shape": shape.describe(), "separate_iterator": separate, "max_body": max_body,
                "body_len": total, "parts": [len(p) for p in parts], "root_path": sc["root_path"], "path": sc["path"], "obs": obs}
        fails = [pre_fail] if pre_fail else []
        # PEP 3333 oracle
        if total > max_body:
            if rec["calls"] != 0 or not sends or sends[0][:2] != ["start", 400]:
                fails.append({"case": case, "what": "body over the limit not answered 400 without calling the app", "signature": "shape:limit"})
        elif sc["path"].startswith(sc["root_path"]):
            if rec["calls"] != 1:
                fails.append({"case": case, "what": f"application called {rec['calls']} times", "signature": "shape:calls"})
            else:
                if rec["body_seen"] != body:
                    fails.append({"case": case, "what": "wsgi.input differs from the request body", "signature": "shape:input"})
                if rec["threads"][0] == rec["loop_thread"]:
                    fails.append({"case": case, "what": "application ran on the event-loop thread", "signature": "shape:thread"})
                returned_iterable = not any(s[0] == "raise" for s in shape.call)
                if returned_iterable and rec["closes"] != (1 if shape.has_close else 0):
                    fails.append({"case": case, "what": f"close() called {rec['closes']} times", "signature": "shape:close"})
                # clean shapes: start (eager or lazily before the first chunk), no raise
                clean = returned_iterable and not any(s[0] == "raise" for s in shape.it)
                starts = [s for s in shape.call if s[0] == "start"]
                first_yield = next((i for i, s in enumerate(shape.it) if s[0] == "yield"), len(shape.it))
                starts += [s for s in shape.it[:first_yield] if s[0] == "start"]
                if clean and starts:
                    st = starts[-1]
                    want = [["start", st[1], [[a.lower().encode("latin1"), b.encode("latin1")] for a, b in st[2]]]]
                    want += [["body", s[1], True] for s in shape.it if s[0] == "yield"] + [["body", b"", False]]
                    if sends != want or raised:
                        fails.append({"case": case, "what": f"response altered: {sends} != {want}", "signature": "shape:passthrough"})
        inp = ("(1%%N, %s, %s, %s, %s)"
               % (C.cZ(max_body), C.clist([f"Some ({C.cbytes(m['body'])}, {C.cbool(m['more_body'])})" for m in msgs], "(option rmsg)"),
                  scope_term(sc), shape.term()))
        cases.append((inp, C.V(obs), case, fails))
    return cases


def websocket_case():
    from hypercorn.app_wrappers import WSGIWrapper

    sent = []

    async def send(m):
        sent.append(m)

    coro = WSGIWrapper(lambda e, s: [], 10)({"type": "websocket"}, None, send, None, None)
    try:
        coro.send(None)
    except StopIteration:
        pass
    if sent != [{"type": "websocket.close"}]:
        return [{"case": {"kind": "websocket"}, "what": f"websocket scope not refused: {sent}", "signature": "websocket"}]
    return []


DEFS = """
Definition dummy_app := {| wa_call := []; wa_iter := []; wa_has_close := false |}.
Definition run_case (c : N * Z * list (option rmsg) * wscope * wsgi_app) : val :=
  let '(kind, max, msgs, sc, a) := c in
  match kind with
  | 0%N => v_of_environ (build_environ sc)
  | _ => v_of_result (handle_http max msgs sc a)
  end.
"""
INPUT_TY = "N * Z * list (option rmsg) * wscope * wsgi_app"


def run(ctx):
    allc = environ_cases(ctx, ctx.scale(500, 6000, 3000)) + shape_cases(ctx, ctx.scale(300, 3000, 1500))
    oracle_failures = [f for *_, fails in allc for f in fails] + websocket_case()
    coq_cases = [(i, e) for i, e, _, _ in allc]
    meta = [c for _, _, c, _ in allc]
    disagreements, err = [], None
    if ctx.mode != "search":
        failing, err = C.coq_failing(PROP, PREAMBLE + DEFS, INPUT_TY, "run_case", coq_cases)
        for k in failing[:5]:
            disagreements.append({"case": meta[k], "model": C.coq_show(PROP, PREAMBLE + DEFS, "run_case", coq_cases[k][0])[-1500:]})
        disagreements.extend({"case": meta[k]} for k in failing[5:40])
    dist = {}
    for c in meta:
        key = c["kind"] + (":" + c["worker"] if "worker" in c else "")
        dist[key] = dist.get(key, 0) + 1
    dist["over_limit"] = sum(1 for c in meta if c["kind"] == "shape" and c["body_len"] > c["max_body"])
    dist["invalid_path"] = sum(1 for c in meta if c["obs"] == ["invalid-path"])
    return {
        "evaluations": len(allc) + 1,
        "distinct_nontrivial": len({c["kind"] + repr(c["obs"]) for c in meta if c["obs"] != ["invalid-path"]}),
        "rule": "random scopes (non-ASCII paths, root_path prefixes, repeated/mixed-case headers) through _build_environ; "
                "application shapes (eager/lazy/late/no start_response, raise in call or iteration, close or not) x body "
                "segmentations around wsgi_max_body_size through the real asyncio and trio WSGI middleware (real executor "
                "threads). distinct = distinct (kind, observation) excluding invalid-path.",
        "samples": meta[:2] + meta[-2:],
        "disagreements": disagreements,
        "oracle_failures": oracle_failures,
        "model_eval_error": err,
        "distribution": dist,
        "assumptions": ["thread pool and from_thread plumbing are asyncio's/trio's", "header names/statuses are ASCII"],
    }


def known_still_fails(k):
    return None


def replay(data):
    print(data)
    return 0
