"""C02: HTTP response delivery fidelity and legal framing."""
from . import h1checks as K

PROP = "C02"


def kw(rng, i):
    return {"max_requests": rng.choice([None, None, 2, 1]), "queue_size": rng.choice([None, 10]),
            "policy": rng.choice(["fifo", "random", "lifo"]), "crashes": False, "worker": rng.choice(["asyncio", "trio"])}


def run(ctx):
    h2x = K.h2_extra(["c02"], (150, 2500, 800), crashes=False)

    def extra(c):
        # the response to a client that is slow to open its window, through the real TCPServer of both workers (with the idle
        # timer running): delivered in full, ended once
        from . import c07

        r = h2x(c)
        for i in range(c.scale(4, 40, 12)):
            d, f = c07.h2_slow_client_case(c.seed * 9173 + i)
            r["count"] += 1
            r["dist"]["h2_slow_client"] = r["dist"].get("h2_slow_client", 0) + 1
            for x in f:
                r["failures"].append({"case": {"h2": d}, "what": f"{x['backend']}: {x.get('delivered')} of {x.get('expected')} bytes, END_STREAM x{x.get('ends')}, "
                                                                 f"closed at {x.get('closed_at')}", "signature": "c02h2:" + x["signature"]})
        # a client that lowers its initial window mid-response (the stream window goes negative): the body still arrives
        # complete, in order, ended once
        from . import c08

        for i in range(c.scale(10, 100, 30)):
            d, f = c08.h2_negative_window(c.seed * 4001 + i)
            r["count"] += 1
            r["dist"]["h2_negative_window"] = r["dist"].get("h2_negative_window", 0) + 1
            for x in f:
                if x["signature"] in ("h2-not-delivered-after-negative-window", "h2-data-sent-at-negative-window"):
                    r["failures"].append({"case": {"h2": d}, "what": f"{x.get('got')} of {x.get('expected')} bytes, END_STREAM x{x.get('ends')}, reset {x.get('reset')}",
                                          "signature": "c02h2:" + x["signature"]})
        # the response to a request that arrived as an h2c upgrade (stream 1 of the upgraded connection), also when the
        # client's HTTP2-Settings is the empty payload (all defaults): status, body and END_STREAM reach the client
        from . import c13

        for kind in ("h2c", "h2c-empty-settings", "h2c-upper"):
            o = c13.e2e_outcome(kind, None)
            r["count"] += 1
            r["dist"]["h2c_upgraded_responses"] = r["dist"].get("h2c_upgraded_responses", 0) + 1
            if ("ResponseReceived", 1) not in o.get("h2", []) or ("StreamEnded", 1) not in o.get("h2", []):
                r["failures"].append({"case": {"h2": {"opening": kind}}, "what": f"the upgraded request's response did not reach the client: {o.get('h2')}",
                                      "signature": "c02h2:h2c-upgraded-response-lost"})
        return r

    return K.run_common(ctx, PROP, ["c02"], (250, 3000, 1000), (300, 3000, 1000), (300, 4000, 1500), kw,
                        "H11 protocol sessions against the H11Proto model; HTTPStream sequences against the stream model; end-to-"
                        "end sessions (statuses incl. 204/304, HEAD, header lists with/without content-length, repeated names, "
                        "chunkings with empty / 1-byte / 20000-byte chunks, HTTP/1.0 and 1.1) parsed by an independent h11 client "
                        "and compared with what the application sent.",
                        extra=extra)


def known_still_fails(k):
    if k.get("signature", "").startswith("F9:"):
        from .h2e2e import f9_witness

        return f9_witness()
    if k.get("signature") == "F14:app-queue-full-deadlock":
        from .c06 import f14_witness

        return f14_witness()
    return None


def replay(data):
    print(data)
    return 0
