"""End-to-end HTTP/1.x sessions through the real protocol stack under the R-proto driver, with an
independent h11 client, and the oracles (written from the property texts) used by C01, C02,
C05, C06 and C18."""
from __future__ import annotations

import random

from . import rig as R
from . import sched as S

METHODS = ["GET", "GET", "POST", "PUT", "HEAD", "DELETE", "OPTIONS", "get"]
TARGETS = ["/", "/a/b", "/a%20b?x=1&y=%3D", "/p?", "/?a?b", "/caf%C3%A9", "/%41%zz%4", "*", "/x/./y"]
HEADER_POOL = [(b"Accept", b"*/*"), (b"X-Dup", b"1"), (b"x-dup", b"2"), (b"X-Empty", b""), (b"Cookie", b"a=b; c=d"),
               (b"User-Agent", b"verif/1.0"), (b"X-MiXeD-CaSe", b"Val Ue"), (b"te", b"trailers")]


class Req:
    def __init__(self, rng, allow_10=True):
        self.method = rng.choice(METHODS)
        self.target = rng.choice(TARGETS)
        self.version = "1.0" if allow_10 and rng.random() < 0.15 else "1.1"
        self.headers = [(b"Host", rng.choice([b"example.com", b"example.com:8080"]))]
        for _ in range(rng.randint(0, 4)):
            self.headers.append(rng.choice(HEADER_POOL))
        self.body = b""
        self.framing = rng.choice(["none", "none", "cl", "cl", "chunked"])
        self.chunks = []
        self.incomplete = False
        if self.framing == "cl":
            self.body = bytes(rng.randrange(256) for _ in range(rng.choice([0, 1, 7, 100, 5000, 70000])))
            self.headers.append((b"Content-Length", str(len(self.body)).encode()))
        elif self.framing == "chunked" and self.version == "1.1":
            n = rng.choice([0, 1, 2, 5, 14])
            self.chunks = [bytes(rng.randrange(256) for _ in range(rng.choice([1, 2, 50, 3000]))) for _ in range(n)]
            self.body = b"".join(self.chunks)
            self.headers.append((b"Transfer-Encoding", b"chunked"))
        else:
            self.framing = "none"
        self.close = False
        r = rng.random()
        if r < 0.12:
            self.headers.append((b"Connection", b"close"))
            self.close = True
        elif r < 0.2:
            self.headers.append((b"Connection", b"keep-alive"))
        elif r > 0.88 and self.framing in ("cl", "chunked") and self.body and self.version == "1.1":
            # an h2c upgrade offer on a request with a body must be ignored (RFC 7540 3.2): plain HTTP/1.1 service
            self.headers += [(b"Connection", b"Upgrade, HTTP2-Settings"), (b"Upgrade", b"h2c"), (b"HTTP2-Settings", b"AAMAAABkAAQAAP__")]
        if self.method.upper() != "GET" and self.version == "1.1" and rng.random() < 0.06 and not any(n.lower() in (b"connection", b"upgrade") for n, _ in self.headers):
            # WebSocket upgrade headers on a method that is not GET: they mean nothing (RFC 6455 4.1), plain HTTP service
            self.headers += [(b"Upgrade", b"websocket"), (b"Connection", b"Upgrade"), (b"Sec-WebSocket-Key", b"dGhlIHNhbXBsZSBub25jZQ=="),
                             (b"Sec-WebSocket-Version", b"13")]
        if self.version == "1.0":
            self.close = True

    def wire(self):
        head = (self.method + " " + self.target + " HTTP/" + self.version + "\r\n").encode()
        head += b"".join(n + b": " + v + b"\r\n" for n, v in self.headers) + b"\r\n"
        if self.framing == "chunked":
            body = b"".join(b"%x\r\n%s\r\n" % (len(c), c) for c in self.chunks) + b"0\r\n\r\n"
        else:
            body = self.body
        return head + body

    def describe(self):
        return {"method": self.method, "target": self.target, "version": self.version, "framing": self.framing,
                "body_len": len(self.body), "close": self.close, "headers": len(self.headers)}


class AppPlan:
    """What the application does for one request."""

    def __init__(self, rng, req):
        self.read = rng.choice(["all-first", "all-first", "none", "after-response", "partial"])
        self.status = rng.choice([200, 200, 201, 204, 304, 404, 500, 301])
        self.headers = []
        for _ in range(rng.randint(0, 3)):
            self.headers.append(rng.choice([(b"content-type", b"text/plain"), (b"x-app", b" padded "), (b"set-cookie", b"k=v"),
                                            (b"X-Upper", b"CASE"), (b"x-empty", b"")]))
        self.chunks = [bytes(rng.randrange(256) for _ in range(rng.choice([0, 1, 10, 500, 20000]))) for _ in range(rng.randint(0, 4))]
        self.declare_length = rng.random() < 0.4
        if self.declare_length:
            self.headers.append((b"content-length", str(sum(len(c) for c in self.chunks)).encode()))
        self.crash = rng.choice([None, None, None, None, "before-start", "after-start", "mid-body", "return-before-start", "return-mid-body"])
        self.final_in_last_chunk = rng.random() < 0.5

    def steps(self):
        st = []
        if self.read == "all-first":
            st.append(("recv_all",))
        elif self.read == "partial":
            st.append(("recv",))
        if self.crash == "before-start":
            return st + [("raise",)]
        if self.crash == "return-before-start":
            return st + [("return",)]
        st.append(("send", {"type": "http.response.start", "status": self.status, "headers": list(self.headers)}))
        if self.crash == "after-start":
            return st + [("raise",)]
        chunks = list(self.chunks)
        for i, c in enumerate(chunks):
            last = i == len(chunks) - 1
            if self.crash in ("mid-body", "return-mid-body") and i == len(chunks) // 2:
                return st + [("raise",) if self.crash == "mid-body" else ("return",)]
            st.append(("send", {"type": "http.response.body", "body": c, "more_body": not (last and self.final_in_last_chunk)}))
        if self.crash in ("mid-body", "return-mid-body"):
            return st + [("raise",) if self.crash == "mid-body" else ("return",)]
        if not (chunks and self.final_in_last_chunk):
            st.append(("send", {"type": "http.response.body", "body": b"", "more_body": False}))
        if self.read == "after-response":
            st.append(("recv_all",))
        return st

    def completes(self):
        return self.crash is None

    def describe(self):
        return {"read": self.read, "status": self.status, "headers": self.headers, "chunks": [len(c) for c in self.chunks],
                "declared": self.declare_length, "crash": self.crash}


class Session:
    def __init__(self, rng, n_requests=None, max_requests=None, server_names=(), max_incomplete=None, queue_size=None,
                 policy="fifo", allow_10=True, crashes=True, worker="asyncio"):
        self.rng = rng
        self.reqs = []
        for _ in range(n_requests or rng.randint(1, 4)):
            r = Req(rng, allow_10)
            self.reqs.append(r)
            if r.close:
                break  # a client that announced close (or speaks HTTP/1.0) has no further request answered
        # ... but some clients send on regardless: another request, or a fragment of one, after the closing one
        self.surplus = b""
        if self.reqs[-1].close and rng.random() < 0.35:
            self.surplus = rng.choice([b"GET /surplus HTTP/1.1\r\nHost: x\r\n\r\n", b"GET /surp", b"\r\n", b"\x00\xffjunk\r\n\r\n",
                                       b"POST /surplus HTTP/1.1\r\nHost: x\r\nContent-Length: 3\r\n\r\nabc"])
        self.plans = [AppPlan(rng, r) for r in self.reqs]
        if not crashes:
            for p in self.plans:
                p.crash = None
        self.max_requests = max_requests
        self.server_names = list(server_names)
        # configurations under which the request is looked at differently: header names handed on as the client wrote them
        # (h11_pass_raw_headers), and a list of server names (every generated Host is on it: nothing changes for the client)
        rc = random.Random(rng.randrange(1 << 30))
        self.raw_headers = rc.random() < 0.2
        if not self.server_names and rc.random() < 0.2:
            self.server_names = ["example.com", "example.com:8080"]
        self.max_incomplete = max_incomplete
        self.queue_size = queue_size
        self.policy = policy
        self.worker = worker
        self.spawn_marks = []

    def run(self, splits=None, extra_bytes=b""):
        rng = self.rng
        self.driver = S.Driver(seed=rng.randrange(1 << 30), policy=self.policy)
        cfg = R.make_config(self.server_names)
        if self.max_requests is not None:
            cfg.keep_alive_max_requests = self.max_requests
        if self.max_incomplete is not None:
            cfg.h11_max_incomplete_size = self.max_incomplete
        if self.queue_size is not None:
            cfg.max_app_queue_size = self.queue_size
        cfg.h11_pass_raw_headers = self.raw_headers
        self.log = []
        cfg._log = R.RecLog(self.log)
        self.records = []
        app = S.scripted_app([p.steps() for p in self.plans], self.records, self.driver)
        self.rig = S.ProtoRig(app, cfg, self.driver, worker=self.worker)
        self.rig.tg.on_spawn_app = lambda inst: self.spawn_marks.append(len(self.rig.transport.written))
        stream = b"".join(r.wire() for r in self.reqs) + self.surplus + extra_bytes
        self.stream = stream
        if splits is None:
            k = rng.choice([0, 0, 1, 2, 5, 12])
            splits = sorted(set(rng.randint(0, len(stream)) for _ in range(k)))
        parts = [stream[a:b] for a, b in zip([0] + splits, splits + [len(stream)])]
        for p in parts:
            if p and not self.rig.closed:
                self.rig.feed(p)
                self.rig.run()
        self.rig.run()
        self.wire = bytes(self.rig.transport.written)
        self.closed_by_server = self.rig.closed
        if not self.rig.closed:
            self.rig.eof()
            self.rig.run()
        self.parse()
        return self

    def parse(self, upto=None):
        """Independent client: parse the server's bytes response by response."""
        import h11

        wire = self.wire if upto is None else self.wire[:upto]
        c = h11.Connection(h11.CLIENT)
        responses = []
        problem = None
        c.receive_data(wire)
        eof_fed = False
        consumed_complete = 0
        for req in self.reqs:
            try:
                c.send(h11.Request(method=req.method, target=req.target.encode(),
                                   headers=[(b"host", b"x")] + ([(b"connection", b"close")] if req.close else [])))
                c.send(h11.EndOfMessage())
            except h11.LocalProtocolError:
                break
            cur = {"status": None, "headers": None, "body": b"", "complete": False, "informational": []}
            try:
                while True:
                    ev = c.next_event()
                    if ev is h11.NEED_DATA and upto is None and getattr(self, "closed_by_server", False) and not eof_fed:
                        # the server closed: end of a close-delimited body, or a visibly incomplete response
                        eof_fed = True
                        c.receive_data(b"")
                        continue
                    if ev is h11.NEED_DATA or ev is h11.PAUSED:
                        break
                    if isinstance(ev, h11.InformationalResponse):
                        cur["informational"].append(ev.status_code)
                    elif isinstance(ev, h11.Response):
                        cur["status"] = ev.status_code
                        cur["headers"] = [(bytes(n), bytes(v)) for n, v in ev.headers]
                        cur["version"] = bytes(ev.http_version)
                    elif isinstance(ev, h11.Data):
                        cur["body"] += bytes(ev.data)
                    elif isinstance(ev, h11.EndOfMessage):
                        cur["complete"] = True
                        break
                    elif isinstance(ev, h11.ConnectionClosed):
                        break
            except h11.RemoteProtocolError as e:
                if eof_fed:
                    cur["cut_short"] = True      # closed before the declared length / final chunk: visibly incomplete
                else:
                    problem = f"client could not parse the server's bytes: {e}"
            if cur["status"] is not None or cur["informational"]:
                responses.append(cur)
            if not cur["complete"]:
                break
            if c.our_state is h11.DONE and c.their_state is h11.DONE:
                c.start_next_cycle()
            else:
                break
        if upto is None:
            self.responses, self.parse_problem = responses, problem
            self.trailing = c.trailing_data[0] if problem is None else b""
        return responses, problem

    def describe(self):
        return {"requests": [r.describe() for r in self.reqs], "plans": [p.describe() for p in self.plans],
                "surplus": repr(getattr(self, "surplus", b"")), "raw_headers": getattr(self, "raw_headers", False), "max_requests": self.max_requests, "server_names": self.server_names, "policy": self.policy,
                "responses": [{"status": r["status"], "complete": r["complete"], "body_len": len(r["body"])} for r in getattr(self, "responses", [])],
                "instances": len(getattr(self, "records", [])), "events": getattr(self.rig, "events", None) if hasattr(self, "rig") else None}


def deadlocked_on_own_queue(s) -> bool:
    """F14: an application blocked inside send() because the stream's closing handler awaits a put into
    that application's own full queue."""
    for t in s.driver.tasks:
        if t.name.startswith("app") and not t.done and t.waiting is not None and t.waiting.label == "queue.put":
            return True
    return False


# ------------------------------------------------------------------ oracles
def expected_scope(req: Req, ssl=False, raw=False):
    from urllib.parse import unquote

    path, _, query = req.target.partition("?")
    return {
        "type": "http", "http_version": req.version, "method": req.method.upper(), "scheme": "https" if ssl else "http",
        "path": unquote(path), "raw_path": path.encode(), "query_string": query.encode(),
        "headers": [(n if raw else n.lower(), v) for n, v in req.headers],
        "client": ("10.0.0.1", 4321), "server": ("10.0.0.2", 443 if ssl else 80),
    }


def oracle_c01(s: Session):
    """Request delivery fidelity for every request that reached an application."""
    fails = []
    for k, rec in enumerate(s.records):
        req = s.reqs[k]
        want = expected_scope(req, raw=s.raw_headers)
        sc = rec["scope"]
        for key, val in want.items():
            if sc.get(key) != val:
                fails.append((f"scope[{key}] = {sc.get(key)!r}, expected {val!r} (request {k})", "c01:scope:" + key))
        msgs = [m for m in rec["received"] if m["type"] == "http.request"]
        body = b"".join(m["body"] for m in msgs)
        plan = s.plans[k]
        finals = [m for m in msgs if not m["more_body"]]
        if plan.read == "all-first":
            if body != req.body:
                fails.append((f"request {k}: body delivered {len(body)} bytes != sent {len(req.body)}", "c01:body"))
            if len(finals) != 1 or msgs[-1]["more_body"]:
                fails.append((f"request {k}: {len(finals)} final body messages", "c01:final"))
        else:
            if not req.body.startswith(body):
                fails.append((f"request {k}: delivered bytes are not a prefix of the body", "c01:prefix"))
            if len(finals) > 1:
                fails.append((f"request {k}: {len(finals)} final body messages", "c01:final"))
        after = False
        for m in rec["received"]:
            if after and m["type"] == "http.request":
                fails.append((f"request {k}: body message after more_body=False", "c01:after-final"))
            if m["type"] == "http.request" and not m["more_body"]:
                after = True
    if len(s.records) > len(s.reqs):
        fails.append(("more application instances than requests", "c01:instances"))
    # every generated request is well formed and names a host the server answers for: the first one always starts an
    # application (the later ones depend on how the earlier ones end)
    if s.reqs and not s.records and s.responses and s.responses[0]["status"] in (404, 421):
        fails.append((f"no application instance for a well-formed request: answered {s.responses[0]['status']} "
                      f"(server_names {s.server_names}, raw headers {s.raw_headers})", "c01:not-started"))
    return fails


OWN = {b"date", b"server", b"alt-svc", b"connection", b"transfer-encoding"}


def oracle_c02(s: Session):
    """Response fidelity for every request whose application completed its response."""
    from hypercorn.utils import suppress_body

    fails = []
    for k, resp in enumerate(s.responses):
        if k >= len(s.records):
            break
        plan, req = s.plans[k], s.reqs[k]
        if not plan.completes():
            continue
        length_ok = (not plan.declare_length) or True
        if resp["status"] != plan.status:
            fails.append((f"response {k}: status {resp['status']} != {plan.status}", "c02:status"))
            continue
        want = [(n.lower(), v.strip()) for n, v in plan.headers]
        got = resp["headers"]
        head = got[: len(want)]
        # h11 merges / normalises content-length only; compare modulo that
        if [h for h in head] != want:
            fails.append((f"response {k}: headers {head} != application's {want}", "c02:headers"))
        rest = got[len(want):]
        if any(n not in OWN for n, _ in rest):
            fails.append((f"response {k}: foreign headers after the application's: {rest}", "c02:own-headers"))
        suppressed = req.method.upper() == "HEAD" or plan.status in (204, 304)
        body = b"".join(plan.chunks)
        if suppressed:
            if resp["body"] != b"":
                fails.append((f"response {k}: body present although it must be omitted", "c02:suppress"))
        elif resp["body"] != body:
            fails.append((f"response {k}: body {len(resp['body'])} bytes != application's {len(body)}", "c02:body"))
        if not resp["complete"]:
            fails.append((f"response {k}: not complete on the wire", "c02:complete"))
    if s.parse_problem:
        fails.append((s.parse_problem, "c02:wire-parse"))
    return fails


def oracle_c05(s: Session):
    fails = []
    for k, plan in enumerate(s.plans):
        if k >= len(s.records) or plan.crash is None:
            continue
        resp = s.responses[k] if k < len(s.responses) else None
        if plan.crash in ("before-start", "return-before-start"):
            if resp is None or resp["status"] != 500 or not resp["complete"]:
                fails.append((f"request {k}: application ended before responding but the client saw {resp}", "c05:500"))
        else:
            suppressed = s.reqs[k].method.upper() == "HEAD" or plan.status in (204, 304)
            declared_all_sent = plan.declare_length and sum(len(c) for c in plan.chunks[: len(plan.chunks) // 2]) == sum(len(c) for c in plan.chunks) and plan.crash != "after-start"
            if plan.declare_length and sum(len(c) for c in plan.chunks) == 0:
                declared_all_sent = True
            if resp is not None and resp["complete"] and not suppressed and not declared_all_sent and s.reqs[k].version == "1.1":
                fails.append((f"request {k}: application failed mid-response but the client parsed a complete response", "c05:false-complete"))
            if len(s.records) > k + 1:
                fails.append((f"request {k}: a later request was served on the connection after an aborted response", "c05:continued"))
        if plan.crash in ("before-start", "after-start", "mid-body"):
            if not any(e == ["log.exception"] for e in s.log):
                fails.append((f"request {k}: application exception not logged", "c05:logged"))
        break  # after the first failing application the connection is done
    return fails


def oracle_c06(s: Session):
    fails = []
    # strictly serial: instance k+1 starts only after response k is complete on the wire
    for k, mark in enumerate(s.spawn_marks):
        if k == 0:
            continue
        resps, _ = s.parse(upto=mark)
        done = sum(1 for r in resps if r["complete"])
        if done < k:
            fails.append((f"instance {k} started when only {done} responses were complete", "c06:serial"))
    if s.parse_problem:
        fails.append((s.parse_problem, "c06:interleaved"))
    # bytes of a later request never reach an earlier instance: covered by body equality per instance
    for k, rec in enumerate(s.records):
        body = b"".join(m["body"] for m in rec["received"] if m["type"] == "http.request")
        if not s.reqs[k].body.startswith(body):
            fails.append((f"instance {k} received bytes that are not from its own request", "c06:leak"))
    # reuse only if complete and nobody asked to close; otherwise close announced and no further instance
    served = len(s.records)
    for k in range(min(served, len(s.responses))):
        req, plan, resp = s.reqs[k], s.plans[k], s.responses[k]
        limit_hit = s.max_requests is not None and (k + 1) >= max(s.max_requests, 1)
        must_close = req.close or limit_hit or not plan.completes()
        if must_close:
            if served > k + 1:
                fails.append((f"request {k} required closing but request {k + 1} was served", "c06:served-after-close"))
            if resp["complete"] and resp["headers"] is not None and plan.completes():
                conn = [v.lower() for n, v in resp["headers"] if n == b"connection"]
                if b"close" not in conn and resp.get("version") != b"1.0":
                    fails.append((f"response {k} does not announce connection: close ({'limit' if limit_hit else 'client asked'})", "c06:close-announced"))
            if not s.closed_by_server and plan.completes():
                fails.append((f"server did not close after request {k}", "c06:closed"))
            if not s.closed_by_server and not plan.completes():
                fails.append((f"the application ended request {k} without completing its response and the server did not close", "c06:aborted-not-closed"))
            if plan.completes() and s.parse_problem is None:
                # the closing response is the last thing on the wire, whatever else the client sent after that request
                if not resp["complete"] and s.reqs[k].method != "HEAD":
                    fails.append((f"the response to request {k}, after which the connection closes, was not completed", "c06:last-response-cut"))
                elif resp["complete"] and s.trailing:
                    fails.append((f"bytes on the wire after the closing response {k}: {bytes(s.trailing)[:60]!r}", "c06:bytes-after-closing-response"))
            break
    return fails


def oracle_c18(s: Session):
    fails = []
    if s.max_requests is not None:
        cap = max(s.max_requests, 1)
        if len(s.records) > cap:
            fails.append((f"{len(s.records)} requests served with keep_alive_max_requests={s.max_requests}", "c18:keepalive-cap"))
    return fails
