"""C20: ProxyFix trust boundary, Dispatcher routing + lifespan fan-out, HTTP->HTTPS redirect.
R-pure rig: the real middleware classes driven directly, vs. coq/model/Middleware.v."""
from __future__ import annotations

import asyncio
import copy
from urllib.parse import urlsplit

from . import common as C

PROP = "C20"
PREAMBLE = """From Coq Require Import String Ascii ZArith NArith List Bool.
From HV Require Import lib.Bytes lib.Obs model.Middleware.
Import ListNotations.
"""


def drive(coro):
    """Run a coroutine that never really suspends."""
    try:
        coro.send(None)
    except StopIteration as e:
        return e.value
    raise RuntimeError("coroutine suspended")


def headers_term(hs):
    return C.clist([f"({C.cbytes(n)}, {C.cbytes(v)})" for n, v in hs], "(bytes * bytes)")


# ------------------------------------------------------------------ ProxyFix
NAMES = [b"x-forwarded-for", b"X-Forwarded-For", b"x-forwarded-proto", b"X-FORWARDED-HOST", b"x-forwarded-host",
         b"forwarded", b"Forwarded", b"host", b"Host", b"accept", b"x-forwarded-form"]
ADDRS = [b"1.1.1.1", b"10.0.0.1", b" 2.2.2.2 ", b"\xa0evil\x85", b"", b"unknown", b"[::1]", b"a b"]
PROTOS = [b"http", b"https", b" https", b"ws", b""]
HOSTS = [b"example.com", b"evil.test", b"h\xe9.example", b" spaced.example ", b"a:8080"]
FWD = [b"for=1.2.3.4;proto=https;host=example.com", b"for=6.6.6.6", b"proto=http; host=bad", b"host=x;for=y;for=z",
       b"by=1;for= 9.9.9.9 ", b"", b"garbage", b"For=1.1.1.1"]


def gen_value(rng, name):
    ln = name.lower()
    pool = ADDRS if ln.endswith(b"for") else PROTOS if ln.endswith(b"proto") else HOSTS if ln.endswith(b"host") else FWD if ln == b"forwarded" else [b"x", b"y,z"]
    k = rng.choice([1, 1, 1, 2, 3])
    sep = rng.choice([b",", b", ", b" ,"])
    return sep.join(rng.choice(pool) for _ in range(k))


def count_values(hs, name):
    return sum(v.count(b",") + 1 for n, v in hs if n.lower() == name)


def run_proxy(mode, hops, scope):
    from hypercorn.middleware import ProxyFixMiddleware

    seen = []

    async def app(scope, receive, send):
        seen.append(scope)

    before = copy.deepcopy(scope)
    drive(ProxyFixMiddleware(app, mode=mode, trusted_hops=hops)(scope, None, None))
    mutated = scope != before
    return seen[0], mutated


def scope_obs(sc):
    client = sc.get("client")
    return [
        None if client is None else [[client[0].encode("latin1") if isinstance(client[0], str) else client[0], client[1]]],
        sc["scheme"].encode("latin1"),
        [[n, v] for n, v in sc["headers"]],
    ]


def proxy_cases(ctx, n):
    rng = ctx.rng
    cases = []
    for idx in range(n):
        modern = rng.random() < 0.45
        hops = rng.choice([0, 1, 1, 1, 2, 2, 3])
        hs = [(rng.choice(NAMES), b"") for _ in range(rng.randint(0, 6))]
        hs = [(nm, gen_value(rng, nm)) for nm, _ in hs]
        typ = rng.choice(["http", "http", "websocket", "lifespan"]) if idx % 17 == 0 else rng.choice(["http", "websocket"])
        scope = {"type": typ, "scheme": rng.choice(["http", "ws", "https"]), "headers": hs,
                 "client": rng.choice([("9.9.9.9", 1234), None]), "path": "/", "extensions": {"a": [1, {"b": 2}]}}
        out, mutated = run_proxy("modern" if modern else "legacy", hops, scope)
        obs = scope_obs(out)
        case = {"kind": "proxy", "modern": modern, "hops": hops, "scope": scope, "obs": obs}
        fails = []
        if mutated:
            fails.append({"case": case, "what": "caller's scope was mutated", "signature": "proxy:mutation"})
        if typ in ("http", "websocket") and out is scope:
            fails.append({"case": case, "what": "scope passed on is the caller's object", "signature": "proxy:alias"})
        # untouched when zero hops or too few values
        names = [b"forwarded"] if modern else [b"x-forwarded-for", b"x-forwarded-proto", b"x-forwarded-host"]
        if typ != "lifespan" and (hops == 0 or all(count_values(hs, nm) < hops for nm in names)):
            if scope_obs(out) != scope_obs(scope):
                fails.append({"case": case, "what": "scope changed although too few trusted values",
                              "signature": "proxy:untouched:" + ("modern" if modern else "legacy")})
        # trust boundary (metamorphic): attacker-prepended material changes nothing when enough values exist
        if typ != "lifespan" and hops >= 1 and all(count_values(hs, nm) >= hops for nm in names) and hs:
            evil = []
            for nm in names:
                evil.append((nm, b"6.6.6.6, evil"))
                evil.append((nm.upper(), b"for=6.6.6.6;proto=gopher;host=evil"))
            sc2 = dict(scope, headers=evil + hs)
            out2, _ = run_proxy("modern" if modern else "legacy", hops, sc2)
            o1, o2 = scope_obs(out), scope_obs(out2)
            if o1[0] != o2[0] or o1[1] != o2[1] or [h for h in o1[2] if h[0].lower() == b"host"][-1:] != [h for h in o2[2] if h[0].lower() == b"host"][-1:]:
                fails.append({"case": case, "what": f"attacker-prepended headers changed the result: {o2[:2]}",
                              "signature": "proxy:boundary"})
            # the same, prepended inside the first relevant header value
            hs3 = list(hs)
            for i, (nm, v) in enumerate(hs3):
                if nm.lower() in names:
                    hs3[i] = (nm, b"6.6.6.6 ,for=evil;host=evil;proto=evil," + v)
                    break
            out3, _ = run_proxy("modern" if modern else "legacy", hops, dict(scope, headers=hs3))
            o3 = scope_obs(out3)
            if o1[0] != o3[0] or o1[1] != o3[1]:
                fails.append({"case": case, "what": "attacker-prepended comma elements changed the result",
                              "signature": "proxy:boundary-comma"})
        # the value the configured number of hops from the right, counted over all the lines of the header (proxies append
        # a line of their own as often as they append to the last one)
        if typ != "lifespan" and hops >= 1 and not modern:
            def nth(nm):
                vals = [x.decode("latin1").strip() for n_, v in hs if n_.lower() == nm for x in v.split(b",")]
                return vals[-hops] if len(vals) >= hops else None

            want_client, want_scheme, want_host = nth(b"x-forwarded-for"), nth(b"x-forwarded-proto"), nth(b"x-forwarded-host")
            got_client = out.get("client")
            if want_client is not None and got_client != (want_client, 0):
                fails.append({"case": case, "what": f"client {got_client!r}, expected {(want_client, 0)!r}", "signature": "proxy:nth-from-right:client"})
            if want_scheme is not None and out["scheme"] != want_scheme:
                fails.append({"case": case, "what": f"scheme {out['scheme']!r}, expected {want_scheme!r}", "signature": "proxy:nth-from-right:scheme"})
            if want_host is not None and [v for n_, v in out["headers"] if n_.lower() == b"host"] != [want_host.encode()]:
                fails.append({"case": case, "what": f"host headers {[v for n_, v in out['headers'] if n_.lower() == b'host']}, expected {want_host!r}",
                              "signature": "proxy:nth-from-right:host"})
        if typ == "lifespan":
            cases.append((None, None, case, fails))
            continue
        cl = scope["client"]
        sc_term = ("{| ps_www := true; ps_client := %s; ps_scheme := %s; ps_headers := %s |}"
                   % ("None" if cl is None else f"(Some ({C.cbytes(cl[0].encode())}, {C.cZ(cl[1])}))",
                      C.cbytes(scope["scheme"].encode()), headers_term(hs)))
        inp = f"(0%N, {C.cbool(modern)}, {C.cnat(hops)}, {sc_term}, @nil bytes, @nil N, None, dummy_r)"
        cases.append((inp, C.V(obs), case, fails))
    return cases


# ------------------------------------------------------------------ Dispatcher
PREFIXES = ["/", "/api", "/api/", "/api/x", "/a", "/ab", "", "/é", "/static", "/API"]
PATHS = ["/", "/api", "/api/", "/api/x/y", "/ab", "/a/b", "/abc", "/é/x", "/static/app.js", "/other", "/apix", "/API/1"]


def dispatch_cases(ctx, n):
    from hypercorn.middleware.dispatcher import _DispatcherMiddleware

    rng = ctx.rng
    cases = []
    for idx in range(n):
        prefixes = []
        for p in rng.sample(PREFIXES, rng.randint(0, 5)):
            prefixes.append(p)
        path = rng.choice(PATHS) if rng.random() < 0.8 else rng.choice(PREFIXES) + rng.choice(["", "/", "/z", "z"])
        hits = []
        mounts = {}
        for i, p in enumerate(prefixes):
            async def app(scope, receive, send, _i=i):
                hits.append((_i, scope["path"]))
            mounts[p] = app
        sent = []

        async def send(m):
            sent.append(m)

        styp = "websocket" if idx % 4 == 3 else "http"
        drive(_DispatcherMiddleware(mounts)({"type": styp, "path": path}, None, send))
        if hits:
            obs = [[hits[0][0], C.U(hits[0][1])]]
        else:
            obs = None
        case = {"kind": "dispatch", "scope_type": styp, "mounts": prefixes, "path": path, "obs": repr(obs)}
        fails = []
        want = next((i for i, p in enumerate(prefixes) if path.startswith(p)), None)
        if want is None:
            # (a WebSocket request is answered through the HTTP-response extension: http.response.* is not a message a
            # websocket scope may send, the server would turn it into a 500)
            want_type = "websocket.http.response.start" if styp == "websocket" else "http.response.start"
            if hits or not sent or sent[0].get("status") != 404 or sent[0].get("type") != want_type:
                fails.append({"case": case, "what": f"no mount matches a {styp} request but no 404 in its own message type: {sent[:1]}", "signature": "dispatch:404"})
        else:
            rest = path[len(prefixes[want]):] or "/"
            if len(hits) != 1 or hits[0] != (want, rest) or sent:
                fails.append({"case": case, "what": f"routed to {hits}, expected {(want, rest)}", "signature": "dispatch:first"})
        inp = ("(1%%N, false, 0%%nat, dummy_p, %s, %s, None, dummy_r)"
               % (C.clist([C.cpoints(p) for p in prefixes], "bytes"), C.cpoints(path)))
        cases.append((inp, C.V(obs), case, fails))
    return cases


async def _fan_asyncio(n, order, cls):
    turn = {"t": 0, "phase": "startup"}
    forwarded = []
    done = {"startup": 0, "shutdown": 0}

    def make(i):
        async def app(scope, receive, send):
            for phase in ("startup", "shutdown"):
                msg = await receive()
                assert msg["type"] == f"lifespan.{phase}"
                while not (turn["phase"] == phase and order[phase][turn["t"]] == i):
                    await asyncio.sleep(0)
                done[phase] += 1
                turn["t"] += 1
                await send({"type": f"lifespan.{phase}.complete"})
                if turn["t"] == n:
                    turn["t"] = 0
                    turn["phase"] = "shutdown"
        return app

    mounts = {f"/m{i}": make(i) for i in range(n)}
    q: asyncio.Queue = asyncio.Queue()
    await q.put({"type": "lifespan.startup"})
    await q.put({"type": "lifespan.shutdown"})

    async def send(m):
        forwarded.append((m["type"], done["startup"], done["shutdown"]))

    await cls(mounts)({"type": "lifespan"}, q.get, send)
    return forwarded


def _fan_trio(n, order, cls):
    import trio

    turn = {"t": 0, "phase": "startup"}
    forwarded = []
    done = {"startup": 0, "shutdown": 0}

    def make(i):
        async def app(scope, receive, send):
            for phase in ("startup", "shutdown"):
                msg = await receive()
                assert msg["type"] == f"lifespan.{phase}"
                while not (turn["phase"] == phase and order[phase][turn["t"]] == i):
                    await trio.sleep(0)
                done[phase] += 1
                turn["t"] += 1
                await send({"type": f"lifespan.{phase}.complete"})
                if turn["t"] == n:
                    turn["t"] = 0
                    turn["phase"] = "shutdown"
        return app

    async def main():
        mounts = {f"/m{i}": make(i) for i in range(n)}
        s, r = trio.open_memory_channel(2)
        await s.send({"type": "lifespan.startup"})
        await s.send({"type": "lifespan.shutdown"})

        async def send(m):
            forwarded.append((m["type"], done["startup"], done["shutdown"]))

        await cls(mounts)({"type": "lifespan"}, r.receive, send)

    trio.run(main)
    return forwarded


def fanout_cases(ctx, n):
    from hypercorn.middleware.dispatcher import AsyncioDispatcherMiddleware, TrioDispatcherMiddleware

    rng = ctx.rng
    cases = []
    for idx in range(n):
        k = rng.randint(1, 5)
        order = {"startup": rng.sample(range(k), k), "shutdown": rng.sample(range(k), k)}
        worker = "asyncio" if idx % 2 == 0 else "trio"
        if worker == "asyncio":
            fwd = asyncio.run(_fan_asyncio(k, order, AsyncioDispatcherMiddleware))
        else:
            fwd = _fan_trio(k, order, TrioDispatcherMiddleware)
        obs = [sum(1 for f in fwd if f[0] == "lifespan.startup.complete"), sum(1 for f in fwd if f[0] == "lifespan.shutdown.complete")]
        case = {"kind": "fanout", "worker": worker, "mounts": k, "order": order, "forwarded": fwd, "obs": obs}
        fails = []
        want = [("lifespan.startup.complete", k, 0), ("lifespan.shutdown.complete", k, k)]
        if fwd != want:
            fails.append({"case": case, "what": f"forwarded {fwd}, expected {want}", "signature": "fanout:" + worker})
        inp = ("(2%%N, false, %s, dummy_p, @nil bytes, %s, None, dummy_r)"
               % (C.cnat(k), "(" + C.clist([C.cN(i) for i in order["startup"]], "N") + " ++ [99%N] ++ " + C.clist([C.cN(i) for i in order["shutdown"]], "N") + ")"))
        cases.append((inp, C.V(obs), case, fails))
    return cases


# ------------------------------------------------------------------ redirect
def redirect_cases(ctx, n):
    from hypercorn.middleware import HTTPToHTTPSRedirectMiddleware

    rng = ctx.rng
    cases = []
    for idx in range(n):
        typ = rng.choice(["http", "http", "websocket", "websocket", "lifespan"])
        scheme = {"http": rng.choice(["http", "http", "https"]), "websocket": rng.choice(["ws", "ws", "wss"]), "lifespan": ""}[typ]
        cfg_host = rng.choice([None, None, "example.com", "secure.test:8443"])
        hs = []
        if rng.random() < 0.75:
            hs.append((rng.choice([b"host", b"host", b"Host"]), rng.choice([b"localhost", b"h.test:80", b"a.b"])))
        if rng.random() < 0.3:
            hs.insert(0, (b"accept", b"*/*"))
        if rng.random() < 0.2:
            hs.append((b"host", b"second.test"))
        root = rng.choice(["", "", "/root", "/r/s"])
        raw_path = rng.choice([b"/", b"/abc", b"/abc%3C", b"/a/b/c", b"/x%20y", b"//double"])
        query = rng.choice([b"", b"", b"a=b", b"a=b&c=%20d", b"?"])
        h2 = rng.random() < 0.3
        ext = rng.random() < 0.8
        scope = {"type": typ, "scheme": scheme, "headers": hs, "root_path": root, "raw_path": raw_path,
                 "query_string": query, "http_version": "2" if h2 else "1.1", "path": "/",
                 "extensions": {"websocket.http.response": {}} if ext else {}}
        if typ == "lifespan":
            scope = {"type": "lifespan"}
        sent = []
        called = []

        async def app(s, r, sn):
            called.append((s, r, sn))

        async def send(m):
            sent.append(m)

        async def receive():
            return None

        try:
            drive(HTTPToHTTPSRedirectMiddleware(app, cfg_host)(scope, receive, send))
            err = False
        except ValueError:
            err = True
        if err:
            obs = ["valueerror"]
        elif called:
            obs = ["pass"]
        elif sent and sent[0]["type"] == "http.response.start":
            obs = ["http", dict(sent[0]["headers"])[b"location"]]
        elif sent and sent[0]["type"] == "websocket.http.response.start":
            obs = ["ws", dict(sent[0]["headers"])[b"location"]]
        elif sent and sent[0]["type"] == "websocket.close":
            obs = ["wsclose"]
        else:
            obs = ["nothing"]
        case = {"kind": "redirect", "scope": scope, "host": cfg_host, "obs": obs}
        fails = []
        secure = typ == "lifespan" or scheme in ("https", "wss")
        if secure:
            if not (called and called[0][0] is scope and called[0][1] is receive and called[0][2] is send and not sent):
                fails.append({"case": case, "what": "secure request not passed through unchanged", "signature": "redirect:pass"})
        else:
            host = cfg_host
            if host is None:
                host = next((v.decode("latin-1") for k, v in hs if k == b"host"), None)
            if typ == "websocket" and not ext:
                if obs != ["wsclose"]:
                    fails.append({"case": case, "what": "expected websocket.close", "signature": "redirect:wsclose"})
            elif host is None:
                if obs != ["valueerror"]:
                    fails.append({"case": case, "what": "host undeterminable but no error", "signature": "redirect:nohost"})
            else:
                ok = obs[0] in ("http", "ws") and sent[0]["status"] == 307 and len(sent) == 2
                if ok:
                    u = urlsplit(obs[1].decode())
                    want_scheme = "https" if typ == "http" or h2 else "wss"
                    ok = (u.scheme == want_scheme and u.netloc == host and u.path == root + raw_path.decode()
                          and u.query == query.decode() and not called)
                if not ok and not raw_path.startswith(b"//"):
                    fails.append({"case": case, "what": f"bad redirect {obs}", "signature": "redirect:url"})
        if typ == "lifespan":
            cases.append((None, None, case, fails))
            continue
        r_term = ("{| rs_type := %s; rs_scheme := %s; rs_h2 := %s; rs_has_ext := %s; rs_headers := %s; rs_root := %s; "
                  "rs_raw_path := %s; rs_query := %s |}"
                  % ("0%N" if typ == "http" else "1%N", C.cbytes(scheme.encode()), C.cbool(h2), C.cbool(ext),
                     headers_term(hs), C.cbytes(root.encode()), C.cbytes(raw_path), C.cbytes(query)))
        inp = ("(3%%N, false, 0%%nat, dummy_p, @nil bytes, @nil N, %s, %s)"
               % ("None" if cfg_host is None else f"(Some {C.cbytes(cfg_host.encode())})", r_term))
        cases.append((inp, C.V(obs), case, fails))
    return cases


DEFS = """
Definition dummy_p := {| ps_www := false; ps_client := None; ps_scheme := []; ps_headers := [] |}.
Definition dummy_r := {| rs_type := 2%N; rs_scheme := []; rs_h2 := false; rs_has_ext := false; rs_headers := [];
                         rs_root := []; rs_raw_path := []; rs_query := [] |}.
Fixpoint split99 (l : list N) (acc : list nat) : list nat * list nat :=
  match l with
  | [] => (rev acc, [])
  | x :: r => if N.eqb x 99 then (rev acc, map N.to_nat r) else split99 r (N.to_nat x :: acc)
  end.
Definition run_case (c : N * bool * nat * pscope * list bytes * list N * option bytes * rscope) : val :=
  let '(kind, modern, k, ps, mounts, path, cfg_host, rs) := c in
  match kind with
  | 0%N => v_of_pscope (proxy_fix modern k ps)
  | 1%N => vopt (fun r => VL [VZ (Z.of_nat (fst r)); VB (snd r)]) (route mounts path)
  | 2%N => let '(o1, o2) := split99 path [] in
           VL [VZ (Z.of_nat (snd (fan_run (repeat false k) o1))); VZ (Z.of_nat (snd (fan_run (repeat false k) o2)))]
  | _ => v_of_redirect (redirect cfg_host rs)
  end.
"""
INPUT_TY = "N * bool * nat * pscope * list bytes * list N * option bytes * rscope"


def run(ctx):
    allc = (proxy_cases(ctx, ctx.scale(700, 8000, 4000)) + dispatch_cases(ctx, ctx.scale(400, 4000, 2000))
            + fanout_cases(ctx, ctx.scale(40, 400, 100)) + redirect_cases(ctx, ctx.scale(400, 4000, 2000)))
    oracle_failures = [f for *_, fails in allc for f in fails]
    coq_cases = [(i, e) for i, e, _, _ in allc if i is not None]
    meta = [c for i, _, c, _ in allc if i is not None]
    disagreements, err = [], None
    if ctx.mode != "search":
        failing, err = C.coq_failing(PROP, PREAMBLE + DEFS, INPUT_TY, "run_case", coq_cases)
        for k in failing[:5]:
            disagreements.append({"case": meta[k], "model": C.coq_show(PROP, PREAMBLE + DEFS, "run_case", coq_cases[k][0])[-1200:]})
        disagreements.extend({"case": meta[k]} for k in failing[5:40])
    dist = {}
    for *_, c, _ in allc:
        dist[c["kind"]] = dist.get(c["kind"], 0) + 1
    distinct = len({c["kind"] + repr(c["obs"]) for *_, c, _ in allc})
    return {
        "evaluations": len(allc),
        "distinct_nontrivial": distinct,
        "rule": "random forwarding-header lists (case variants, comma lists, white space incl. NBSP/NEL, legacy and RFC 7239 "
                "forms) x hops 0..3 x both modes, each also re-run with attacker-prepended headers / comma elements; "
                "mount tables x paths; lifespan fan-out orders on both workers; redirect scopes. distinct = distinct "
                "(kind, canonical observation).",
        "samples": [c for *_, c, _ in allc[:2]] + [c for *_, c, _ in allc[-2:]],
        "disagreements": disagreements,
        "oracle_failures": oracle_failures,
        "model_eval_error": err,
        "distribution": dist,
        "assumptions": ["deepcopy, urlunsplit and str.strip are CPython's (modelled)", "redirect hosts are ASCII"],
    }


def known_still_fails(k):
    return None


def replay(data):
    print(data)
    return 0
