"""Stand-alone stream rig: real HTTPStream / WSStream driven call by call against
coq/model/StreamRig.v.  Used by C12 (message validity), C02/C05 (event level) and C11/C10."""
from __future__ import annotations

import base64
import hashlib

from . import common as C
from . import rig as R

PREAMBLE = """From Coq Require Import String Ascii ZArith NArith List Bool.
From HV Require Import lib.Bytes lib.Obs lib.Monad model.Asgi model.GuardTypes model.HttpStream model.WsStream model.StreamRig
     gen.Consts_gen gen.Guards_gen.
Import ListNotations.

Definition mk_hcfg (names : list bytes) (ssl : bool) : hcfg :=
  {| cfg_server_names := names; cfg_ssl := ssl; cfg_trailers_versions := TRAILERS_VERSIONS;
     cfg_push_versions := PUSH_VERSIONS; cfg_hint_versions := EARLY_HINTS_VERSIONS; cfg_guards := http_app_send_guards |}.
Definition mk_wcfg (names : list bytes) (ssl : bool) (maxm : Z) (ping : bool) : wcfg :=
  {| wc_http := mk_hcfg names ssl; wc_max_message := maxm; wc_ping_interval := ping; wc_guards := ws_app_send_guards |}.

Inductive scase :=
| HttpCase (names : list bytes) (ssl : bool) (reacts : list react) (auto : bool) (inputs : list sinput)
| WsCase (names : list bytes) (ssl : bool) (maxm : Z) (ping : bool) (token : bytes) (ext : option bytes)
         (sends : list (option bytes)) (reacts : list react) (auto : bool) (inputs : list winput).

Definition run_scase (c : scase) : val :=
  match c with
  | HttpCase names ssl reacts auto inputs => v_of_run (rig_run (mk_hcfg names ssl) (new_rig 1 reacts auto) inputs)
  | WsCase names ssl maxm ping token ext sends reacts auto inputs =>
      v_of_run (wrig_run (mk_wcfg names ssl maxm ping) (new_wrig 1 token ext sends reacts auto) inputs)
  end.
"""
INPUT_TY = "scase"
FUN = "run_scase"

# ------------------------------------------------------------------ payload pools
GOOD_H = [(("b", b"content-type"), ("b", b"text/plain")), (("b", b"x-a"), ("b", b" padded ")), (("b", b"Set-Cookie"), ("b", b"a=b")),
          (("b", b"content-length"), ("b", b"5")), (("b", b"x-empty"), ("b", b""))]
BAD_H = [(("s", "x-str"), ("b", b"v")), (("b", b"x-v"), ("s", "str")), (("b", b":status"), ("b", b"200")), (("b", b""), ("b", b"v")),
         (("b", b"x-int"), ("i", 3)), (("b", b"x-zero"), ("i", 0)), (("n",), ("b", b"v")), (("b", b"x-none"), ("n",)),
         (("b", b"x-crlf"), ("b", b"a\r\nx-injected: 1")), (("b", b"x-nul"), ("b", b"a\x00b")), (("b", b"x\nq"), ("b", b"v")),
         (("i", 5), ("b", b"v")), (("s", ""), ("b", b"v")), (("b", b"x-neg"), ("i", -1)), (("b", b"x-lf-edge"), ("b", b"\nv\n")),
         (("b", b" :status"), ("b", b"500")), (("b", b"\t:path "), ("b", b"/x"))]


def gen_headers(rng, p_bad=0.25):
    hs = [rng.choice(GOOD_H) for _ in range(rng.randint(0, 3))]
    if rng.random() < p_bad:
        hs.insert(rng.randint(0, len(hs)), rng.choice(BAD_H))
    return hs


def gen_body_val(rng):
    r = rng.random()
    if r < 0.7:
        return ("b", bytes(rng.randrange(256) for _ in range(rng.choice([0, 1, 2, 5]))))
    return rng.choice([("s", "text"), ("s", ""), ("n",), ("i", 2), ("b", b"")])


def gen_http_msg(rng):
    k = rng.choice(["start", "start", "body", "body", "body", "trailers", "push", "hint", "none", "unknown", "ws.send"])
    if k == "start":
        return ("start", rng.choice([200, 200, 204, 304, 404, 500, 101, 199, None]), gen_headers(rng), rng.random() < 0.3)
    if k == "body":
        m = ("body", gen_body_val(rng), rng.random() < 0.5)
        if m[1] == ("b", b"") and rng.random() < 0.5:
            m = m + ("omit",)
        return m
    if k == "trailers":
        return ("trailers", gen_headers(rng), rng.random() < 0.4)
    if k == "push":
        return ("push", rng.choice([("s", "/pushed"), ("s", "/p?q=1"), ("b", b"/bytes"), ("n",), ("i", 1)]), gen_headers(rng))
    if k == "hint":
        return ("hint", [rng.choice([("b", b"</s.css>; rel=preload"), ("b", b" </a> "), ("s", "str"), ("b", b"a\r\nb"), ("n",)])
                         for _ in range(rng.randint(0, 2))])
    if k == "none":
        return None
    if k == "ws.send":
        return ("ws.send", ("b", b"x"), ("n",))
    return ("unknown",)


REQ_HEADERS = [(b"host", b"example.com"), (b"Host", b"other.test"), (b"host", b"ex\xffmple.com"), (b"te", b"trailers"), (b"te", b"gzip"), (b"accept", b"*/*"),
               (b"x-dup", b"1"), (b"x-dup", b"2"), (b"cookie", b"a=b")]
PATHS = [b"/", b"/a/b", b"/a%20b?x=1", b"/p?", b"/?a?b", b"/%41%zz%4", b"/caf%C3%A9", b"*", b"/x%", b"/\xc3\xa9", b"/a?q=\xff"]


def gen_request(rng, ws=False):
    hs = [rng.choice(REQ_HEADERS) for _ in range(rng.randint(0, 4))]
    version = rng.choice(["1.0", "1.1", "1.1", "2", "2", "3"])
    method = rng.choice(["GET", "GET", "POST", "HEAD", "PUT"])
    path = rng.choice(PATHS)
    return ("request", hs, version, method, path)


def http_input_py(i):
    from hypercorn.protocol.events import Body, EndBody, Request, StreamClosed
    from hypercorn.typing import ConnectionState

    k = i[0]
    if k == "request":
        return Request(stream_id=1, headers=list(i[1]), http_version=i[2], method=i[3], raw_path=i[4], state=ConnectionState({}))
    if k == "rbody":
        return Body(stream_id=1, data=i[1])
    if k == "rend":
        return EndBody(stream_id=1)
    if k == "closed":
        return StreamClosed(stream_id=1)
    raise ValueError(i)


def http_input_coq(i):
    k = i[0]
    if k == "request":
        return f"(IHandle (EvRequest {R.headers_coq(i[1])} {C.cbytes(i[2].encode())} {C.cbytes(i[3].encode())} {C.cbytes(i[4])}))"
    if k == "rbody":
        return f"(IHandle (EvBody {C.cbytes(i[1])}))"
    if k == "rend":
        return "(IHandle EvEndBody)"
    if k == "closed":
        return "(IHandle EvStreamClosed)"
    if k == "app":
        return f"(IAppSend {R.msg_coq(i[1])})"
    raise ValueError(i)


def gen_reacts(rng):
    if rng.random() < 0.7:
        return []
    return [rng.choice([R.React.NONE, R.React.NONE, R.React.CLOSE, R.React.RAISE]) for _ in range(rng.randint(1, 5))]


def run_http_case(names, ssl, reacts, auto, inputs):
    h = R.StreamHarness("http", names, ssl, reacts, auto)
    obs = []
    for i in inputs:
        if i[0] == "app":
            obs.append(h.step(h.stream.app_send(R.msg_py(i[1]))))
        else:
            obs.append(h.step(h.stream.handle(http_input_py(i))))
    return obs


def http_case(rng, length=None, valid_bias=0.0):
    names = rng.choice([[], [], [], ["example.com"], ["nomatch.test"]])
    ssl = rng.random() < 0.3
    reacts = gen_reacts(rng)
    auto = rng.random() < 0.85
    inputs = [gen_request(rng)]
    n = length if length is not None else rng.randint(1, 7)
    if any(c >= 128 for c in inputs[0][4].partition(b"?")[0]):
        n = 0  # handle(Request) raises (non-ASCII path); a protocol never uses such a stream again
    for _ in range(n):
        r = rng.random()
        if r < 0.12:
            inputs.append(("rbody", bytes(rng.randrange(256) for _ in range(rng.randint(0, 4)))))
        elif r < 0.18:
            inputs.append(("rend",))
        elif r < 0.24:
            inputs.append(("closed",))
        else:
            inputs.append(("app", gen_http_msg(rng)))
    return names, ssl, reacts, auto, inputs


def http_case_term(names, ssl, reacts, auto, inputs):
    return ("(HttpCase %s %s %s %s %s)"
            % (C.clist([C.cbytes(n.encode()) for n in names], "bytes"), C.cbool(ssl), C.clist(reacts, "react"), C.cbool(auto),
               C.clist([http_input_coq(i) for i in inputs], "sinput")))


# ------------------------------------------------------------------ websocket
def accept_token(key: bytes) -> bytes:
    return base64.b64encode(hashlib.sha1(key + b"258EAFA5-E914-47DA-95CA-C5AB0DC85B11").digest())


WS_HEADERS = [(b"host", b"example.com"), (b"connection", b"Upgrade"), (b"connection", b"keep-alive, upgrade"), (b"Connection", b"UPGRADE"),
              (b"connection", b"close"), (b"upgrade", b"websocket"), (b"Upgrade", b"WebSocket"), (b"upgrade", b"h2c"),
              (b"sec-websocket-key", b"dGhlIHNhbXBsZSBub25jZQ=="), (b"sec-websocket-version", b"13"), (b"sec-websocket-version", b"8"),
              (b"sec-websocket-protocol", b"chat, superchat"), (b"sec-websocket-protocol", b"v1"),
              (b"sec-websocket-extensions", b"permessage-deflate"), (b"sec-websocket-extensions", b"x-unknown; a=1"),
              (b"connection", b"upgrade, \xff"), (b"sec-websocket-protocol", b"ch\xe9t"), (b"sec-websocket-extensions", b"\xff; x"),
              (b"origin", b"http://o.test")]
VALID_WS = [(b"host", b"example.com"), (b"connection", b"Upgrade"), (b"upgrade", b"websocket"),
            (b"sec-websocket-key", b"dGhlIHNhbXBsZSBub25jZQ=="), (b"sec-websocket-version", b"13")]


# header names as a browser writes them: what the stream is handed when h11_pass_raw_headers is on
VALID_WS_RAW = [(b"Host", b"example.com"), (b"Connection", b"Upgrade"), (b"Upgrade", b"websocket"),
                (b"Sec-WebSocket-Key", b"dGhlIHNhbXBsZSBub25jZQ=="), (b"Sec-WebSocket-Version", b"13")]


def gen_ws_request(rng):
    version = rng.choice(["1.1", "1.1", "1.1", "2", "2", "1.0"])
    if rng.random() < 0.6:
        hs = list(VALID_WS) if version != "2" else [(b"host", b"example.com"), (b"sec-websocket-version", b"13")]
        if version != "2" and rng.random() < 0.3:
            hs = list(VALID_WS_RAW)
            if rng.random() < 0.4:
                hs.append((b"Sec-WebSocket-Protocol", b"chat, superchat"))
            if rng.random() < 0.3:
                hs.append((b"Sec-WebSocket-Extensions", b"permessage-deflate"))
        if rng.random() < 0.5:
            hs.append(rng.choice(WS_HEADERS))
        if rng.random() < 0.3 and hs:
            hs.pop(rng.randrange(len(hs)))
        if rng.random() < 0.4:
            hs.append((b"sec-websocket-protocol", b"chat, superchat"))
        if rng.random() < 0.3:
            hs.append((b"sec-websocket-extensions", b"permessage-deflate"))
    else:
        hs = [rng.choice(WS_HEADERS) for _ in range(rng.randint(0, 7))]
    return ("wrequest", hs, version, rng.choice(PATHS))


def gen_ws_msg(rng):
    k = rng.choice(["ws.accept", "ws.accept", "ws.send", "ws.send", "ws.send", "ws.close", "ws.http.start", "ws.http.body", "none",
                    "unknown", "start"])
    if k == "ws.accept":
        return ("ws.accept", rng.choice([None, None, "chat", "superchat", "nope"]), gen_headers(rng, 0.2) if rng.random() < 0.5 else
                rng.choice([[], [(("b", b"sec-websocket-protocol"), ("b", b"x"))], [(("b", b"Sec-WebSocket-Protocol"), ("b", b"x"))]]))
    if k == "ws.send":
        r = rng.random()
        if r < 0.4:
            return ("ws.send", ("b", bytes(rng.randrange(256) for _ in range(rng.randint(0, 5)))), ("n",))
        if r < 0.8:
            return ("ws.send", ("n",), ("s", rng.choice(["", "hello", "héllo €"])))
        return ("ws.send", rng.choice([("n",), ("s", "x"), ("i", 2)]), rng.choice([("b", b"bytes-as-text"), ("n",), ("i", 1)]))
    if k == "ws.close":
        return ("ws.close", rng.choice([None, 1000, 1001, 3000]), rng.choice([None, None, "bye"]))
    if k == "ws.http.start":
        return ("ws.http.start", rng.choice([200, 401, 403, 204, None]), gen_headers(rng))
    if k == "ws.http.body":
        return ("ws.http.body", gen_body_val(rng), rng.random() < 0.4)
    if k == "none":
        return None
    if k == "start":
        return ("start", 200, [], False)
    return ("unknown",)


def gen_ws_events(rng, state=None):
    """state: a one-element list holding the type of the message in progress across reads (or None)."""
    evs = []
    for _ in range(rng.randint(1, 4)):
        r = rng.random()
        if r < 0.55:
            is_text = rng.random() < 0.5
            payload = rng.choice(["", "a", "héllo", "xxxxxxxx"]) if is_text else bytes(rng.randrange(256) for _ in range(rng.choice([0, 1, 4, 9])))
            evs.append(("msg", is_text, payload, rng.random() < 0.7))
        elif r < 0.75:
            evs.append(("ping", bytes(rng.randrange(256) for _ in range(rng.randint(0, 3)))))
        elif r < 0.8:
            evs.append(("pong", b"p"))
        else:
            evs.append(("close", rng.choice([1000, 1001, 1005, 4000]), rng.choice(["", "bye"]), rng.random() < 0.8))
    # fragments of one message keep their type, also across reads (wsproto contract)
    cur = state[0] if state is not None else None
    out = []
    for e in evs:
        if e[0] == "msg":
            if cur is not None:
                payload = e[2]
                if isinstance(payload, str) != cur:
                    payload = "z" if cur else b"z"
                e = ("msg", cur, payload, e[3])
            cur = None if e[3] else e[1]
        out.append(e)
    if state is not None:
        state[0] = cur
    return out


def ws_input_coq(i):
    k = i[0]
    if k == "wrequest":
        return f"(WIHandle (WRequest {R.headers_coq(i[1])} {C.cbytes(i[2].encode())} {C.cbytes(i[3])}))"
    if k == "wdata":
        return "(WIHandle (WData " + C.clist([R.ws_event_coq(e) for e in i[1]], "wsevent") + "))"
    if k == "closed":
        return "(WIHandle WStreamClosed)"
    if k == "app":
        return f"(WIAppSend {R.msg_coq(i[1])})"
    raise ValueError(i)


def run_ws_case(names, ssl, maxm, ping, ext, sends, reacts, auto, inputs):
    from hypercorn.protocol.events import Data, Request, StreamClosed
    from hypercorn.typing import ConnectionState

    h = R.StreamHarness("ws", names, ssl, reacts, auto, ws_sends=sends, ping=ping, max_message=maxm)
    obs = []
    with R.patched_ws(h, ext):
        for idx, i in enumerate(inputs):
            if i[0] == "app":
                obs.append(h.step(h.stream.app_send(R.msg_py(i[1]))))
            elif i[0] == "wrequest":
                ev = Request(stream_id=1, headers=list(i[1]), http_version=i[2], method="GET", raw_path=i[3], state=ConnectionState({}))
                obs.append(h.step(h.stream.handle(ev)))
            elif i[0] == "wdata":
                # wsproto contract: the fragments of one message have one type.  What the stream's buffer holds depends on
                # where an earlier read was cut short by an exception, so the events are re-synchronised with it here (the
                # inputs list is edited in place: the model is given the same events).
                import io

                value = h.stream.buffer.value
                cur = None if value is None else isinstance(value, io.StringIO)
                fixed = []
                for e in i[1]:
                    if e[0] == "msg":
                        if cur is not None and e[1] != cur:
                            e = ("msg", cur, "z" if cur else b"z", e[3])
                        cur = None if e[3] else e[1]
                    fixed.append(e)
                if fixed != list(i[1]):
                    i = ("wdata", fixed)
                    inputs[idx] = i
                conn = getattr(h.stream, "connection", None)
                if conn is not None:
                    conn.pending = list(i[1])
                obs.append(h.step(h.stream.handle(Data(stream_id=1, data=b"x"))))
            else:
                obs.append(h.step(h.stream.handle(StreamClosed(stream_id=1))))
    return obs


def ws_case(rng, length=None):
    names = rng.choice([[], [], [], ["example.com"], ["nomatch.test"]])
    ssl = rng.random() < 0.3
    reacts = gen_reacts(rng) if rng.random() < 0.5 else []
    auto = rng.random() < 0.85
    maxm = rng.choice([5, 8, 1000])
    ping = rng.random() < 0.2
    req = gen_ws_request(rng)
    key = next((v for n, v in req[1][::-1] if n.lower() == b"sec-websocket-key"), b"")
    token = accept_token(key)
    ext = rng.choice([None, b"permessage-deflate", b""]) if any(n.lower() == b"sec-websocket-extensions" for n, _ in req[1]) else None
    sends = [rng.choice([b"F1", b"FRAME", b"", None]) for _ in range(rng.randint(0, 6))]
    inputs = [req]
    frag_state = [None]
    n = length if length is not None else rng.randint(1, 7)
    if any(c >= 128 for c in req[3].partition(b"?")[0]):
        n = 0
    if n and rng.random() < 0.5:
        inputs.append(("app", ("ws.accept", None, [])))  # a good share of sessions get past the handshake
    for _ in range(n):
        r = rng.random()
        if r < 0.25:
            inputs.append(("wdata", gen_ws_events(rng, frag_state)))
        elif r < 0.31:
            inputs.append(("closed",))
        else:
            inputs.append(("app", gen_ws_msg(rng)))
    return names, ssl, maxm, ping, token, ext, sends, reacts, auto, inputs


def ws_case_term(names, ssl, maxm, ping, token, ext, sends, reacts, auto, inputs):
    return ("(WsCase %s %s %s %s %s %s %s %s %s %s)"
            % (C.clist([C.cbytes(n.encode()) for n in names], "bytes"), C.cbool(ssl), C.cZ(maxm), C.cbool(ping), C.cbytes(token),
               C.copt(ext, C.cbytes), C.clist([C.copt(x, C.cbytes) for x in sends], "(option bytes)"),
               C.clist(reacts, "react"), C.cbool(auto), C.clist([ws_input_coq(i) for i in inputs], "winput")))
