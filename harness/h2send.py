"""Correspondence between model.H2Send (the HTTP/2 send path as a transition system) and the real
H2Protocol + StreamBuffer + h2 + priority, under explicit scheduling: the harness decides which
task runs next (reader with one client event, one application task, the send task), runs it until
it suspends, and compares the whole observable state with the model's after every such step."""
from __future__ import annotations

import random

from . import common as C
from . import rig as R
from . import sched as S

PREAMBLE = "From Coq Require Import String List ZArith NArith.\nFrom HV Require Import lib.Obs model.H2Send model.H2SendRig.\nImport ListNotations.\nOpen Scope string_scope.\nOpen Scope Z_scope.\n"
INPUT_TY = "Z * Z * Z * list grp"
FUN = "run_case"

SIZES = [1, 7, 100, 5000, 16383, 16384, 16385, 20000, 32767, 32768, 32769, 40000, 70000]
WINDOWS = [0, 1, 5, 100, 16384, 20000, 65535, 200000]


def genb(n, x):
    return bytes((x + i) % 256 for i in range(n))


def tolerate_empty_data_at_negative_window():
    """The h2 library (as a client) raises FlowControlError when an empty DATA frame (END_STREAM)
    arrives while the stream's window is negative (after SETTINGS shrank it); RFC 9113 6.9.1 allows
    exactly that frame.  The observing client must not choke on it."""
    import h2.windows

    if getattr(h2.windows.WindowManager, "_hv_patched", False):
        return
    orig = h2.windows.WindowManager.window_consumed

    def window_consumed(self, size):
        if size == 0:
            return
        return orig(self, size)

    h2.windows.WindowManager.window_consumed = window_consumed
    h2.windows.WindowManager._hv_patched = True


class ReaderDead(Exception):
    """The connection's reader task has ended with an exception: an internal error of the server."""


class SendRig:
    """One HTTP/2 connection, stepped explicitly."""

    def __init__(self, initial_window=None, max_frame=None, queue_size=None):
        import h2.config
        import h2.connection
        import h2.settings

        tolerate_empty_data_at_negative_window()
        self.driver = S.Driver()
        cfg = R.make_config(())
        if queue_size is not None:
            cfg.max_app_queue_size = queue_size
        self.log = []
        cfg._log = R.RecLog(self.log)
        self.scripts = {}
        self.records = {}

        async def app(scope, receive, send):
            sid = int(scope["path"][2:])
            recs = self.records.setdefault(sid, [])
            await S.scripted_app([self.scripts[sid]], recs, self.driver)(scope, receive, send)

        self.app = app
        self.rig = S.ProtoRig(self.app, cfg, self.driver, alpn="h2", ssl=True)
        self.app_tasks = {}
        self.spawn_order = []
        self.rig.tg.on_spawn_app = self._on_spawn
        self.client = h2.connection.H2Connection(h2.config.H2Configuration(client_side=True, header_encoding=None))
        self.client.initiate_connection()
        st = {}
        if initial_window is not None:
            st[h2.settings.SettingCodes.INITIAL_WINDOW_SIZE] = initial_window
        if max_frame is not None:
            st[h2.settings.SettingCodes.MAX_FRAME_SIZE] = max_frame
        # the send path is about the *server's* outbound windows = the client's advertised inbound ones
        if st:
            self.client.update_settings(st)
        self.consumed = 0
        self.frames = []
        self.picks = []
        self.bufobj = {}
        self.order = []
        self.req_open = {}
        self.data_sent = {}
        self.reader = self.rig.reader
        self.rig.feed(self.client.data_to_send())
        self.driver.run()
        self._drain_client()
        self.driver.run()
        self.p = self.rig.protocol.protocol
        self._wrap_priority()
        self.send_task = [t for t in self.driver.tasks if t.name.startswith("send_task")][0]
        self.reader = self.rig.reader

    def _on_spawn(self, inst):
        self.spawn_order.append(inst["name"])

    def _wrap_priority(self):
        import priority

        tree = self.p.priority
        rigself = self

        class Proxy:
            def __getattr__(self, name):
                return getattr(tree, name)

            def __next__(self):
                try:
                    s = next(tree)
                except priority.DeadlockError:
                    rigself.picks.append(None)
                    raise
                rigself.picks.append(s)
                return s

            def __iter__(self):
                return self

        self.tree = tree
        self.p.priority = Proxy()

    # ---- client side
    def _drain_client(self):
        """Parse what the server wrote; deliver the client's automatic replies (SETTINGS ack)."""
        import h2.events

        w = self.rig.transport.written
        if self.consumed < len(w):
            data = bytes(w[self.consumed:])
            self.consumed = len(w)
            for ev in self.client.receive_data(data):
                sid = getattr(ev, "stream_id", None)
                if isinstance(ev, h2.events.ResponseReceived):
                    self.frames.append(("headers", sid))
                elif isinstance(ev, h2.events.DataReceived):
                    if ev.data:
                        self.frames.append(("data", sid, bytes(ev.data)))
                elif isinstance(ev, h2.events.StreamEnded):
                    self.frames.append(("end", sid))
                elif isinstance(ev, h2.events.StreamReset):
                    self.frames.append(("rst", sid))
                elif isinstance(ev, h2.events.ConnectionTerminated):
                    self.frames.append(("goaway", 0))
        out = self.client.data_to_send()
        if out:
            self.rig.feed(out)
            self.driver.step(self.reader)

    def _reader_step(self):
        out = self.client.data_to_send()
        self.rig.feed(out)
        if self.reader.done:
            raise ReaderDead()
        assert self.reader.runnable()
        self.driver.step(self.reader)
        self._drain_client()

    def open(self, sid, script, body_open=False):
        self.scripts[sid] = script
        self.req_open[sid] = body_open
        self.client.send_headers(sid, [(b":method", b"POST" if body_open else b"GET"), (b":path", b"/s%d" % sid),
                                       (b":scheme", b"https"), (b":authority", b"example.com")], end_stream=not body_open)
        n = len(self.spawn_order)
        self._reader_step()
        assert len(self.spawn_order) == n + 1
        name = self.spawn_order[-1]
        self.app_tasks[sid] = [t for t in self.driver.tasks if t.name == name][0]
        self.bufobj[sid] = self.p.stream_buffers.get(sid)
        if sid not in self.order:
            self.order.append(sid)

    def priority(self, sid, depends_on=0, weight=16, exclusive=False):
        self.client.prioritize(sid, weight=weight, depends_on=depends_on, exclusive=exclusive)
        self._reader_step()
        for x in (depends_on, sid):
            if x and x not in self.order:
                self.order.append(x)

    def data(self, sid, n):
        self.client.send_data(sid, b"d" * n)
        self._reader_step()

    def end_request(self, sid):
        self.client.end_stream(sid)
        self.req_open[sid] = False
        self._reader_step()

    def win(self, sid, n):
        self.client.increment_flow_control_window(n, sid if sid else None)
        self._reader_step()

    def initial_window(self, n):
        import h2.settings

        self.client.update_settings({h2.settings.SettingCodes.INITIAL_WINDOW_SIZE: n})
        self._reader_step()

    def reset(self, sid):
        self.client.reset_stream(sid, error_code=8)
        self._reader_step()

    def eof(self):
        self.rig.eof()
        self.driver.step(self.reader)
        self._drain_client()

    def step_app(self, sid):
        self.driver.step(self.app_tasks[sid])
        self._drain_client()

    def step_send(self):
        self.picks = []
        self.driver.step(self.send_task)
        self._drain_client()
        return list(self.picks), self.send_task.done

    # ---- observation
    def observe(self):
        import h2.stream

        p, conn = self.p, self.p.connection
        per = []
        for sid in self.order:
            tree = sid in self.tree._streams
            if sid not in self.bufobj:
                per.append([sid, 0, False, False, False, False, False, tree, (not self.tree._streams[sid].active) if tree else -1,
                            "closed", False, True, -1])
                continue
            b = self.bufobj[sid]
            inbufs = sid in p.stream_buffers and p.stream_buffers[sid] is b
            h2open = sid in conn.streams and conn.streams[sid].state_machine.state in (
                h2.stream.StreamState.OPEN, h2.stream.StreamState.HALF_CLOSED_REMOTE)
            t = self.app_tasks[sid]
            per.append([sid, len(b.buffer), b._complete, b._is_empty.is_set(), b._paused.is_set(), inbufs,
                        sid in p.streams, tree, (not self.tree._streams[sid].active) if tree else -1,
                        conn.streams[sid].outbound_flow_control_window if (inbufs and h2open) else "closed",
                        t.runnable(), t.done, (sid in p.aborted_streams) if inbufs else -1])
        st = self.send_task
        if st.done:
            task = 3 if st.error is not None else 2
        elif st.waiting is None:
            task = 0
        else:
            task = 1
        return [per, p.has_data.is_set(), p.closed, conn.outbound_flow_control_window, st.runnable(), task, False,
                self.reader.error is None, len(self.frames)]

    def frame_obs(self):
        out = []
        for f in self.frames:
            if f[0] == "data":
                out.append(["data", f[1], len(f[2]), sum(f[2]), [f[2][0]]])
            else:
                out.append([f[0], f[1]])
        return out


def fmt_sid(s):
    return f"({s})" if s < 0 else str(s)


def script_and_prog(rng):
    """An application script and the stream-level program it amounts to."""
    script, prog = [("send", {"type": "http.response.start", "status": 200, "headers": []})], ["OStart"]
    n = rng.choice([0, 1, 1, 2, 3, 5])
    seedb = rng.randrange(256)
    for _ in range(n):
        size = rng.choice(SIZES)
        script.append(("send", {"type": "http.response.body", "body": genb(size, seedb), "more_body": True}))
        prog.append(f"body {size}%N {seedb}%N")
        seedb = (seedb + 13) % 256
    kind = rng.choice(["finish", "finish", "finish", "finish-with-body", "return", "raise"])
    if kind == "finish":
        script.append(("send", {"type": "http.response.body", "body": b"", "more_body": False}))
        prog += ["OEnd", "OClose", "OExit"]
    elif kind == "finish-with-body":
        size = rng.choice(SIZES)
        script.append(("send", {"type": "http.response.body", "body": genb(size, seedb), "more_body": False}))
        prog += [f"body {size}%N {seedb}%N", "OEnd", "OClose", "OExit"]
    elif kind == "return":
        script.append(("return",))
        prog.append("OExit")
    else:
        script.append(("raise",))
        prog.append("OExit")
    # an application may go on sending after its response is complete / the stream closed: ignored
    if rng.random() < 0.15 and kind.startswith("finish"):
        script.append(("send", {"type": "http.response.body", "body": b"late", "more_body": False}))
    return script, prog, kind


def gen_case(seed):
    """Run one random schedule on the real code; returns (coq input term, expected observation, stats)."""
    rng = random.Random(seed)
    iw0 = rng.choice(WINDOWS)
    mf = rng.choice([None, None, 16384, 20000, 65536])
    rig = SendRig(initial_window=iw0, max_frame=mf)
    conn = rig.p.connection
    assert not rig.send_task.done and rig.send_task.waiting is not None and not rig.p.has_data.is_set()
    params = (conn.outbound_flow_control_window, conn.max_outbound_frame_size, conn.remote_settings.initial_window_size)
    groups, obs = [], []
    next_sid = 1
    nsteps = rng.choice([6, 12, 25, 40])
    stats = {"open": 0, "win": 0, "connwin": 0, "iw": 0, "reset": 0, "eof": 0, "app": 0, "send": 0, "priority": 0, "data": 0,
             "ended": 0, "kinds": {}}
    eofed = False
    for _ in range(nsteps):
        choices = []
        if not eofed:
            if len(rig.app_tasks) < 4:
                choices += ["open"] * (3 if not rig.app_tasks else 1)
            if rig.order:
                choices += ["win", "win", "connwin", "iw", "reset", "priority"]
            if any(rig.req_open.get(x) and _can_update(rig.client, x) for x in rig.order):
                choices += ["data", "ended"]
            if rng.random() < 0.15:
                choices += ["priority"]
            choices += ["eof"] if rng.random() < 0.08 else []
        runnable_apps = [s for s in rig.order if s in rig.app_tasks and rig.app_tasks[s].runnable()]
        choices += ["app"] * (3 * len(runnable_apps))
        if rig.send_task.runnable():
            choices += ["send"] * 4
        if not choices:
            break
        a = rng.choice(choices)
        stats[a] += 1
        try:
            if a == "open":
                script, prog, kind = script_and_prog(rng)
                stats["kinds"][kind] = stats["kinds"].get(kind, 0) + 1
                sid = next_sid
                next_sid += 2
                rig.open(sid, script, body_open=rng.random() < 0.3)
                groups.append(f"GClient (COpen {sid} [{'; '.join(prog)}])")
            elif a == "win":
                live = [s for s in rig.order if _can_update(rig.client, s)]
                if not live:
                    continue
                sid = rng.choice(live)
                n = rng.choice([1, 10, 1000, 16384, 40000, 100000])
                rig.win(sid, n)
                groups.append(f"GClient (CWin {sid} {n})")
            elif a == "connwin":
                n = rng.choice([1, 10, 1000, 16384, 40000, 100000])
                rig.win(0, n)
                groups.append(f"GClient (CConnWin {n})")
            elif a == "iw":
                n = rng.choice(WINDOWS)
                rig.initial_window(n)
                groups.append(f"GClient (CInitialWindow {n})")
            elif a == "reset":
                live = [s for s in rig.order if _can_update(rig.client, s)]
                if not live:
                    continue
                sid = rng.choice(live)
                rig.reset(sid)
                groups.append(f"GClient (CReset {sid})")
            elif a == "priority":
                # any stream: open, closed, reset, or an idle one that has not been requested yet
                cands = list(rig.order) + [next_sid]
                sid = rng.choice(cands)
                deps = [0] + [x for x in rig.order if x != sid]
                dep = rng.choice(deps)
                try:
                    rig.priority(sid, depends_on=dep, weight=rng.choice([1, 16, 256]), exclusive=rng.random() < 0.3)
                except Exception:  # noqa: BLE001  (the client library refused to build the frame)
                    continue
                groups.append(f"GClient (CPriority {sid} {dep})")
            elif a in ("data", "ended"):
                live = [x for x in rig.order if rig.req_open.get(x) and _can_update(rig.client, x)]
                if not live:
                    continue
                sid = rng.choice(live)
                if a == "data":
                    if rig.data_sent.get(sid, 0) >= 3:
                        continue
                    rig.data_sent[sid] = rig.data_sent.get(sid, 0) + 1
                    rig.data(sid, rng.choice([1, 100, 5000]))
                    groups.append(f"GClient (CData {sid})")
                else:
                    rig.end_request(sid)
                    groups.append(f"GClient (CEnded {sid})")
            elif a == "eof":
                rig.eof()
                eofed = True
                groups.append("GClient CEof")
            elif a == "app":
                sid = rng.choice(runnable_apps)
                rig.step_app(sid)
                groups.append(f"GApp {sid} 12%nat")
            elif a == "send":
                picks, done = rig.step_send()
                ps = "; ".join("None" if x is None else f"Some {x}" for x in picks)
                groups.append(f"GSend true [{ps}] {'true' if done else 'false'}")
        except ReaderDead:
            break
        obs.append(rig.observe())
    term = f"({params[0]}, {params[1]}, {params[2]}, [{'; '.join(groups)}])"
    expected = C.V([obs, rig.frame_obs()])
    stats["errors"] = [(n, repr(e)) for n, e in rig.driver.errors()]
    return term, expected, stats, rig


def _can_update(client, sid):
    """The client may still send WINDOW_UPDATE / RST_STREAM for this stream (it is not closed on the client)."""
    return sid in client.streams and not client.streams[sid].closed
