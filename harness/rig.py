"""Shared pieces of the protocol-level rigs: message descriptors (Python dict <-> Coq term),
canonical encodings of hypercorn events and exceptions, recording collaborators, and the
stand-alone stream rig (real HTTPStream / WSStream against coq/model/StreamRig.v)."""
from __future__ import annotations

from . import common as C

# ------------------------------------------------------------------ exceptions
def exn_tag(e: BaseException) -> int:
    import h11
    import h2.exceptions
    import wsproto.utilities
    from hypercorn.utils import UnexpectedMessageError

    name = type(e).__name__
    if isinstance(e, UnexpectedMessageError):
        return 1
    if isinstance(e, UnicodeDecodeError):
        return 7
    if isinstance(e, TypeError):
        return 2
    if isinstance(e, IndexError):
        return 4
    if isinstance(e, KeyError):
        return 5
    if isinstance(e, UnboundLocalError):
        return 6
    if isinstance(e, (h11.LocalProtocolError, wsproto.utilities.LocalProtocolError)):
        return 8
    if isinstance(e, h2.exceptions.ProtocolError):
        return 9
    if isinstance(e, ValueError):
        return 3
    if isinstance(e, AttributeError):
        return 18
    if isinstance(e, RuntimeError):
        return 16
    if name == "H2CProtocolRequiredError":
        return 13
    if name == "H2ProtocolAssumedError":
        return 14
    if name == "BufferCompleteError":
        return 10
    if name == "AppBoom":
        return 17
    if type(e) is Exception:
        return 15
    return 99


def drive(coro):
    """Run a coroutine whose awaits never really suspend."""
    try:
        coro.send(None)
    except StopIteration as e:
        return e.value
    coro.close()
    raise RuntimeError("coroutine suspended unexpectedly")


def call(coro):
    """drive, returning the canonical result: ["ok"] or ["raise", tag]."""
    try:
        drive(coro)
        return ["ok"]
    except Exception as e:  # noqa: BLE001
        return ["raise", exn_tag(e)]


# ------------------------------------------------------------------ header-ish payloads
# descriptor: ("b", bytes) | ("s", str) | ("i", int) | ("n",)
def hval_py(d):
    return {"b": lambda: d[1], "s": lambda: d[1], "i": lambda: d[1], "n": lambda: None}[d[0]]()


def hval_coq(d):
    if d[0] == "b":
        return f"(HB {C.cbytes(d[1])})"
    if d[0] == "s":
        return f"(HS {C.cpoints(d[1])})"
    if d[0] == "i":
        return f"(HI {C.cZ(d[1])})"
    return "HNone"


def hlist_py(hs):
    return [(hval_py(n), hval_py(v)) for n, v in hs]


def hlist_coq(hs):
    return C.clist([f"({hval_coq(n)}, {hval_coq(v)})" for n, v in hs], "(hval * hval)")


def headers_coq(hs):
    return C.clist([f"({C.cbytes(n)}, {C.cbytes(v)})" for n, v in hs], "header")


# ------------------------------------------------------------------ application messages
# descriptors:
#  ("start", status|None, hlist, trailers)   ("body", hval, more)   ("trailers", hlist, more)
#  ("push", hval, hlist)  ("hint", [hval])  ("ws.accept", sub|None, hlist)  ("ws.send", hval, hval)
#  ("ws.close", code|None, reason|None)  ("ws.http.start", status|None, hlist)  ("ws.http.body", hval, more)
#  ("unknown",)   None (application finished)
def msg_py(m):
    if m is None:
        return None
    k = m[0]
    if k == "start":
        d = {"type": "http.response.start", "status": m[1], "headers": hlist_py(m[2])}
        if m[3]:
            d["trailers"] = True
        return d
    if k == "body":
        d = {"type": "http.response.body", "more_body": m[2]}
        if len(m) > 3 and m[1] == ("b", b""):
            pass  # "body" key absent
        else:
            d["body"] = hval_py(m[1])
        if len(m) > 3 and m[2] is False:
            del d["more_body"]
        return d
    if k == "trailers":
        return {"type": "http.response.trailers", "headers": hlist_py(m[1]), "more_trailers": m[2]}
    if k == "push":
        return {"type": "http.response.push", "path": hval_py(m[1]), "headers": hlist_py(m[2])}
    if k == "hint":
        return {"type": "http.response.early_hint", "links": [hval_py(x) for x in m[1]]}
    if k == "ws.accept":
        d = {"type": "websocket.accept", "headers": hlist_py(m[2])}
        if m[1] is not None:
            d["subprotocol"] = m[1]
        return d
    if k == "ws.send":
        return {"type": "websocket.send", "bytes": hval_py(m[1]), "text": hval_py(m[2])}
    if k == "ws.close":
        d = {"type": "websocket.close"}
        if m[1] is not None:
            d["code"] = m[1]
        if m[2] is not None:
            d["reason"] = m[2]
        return d
    if k == "ws.http.start":
        return {"type": "websocket.http.response.start", "status": m[1], "headers": hlist_py(m[2])}
    if k == "ws.http.body":
        return {"type": "websocket.http.response.body", "body": hval_py(m[1]), "more_body": m[2]}
    if k == "unknown":
        return {"type": "http.response.zzz"}
    raise ValueError(m)


def msg_coq(m):
    if m is None:
        return "None"
    k = m[0]
    if k == "start":
        return f"(Some (MStart {C.copt(m[1], C.cZ)} {hlist_coq(m[2])} {C.cbool(m[3])}))"
    if k == "body":
        return f"(Some (MBody {hval_coq(m[1])} {C.cbool(m[2])}))"
    if k == "trailers":
        return f"(Some (MTrailers {hlist_coq(m[1])} {C.cbool(m[2])}))"
    if k == "push":
        return f"(Some (MPush {hval_coq(m[1])} {hlist_coq(m[2])}))"
    if k == "hint":
        return "(Some (MEarlyHint " + C.clist([hval_coq(x) for x in m[1]], "hval") + "))"
    if k == "ws.accept":
        return f"(Some (MWsAccept {C.copt(m[1], C.cpoints)} {hlist_coq(m[2])}))"
    if k == "ws.send":
        return f"(Some (MWsSend {hval_coq(m[1])} {hval_coq(m[2])}))"
    if k == "ws.close":
        return f"(Some (MWsClose {C.copt(m[1], C.cZ)} {C.copt(m[2], C.cpoints)}))"
    if k == "ws.http.start":
        return f"(Some (MWsHttpStart {C.copt(m[1], C.cZ)} {hlist_coq(m[2])}))"
    if k == "ws.http.body":
        return f"(Some (MWsHttpBody {hval_coq(m[1])} {C.cbool(m[2])}))"
    if k == "unknown":
        return "(Some MUnknown)"
    raise ValueError(m)


# ------------------------------------------------------------------ canonical observations
def ev_obs(ev):
    """hypercorn.protocol.events.* -> observation matching Asgi.v_of_sevent"""
    n = type(ev).__name__
    hs = lambda h: [[bytes(a), bytes(b)] for a, b in h]  # noqa: E731
    if n == "Request":
        return ["Request", hs(ev.headers), C.U(ev.http_version), C.U(ev.method), bytes(ev.raw_path)]
    if n == "Body":
        return ["Body", bytes(ev.data)]
    if n == "EndBody":
        return ["EndBody"]
    if n == "Trailers":
        return ["Trailers", hs(ev.headers)]
    if n == "Data":
        return ["Data", bytes(ev.data)]
    if n == "EndData":
        return ["EndData"]
    if n == "Response":
        return ["Response", ev.status_code, hs(ev.headers)]
    if n == "InformationalResponse":
        return ["Info", ev.status_code, hs(ev.headers)]
    if n == "StreamClosed":
        return ["StreamClosed"]
    raise ValueError(ev)


def rmsg_obs(m):
    t = m["type"]
    if t == "http.request":
        return ["http.request", bytes(m["body"]), bool(m["more_body"])]
    if t == "http.disconnect":
        return ["http.disconnect"]
    if t == "websocket.connect":
        return ["websocket.connect"]
    if t == "websocket.receive":
        if m.get("text") is not None:
            return ["websocket.receive", True, C.U(m["text"])]
        return ["websocket.receive", False, bytes(m["bytes"])]
    if t == "websocket.disconnect":
        return ["websocket.disconnect", int(m["code"])]
    raise ValueError(m)


def scope_obs(sc):
    ws = sc["type"] == "websocket"
    ext = sc.get("extensions", {})
    return [
        ws, C.U(sc["http_version"]), C.U(sc.get("method", "")), C.U(sc["scheme"]),
        sc["path"].encode("utf-8", "surrogatepass"), bytes(sc["raw_path"]), bytes(sc["query_string"]),
        [[bytes(a), bytes(b)] for a, b in sc["headers"]],
        ["http.response.trailers" in ext, "http.response.push" in ext, "http.response.early_hint" in ext],
        [C.U(x) for x in sc.get("subprotocols", [])],
    ]


def srv_obs(ev):
    n = type(ev).__name__
    if n == "RawData":
        return ["RawData", bytes(ev.data)]
    if n == "Closed":
        return ["Closed"]
    if n == "Updated":
        return ["Updated", bool(ev.idle)]
    raise ValueError(ev)


class RecLog:
    """Replacement for config.log recording access / exception calls."""

    def __init__(self, out):
        self.out = out
        self.exceptions = 0

    async def access(self, request, response, request_time):
        if response is None:
            self.out.append(["log.access", None])
        else:
            st = response["status"]
            self.out.append(["log.access", [st if isinstance(st, int) and not isinstance(st, bool) else -1]])

    async def exception(self, *a, **k):
        self.exceptions += 1
        self.out.append(["log.exception"])

    async def info(self, *a, **k):
        pass

    async def warning(self, *a, **k):
        pass

    async def error(self, *a, **k):
        pass

    async def debug(self, *a, **k):
        pass


# ------------------------------------------------------------------ stand-alone stream rig
class React:
    NONE, CLOSE, RAISE = "RNone", "RClose", "RRaise"


def coq_hcfg(server_names, ssl):
    return ("{| cfg_server_names := %s; cfg_ssl := %s; cfg_trailers_versions := TRAILERS_VERSIONS; "
            "cfg_push_versions := PUSH_VERSIONS; cfg_hint_versions := EARLY_HINTS_VERSIONS; "
            "cfg_guards := http_app_send_guards |}"
            % (C.clist([C.cbytes(s.encode()) for s in server_names], "bytes"), C.cbool(ssl)))


def make_config(server_names=(), **kw):
    from hypercorn.config import Config

    cfg = Config()
    cfg.server_names = list(server_names)
    for k, v in kw.items():
        setattr(cfg, k, v)
    return cfg


class StreamHarness:
    """Owns a real HTTPStream or WSStream with recording collaborators."""

    def __init__(self, kind, server_names, ssl, reacts, auto_close, ws_sends=None, ping=False, max_message=None):
        import h11
        from hypercorn.protocol.events import StreamClosed
        from hypercorn.protocol.http_stream import HTTPStream
        from hypercorn.protocol.ws_stream import WSStream

        self.out = []
        self.reacts = list(reacts)
        self.auto_close = auto_close
        self.h11 = h11
        self.StreamClosed = StreamClosed
        cfg = make_config(server_names)
        if ping:
            cfg.websocket_ping_interval = 5
        if max_message is not None:
            cfg.websocket_max_message_size = max_message
        cfg._log = RecLog(self.out)
        harness = self

        class TG:
            async def spawn_app(self, app, config, scope, send):
                harness.out.append(["spawn_app", 1, scope_obs(scope)])

                async def put(m):
                    harness.out.append(["app_put", 1, rmsg_obs(m)])

                return put

            def spawn(self, func, *args):
                harness.out.append(["spawn", getattr(func, "__name__", "?").lstrip("_")])

        class Ctx:
            pass

        cls = HTTPStream if kind == "http" else WSStream
        self.stream = cls(None, cfg, Ctx(), TG(), ssl, ("1.2.3.4", 5), ("5.6.7.8", 80), self.send, 1)
        self.ws_sends = list(ws_sends or [])

    async def send(self, ev):
        self.out.append(["send", 1, ev_obs(ev)])
        r = self.reacts.pop(0) if self.reacts else React.NONE
        if r == React.RAISE:
            raise self.h11.LocalProtocolError("scripted")
        if r == React.CLOSE or (r == React.NONE and isinstance(ev, self.StreamClosed) and self.auto_close):
            await self.stream.handle(self.StreamClosed(stream_id=1))

    def step(self, coro):
        self.out.clear()
        res = call(coro)
        return [list(self.out), res]


# ------------------------------------------------------------------ fake wsproto connection for the stream rig
def ws_event_py(e):
    """descriptor -> real wsproto event.  ("msg", is_text, payload, finished) ("ping", b) ("pong", b)
    ("close", code, reason, remote_closing)"""
    from wsproto.events import BytesMessage, CloseConnection, Ping, Pong, TextMessage

    if e[0] == "msg":
        cls = TextMessage if e[1] else BytesMessage
        return cls(data=e[2], frame_finished=True, message_finished=e[3])
    if e[0] == "ping":
        return Ping(payload=e[1])
    if e[0] == "pong":
        return Pong(payload=e[1])
    if e[0] == "close":
        return CloseConnection(code=e[1], reason=e[2])
    raise ValueError(e)


def ws_event_coq(e):
    if e[0] == "msg":
        payload = C.cpoints(e[2]) if e[1] else C.cbytes(e[2])
        return f"(WMessage {C.cbool(e[1])} {payload} {C.cbool(e[3])})"
    if e[0] == "ping":
        return f"(WPing {C.cbytes(e[1])})"
    if e[0] == "pong":
        return f"(WPong {C.cbytes(e[1])})"
    if e[0] == "close":
        return f"(WClose {C.cZ(e[1])} {C.cpoints(e[2] or '')} {C.cbool(e[3])})"
    raise ValueError(e)


def wssend_obs(event):
    from wsproto.events import BytesMessage, CloseConnection, Ping, Pong, TextMessage

    if isinstance(event, BytesMessage):
        return ["lib", "ws.send", "bytes", bytes(event.data)]
    if isinstance(event, TextMessage):
        return ["lib", "ws.send", "text", C.U(event.data)]
    if isinstance(event, CloseConnection):
        return ["lib", "ws.send", "close", int(event.code), None if event.reason is None else [C.U(event.reason)]]
    if isinstance(event, Pong):
        return ["lib", "ws.send", "pong", bytes(event.payload)]
    if isinstance(event, Ping):
        return ["lib", "ws.send", "ping"]
    raise ValueError(event)


class FakeWsConn:
    """Stands in for wsproto.connection.Connection inside WSStream (stream-level rig only)."""

    harness = None

    def __init__(self, *a, **k):
        from wsproto.connection import ConnectionState

        self.state = ConnectionState.OPEN
        self.pending = []
        FakeWsConn.current = self

    def receive_data(self, data):
        FakeWsConn.harness.out.append(["lib", "ws.receive_data"])

    def events(self):
        from wsproto.connection import ConnectionState

        for e in self.pending:
            if e[0] == "close":
                self.state = ConnectionState.REMOTE_CLOSING if e[3] else ConnectionState.CLOSED
            yield ws_event_py(e)

    def send(self, event):
        from wsproto.utilities import LocalProtocolError

        h = FakeWsConn.harness
        h.out.append(wssend_obs(event))
        if not h.ws_sends:
            return b""
        r = h.ws_sends.pop(0)
        if r is None:
            raise LocalProtocolError("scripted")
        return r


class patched_ws:
    """Context manager: WSStream uses FakeWsConn and a scripted extension negotiation."""

    def __init__(self, harness, ext_accepts):
        self.h, self.ext = harness, ext_accepts

    def __enter__(self):
        import hypercorn.protocol.ws_stream as W

        self.W = W
        self.saved = (W.Connection, W.server_extensions_handshake)
        FakeWsConn.harness = self.h
        W.Connection = FakeWsConn
        W.server_extensions_handshake = lambda requested, supported: self.ext
        return self

    def __exit__(self, *a):
        self.W.Connection, self.W.server_extensions_handshake = self.saved
