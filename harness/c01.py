"""C01: HTTP request delivery fidelity."""
from . import h1checks as K

PROP = "C01"


def kw(rng, i):
    return {"max_requests": None, "queue_size": rng.choice([None, 1, 2, 10]), "policy": rng.choice(["fifo", "random", "lifo"]),
            "crashes": False, "worker": rng.choice(["asyncio", "trio"])}


def addresses(ctx):
    """scope["client"] / scope["server"] through the real TCPServer of both workers, for the socket families a server can be
    bound to: (host, port) for IPv4, (host, port) out of IPv6's 4-tuple, None for a unix socket."""
    import socket

    from . import rig as R
    from . import rworker as W

    fams = [(socket.AF_INET, ("192.0.2.7", 51234), ("198.51.100.3", 8080), ("192.0.2.7", 51234), ("198.51.100.3", 8080)),
            (socket.AF_INET6, ("2001:db8::7", 51234, 0, 0), ("fe80::1", 8443, 0, 3), ("2001:db8::7", 51234), ("fe80::1", 8443)),
            (socket.AF_UNIX, "", "/run/hypercorn.sock", None, None)]
    fails, n = [], 0
    seen = []

    async def app(scope, receive, send, sleep, records, now):
        seen.append((scope.get("client"), scope.get("server")))
        await send({"type": "http.response.start", "status": 200, "headers": []})
        await send({"type": "http.response.body", "body": b"ok"})

    import h2.config
    import h2.connection

    saved = dict(W.SOCK)
    try:
        for fam, peer, name, want_client, want_server in fams:
            W.SOCK.update(family=fam, peer=peer, name=name)
            for alpn in (None, "h2"):
                if alpn == "h2":
                    c = h2.connection.H2Connection(h2.config.H2Configuration(client_side=True, header_encoding=None))
                    c.initiate_connection()
                    c.send_headers(1, [(b":method", b"GET"), (b":path", b"/a"), (b":scheme", b"https"), (b":authority", b"x")], end_stream=True)
                    script = [("send", c.data_to_send()), ("sleep", 0.5)]
                else:
                    script = [("send", b"GET /a HTTP/1.1\r\nHost: x\r\n\r\n"), ("sleep", 0.5)]
                for backend, run in (("asyncio", W.run_asyncio), ("trio", W.run_trio)):
                    del seen[:]
                    cfg = R.make_config(())
                    cfg._log = R.RecLog([])
                    run(app, cfg, script, alpn=alpn, tail=10.0)
                    n += 1
                    got = seen[0] if seen else None
                    norm = None if got is None else tuple(None if x is None else tuple(x) for x in got)
                    if norm != (want_client, want_server):
                        fails.append({"case": {"kind": "addresses", "backend": backend, "family": int(fam), "alpn": alpn, "peer": repr(peer), "sock": repr(name)},
                                      "what": f"scope client/server = {got!r}, expected {(want_client, want_server)!r}", "signature": "c01:addresses"})
    finally:
        W.SOCK.update(saved)
    return fails, n


def h2c_upgrade_cases(ctx):
    """A bodiless HTTP/1.1 request offering Upgrade: h2c is served as HTTP/2 stream 1: its scope must report what the client
    sent, like that of any other request, for every split of the request bytes."""
    import random
    from urllib.parse import unquote

    import h2.config
    import h2.connection

    from . import rig as R
    from . import sched as S

    rng = random.Random(ctx.seed * 7919 + 11)
    fails, n = [], ctx.scale(60, 600, 200)
    for i in range(n):
        method = rng.choice(["GET", "GET", "HEAD", "DELETE", "OPTIONS", "PATCH"])
        path = "/" + "/".join(rng.choice(["a", "b%20c", "%C3%A9", "x.y", "~", "%2F", "p"]) for _ in range(rng.randint(0, 3)))
        query = rng.choice(["", "", "x=1", "a=%20&b", "q"])
        target = path + ("?" + query if query else "")
        c = h2.connection.H2Connection(h2.config.H2Configuration(client_side=True, header_encoding=None))
        settings = c.initiate_upgrade_connection()
        hs = [(b"Host", rng.choice([b"example.com", b"h:8000"]))]
        for _ in range(rng.randint(0, 3)):
            hs.append((rng.choice([b"X-A", b"accept", b"X-Mixed-Case", b"cookie"]), rng.choice([b"1", b"", b"a, b", b"v=1; w=2"])))
        hs += [(b"Connection", b"Upgrade, HTTP2-Settings"), (b"Upgrade", rng.choice([b"h2c", b"h2c", b"H2c"])), (b"HTTP2-Settings", settings)]
        rng.shuffle(hs)
        data = (f"{method} {target} HTTP/1.1\r\n".encode() + b"".join(k + b": " + v + b"\r\n" for k, v in hs) + b"\r\n")
        cuts = sorted(set(rng.randint(1, len(data) - 1) for _ in range(rng.choice([0, 1, 2, 5]))))
        worker = rng.choice(["asyncio", "trio"])
        d = S.Driver(seed=ctx.seed + i, policy=rng.choice(["fifo", "random"]))
        cfg = R.make_config()
        cfg._log = R.RecLog([])
        recs = []
        resp = [("recv_all",), ("send", {"type": "http.response.start", "status": 200, "headers": []}),
                ("send", {"type": "http.response.body", "body": b"ok"})]
        rig = S.ProtoRig(S.scripted_app([resp] * 3, recs, d), cfg, d, worker=worker)
        for a, b in zip([0] + cuts, cuts + [len(data)]):
            rig.feed(data[a:b])
            rig.run()
        rig.feed(c.data_to_send())
        rig.run()
        case = {"kind": "h2c-upgrade", "request": data.decode("latin1"), "cuts": cuts, "worker": worker}
        want = {"type": "http", "http_version": "2", "method": method, "scheme": "http", "path": unquote(path), "raw_path": path.encode(),
                "query_string": query.encode(), "headers": ([(k.lower(), v) for k, v in hs if k == b"Host"]           # HTTP/2: host is what :authority says, ahead of the rest
                            + [(k.lower(), v) for k, v in hs if k != b"Host"]), "client": ("10.0.0.1", 4321), "server": ("10.0.0.2", 80)}
        if len(recs) != 1:
            fails.append({"case": case, "what": f"{len(recs)} application instances for one upgraded request", "signature": "c01:h2c:instances"})
            continue
        got = {k: recs[0]["scope"].get(k) for k in want}
        got["headers"] = [tuple(h) for h in got["headers"] or []]
        got["client"], got["server"] = tuple(got["client"] or ()), tuple(got["server"] or ())
        diff = sorted(k for k in want if got[k] != want[k])
        if diff:
            fails.append({"case": case, "what": "scope of the upgraded request: " + "; ".join(f"{k} = {got[k]!r}, expected {want[k]!r}" for k in diff),
                          "signature": "c01:h2c:" + ",".join(diff)})
        reqs = [m for m in recs[0]["received"] if m["type"] == "http.request"]
        if [(m.get("body", b""), bool(m.get("more_body"))) for m in reqs] != [(b"", False)]:
            fails.append({"case": case, "what": f"body messages of the upgraded request: {reqs}", "signature": "c01:h2c:body"})
    return fails, n


def run(ctx):
    h2x = K.h2_extra(["c01"], (150, 2500, 800), crashes=True)

    def extra(c):
        r = h2x(c)
        f, n = addresses(c)
        r["failures"] = list(r["failures"]) + f
        r["count"] += n
        r["dist"]["address_cases"] = n
        f, n = h2c_upgrade_cases(c)
        r["failures"] = list(r["failures"]) + f
        r["count"] += n
        r["dist"]["h2c_upgrade_cases"] = n
        return r

    return K.run_common(ctx, PROP, ["c01"], (250, 3000, 1000), (300, 3000, 1000), (250, 4000, 1500), kw,
                        "H11 protocol sessions (pipelines, bodies with content-length / chunked / none, HTTP/1.0, splits at random "
                        "points) against the H11Proto model; HTTPStream call sequences against the stream model; end-to-end "
                        "sessions (methods, targets with queries and escapes, repeated / mixed-case / empty headers, bodies from 0 "
                        "to 70000 bytes, queue sizes 1/2/10, random task schedules, k-way splits) checked against what the client sent.",
                        extra=extra)


def known_still_fails(k):
    if k.get("signature") == "F14:app-queue-full-deadlock":
        from .c06 import f14_witness

        return f14_witness()
    return None


def replay(data):
    print(data)
    return 0
