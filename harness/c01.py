"""C01: HTTP request delivery fidelity."""
from . import h1checks as K

PROP = "C01"


def kw(rng, i):
    return {"max_requests": None, "queue_size": rng.choice([None, 1, 2, 10]), "policy": rng.choice(["fifo", "random", "lifo"]),
            "crashes": False, "worker": rng.choice(["asyncio", "trio"])}


def addresses(ctx):
    """scope["client"] / scope["server"] through the real TCPServer of both workers, for the socket families a server can be
    bound to: (host, port) for IPv4, (host, port) out of IPv6's 4-tuple, None for a unix socket."""
    import socket

    from . import rig as R
    from . import rworker as W

    fams = [(socket.AF_INET, ("192.0.2.7", 51234), ("198.51.100.3", 8080), ("192.0.2.7", 51234), ("198.51.100.3", 8080)),
            (socket.AF_INET6, ("2001:db8::7", 51234, 0, 0), ("fe80::1", 8443, 0, 3), ("2001:db8::7", 51234), ("fe80::1", 8443)),
            (socket.AF_UNIX, "", "/run/hypercorn.sock", None, None)]
    fails, n = [], 0
    seen = []

    async def app(scope, receive, send, sleep, records, now):
        seen.append((scope.get("client"), scope.get("server")))
        await send({"type": "http.response.start", "status": 200, "headers": []})
        await send({"type": "http.response.body", "body": b"ok"})

    import h2.config
    import h2.connection

    saved = dict(W.SOCK)
    try:
        for fam, peer, name, want_client, want_server in fams:
            W.SOCK.update(family=fam, peer=peer, name=name)
            for alpn in (None, "h2"):
                if alpn == "h2":
                    c = h2.connection.H2Connection(h2.config.H2Configuration(client_side=True, header_encoding=None))
                    c.initiate_connection()
                    c.send_headers(1, [(b":method", b"GET"), (b":path", b"/a"), (b":scheme", b"https"), (b":authority", b"x")], end_stream=True)
                    script = [("send", c.data_to_send()), ("sleep", 0.5)]
                else:
                    script = [("send", b"GET /a HTTP/1.1\r\nHost: x\r\n\r\n"), ("sleep", 0.5)]
                for backend, run in (("asyncio", W.run_asyncio), ("trio", W.run_trio)):
                    del seen[:]
                    cfg = R.make_config(())
                    cfg._log = R.RecLog([])
                    run(app, cfg, script, alpn=alpn, tail=10.0)
                    n += 1
                    got = seen[0] if seen else None
                    norm = None if got is None else tuple(None if x is None else tuple(x) for x in got)
                    if norm != (want_client, want_server):
                        fails.append({"case": {"kind": "addresses", "backend": backend, "family": int(fam), "alpn": alpn, "peer": repr(peer), "sock": repr(name)},
                                      "what": f"scope client/server = {got!r}, expected {(want_client, want_server)!r}", "signature": "c01:addresses"})
    finally:
        W.SOCK.update(saved)
    return fails, n


def run(ctx):
    h2x = K.h2_extra(["c01"], (150, 2500, 800), crashes=True)

    def extra(c):
        r = h2x(c)
        f, n = addresses(c)
        r["failures"] = list(r["failures"]) + f
        r["count"] += n
        r["dist"]["address_cases"] = n
        return r

    return K.run_common(ctx, PROP, ["c01"], (250, 3000, 1000), (300, 3000, 1000), (250, 4000, 1500), kw,
                        "H11 protocol sessions (pipelines, bodies with content-length / chunked / none, HTTP/1.0, splits at random "
                        "points) against the H11Proto model; HTTPStream call sequences against the stream model; end-to-end "
                        "sessions (methods, targets with queries and escapes, repeated / mixed-case / empty headers, bodies from 0 "
                        "to 70000 bytes, queue sizes 1/2/10, random task schedules, k-way splits) checked against what the client sent.",
                        extra=extra)


def known_still_fails(k):
    if k.get("signature") == "F14:app-queue-full-deadlock":
        from .c06 import f14_witness

        return f14_witness()
    return None


def replay(data):
    print(data)
    return 0
