"""C01: HTTP request delivery fidelity."""
from . import h1checks as K

PROP = "C01"


def kw(rng, i):
    return {"max_requests": None, "queue_size": rng.choice([None, 1, 2, 10]), "policy": rng.choice(["fifo", "random", "lifo"]),
            "crashes": False, "worker": rng.choice(["asyncio", "trio"])}


def run(ctx):
    return K.run_common(ctx, PROP, ["c01"], (250, 3000, 1000), (300, 3000, 1000), (250, 4000, 1500), kw,
                        "H11 protocol sessions (pipelines, bodies with content-length / chunked / none, HTTP/1.0, splits at random "
                        "points) against the H11Proto model; HTTPStream call sequences against the stream model; end-to-end "
                        "sessions (methods, targets with queries and escapes, repeated / mixed-case / empty headers, bodies from 0 "
                        "to 70000 bytes, queue sizes 1/2/10, random task schedules, k-way splits) checked against what the client sent.",
                        extra=K.h2_extra(["c01"], (150, 2500, 800), crashes=True))


def known_still_fails(k):
    if k.get("signature") == "F14:app-queue-full-deadlock":
        from .c06 import f14_witness

        return f14_witness()
    return None


def replay(data):
    print(data)
    return 0
