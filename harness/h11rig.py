"""Protocol-level rig for H11Protocol: the real protocol object with a recording proxy around
its h11.Connection, a recording task group (the harness plays the application call by call) and
a scripted transport; produces, for coq/model/H11Proto.v, the input list with its oracle values
(next_event results, send answers) and the observation trace."""
from __future__ import annotations

from . import common as C
from . import rig as R
from . import sched as S

PREAMBLE = """From Coq Require Import String Ascii ZArith NArith List Bool.
From HV Require Import lib.Bytes lib.Obs lib.Monad model.Asgi model.GuardTypes model.HttpStream model.WsStream model.LibH11 model.H11Proto
     gen.Consts_gen gen.Guards_gen.
Import ListNotations.

Definition mk_hcfg (names : list bytes) (ssl : bool) : hcfg :=
  {| cfg_server_names := names; cfg_ssl := ssl; cfg_trailers_versions := TRAILERS_VERSIONS;
     cfg_push_versions := PUSH_VERSIONS; cfg_hint_versions := EARLY_HINTS_VERSIONS; cfg_guards := http_app_send_guards |}.
Definition mk_cfg (names : list bytes) (ssl : bool) (maxreq : Z) (server_headers : list header) : h11cfg :=
  {| c_http := mk_hcfg names ssl;
     c_ws := {| wc_http := mk_hcfg names ssl; wc_max_message := default_websocket_max_message_size; wc_ping_interval := false;
                wc_guards := ws_app_send_guards |};
     c_max_requests := maxreq; c_server_headers := server_headers |}.

Definition run_case (c : list bytes * bool * Z * list header * list (option bytes) * list bool * list pinput) : val :=
  let '(names, ssl, maxreq, sh, sends, writes, inputs) := c in
  VL (map (fun x => VL [VL (map v_of_out (fst x)); v_of_result (snd x)])
          (proto_run (mk_cfg names ssl maxreq sh) (fun hs => hs) (fun _ => []) None [] (p_init sends writes) inputs)).
"""
INPUT_TY = "list bytes * bool * Z * list header * list (option bytes) * list bool * list pinput"
FUN = "run_case"


def h11ev_obs(ev):
    import h11

    if ev is h11.NEED_DATA:
        return ["NEED_DATA"]
    if ev is h11.PAUSED:
        return ["PAUSED"]
    if isinstance(ev, h11.Request):
        return ["Request", bytes(ev.method), bytes(ev.target), [[bytes(n), bytes(v)] for n, v in ev.headers], bytes(ev.http_version)]
    if isinstance(ev, h11.Data):
        return ["Data", bytes(ev.data)]
    if isinstance(ev, h11.EndOfMessage):
        return ["EndOfMessage"]
    if isinstance(ev, h11.ConnectionClosed):
        return ["ConnectionClosed"]
    raise ValueError(ev)


def h11ev_coq(o):
    k = o[0]
    if k == "Request":
        return f"(RH (HRequest {C.cbytes(o[1])} {C.cbytes(o[2])} {R.headers_coq([(a, b) for a, b in o[3]])} {C.cbytes(o[4])}))"
    if k == "Data":
        return f"(RH (HData {C.cbytes(o[1])}))"
    if k == "EndOfMessage":
        return "(RH HEndOfMessage)"
    if k == "ConnectionClosed":
        return "(RH HConnectionClosed)"
    if k == "NEED_DATA":
        return "(RH HNeedData)"
    if k == "PAUSED":
        return "(RH HPaused)"
    if k == "RemoteProtocolError":
        return f"(RH (HRemoteError {C.cZ(o[1])}))"
    raise ValueError(o)


ARGS = {}   # id(event) -> the arguments hypercorn constructed it with (h11 normalises names / merges lengths)


class H11Namespace:
    """Stands in for the `h11` module inside hypercorn.protocol.h11: same attributes, but the
    event constructors remember the arguments they were called with."""

    def __init__(self):
        import h11

        self._h11 = h11

    def __getattr__(self, name):
        return getattr(self._h11, name)

    def Response(self, *, headers, status_code):
        ev = self._h11.Response(headers=headers, status_code=status_code)
        ARGS[id(ev)] = ["Response", status_code, [[bytes(a), bytes(b)] for a, b in headers]]
        return ev

    def InformationalResponse(self, *, headers, status_code):
        ev = self._h11.InformationalResponse(headers=headers, status_code=status_code)
        ARGS[id(ev)] = ["Info", status_code, [[bytes(a), bytes(b)] for a, b in headers]]
        return ev


def send_obs(ev):
    import h11

    if id(ev) in ARGS:
        return ARGS.pop(id(ev))

    hs = lambda h: [[bytes(a), bytes(b)] for a, b in h]  # noqa: E731
    if isinstance(ev, h11.InformationalResponse):
        return ["Info", ev.status_code, hs(ev.headers)]
    if isinstance(ev, h11.Response):
        return ["Response", ev.status_code, hs(ev.headers)]
    if isinstance(ev, h11.Data):
        return ["Data", bytes(ev.data)]
    if isinstance(ev, h11.EndOfMessage):
        return ["EndOfMessage"]
    raise ValueError(ev)


class ConnProxy:
    """Wraps the real h11.Connection of the protocol; logs every call and its outcome."""

    def __init__(self, conn, rig):
        self._c = conn
        self._rig = rig

    def receive_data(self, data):
        self._rig.out.append(["lib", "receive_data"])
        return self._c.receive_data(data)

    def next_event(self):
        import h11

        ka_before = self._c._cstate.keep_alive
        try:
            ev = self._c.next_event()
        except h11.RemoteProtocolError as e:
            o = ["RemoteProtocolError", int(e.error_status_hint)]
            self._rig.out.append(["lib", "next_event"] + o)
            self._rig.events_seen.append(o)
            self._rig.check_states()
            raise
        o = h11ev_obs(ev)
        self._rig.out.append(["lib", "next_event"] + o)
        self._rig.events_seen.append(o)
        if isinstance(ev, h11.Request) and not ka_before:
            # third ghost (Closing_proofs.v): a Request delivered although keep-alive was already off
            self._rig.out.append(["note", "request-after-close"])
        self._rig.check_states()
        return ev

    def send(self, event):
        import h11

        self._rig.out.append(["lib", "h11.send"] + send_obs(event))
        try:
            data = self._c.send(event)
        except h11.LocalProtocolError:
            self._rig.sends_seen.append(None)
            self._rig.check_states()
            raise
        self._rig.sends_seen.append(bytes(data))
        self._rig.check_states()
        return data

    def start_next_cycle(self):
        import h11

        try:
            self._c.start_next_cycle()
        except h11.LocalProtocolError:
            self._rig.out.append(["lib", "h11.start_next_cycle", "raise"])
            raise
        self._rig.out.append(["lib", "h11.start_next_cycle", "ok"])

    @property
    def our_state(self):
        return self._c.our_state

    @property
    def their_state(self):
        return self._c.their_state

    @property
    def they_are_waiting_for_100_continue(self):
        return self._c.they_are_waiting_for_100_continue

    @property
    def trailing_data(self):
        return self._c.trailing_data


class RecEv(S.Ev):
    def __init__(self, out, name):
        super().__init__()
        self.out, self.name = out, name

    async def clear(self):
        self.out.append(["note", f"{self.name}.clear"])
        await super().clear()

    async def set(self):
        self.out.append(["note", f"{self.name}.set"])
        await super().set()

    async def wait(self):
        self.out.append(["note", f"{self.name}.wait"])
        await super().wait()
        self.out.append(["note", "reader.resumed"])


STATE_TAG = None


def state_tag(s):
    import h11

    table = {h11.IDLE: 0, h11.SEND_RESPONSE: 1, h11.SEND_BODY: 2, h11.DONE: 3, h11.MUST_CLOSE: 4, h11.CLOSED: 5, h11.ERROR: 6,
             h11.MIGHT_SWITCH_PROTOCOL: 7, h11.SWITCHED_PROTOCOL: 8}
    return table[s]


class H11Rig:
    def __init__(self, server_names=(), ssl=False, max_requests=1000, writes=None):
        from hypercorn.protocol.h11 import H11Protocol
        from hypercorn.typing import ConnectionState

        self.out = []
        self.events_seen = []
        self.sends_seen = []
        self.states_seen = []       # (our_state, their_state) after every library call, for the LibH11 cross-check
        self.driver = S.Driver()
        self.cfg = R.make_config(server_names, keep_alive_max_requests=max_requests, include_date_header=False)
        self.cfg._log = R.RecLog(self.out)
        self.writes = list(writes or [])
        self.writes_given = list(writes or [])
        rig = self

        class Ctx(S.RigContext):
            async def mark_request(self_inner):
                rig.out.append(["note", "mark_request"])

        class TG:
            async def spawn_app(self_inner, app, config, scope, send):
                rig.out.append(["spawn_app", 1, R.scope_obs(scope)])
                rig.app_send = send
                rig.app_stream = rig.protocol.stream

                async def put(m):
                    rig.out.append(["app_put", 1, R.rmsg_obs(m)])

                return put

            def spawn(self_inner, func, *args):
                rig.out.append(["spawn", getattr(func, "__name__", "?").lstrip("_")])

        self.ctx = Ctx(self.driver)
        self.app_send = None
        self.app_stream = None
        import hypercorn.protocol.h11 as HP

        if not isinstance(HP.h11, H11Namespace):
            HP.h11 = H11Namespace()
        self.protocol = H11Protocol(None, self.cfg, self.ctx, TG(), ConnectionState({}), ssl, ("1.2.3.4", 5), ("5.6.7.8", 80), self.send)
        self.protocol.connection = ConnProxy(self.protocol.connection, self)
        self.protocol.can_read = RecEv(self.out, "can_read")
        # ghost of the model (Serial_proofs.v): _create_stream entered while self.stream still holds a stream
        create = self.protocol._create_stream

        async def create_stream(request):
            if rig.protocol.stream is not None:
                rig.out.append(["note", "stream-replaced"])
            # second ghost (Capped_proofs.v): a request taken on after keep_alive_max_requests were counted
            if rig.cfg.keep_alive_max_requests <= rig.protocol.keep_alive_requests and rig.protocol.keep_alive_requests >= 1:
                rig.out.append(["note", "request-over-limit"])
            await create(request)

        self.protocol._create_stream = create_stream
        self.reader_task = None
        self.steps = []      # (input descriptor, observation)

    def check_states(self):
        c = self.protocol.connection
        if isinstance(c, ConnProxy):
            self.states_seen.append((state_tag(c.our_state), state_tag(c.their_state)))
            self.out.append(["lib", "states", state_tag(c.our_state), state_tag(c.their_state)])

    async def send(self, event):
        from hypercorn.events import Closed, RawData

        self.out.append(["srv", R.srv_obs(event)])
        if isinstance(event, RawData):
            ok = self.writes.pop(0) if self.writes else True
            if not ok:
                await self.protocol.handle(Closed())

    def _run_task(self, name, coro):
        t = self.driver.spawn(name, coro)
        self.driver.run()
        return t

    def _result(self, t):
        if t.error is not None:
            return ["raise", R.exn_tag(t.error)]
        return ["ok"]

    def _collect(self, desc, t, reader_before):
        # a parked reader resumed during this action?
        extra = []
        if reader_before is not None and reader_before.done and reader_before.error is not None and reader_before is not t:
            extra.append(["lib", "reader-raised", R.exn_tag(reader_before.error)])
        obs = [list(self.out) + extra, self._result(t)]
        self.out.clear()
        evs = list(self.events_seen)
        self.events_seen.clear()
        self.steps.append((desc, evs, obs))
        return obs

    def parked(self):
        return self.reader_task is not None and not self.reader_task.done

    def feed(self, data: bytes):
        from hypercorn.events import RawData

        assert not self.parked()
        self.reader_task = self.driver.spawn("reader", self.protocol.handle(RawData(data)))
        self.driver.run()
        t = self.reader_task
        if t.done:
            self.reader_task = None
        obs = [list(self.out), self._result(t) if t.done else ["ok"]]
        self.out.clear()
        evs = list(self.events_seen)
        self.events_seen.clear()
        self.steps.append((("data", data), evs, obs))
        return obs

    def closed(self):
        from hypercorn.events import Closed

        t = self._run_task("closer", self.protocol.handle(Closed()))
        return self._collect(("closed",), t, None)

    def app(self, m):
        rb = self.reader_task
        if self.app_send is None:
            self.steps.append((("app", m), [], [[], ["ok"]]))
            return None
        if self.protocol.stream is not None and self.protocol.stream is not self.app_stream:
            # the connection now holds a stream for which no application was spawned (a refused request): the only send()
            # the rig has belongs to the previous request's application, which the model's slot no longer holds
            return None
        t = self._run_task("app", self.app_send(R.msg_py(m)))
        obs = self._collect(("app", m), t, rb)
        if rb is not None and rb.done:
            self.reader_task = None
        return obs

    def terminate(self):
        self.ctx.terminated._set = True
        self.steps.append((("terminate",), [], [[], ["ok"]]))

    # ---- Coq side
    def coq_case(self, server_names, ssl, max_requests):
        inputs = []
        for desc, evs, _ in self.steps:
            evt = C.clist([h11ev_coq(e) for e in evs], "rdev")
            if desc[0] == "data":
                inputs.append(f"(IData {evt})")
            elif desc[0] == "closed":
                inputs.append("IClosed")
            elif desc[0] == "app":
                inputs.append(f"(IApp {R.msg_coq(desc[1])} {evt})")
            else:
                inputs.append("ITerminate")
        sh = [(b"server", b"hypercorn-h11")]
        term = C.ctuple(C.clist([C.cbytes(n.encode()) for n in server_names], "bytes"), C.cbool(ssl), C.cZ(max_requests),
                        R.headers_coq(sh), C.clist([C.copt(x, C.cbytes) for x in self.sends_seen], "(option bytes)"),
                        C.clist([C.cbool(b) for b in self.writes_given], "bool"), C.clist(inputs, "pinput"))
        return term, [o for _, _, o in self.steps]
