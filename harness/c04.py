"""C04: no client input causes an internal error; HTTP/2 faults stay on their stream.
(a) correspondence of model.H2Send (reader labels: request, DATA, END_STREAM, RST_STREAM,
    WINDOW_UPDATE, SETTINGS, PRIORITY for open / closed / idle streams, EOF) with the real
    H2Protocol under explicit scheduling;
(b) byte-level sessions through the real stack (ProtocolWrapper, H11Protocol / H2Protocol, streams,
    real h11 / h2 / wsproto), both server flavours of the rig, random segmentation:
      - random bytes and mutations (bit flips, byte edits, truncation, splices, duplication) of
        valid HTTP/1, HTTP/2 and WebSocket sessions;
      - grammar-generated legal-but-rare HTTP/2 sequences around a victim stream that must
        complete normally.
    Oracles: no task ends with an exception; an independent server-side h11 / h2 parser decides
    whether the input is malformed, and then the answer must be the hinted 4xx + close (HTTP/1)
    or GOAWAY + close (HTTP/2); the victim stream's response is complete."""
from __future__ import annotations

import random

from . import common as C
from . import h2send as HS
from . import rig as R
from . import sched as S

PROP = "C04"


# ------------------------------------------------------------------ valid sessions to mutate
def h1_session(rng):
    reqs = []
    for _ in range(rng.choice([1, 1, 2, 3])):
        method = rng.choice([b"GET", b"POST", b"HEAD", b"PUT", b"OPTIONS", b"CONNECT"])
        target = rng.choice([b"/", b"/a/b?x=1", b"/%41%zz", b"*", b"/" + b"a" * 200])
        if method == b"CONNECT" and rng.random() < 0.7:
            target = b"example.com:443"
        hs = [(b"Host", rng.choice([b"example.com", b"example.com", b"example.com", b"ex\xffmple.com", b"\xe9\xe9"]))]
        body = b""
        if method in (b"POST", b"PUT"):
            body = rng.choice([b"", b"hello", b"x" * 3000])
            if rng.random() < 0.5:
                hs.append((b"Content-Length", b"%d" % len(body)))
                framed = body
            else:
                hs.append((b"Transfer-Encoding", b"chunked"))
                framed = b"".join(b"%x\r\n%s\r\n" % (len(c), c) for c in [body[:2], body[2:]] if c) + b"0\r\n\r\n"
        else:
            framed = b""
        if rng.random() < 0.2:
            hs.append((b"Connection", rng.choice([b"close", b"keep-alive", b"Upgrade"])))
        if rng.random() < 0.15:
            hs += [(b"Upgrade", rng.choice([b"websocket", b"h2c"])), (b"Sec-WebSocket-Key", b"dGhlIHNhbXBsZSBub25jZQ=="),
                   (b"Sec-WebSocket-Version", b"13")]
        if rng.random() < 0.12:
            # an h2c upgrade offer with whatever the client likes to call its settings: well formed, not base64, base64 of
            # something that is no SETTINGS payload, not even ASCII
            hs += [(b"Connection", b"Upgrade, HTTP2-Settings"), (b"Upgrade", b"h2c"),
                   (b"HTTP2-Settings", rng.choice([b"AAMAAABkAAQAAP__", b"", b"!!!notbase64", b"AAAA", b"AAMAAABkAAQAAP__AA", b"A", b"\xff\xfe",
                                                   b"AAIAAAAC", b"AAQAAAAA"]))]
        if rng.random() < 0.1:
            hs.append((b"Expect", b"100-continue"))
        head = method + b" " + target + b" HTTP/1." + rng.choice([b"1", b"1", b"0"]) + b"\r\n"
        head += b"".join(n + b": " + v + b"\r\n" for n, v in hs) + b"\r\n"
        reqs.append(head + framed)
    return b"".join(reqs)


def h2_session(rng, rare=False):
    """Bytes of a client session (preface included) and the id of a victim stream (or None)."""
    import h2.config
    import h2.connection
    from hyperframe.frame import ContinuationFrame, DataFrame, HeadersFrame, PriorityFrame, RstStreamFrame, WindowUpdateFrame

    c = h2.connection.H2Connection(h2.config.H2Configuration(client_side=True, header_encoding=None, validate_outbound_headers=False,
                                                             normalize_outbound_headers=False))
    c.initiate_connection()
    out = [c.data_to_send()]
    base = [(b":method", b"GET"), (b":path", b"/victim"), (b":scheme", b"https"), (b":authority", b"example.com")]
    victim = None
    sid = 1
    if rare:
        victim = sid
        c.send_headers(sid, base, end_stream=True)
        out.append(c.data_to_send())
        sid += 2
    for _ in range(rng.choice([1, 2, 4])):
        kind = rng.choice(["get", "post", "connect-nopath", "nonascii-path", "priority-first", "rst", "window-closed", "data-after-end",
                           "padded", "trailers", "continuation", "websocket", "websocket-nonascii", "priority-closed", "nonascii-method",
                           "nonascii-header", "priority-flood"]) if rare else rng.choice(["get", "post"])
        try:
            if kind == "get":
                c.send_headers(sid, [(b":method", b"GET"), (b":path", b"/x?y=1"), (b":scheme", b"https"), (b":authority", b"a")],
                               end_stream=True)
            elif kind == "post":
                c.send_headers(sid, [(b":method", b"POST"), (b":path", b"/p"), (b":scheme", b"https"), (b":authority", b"a")])
                c.send_data(sid, b"body" * rng.choice([1, 100]), end_stream=rng.random() < 0.8)
            elif kind == "connect-nopath":
                c.send_headers(sid, [(b":method", b"CONNECT"), (b":authority", b"example.com:443")])
            elif kind == "nonascii-path":
                c.send_headers(sid, [(b":method", b"GET"), (b":path", b"/\xc3\xa9"), (b":scheme", b"https"), (b":authority", b"a")],
                               end_stream=True)
            elif kind == "nonascii-method":
                c.send_headers(sid, [(b":method", b"G\xc3\x89T"), (b":path", b"/m"), (b":scheme", b"https"), (b":authority", b"a")],
                               end_stream=True)
            elif kind == "nonascii-header":
                c.send_headers(sid, [(b":method", b"GET"), (b":path", b"/h"), (b":scheme", b"https"), (b":authority", b"\xc3\xa9.example"),
                                     (b"x-v", b"caf\xc3\xa9")], end_stream=True)
            elif kind == "priority-first":
                c.prioritize(sid, weight=rng.choice([1, 200]), depends_on=rng.choice([0, 1]), exclusive=rng.random() < 0.5)
                c.send_headers(sid, base, end_stream=True)
            elif kind == "rst":
                c.send_headers(sid, [(b":method", b"POST"), (b":path", b"/slow"), (b":scheme", b"https"), (b":authority", b"a")])
                c.reset_stream(sid, error_code=rng.choice([0, 8]))
            elif kind == "window-closed":
                c.send_headers(sid, base, end_stream=True)
                out.append(c.data_to_send())
                f = WindowUpdateFrame(sid)
                f.window_increment = 10
                out.append(f.serialize() * 2)
                f = RstStreamFrame(sid)
                f.error_code = 8
                out.append(f.serialize())
            elif kind == "data-after-end":
                c.send_headers(sid, [(b":method", b"POST"), (b":path", b"/early"), (b":scheme", b"https"), (b":authority", b"a")])
                c.send_data(sid, b"late data")
                out.append(c.data_to_send())
                c.send_data(sid, b"more", end_stream=True)
            elif kind == "padded":
                c.send_headers(sid, [(b":method", b"POST"), (b":path", b"/pad"), (b":scheme", b"https"), (b":authority", b"a")])
                c.send_data(sid, b"padded", end_stream=True, pad_length=rng.choice([0, 10, 255]))
            elif kind == "trailers":
                c.send_headers(sid, [(b":method", b"POST"), (b":path", b"/t"), (b":scheme", b"https"), (b":authority", b"a"),
                                     (b"te", b"trailers")])
                c.send_data(sid, b"abc")
                c.send_headers(sid, [(b"x-trailer", b"1")], end_stream=True)
            elif kind == "continuation":
                big = [(b"x-h%d" % i, b"v" * 300) for i in range(80)]
                c.send_headers(sid, base + big, end_stream=True)
            elif kind == "websocket-nonascii":
                c.send_headers(sid, [(b":method", b"CONNECT"), (b":protocol", b"websocket"), (b":scheme", b"https"), (b":path", b"/ws"),
                                     (b":authority", b"a"), (b"sec-websocket-version", b"13"),
                                     rng.choice([(b"sec-websocket-protocol", b"ch\xc3\xa9t"), (b"sec-websocket-extensions", b"\xff"),
                                                 (b"connection", b"\xe9")])])
            elif kind == "websocket":
                c.send_headers(sid, [(b":method", b"CONNECT"), (b":protocol", b"websocket"), (b":scheme", b"https"), (b":path", b"/ws"),
                                     (b":authority", b"a"), (b"sec-websocket-version", b"13")])
                c.send_data(sid, rng.choice([b"\x81\x85\x01\x02\x03\x04ielmn", b"\xff\xff\xff", b"\x88\x80\x00\x00\x00\x00"]))
            elif kind == "priority-flood":
                # PRIORITY frames for a thousand idle streams fill the server's priority tree; then a PRIORITY naming a parent
                # nobody has heard of (the tree would have to take it in), and a request that finds no room (F60)
                fl = []
                for k in range(1001):
                    f = PriorityFrame(20001 + 2 * k)
                    f.depends_on = 0
                    f.stream_weight = 15
                    fl.append(f.serialize())
                f = PriorityFrame(rng.choice([1, sid, 20001]))
                f.depends_on = 90001
                f.stream_weight = 15
                fl.append(f.serialize())
                out.append(b"".join(fl))
                c.send_headers(sid, [(b":method", b"GET"), (b":path", b"/crowded"), (b":scheme", b"https"), (b":authority", b"a")],
                               end_stream=True)
            elif kind == "priority-closed":
                c.send_headers(sid, base, end_stream=True)
                c.reset_stream(sid)
                out.append(c.data_to_send())
                f = PriorityFrame(sid)
                f.depends_on = rng.choice([0, 1])
                f.stream_weight = 15
                out.append(f.serialize())
        except Exception:  # noqa: BLE001  (the client library refused: skip this element)
            pass
        out.append(c.data_to_send())
        sid += 2
    if rare and rng.random() < 0.25:
        # the client says goodbye in the same breath: whatever the server still wanted to answer on the streams above
        # meets a connection that h2 already regards as closed
        try:
            c.close_connection()
            out.append(c.data_to_send())
            victim = None          # nothing is owed to anybody any more
        except Exception:  # noqa: BLE001
            pass
    return b"".join(out), victim


def ws_session(rng):
    # handshake header values are arbitrary octets as far as HTTP/1 goes: token lists that are not ASCII must not upset anything
    odd = rng.choice([b"", b"", b"", b"Sec-WebSocket-Protocol: ch\xe9t\r\n", b"Sec-WebSocket-Extensions: \xff\xfe\r\n", b"Connection: \xe9\r\n"])
    head = (b"GET /chat HTTP/1.1\r\nHost: x\r\nUpgrade: websocket\r\nConnection: Upgrade\r\nSec-WebSocket-Key: dGhlIHNhbXBsZSBub25jZQ==\r\n"
            + odd + b"Sec-WebSocket-Version: 13\r\n\r\n")
    from wsproto.connection import Connection, ConnectionType
    from wsproto.events import BytesMessage, CloseConnection, Ping, TextMessage

    c = Connection(ConnectionType.CLIENT)
    frames = b""
    for _ in range(rng.choice([1, 3])):
        ev = rng.choice([TextMessage(data="hello"), BytesMessage(data=b"\x00\x01" * 50), Ping(payload=b"p"),
                         TextMessage(data="part", message_finished=False)])
        try:
            frames += c.send(ev)
        except Exception:  # noqa: BLE001
            pass
    if rng.random() < 0.5:
        try:
            frames += c.send(CloseConnection(code=1000))
        except Exception:  # noqa: BLE001
            pass
    return head, frames


def mutate(rng, data: bytes, lo=0) -> bytes:
    b = bytearray(data)
    for _ in range(rng.choice([1, 1, 2, 5])):
        if len(b) <= lo:
            break
        k = rng.choice(["flip", "set", "del", "ins", "trunc", "dup", "splice"])
        i = rng.randrange(lo, len(b))
        if k == "flip":
            b[i] ^= 1 << rng.randrange(8)
        elif k == "set":
            b[i] = rng.choice([0, 10, 13, 32, 58, 127, 128, 255])
        elif k == "del":
            del b[i:i + rng.choice([1, 2, 9])]
        elif k == "ins":
            b[i:i] = bytes(rng.randrange(256) for _ in range(rng.choice([1, 4, 30])))
        elif k == "trunc":
            del b[i:]
        elif k == "dup":
            j = min(len(b), i + rng.choice([1, 9, 40]))
            b[i:i] = b[i:j]
        else:
            j = rng.randrange(lo, len(b))
            b[i:i] = b[min(i, j):max(i, j)][:50]
    return bytes(b)


def segments(rng, data: bytes):
    if not data:
        return []
    n = rng.choice([1, 1, 2, 3, 8, len(data) if len(data) < 40 else 8])
    cuts = sorted(set(rng.randrange(1, len(data)) for _ in range(n - 1))) if len(data) > 1 else []
    return [data[a:b] for a, b in zip([0] + cuts, cuts + [len(data)])]


# ------------------------------------------------------------------ running and judging
def simple_app(driver):
    async def app(scope, receive, send):
        if scope["type"] == "websocket":
            m = await receive()
            await send({"type": "websocket.accept"})
            while True:
                m = await receive()
                if m["type"] == "websocket.disconnect":
                    return
                if m.get("text") is not None:
                    await send({"type": "websocket.send", "text": m["text"]})
                elif m.get("bytes") is not None:
                    await send({"type": "websocket.send", "bytes": m["bytes"]})
        elif scope["type"] == "http":
            if scope["path"] == "/early":
                await send({"type": "http.response.start", "status": 200, "headers": []})
                await send({"type": "http.response.body", "body": b"early"})
                return
            body = b""
            while True:
                m = await receive()
                if m["type"] == "http.disconnect":
                    return
                body += m.get("body", b"")
                if not m.get("more_body"):
                    break
            await send({"type": "http.response.start", "status": 200, "headers": [(b"content-length", b"%d" % (len(body) + 3))]})
            await send({"type": "http.response.body", "body": b"ok:" + body})

    return app


def run_bytes(pieces, alpn, worker, seed, policy, eof=True, server_names=()):
    driver = S.Driver(seed=seed, policy=policy)
    cfg = R.make_config(server_names)
    cfg._log = R.RecLog([])
    rig = S.ProtoRig(simple_app(driver), cfg, driver, alpn=alpn, ssl=(alpn == "h2"), worker=worker)
    outcomes = []
    for p in pieces:
        rig.feed(p)
        outcomes.append(rig.run(max_steps=driver.steps + 50000))
    if eof:
        rig.eof()
        outcomes.append(rig.run(max_steps=driver.steps + 50000))
    return rig, driver, outcomes


def judge_common(rig, driver, outcomes, desc):
    fails = []
    errs = [(n, repr(e)) for n, e in driver.errors()]
    if errs:
        fails.append({"signature": "internal-error:" + errs[0][1].split("(")[0], "desc": desc, "errors": errs[:3]})
    if any(o != "quiescent" for o in outcomes):
        fails.append({"signature": "not-quiescent", "desc": desc})
    # (until the client's EOF the reader legitimately waits for more input; after it, it has to come back from the protocol)
    left = [n for n in driver.alive() if n != "reader" or desc.get("eof")]
    if desc.get("eof") and left:
        # after the client is gone nothing may be left running except applications blocked in their own receive()
        stuck = [n for n in left if not n.startswith("app")]
        if stuck:
            fails.append({"signature": "task-outlives-connection", "desc": desc, "alive": left})
    return fails


def h1_verdict(data: bytes):
    """What an independent server-side h11 parser says about the byte stream: ('ok'|'error', hint)."""
    import h11

    c = h11.Connection(h11.SERVER, max_incomplete_event_size=16 * 1024)
    c.receive_data(data)
    try:
        while True:
            ev = c.next_event()
            if ev is h11.NEED_DATA or ev is h11.PAUSED or isinstance(ev, h11.ConnectionClosed):
                return ("ok", None, c.our_state)
            if isinstance(ev, h11.EndOfMessage):
                return ("ok", None, c.our_state)    # only the first request is judged
    except h11.RemoteProtocolError as e:
        return ("error", e.error_status_hint, c.our_state)


def h1_case(seed):
    import h11

    rng = random.Random(seed)
    kind = rng.choice(["random", "mutated", "mutated", "mutated", "valid"])
    if kind == "random":
        data = bytes(rng.randrange(256) for _ in range(rng.choice([1, 20, 300])))
    else:
        data = h1_session(rng)
        if kind == "mutated":
            data = mutate(rng, data)
    worker = rng.choice(["asyncio", "trio"])
    policy = rng.choice(["fifo", "random"])
    names = rng.choice([(), (), ("example.com",)])        # with server names configured the Host header is looked at
    desc = {"seed": seed, "protocol": "h1", "kind": kind, "worker": worker, "bytes": len(data), "eof": True, "head": data[:60].hex(),
            "server_names": list(names)}
    rig, driver, outcomes = run_bytes(segments(rng, data), "http/1.1", worker, seed, policy, server_names=names)
    fails = judge_common(rig, driver, outcomes, desc)
    verdict, hint, our_state = h1_verdict(data)
    desc["verdict"] = verdict
    # (with server names configured a request for another host is answered 404 before the rest of it is even parsed: the
    # hinted-status oracle is for the plain configuration)
    if verdict == "error" and our_state in (h11.IDLE, h11.SEND_RESPONSE) and not fails and not names:
        # the first request is malformed: the hinted status, connection: close, then closed
        written = bytes(rig.transport.written)
        cl = h11.Connection(h11.CLIENT)
        cl.send(h11.Request(method="GET", target="/", headers=[("host", "x")]))
        cl.send(h11.EndOfMessage())
        cl.receive_data(written)
        status = None
        try:
            ev = cl.next_event()
            while isinstance(ev, h11.InformationalResponse):
                ev = cl.next_event()
            if isinstance(ev, h11.Response):
                status = ev.status_code
        except h11.RemoteProtocolError:
            status = "unparsable"
        if status != hint:
            fails.append({"signature": "h1-malformed-not-answered-with-hint", "desc": desc, "status": status, "hint": hint})
        if not rig.closed:
            fails.append({"signature": "h1-malformed-not-closed", "desc": desc})
    return desc, fails


def h2_verdict(data: bytes):
    import h2.config
    import h2.connection
    import h2.exceptions

    s = h2.connection.H2Connection(h2.config.H2Configuration(client_side=False, header_encoding=None))
    s.initiate_connection()
    try:
        s.receive_data(data)
        return "ok"
    except h2.exceptions.ProtocolError:
        return "error"
    except Exception:  # noqa: BLE001  (hpack / hyperframe errors surface as other classes in some versions)
        return "error"


def parse_h2_output(written: bytes):
    import h2.config
    import h2.connection
    import h2.events

    HS.tolerate_empty_data_at_negative_window()
    c = h2.connection.H2Connection(h2.config.H2Configuration(client_side=True, header_encoding=None))
    c.initiate_connection()
    c.data_to_send()
    # pretend the requests were sent: open the streams the server may answer on
    res = {"goaway": False, "responses": {}, "data": {}, "ended": set(), "reset": {}, "error": None}
    try:
        import hyperframe.frame as F

        pos = 0
        buf = memoryview(written)
        while pos + 9 <= len(buf):
            f, length = F.Frame.parse_frame_header(buf[pos:pos + 9])
            body = buf[pos + 9:pos + 9 + length]
            if len(body) < length:
                break
            pos += 9 + length
            try:
                f.parse_body(body)
            except Exception:  # noqa: BLE001
                continue
            if isinstance(f, F.GoAwayFrame):
                res["goaway"] = True
            elif isinstance(f, F.HeadersFrame):
                res["responses"].setdefault(f.stream_id, 0)
                res["responses"][f.stream_id] += 1
                if "END_STREAM" in f.flags:
                    res["ended"].add(f.stream_id)
            elif isinstance(f, F.DataFrame):
                res["data"][f.stream_id] = res["data"].get(f.stream_id, b"") + bytes(f.data)
                if "END_STREAM" in f.flags:
                    res["ended"].add(f.stream_id)
            elif isinstance(f, F.RstStreamFrame):
                res["reset"][f.stream_id] = f.error_code
    except Exception as e:  # noqa: BLE001
        res["error"] = repr(e)
    return res


def h2_case(seed):
    rng = random.Random(seed)
    kind = rng.choice(["mutated", "mutated", "rare", "rare", "rare", "random-after-preface"])
    victim = None
    if kind == "rare":
        data, victim = h2_session(rng, rare=True)
    elif kind == "mutated":
        data, _ = h2_session(rng, rare=rng.random() < 0.5)
        data = mutate(rng, data, lo=24)
    else:
        data, _ = h2_session(rng)
        data = data[:24 + 9 + 0] + bytes(rng.randrange(256) for _ in range(rng.choice([9, 50, 400])))
    worker = rng.choice(["asyncio", "trio"])
    policy = rng.choice(["fifo", "random"])
    desc = {"seed": seed, "protocol": "h2", "kind": kind, "worker": worker, "bytes": len(data), "eof": True}
    rig, driver, outcomes = run_bytes(segments(rng, data), "h2", worker, seed, policy)
    fails = judge_common(rig, driver, outcomes, desc)
    verdict = h2_verdict(data)
    desc["verdict"] = verdict
    out = parse_h2_output(bytes(rig.transport.written))
    if verdict == "error" and not out["goaway"]:
        fails.append({"signature": "h2-violation-without-goaway", "desc": desc})
    if verdict == "ok" and victim is not None:
        if out["data"].get(victim, b"") != b"ok:" or victim not in out["ended"] or out["responses"].get(victim, 0) != 1:
            fails.append({"signature": "h2-victim-stream-affected", "desc": desc, "victim": victim,
                          "got": out["data"].get(victim), "responses": out["responses"].get(victim), "goaway": out["goaway"]})
    return desc, fails


def h2_late_upload_case(seed):
    """A stream whose response is already complete keeps uploading (a full connection window and more); the credit must
    come back, or every other stream with a request body starves: a fault of one stream reaching the others."""
    import h2.config
    import h2.connection
    import h2.events

    rng = random.Random(seed)
    worker = rng.choice(["asyncio", "trio"])
    policy = rng.choice(["fifo", "random"])
    total = rng.choice([65535, 70000, 150000])
    chunk = rng.choice([1000, 16384])
    pump_every = rng.choice([1, 4, 1000])        # 1000: everything the windows allow is in flight before the client reads
    driver = S.Driver(seed=seed, policy=policy)
    cfg = R.make_config(())
    cfg._log = R.RecLog([])
    rig = S.ProtoRig(simple_app(driver), cfg, driver, alpn="h2", ssl=True, worker=worker)
    c = h2.connection.H2Connection(h2.config.H2Configuration(client_side=True, header_encoding=None))
    c.initiate_connection()
    seen = {"data": {}, "ended": set(), "reset": set(), "goaway": False, "consumed": 0}

    def feed():
        out = c.data_to_send()
        if out:                      # an empty read is the end of the stream for the trio flavour of the loop
            rig.feed(out)

    def pump():
        feed()
        rig.run(max_steps=driver.steps + 50000)
        w = bytes(rig.transport.written)
        new, seen["consumed"] = w[seen["consumed"]:], len(w)
        if new:
            for ev in c.receive_data(new):
                if isinstance(ev, h2.events.DataReceived):
                    seen["data"][ev.stream_id] = seen["data"].get(ev.stream_id, b"") + ev.data
                    c.acknowledge_received_data(ev.flow_controlled_length, ev.stream_id)
                elif isinstance(ev, h2.events.StreamEnded):
                    seen["ended"].add(ev.stream_id)
                elif isinstance(ev, h2.events.StreamReset):
                    seen["reset"].add(ev.stream_id)
                elif isinstance(ev, h2.events.ConnectionTerminated):
                    seen["goaway"] = True
            feed()
            rig.run(max_steps=driver.steps + 50000)

    pump()
    hdr = [(b":scheme", b"https"), (b":authority", b"x")]
    c.send_headers(1, [(b":method", b"POST"), (b":path", b"/early")] + hdr)
    if pump_every < 1000:
        pump()
    sent, k, stalled = 0, 0, False
    while sent < total:
        try:
            n = min(chunk, total - sent, c.local_flow_control_window(1))
        except Exception:  # noqa: BLE001  (the server has reset the stream: the upload stops here)
            break
        if n <= 0:
            before = sent
            pump()
            try:
                if c.local_flow_control_window(1) <= 0:
                    stalled = True
                    break
            except Exception:  # noqa: BLE001
                break
            continue
        try:
            c.send_data(1, b"x" * n)
        except Exception:  # noqa: BLE001
            break
        sent += n
        k += 1
        if k % pump_every == 0:
            pump()
    pump()
    desc = {"seed": seed, "protocol": "h2", "kind": "late-upload", "worker": worker, "bytes": sent, "eof": True, "total": total,
            "chunk": chunk, "pump_every": pump_every}
    fails = []
    # the victim: an ordinary request with a body on the same connection
    c.send_headers(3, [(b":method", b"POST"), (b":path", b"/v")] + hdr)
    pump()
    credit = c.local_flow_control_window(3)
    if credit < 3:
        fails.append({"signature": "h2-connection-window-not-returned", "desc": desc, "credit": credit, "uploaded": sent})
    else:
        c.send_data(3, b"abc", end_stream=True)
        pump()
        if seen["data"].get(3) != b"ok:abc" or 3 not in seen["ended"]:
            fails.append({"signature": "h2-victim-stream-affected", "desc": desc, "victim": 3, "got": seen["data"].get(3), "goaway": seen["goaway"]})
    rig.eof()
    outcomes = [rig.run(max_steps=driver.steps + 50000)]
    fails.extend(judge_common(rig, driver, outcomes, desc))
    # F14: the application that answered without reading has its queue full of body messages; its stream's closure puts
    # the disconnect into that queue from inside the application's own send(): known, and what follows from it is the same defect
    if any(t.name.startswith("app") and not t.done and t.waiting is not None and t.waiting.label == "queue.put" for t in driver.tasks):
        for f in fails:
            f["signature"] = "F14:app-queue-full-deadlock"
    return desc, fails


def ws_case(seed):
    rng = random.Random(seed)
    head, frames = ws_session(rng)
    data = head + mutate(rng, frames) if frames else head
    if rng.random() < 0.2:
        data = mutate(rng, data)
    worker = rng.choice(["asyncio", "trio"])
    desc = {"seed": seed, "protocol": "ws", "kind": "mutated", "worker": worker, "bytes": len(data), "eof": True}
    rig, driver, outcomes = run_bytes(segments(rng, data), "http/1.1", worker, seed, rng.choice(["fifo", "random"]))
    return desc, judge_common(rig, driver, outcomes, desc)


def run(ctx):
    n = ctx.scale(64, 640, 200)
    base = ctx.seed * 100000 + 70000
    cases, stats = [], []
    for i in range(n):
        term, exp, st, _rig = HS.gen_case(base + i)
        cases.append((term, exp))
        stats.append(st)
    disagreements, err = [], None
    if ctx.mode != "search":
        failing, err = C.coq_failing(PROP, HS.PREAMBLE, HS.INPUT_TY, HS.FUN, cases, shard=32, jobs=16)
        for k in failing[:3]:
            shown = C.coq_show(PROP, HS.PREAMBLE, HS.FUN, cases[k][0])
            try:
                d = C.first_diff(C.parse_val(shown), C.parse_val("= " + cases[k][1] + " : val"))
            except Exception:  # noqa: BLE001
                d = None
            disagreements.append({"seed": base + k, "input": cases[k][0][:3000], "first_difference(model,real)": repr(d)[:1500]})
        disagreements.extend({"seed": base + k} for k in failing[3:30])
    oracle_failures = []
    for s in stats:
        if s["errors"]:
            oracle_failures.append({"signature": "internal-error:explicit-schedule", "errors": s["errors"][:2]})
    descs = []
    for fn, count in ((h1_case, ctx.scale(600, 6000, 2000)), (h2_case, ctx.scale(900, 6000, 2000)), (h2_late_upload_case, ctx.scale(40, 300, 100)),
                      (ws_case, ctx.scale(100, 1500, 500))):
        for i in range(count):
            d, f = fn(ctx.seed * 15485863 + i)
            descs.append(d)
            oracle_failures.extend(f)
    dist = {"correspondence_cases": len(cases), "byte_sessions": len(descs)}
    for d in descs:
        k = f"{d['protocol']}:{d['kind']}:{d.get('verdict', '-')}"
        dist[k] = dist.get(k, 0) + 1
        dist["worker:" + d["worker"]] = dist.get("worker:" + d["worker"], 0) + 1
    for k in ("priority", "data", "ended", "reset", "eof"):
        dist["step:" + k] = sum(s[k] for s in stats)
    return {
        "evaluations": len(cases) + len(descs),
        "distinct_nontrivial": len({c[0] for c in cases}) + len({(d["protocol"], d["kind"], d["bytes"], d.get("head")) for d in descs}),
        "rule": "correspondence as for C08/C09 with reader labels for PRIORITY (open, closed, idle streams, with parents), DATA and "
                "END_STREAM.  Byte sessions: random bytes; 1-5 mutations (bit flip, byte set, delete, insert, truncate, duplicate, "
                "splice) of valid HTTP/1 pipelines (content-length, chunked, upgrades, expect), HTTP/2 sessions and WebSocket "
                "sessions; grammar-generated HTTP/2 elements (PRIORITY before HEADERS and on closed streams, RST, WINDOW_UPDATE on "
                "closed streams, CONTINUATION, padding, trailers, plain CONNECT, non-ASCII path, DATA after the response, WebSocket "
                "over HTTP/2) around a victim stream; every input cut into 1..8 reads (all single bytes when short); asyncio and "
                "trio flavours of the server loop; fifo / random scheduling.",
        "samples": descs[:2] + descs[-1:],
        "disagreements": disagreements,
        "oracle_failures": oracle_failures,
        "model_eval_error": err,
        "distribution": dist,
        "assumptions": ["h11 / h2 / wsproto decide what is malformed (their own parsers are the oracle for 'malformed')",
                        "the rig's server loop mirrors TCPServer._read_data / protocol_send of both workers"],
    }


def known_still_fails(k):
    if k.get("signature") == "F14:app-queue-full-deadlock":
        from .c06 import f14_witness

        return f14_witness()
    return None


def replay(data):
    print(data)
    return 0
