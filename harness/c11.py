"""C11: WebSocket handshake validation and lifecycle mapping.
(a) stream-level correspondence (real WSStream / Handshake) against coq/model/WsStream.v;
(b) end-to-end oracle written from RFC 6455 / RFC 8441 / the ASGI spec: raw upgrade requests with
    every header combination x application decision x closing order, over both carriers."""
from __future__ import annotations

from . import common as C
from . import streams as ST
from . import wsrig as W

PROP = "C11"

UPGRADE = [b"websocket", b"WebSocket", b"WEBSOCKET", None, b"h2c", b"websocket2"]
CONNECTION = [b"Upgrade", b"upgrade", b"keep-alive, Upgrade", b"UPGRADE ,x", None, b"close", b"keep-alive"]
VERSION = [b"13", b"13", b"13", b"8", None, b"13, 8", b" 13"]
KEYS = [W.KEY, W.KEY, W.KEY, None, b"AAAAAAAAAAAAAAAAAAAAAA=="]


def gen_raw_request(rng):
    hs = [(b"Host", b"example.com")]
    up, conn, ver, key = rng.choice(UPGRADE), rng.choice(CONNECTION), rng.choice(VERSION), rng.choice(KEYS)
    if rng.random() < 0.55:
        up, conn = b"websocket", rng.choice(CONNECTION[:4])
    if up is not None:
        hs.append((rng.choice([b"Upgrade", b"upgrade"]), up))
    if conn is not None:
        hs.append((b"Connection", conn))
    if key is not None:
        hs.append((b"Sec-WebSocket-Key", key))
    if ver is not None:
        hs.append((b"Sec-WebSocket-Version", ver))
    offers = None
    if rng.random() < 0.5:
        offers = rng.choice([["chat"], ["chat", "superchat"], ["v1.proto"]])
        hs.append((b"Sec-WebSocket-Protocol", ", ".join(offers).encode()))
    ext = rng.random() < 0.3
    if ext:
        hs.append((b"Sec-WebSocket-Extensions", b"permessage-deflate"))
    rng.shuffle(hs)
    method = b"GET" if rng.random() < 0.9 else b"POST"
    raw = method + b" /chat?x=1 HTTP/1.1\r\n" + b"".join(n + b": " + v + b"\r\n" for n, v in hs) + b"\r\n"
    if method == b"POST":
        raw = raw.replace(b"\r\n\r\n", b"\r\nContent-Length: 0\r\n\r\n")

    def last(name):
        vals = [v for n, v in hs if n.lower() == name]
        return vals[-1] if vals else None

    u, c = last(b"upgrade"), last(b"connection")
    selected = (method == b"GET" and u is not None and u.strip().lower() == b"websocket" and c is not None
                and any(t.strip().lower() == b"upgrade" for t in c.split(b",")))
    k, v = last(b"sec-websocket-key"), last(b"sec-websocket-version")
    valid = selected and k is not None and v is not None and v.strip() == b"13"
    return raw, {"selected": selected, "valid": valid, "key": k, "offers": offers, "ext": ext, "headers": hs, "method": method.decode()}


DECISIONS = ["accept", "accept", "accept-sub", "accept-bad-sub", "accept-headers", "close", "http", "http-chunks", "raise", "return"]


def decision_steps(rng, decision, info):
    offers = info.get("offers")
    if decision == "accept":
        return [("send", {"type": "websocket.accept"})], {}
    if decision == "accept-sub":
        sub = (offers or ["chat"])[0]
        return [("send!", {"type": "websocket.accept", "subprotocol": sub})], {"sub": sub}
    if decision == "accept-bad-sub":
        return [("send!", {"type": "websocket.accept", "subprotocol": "not-offered"})], {"sub": "not-offered"}
    if decision == "accept-headers":
        extra = [(b"x-one", b"1"), (b"set-cookie", b"a=b")]
        return [("send", {"type": "websocket.accept", "headers": extra})], {"extra": extra}
    if decision == "close":
        return [("send", {"type": "websocket.close"})], {}
    if decision in ("http", "http-chunks"):
        status = rng.choice([401, 403, 404, 302])
        hs = [(b"x-why", b"denied"), (b"content-type", b"text/plain")]
        chunks = [b"no"] if decision == "http" else [b"de", b"", b"nied"]
        steps = [("send", {"type": "websocket.http.response.start", "status": status, "headers": hs})]
        for i, ch in enumerate(chunks):
            steps.append(("send", {"type": "websocket.http.response.body", "body": ch, "more_body": i < len(chunks) - 1}))
        return steps, {"status": status, "headers": hs, "body": b"".join(chunks)}
    if decision == "raise":
        return [("raise",)], {}
    return [("return",)], {}


def e2e_case(ctx, idx):
    from wsproto.events import CloseConnection, TextMessage

    rng = ctx.rng
    early_disc = None
    carrier = "h11" if idx % 3 != 2 else "h2"
    decision = rng.choice(DECISIONS)
    closing = rng.choice(["client-code", "client-nocode", "app-close", "app-close-code", "eof", "client-then-eof", "simultaneous"])
    if carrier == "h11":
        raw, info = gen_raw_request(rng)
    else:
        ver = rng.choice([b"13", b"13", b"13", b"8", None])
        offers = rng.choice([None, ["chat", "superchat"]])
        hs = []
        if offers:
            hs.append((b"sec-websocket-protocol", ", ".join(offers).encode()))
        raw, info = None, {"selected": True, "valid": ver == b"13", "key": None, "offers": offers, "ext": False, "version": ver}
    dsteps, dinfo = decision_steps(rng, decision, info)
    steps = [("recv",)] + dsteps
    accepted_expected = decision in ("accept", "accept-headers") or (decision == "accept-sub" and info.get("offers") and dinfo["sub"] in info["offers"])
    app_close_code = rng.choice([1000, 1001, 3001])
    if accepted_expected:
        if closing == "app-close":
            steps.append(("send", {"type": "websocket.close"}))
        elif closing == "simultaneous":
            steps.append(("recv",))          # the client's message is the signal to close
            steps.append(("send", {"type": "websocket.close"}))
        elif closing == "app-close-code":
            steps.append(("send", {"type": "websocket.close", "code": app_close_code, "reason": "done"}))
    steps.append(("recv_until_disconnect",))
    if carrier == "h11":
        s = W.WsSession("h11", steps, raw_request=raw)
    else:
        s = W.WsSession("h2", steps)
        s.request_headers = [h for h in s.request_headers if h[0] != b"sec-websocket-version"]
        if info["version"] is not None:
            s.request_headers.append((b"sec-websocket-version", info["version"]))
        if info["offers"]:
            s.request_headers.append((b"sec-websocket-protocol", ", ".join(info["offers"]).encode()))
    s.open(split=rng.choice([None, None, 10, 40]) if carrier == "h11" else None)
    client_code = rng.choice([1000, 1001, 4000])
    if s.handshake and s.handshake[0] == "accept":
        if closing == "client-code":
            s.send_event(CloseConnection(code=client_code, reason="bye"))
        elif closing == "client-nocode":
            s.send_raw(bytes([0x88, 0x80, 1, 2, 3, 4]))
        elif closing == "eof":
            s.eof()
        elif closing == "client-then-eof":
            s.send_event(CloseConnection(code=client_code))
            s.eof()
        elif closing == "simultaneous":
            # both sides close at once: the client's close frame is read while the server's own close frame is still being
            # written (the transport is above its high-water mark); the closing handshake is complete all the same
            from wsproto.events import TextMessage

            s.rig.transport.paused = True
            s.send_event(TextMessage(data="bye"))
            s.rig.run()
            s.send_event(CloseConnection(code=1000))
            s.rig.run()
            s.rig.transport.paused = False
            s.rig.run()
            s.pump()
            s.eof()
        else:
            s.pump()
            closes = [e for e in s.events if e[0] == "close"]
            if closes:
                s.send_event(CloseConnection(code=closes[0][1]))  # echo the server's close
                s.rig.run()
                # the closing handshake is complete: the application is told now, not when the client finally drops TCP
                a0 = s.app()
                early_disc = None if a0 is None else [m for m in a0["received"] if m["type"] == "websocket.disconnect"]
            s.eof()
    else:
        if rng.random() < 0.5:
            # a client that goes on talking although its handshake was not accepted (or before it reads the answer):
            # nothing it sends may disturb the answer the application gave, or the server (finding F61)
            s.send_raw(bytes([0x81, 0x85, 0, 0, 0, 0]) + b"hello")
            s.rig.run()
        s.eof()
    app = s.app()
    case = {"kind": "e2e", "carrier": carrier, "decision": decision, "closing": closing, "info": {k: v for k, v in info.items() if k != "headers"},
            "handshake": s.handshake, "app_received": None if app is None else [m["type"] + (":" + str(m.get("code")) if "code" in m else "") for m in app["received"]],
            "client_events": [e[:2] for e in s.events], "log": s.log}
    fails = []

    def bad(what, sig):
        fails.append({"case": case, "what": what, "signature": sig})

    if not info["selected"]:
        return case, fails  # not a WebSocket request at all (C13 / plain HTTP)
    hk = s.handshake
    if not info["valid"]:
        if app is not None:
            bad("application started for an invalid handshake", "e2e:invalid-handshake-app")
        if hk is None or hk[0] != "reject" or hk[1] != 400:
            bad(f"invalid handshake answered {hk}", "e2e:invalid-handshake-400")
        return case, fails
    if app is None:
        bad(f"valid handshake but no application: {hk}", "e2e:valid-no-app")
        return case, fails
    if not app["received"] or app["received"][0]["type"] != "websocket.connect":
        bad(f"first message {app['received'][:1]}", "e2e:connect-first")
    sc = app["scope"]
    if sc["type"] != "websocket" or sc.get("subprotocols", []) != (info["offers"] or []):
        bad(f"scope subprotocols {sc.get('subprotocols')} != offers {info['offers']}", "e2e:scope-subprotocols")
    disconnects = [m for m in app["received"] if m["type"] == "websocket.disconnect"]
    if accepted_expected:
        want_status = 101 if carrier == "h11" else 200
        if hk is None or hk[0] != "accept" or hk[1] != want_status:
            bad(f"accept rendered as {hk}", "e2e:accept-status")
            return case, fails
        hd = {}
        for n, v in hk[2]:
            hd.setdefault(n.lower(), []).append(v)
        if carrier == "h11":
            if hd.get(b"sec-websocket-accept") != [W.accept_token(info["key"])]:
                bad(f"accept token {hd.get(b'sec-websocket-accept')}", "e2e:accept-token")
        elif b"sec-websocket-accept" in hd:
            bad("accept token on HTTP/2", "e2e:accept-token")
        want_sub = [dinfo["sub"].encode()] if "sub" in dinfo else None
        if hd.get(b"sec-websocket-protocol") != want_sub:
            bad(f"subprotocol header {hd.get(b'sec-websocket-protocol')} != {want_sub}", "e2e:subprotocol")
        for n, v in dinfo.get("extra", []):
            if v not in hd.get(n, []):
                bad(f"extra header {n!r} missing", "e2e:extra-headers")
        if info["ext"] and hd.get(b"sec-websocket-extensions") != [b"permessage-deflate"]:
            bad(f"extension negotiation {hd.get(b'sec-websocket-extensions')}", "e2e:extensions")
        if not info["ext"] and b"sec-websocket-extensions" in hd:
            bad("extension accepted although not offered", "e2e:extensions")
        # lifecycle: exactly one disconnect with the code that tells what happened
        want_code = {"client-code": client_code, "client-then-eof": client_code, "client-nocode": 1005, "app-close": 1000, "simultaneous": 1000,
                     "app-close-code": 1000, "eof": 1006}[closing]
        if len(disconnects) != 1 or disconnects[0]["code"] != want_code:
            bad(f"disconnects {disconnects}, expected one with code {want_code}", "e2e:disconnect-code:" + closing)
        if closing in ("app-close", "app-close-code") and early_disc is not None and len(early_disc) != 1:
            bad(f"the client answered the application's close frame, yet the application had been sent {len(early_disc)} disconnects before the "
                f"transport went away", "e2e:disconnect-at-handshake-completion")
        if closing == "app-close-code" and ("close", app_close_code) not in [e[:2] for e in s.events]:
            bad(f"client did not see the application's close code: {s.events}", "e2e:app-close-code")
        if closing in ("client-code",) and ("close", client_code) not in [e[:2] for e in s.events]:
            bad(f"close not echoed: {s.events}", "e2e:close-echo")
    elif decision == "close":
        if hk is None or hk[0] != "reject" or hk[1] != 403:
            bad(f"websocket.close during the handshake rendered as {hk}", "e2e:close-403")
    elif decision in ("http", "http-chunks"):
        ok = hk is not None and hk[0] == "reject" and hk[1] == dinfo["status"]
        if ok:
            hd = dict(hk[2])
            ok = all(hd.get(n) == v for n, v in dinfo["headers"]) and s.reject_body == dinfo["body"]
        if not ok:
            bad(f"denial response rendered as {hk} body {s.reject_body!r}", "e2e:denial-response")
    elif decision in ("raise", "return", "accept-bad-sub", "accept-sub"):
        if hk is None or hk[0] != "reject" or hk[1] != 500:
            bad(f"application failure during the handshake rendered as {hk}", "e2e:handshake-500")
    if len(disconnects) > 1:
        bad(f"{len(disconnects)} disconnects", "e2e:disconnect-twice")
    errs = [(n, repr(e)) for n, e in s.driver.errors() if not n.startswith("app")]
    if errs:
        bad(f"task errors {errs}", "e2e:task-error")
    return case, fails


def run(ctx):
    rng = ctx.rng
    cases = []
    for _ in range(ctx.scale(700, 8000, 3000)):
        c = ST.ws_case(rng)
        obs = ST.run_ws_case(c[0], c[1], c[2], c[3], c[5], list(c[6]), list(c[7]), c[8], c[9])
        cases.append((ST.ws_case_term(*c), C.V(obs), {"kind": "stream", "inputs": c[9], "obs": obs}))
    e2e, oracle_failures = [], []
    for i in range(ctx.scale(450, 6000, 2500)):
        case, fails = e2e_case(ctx, i)
        e2e.append(case)
        oracle_failures.extend(fails)
    disagreements, err = [], None
    if ctx.mode != "search":
        failing, err = C.coq_failing(PROP, ST.PREAMBLE, ST.INPUT_TY, ST.FUN, [(a, b) for a, b, _ in cases])
        for k in failing[:5]:
            disagreements.append({"case": cases[k][2], "model": C.coq_show(PROP, ST.PREAMBLE, ST.FUN, cases[k][0])[-1500:]})
        disagreements.extend({"case": cases[k][2]} for k in failing[5:40])
    dist = {"stream_cases": len(cases), "e2e_sessions": len(e2e)}
    for c in e2e:
        key = ("selected-valid" if c["info"]["valid"] else "selected-invalid") if c["info"]["selected"] else "not-websocket"
        dist[key] = dist.get(key, 0) + 1
        if c["info"]["valid"]:
            dist["decision:" + c["decision"]] = dist.get("decision:" + c["decision"], 0) + 1
            if c["handshake"] and c["handshake"][0] == "accept":
                dist["closing:" + c["closing"]] = dist.get("closing:" + c["closing"], 0) + 1
    return {
        "evaluations": len(cases) + len(e2e),
        "distinct_nontrivial": len({repr(m["obs"]) for _, _, m in cases}) + len({repr((c["carrier"], c["decision"], c["closing"], c["handshake"] and c["handshake"][:2], c["app_received"])) for c in e2e}),
        "rule": "stream level: random handshake header lists (missing/duplicated/odd-case tokens, versions, keys, offers) x application "
                "message sequences x scripted wsproto answers; end to end: raw HTTP/1.1 upgrade requests and HTTP/2 extended CONNECT x "
                "10 application decisions x 6 closing orders, client = independent h11/h2 + wsproto. distinct = distinct traces.",
        "samples": [cases[0][2], e2e[0], e2e[1]],
        "disagreements": disagreements,
        "oracle_failures": oracle_failures,
        "model_eval_error": err,
        "distribution": dist,
        "assumptions": ["generate_accept_token is wsproto's (checked against an independent SHA-1/base64 computation)",
                        "permessage-deflate negotiation is wsproto's (oracle value at the stream level)"],
    }


def known_still_fails(k):
    return None


def replay(data):
    print(data)
    return 0
