"""C09: HTTP/2 flow control, ordered complete delivery, liveness, quiescence.
(a) correspondence of model.H2Send with the real H2Protocol / StreamBuffer / h2 / priority under
    explicit scheduling (harness/h2send.py);
(b) end to end under random scheduling: an independent h2 client is the flow-control oracle (it
    raises on any DATA beyond a window or frame size), every byte is accounted for against what
    the applications sent, END_STREAM is counted, stalled / reset streams must not stop the others,
    and every run must reach quiescence within a step budget."""
from __future__ import annotations

import random

from . import common as C
from . import h2rig as H2
from . import h2send as HS

PROP = "C09"

SIZES = [0, 1, 10, 1000, 16384, 16385, 33000, 70000]
WINDOWS = [0, 1, 7, 1000, 16384, 65535, 100000]


def plan_response(rng, sid):
    """(script, expected bytes, kind)"""
    chunks = [rng.choice(SIZES) for _ in range(rng.choice([0, 1, 2, 3, 6]))]
    seedb = (sid * 37) % 256
    bodies = []
    for n in chunks:
        bodies.append(HS.genb(n, seedb))
        seedb = (seedb + 11) % 256
    script = [("send", {"type": "http.response.start", "status": 200, "headers": [(b"x-sid", b"%d" % sid)]})]
    for i, b in enumerate(bodies):
        last = i == len(bodies) - 1
        script.append(("send", {"type": "http.response.body", "body": b, "more_body": not last}))
    if not bodies:
        script.append(("send", {"type": "http.response.body", "body": b"", "more_body": False}))
    return script, b"".join(bodies)


def e2e_session(seed, thorough=False):
    """One randomly scheduled session.  Returns (description, list of oracle failures)."""
    import h2.settings

    rng = random.Random(seed)
    iw = rng.choice(WINDOWS)
    nstreams = rng.choice([1, 2, 3, 5])
    policy = rng.choice(["fifo", "random", "lifo"])
    settings = {h2.settings.SettingCodes.INITIAL_WINDOW_SIZE: iw}
    if rng.random() < 0.3:
        settings[h2.settings.SettingCodes.MAX_FRAME_SIZE] = rng.choice([16384, 20000, 65536])
    plans = {}
    scripts = []
    sids = [1 + 2 * i for i in range(nstreams)]
    # scripted_app hands script k to the k-th application instance *started*; tie them to streams by path
    expected = {}
    by_path = {}
    for sid in sids:
        script, exp = plan_response(rng, sid)
        by_path[f"/s{sid}"] = script
        expected[sid] = exp
    HS.tolerate_empty_data_at_negative_window()
    from . import sched as S

    recs = {}

    def make_app(session):
        async def app(scope, receive, send):
            r = recs.setdefault(scope["path"], [])
            await S.scripted_app([by_path[scope["path"]]], r, session.driver)(scope, receive, send)

        return app

    worker = rng.choice(["asyncio", "trio"])
    sess = H2.H2Session([], policy=policy, seed=seed, client_settings=settings, app=make_app, worker=worker)
    sess.auto_ack = False
    desc = {"seed": seed, "initial_window": iw, "streams": nstreams, "policy": policy, "sizes": {s: len(expected[s]) for s in sids},
            "actions": [], "worker": None}
    desc["worker"] = worker
    failures = []
    outcomes = []

    def pump():
        sess.flush()
        outcomes.append(sess.rig.run(max_steps=sess.driver.steps + 20000))

    reset = set()
    opened = []
    actions = rng.choice([4, 8, 16])
    for _ in range(actions):
        kinds = ["open"] * (2 if len(opened) < nstreams else 0) + (["win", "win", "conn", "settings", "reset", "priority"] if opened else [])
        if not kinds:
            break
        a = rng.choice(kinds)
        try:
            if a == "open":
                sid = sids[len(opened)]
                opened.append(sid)
                if rng.random() < 0.25:
                    # PRIORITY before HEADERS
                    sess.client.prioritize(sid, weight=rng.choice([1, 16, 256]), depends_on=rng.choice([0] + opened[:-1]),
                                           exclusive=rng.random() < 0.3)
                sess.request(sid, path=f"/s{sid}")
            elif a == "win":
                live = [s for s in opened if s not in reset and s in sess.client.streams and not sess.client.streams[s].closed]
                if not live:
                    continue
                sid = rng.choice(live)
                n = rng.choice([1, 100, 16384, 50000])
                sess.window_update(sid, n)
                desc["actions"].append(("win", sid, n))
                continue
            elif a == "conn":
                n = rng.choice([1, 100, 16384, 50000])
                sess.window_update(0, n)
                desc["actions"].append(("conn", n))
                continue
            elif a == "settings":
                n = rng.choice(WINDOWS)
                sess.client.update_settings({h2.settings.SettingCodes.INITIAL_WINDOW_SIZE: n})
                desc["actions"].append(("settings", n))
            elif a == "reset":
                live = [s for s in opened if s not in reset and s in sess.client.streams and not sess.client.streams[s].closed]
                if not live or rng.random() < 0.5:
                    continue
                sid = rng.choice(live)
                reset.add(sid)
                sess.reset_stream(sid)
                desc["actions"].append(("reset", sid))
                continue
            elif a == "priority":
                live = [s for s in opened if s in sess.client.streams and not sess.client.streams[s].closed]
                if not live:
                    continue
                sid = rng.choice(live)
                dep = rng.choice([0] + [s for s in opened if s != sid])
                sess.client.prioritize(sid, weight=rng.choice([1, 16, 256]), depends_on=dep, exclusive=rng.random() < 0.3)
                desc["actions"].append(("priority", sid, dep))
            desc["actions"].append((a,))
            pump()
        except Exception as e:  # noqa: BLE001  (the client refused to produce the frame: not a server matter)
            desc["actions"].append(("client-refused", a, repr(e)[:80]))
    for sid in sids[len(opened):]:
        opened.append(sid)
        sess.request(sid, path=f"/s{sid}")
    # sibling progress: give credit to every stream but the first non-reset one, connection-wide plenty
    live = [s for s in opened if s not in reset]
    stalled = None
    total = sum(len(expected[s]) for s in opened) + 10
    try:
        sess.client.update_settings({h2.settings.SettingCodes.INITIAL_WINDOW_SIZE: 0})
        pump()
        sess.window_update(0, total)
        if len(live) >= 2:
            stalled = live[0]
        for s in live:
            if s != stalled and s in sess.client.streams and not sess.client.streams[s].closed:
                need = len(expected[s]) + 10
                # the stream window may be negative after the SETTINGS change: top up generously
                sess.window_update(s, need + 200000)
        pump()
        pump()
        if stalled is not None:
            for s in live:
                if s != stalled and sess.data.get(s, b"") != expected[s]:
                    failures.append({"signature": "stalled-stream-blocks-sibling", "seed": seed, "stalled": stalled, "stream": s,
                                     "got": len(sess.data.get(s, b"")), "expected": len(expected[s])})
            if stalled in sess.client.streams and not sess.client.streams[stalled].closed:
                sess.window_update(stalled, len(expected[stalled]) + 200000 + 10)
            pump()
            pump()
    except Exception as e:  # noqa: BLE001
        failures.append({"signature": "harness-client-error", "seed": seed, "error": repr(e)[:200]})
    # ---- oracles
    if sess.client_error:
        failures.append({"signature": "client-saw-protocol-violation", "seed": seed, "error": sess.client_error})
    for o in outcomes:
        if o != "quiescent":
            failures.append({"signature": "not-quiescent", "seed": seed, "outcome": o})
            break
    errs = sess.errors()
    if errs:
        failures.append({"signature": "task-error", "seed": seed, "errors": errs[:3]})
    for s in opened:
        got = sess.data.get(s, b"")
        if s in reset:
            if not expected[s].startswith(got):
                failures.append({"signature": "reset-stream-data-not-a-prefix", "seed": seed, "stream": s})
            continue
        if got != expected[s]:
            k = next((i for i in range(min(len(got), len(expected[s]))) if got[i] != expected[s][i]), min(len(got), len(expected[s])))
            failures.append({"signature": "data-incomplete-or-out-of-order", "seed": seed, "stream": s, "got": len(got),
                             "expected": len(expected[s]), "first_difference_at": k})
        if sess.ended.get(s, 0) != 1:
            failures.append({"signature": "end-stream-count", "seed": seed, "stream": s, "ends": sess.ended.get(s, 0)})
    alive = [n for n in sess.alive() if n.startswith("app")]
    if alive:
        failures.append({"signature": "application-task-stuck", "seed": seed, "alive": alive})
    desc["frames"] = len(sess.events)
    desc["steps"] = sess.driver.steps
    return desc, failures


def conn_limited_session(seed):
    """Stream windows are large, the connection window is the limit: only connection-level credit arrives."""
    import h2.settings

    from . import sched as S

    rng = random.Random(seed)
    nstreams = rng.choice([1, 2, 3])
    sids = [1 + 2 * i for i in range(nstreams)]
    by_path, expected = {}, {}
    for sid in sids:
        n = rng.choice([40000, 70000, 100000])
        body = HS.genb(n, sid % 256)
        k = rng.choice([1, 2, 5])
        parts = [body[i * n // k:(i + 1) * n // k] for i in range(k)]
        script = [("send", {"type": "http.response.start", "status": 200, "headers": []})]
        for i, b in enumerate(parts):
            script.append(("send", {"type": "http.response.body", "body": b, "more_body": i < k - 1}))
        by_path[f"/s{sid}"] = script
        expected[sid] = body
    recs = {}

    def make_app(session):
        async def app(scope, receive, send):
            r = recs.setdefault(scope["path"], [])
            await S.scripted_app([by_path[scope["path"]]], r, session.driver)(scope, receive, send)

        return app

    sess = H2.H2Session([], policy=rng.choice(["fifo", "random", "lifo"]), seed=seed,
                        client_settings={h2.settings.SettingCodes.INITIAL_WINDOW_SIZE: 1_000_000}, app=make_app,
                        worker=rng.choice(["asyncio", "trio"]))
    sess.auto_ack = False
    for sid in sids:
        sess.request(sid, path=f"/s{sid}")
    sess.pump()
    failures = []
    got = sum(len(v) for v in sess.data.values())
    desc = {"seed": seed, "kind": "conn-limited", "streams": nstreams, "sizes": {s: len(expected[s]) for s in sids},
            "policy": sess.driver.policy, "initial_window": 1_000_000, "actions": [("stalled-at", got)]}
    if got > 65535:
        failures.append({"signature": "connection-window-exceeded", "seed": seed, "got": got})
    for _ in range(rng.choice([1, 3])):
        sess.window_update(0, rng.choice([70000, 400000]))
        sess.pump()
    sess.window_update(0, 1_000_000)
    sess.pump()
    sess.pump()
    if sess.client_error:
        failures.append({"signature": "client-saw-protocol-violation", "seed": seed, "error": sess.client_error})
    for sid in sids:
        if sess.data.get(sid, b"") != expected[sid] or sess.ended.get(sid, 0) != 1:
            failures.append({"signature": "stalled-after-connection-window-update", "seed": seed, "stream": sid,
                             "got": len(sess.data.get(sid, b"")), "expected": len(expected[sid]), "ends": sess.ended.get(sid, 0)})
    return desc, failures


def correspondence(ctx, n, base):
    cases, stats = [], []
    for i in range(n):
        term, exp, st, _rig = HS.gen_case(base + i)
        cases.append((term, exp))
        stats.append(st)
    return cases, stats


def run(ctx):
    n = ctx.scale(96, 960, 320)
    cases, stats = correspondence(ctx, n, ctx.seed * 100000)
    disagreements, err = [], None
    if ctx.mode != "search":
        failing, err = C.coq_failing(PROP, HS.PREAMBLE, HS.INPUT_TY, HS.FUN, cases, shard=32, jobs=16)
        for k in failing[:3]:
            shown = C.coq_show(PROP, HS.PREAMBLE, HS.FUN, cases[k][0])
            try:
                d = C.first_diff(C.parse_val(shown), C.parse_val("= " + cases[k][1] + " : val"))
            except Exception:  # noqa: BLE001
                d = None
            disagreements.append({"seed": ctx.seed * 100000 + k, "input": cases[k][0][:3000], "first_difference(model,real)": repr(d)[:1500]})
        disagreements.extend({"seed": ctx.seed * 100000 + k} for k in failing[3:30])
    oracle_failures = []
    task_errors = [s["errors"] for s in stats if s["errors"]]
    for e in task_errors[:5]:
        oracle_failures.append({"signature": "task-error-under-explicit-schedule", "errors": e})
    m = ctx.scale(300, 2500, 800)
    descs = []
    for i in range(m):
        d, f = e2e_session(ctx.seed * 1000003 + i) if i % 4 else conn_limited_session(ctx.seed * 1000003 + i)
        descs.append(d)
        oracle_failures.extend(f)
    # a streamed response that ends with trailers: all its DATA, in order, before the trailers' END_STREAM
    from . import h2e2e as E2

    ntr = ctx.scale(12, 150, 40)
    for i in range(ntr):
        d, f = E2.trailers_case(ctx.seed * 6133 + i)
        for what, sig in f:
            oracle_failures.append({"case": d, "what": what, "signature": "c09:" + sig})
    dist = {"correspondence_cases": len(cases), "e2e_sessions": m, "trailers_sessions": ntr}
    for k in ("open", "win", "connwin", "iw", "reset", "eof", "app", "send"):
        dist["step:" + k] = sum(s[k] for s in stats)
    for s in stats:
        for kk, v in s["kinds"].items():
            dist["app:" + kk] = dist.get("app:" + kk, 0) + v
    for d in descs:
        dist[f"e2e:policy:{d['policy']}"] = dist.get(f"e2e:policy:{d['policy']}", 0) + 1
        dist[f"e2e:iw:{d['initial_window']}"] = dist.get(f"e2e:iw:{d['initial_window']}", 0) + 1
    return {
        "evaluations": len(cases) + m,
        "distinct_nontrivial": len({c[0] for c in cases}) + len({repr(d["actions"]) + repr(d["sizes"]) for d in descs}),
        "rule": "correspondence: random schedules of up to 40 scheduler steps (reader with one client event: request, WINDOW_UPDATE on a "
                "stream / the connection, SETTINGS_INITIAL_WINDOW_SIZE, RST_STREAM, EOF; one application task; the send task) over up to 4 "
                "streams with body messages of 1..70000 bytes around the 16384/32768 marks and initial windows 0..200000; after every step "
                "the buffers, events, priority blocking, windows, runnable sets and written frames are compared with model.H2Send.  "
                "End to end: 1-5 streams, random scheduling policy, random WINDOW_UPDATE / SETTINGS / PRIORITY (also before HEADERS) / "
                "RST_STREAM, then one stream kept stalled while the others get credit; an independent h2 client checks windows and frame "
                "sizes, bytes are compared with what the applications sent, END_STREAM counted, quiescence required.",
        "samples": [descs[0], descs[-1]] if descs else [],
        "disagreements": disagreements,
        "oracle_failures": oracle_failures,
        "model_eval_error": err,
        "distribution": dist,
        "assumptions": ["h2: outbound window arithmetic, max_outbound_frame_size, stream open/closed for sending (validated step by step)",
                        "priority: next() returns an unblocked stream of the tree, DeadlockError iff none (checked on every pick)",
                        "fair scheduling of runnable tasks (liveness is stated as: the send task is never asleep while something is sendable)"],
    }


def known_still_fails(k):
    return None


def replay(data):
    print(data)
    return 0
