"""Session generator for the H11 protocol rig."""
from __future__ import annotations

from . import streams as ST

METHODS = [b"GET", b"GET", b"POST", b"HEAD", b"PUT", b"get", b"OPTIONS", b"CONNECT"]
TARGETS = [b"/", b"/a/b?x=1", b"/p%20q", b"*", b"/caf%C3%A9"]


def gen_request(rng, allow_special=True):
    method = rng.choice(METHODS)
    target = rng.choice(TARGETS)
    if method == b"CONNECT" and rng.random() < 0.7:
        target = b"example.com:443"       # a 2xx answer to CONNECT is a protocol switch to h11 (SWITCHED_PROTOCOL)
    version = b"HTTP/1.1" if rng.random() < 0.8 else b"HTTP/1.0"
    hs = [(b"Host", rng.choice([b"example.com", b"example.com", b"other.test", b"ex\xffmple.com", b"\xe9"]))]     # h11 lets obs-text through
    body = b""
    framing = rng.choice(["none", "none", "cl", "cl", "chunked"])
    if framing == "cl":
        body = bytes(rng.randrange(256) for _ in range(rng.choice([0, 1, 5, 40])))
        hs.append((b"Content-Length", str(len(body)).encode()))
    elif framing == "chunked" and version == b"HTTP/1.1":
        chunks = [bytes(rng.randrange(256) for _ in range(rng.choice([1, 3, 17]))) for _ in range(rng.randint(0, 3))]
        body = b"".join(b"%x\r\n%s\r\n" % (len(c), c) for c in chunks) + b"0\r\n\r\n"
        hs.append((b"Transfer-Encoding", b"chunked"))
    r = rng.random()
    if r < 0.15:
        hs.append((b"Connection", b"close"))
    elif r < 0.22:
        hs.append((b"Connection", b"keep-alive"))
    if rng.random() < 0.1 and version == b"HTTP/1.1" and framing == "cl":
        hs.append((b"Expect", b"100-continue"))
    if rng.random() < 0.15:
        hs.append((b"X-Dup", b"1"))
        hs.append((b"x-dup", b"2"))
    if allow_special and rng.random() < 0.06:
        hs.append((b"Upgrade", b"h2c"))
        hs.append((b"Connection", b"Upgrade, HTTP2-Settings"))
        hs.append((b"HTTP2-Settings", b"AAMAAABkAAQAAP__"))
    if allow_special and method.upper() != b"GET" and rng.random() < 0.08:
        # a WebSocket upgrade is a GET (RFC 6455 4.1): on any other method these headers mean nothing, plain HTTP service
        hs.append((b"Upgrade", b"websocket"))
        hs.append((b"Connection", rng.choice([b"Upgrade", b"keep-alive, Upgrade"])))
        if rng.random() < 0.5:
            hs.append((b"Sec-WebSocket-Key", b"dGhlIHNhbXBsZSBub25jZQ=="))
            hs.append((b"Sec-WebSocket-Version", b"13"))
    if rng.random() < 0.1:
        hs.append((b"te", b"trailers"))
    head = method + b" " + target + b" " + version + b"\r\n" + b"".join(n + b": " + v + b"\r\n" for n, v in hs) + b"\r\n"
    return head + body


MALFORMED = [b"GET / HTTP/1.1\r\nbad header\r\n\r\n", b"\x00\x01\x02garbage\r\n\r\n", b"GET /\r\n\r\n", b"GET / HTTP/9.9\r\nHost: x\r\n\r\n",
             b"POST / HTTP/1.1\r\nHost: x\r\nContent-Length: abc\r\n\r\n", b"GET / HTTP/1.1\r\nHost: x\r\nTransfer-Encoding: gzip\r\n\r\n",
             b"PRI * HTTP/2.0\r\n\r\nSM\r\n\r\n", b"GET / HTTP/1.1\r\n" + b"X: " + b"a" * 70000 + b"\r\n\r\n"]


def gen_app_msgs(rng):
    """A mostly sensible response script, sometimes cut short or with an invalid message."""
    r = rng.random()
    status = rng.choice([200, 200, 201, 204, 304, 404, 500])
    hs = ST.gen_headers(rng, 0.1)
    if rng.random() < 0.3:
        hs = [h for h in hs if h[0] != ("b", b"content-length")]
    msgs = [("start", status, hs, False)]
    chunks = [bytes(rng.randrange(256) for _ in range(rng.choice([0, 1, 5, 100]))) for _ in range(rng.randint(0, 3))]
    for i, c in enumerate(chunks):
        msgs.append(("body", ("b", c), True))
    msgs.append(("body", ("b", b"" if rng.random() < 0.5 else b"end"), False))
    msgs.append(None)
    if r < 0.2:
        cut = rng.randint(0, len(msgs) - 1)
        msgs = msgs[:cut] + [None]
    elif r < 0.3:
        msgs.insert(rng.randint(0, len(msgs) - 1), ST.gen_http_msg(rng))
    elif r < 0.35:
        msgs = [None]
    return msgs


def run_session(rng, rig_cls):
    names = rng.choice([[], [], [], ["example.com"]])
    maxreq = rng.choice([1000, 1000, 1, 2, 0])
    writes = [rng.random() > 0.08 for _ in range(rng.randint(0, 12))] if rng.random() < 0.3 else []
    rig = rig_cls(names, False, maxreq, writes)
    n_req = rng.randint(1, 3)
    stream = b"".join(gen_request(rng) for _ in range(n_req))
    if rng.random() < 0.12:
        stream += rng.choice(MALFORMED)
    cuts = sorted(set(rng.randint(0, len(stream)) for _ in range(rng.choice([0, 0, 1, 2, 4]))))
    parts = [stream[a:b] for a, b in zip([0] + cuts, cuts + [len(stream)])]
    parts = [p for p in parts if p] or [stream]
    pending = list(parts)
    app_script = []
    guard = 0
    while guard < 60:
        guard += 1
        progressed = False
        if pending and not rig.parked():
            rig.feed(pending.pop(0))
            progressed = True
        if rig.app_send is not None and (rig.parked() or not pending or rng.random() < 0.5):
            if not app_script:
                app_script = gen_app_msgs(rng)
            k = rng.randint(1, len(app_script))
            for m in app_script[:k]:
                rig.app(m)
            app_script = app_script[k:]
            if not app_script:
                rig.app_send = None if not rig.parked() and not pending else rig.app_send
            progressed = True
        if rng.random() < 0.03:
            rig.terminate()
        if rng.random() < 0.03:
            rig.closed()
            break
        if not progressed:
            break
    if rng.random() < 0.5 and not rig.parked():
        rig.closed()
    return rig, names, maxreq
