"""C13: protocol selection and upgrades.
(a) ProtocolWrapper correspondence: real wrapper + H11Protocol (library proxies) with a recording
    stand-in for H2Protocol, against coq/model/ProtoWrapper.v;
(b) end to end: every kind of opening x split points of the opening bytes, the switched-to HTTP/2
    connection driven by a real h2 client; the outcome must not depend on the split."""
from __future__ import annotations

from . import common as C
from . import h11gen as G
from . import h11rig as H
from . import rig as R
from . import sched as S

PROP = "C13"

PREAMBLE = H.PREAMBLE.replace("model.H11Proto", "model.H11Proto model.ProtoWrapper") + """
Inductive wstep := WData (data : bytes) (evs : list rdev) (trailing : bytes).
Fixpoint wrun (cfg : h11cfg) (w : wproto) (steps : list wstep) : list (list out * result (E:=exn) unit) :=
  match steps with
  | [] => []
  | WData d evs tr :: rest =>
      let '(w', o, res) := wrapper_data cfg (fun hs => hs) (fun _ => []) None [] w d evs tr in (o, res) :: wrun cfg w' rest
  end.
Definition run_wcase (c : bool * list (option bytes) * list wstep) : val :=
  let '(alpn, sends, steps) := c in
  VL (map (fun x => VL [VL (map v_of_out (fst x)); v_of_result (snd x)])
          (wrun (mk_cfg [] false 1000 [(B "server", B "hypercorn-h11")]) (wrapper_init alpn sends []) steps)).
"""
INPUT_TY = "bool * list (option bytes) * list wstep"
FUN = "run_wcase"


class WrapperRig(H.H11Rig):
    """H11Rig whose protocol object is a ProtocolWrapper; H2Protocol is replaced by a recorder."""

    def __init__(self, alpn_h2=False):
        import hypercorn.protocol as HP
        from hypercorn.typing import ConnectionState

        super().__init__()
        rig = self

        class FakeH2:
            def __init__(self, *a, **k):
                pass

            async def initiate(self, headers=None, settings=None):
                rig.out.append(["lib", "h2.initiate", None if headers is None else [[[bytes(n), bytes(v)] for n, v in headers]],
                                None if settings is None else [settings.encode()]])

            async def handle(self, event):
                rig.out.append(["lib", "h2.handle", bytes(event.data)])

        self.saved = HP.H2Protocol
        HP.H2Protocol = FakeH2
        try:
            self.wrapper = HP.ProtocolWrapper(None, self.cfg, self.ctx, self.protocol.task_group, ConnectionState({}), False,
                                              ("1.2.3.4", 5), ("5.6.7.8", 80), self.send, "h2" if alpn_h2 else "http/1.1")
        finally:
            pass
        if not alpn_h2:
            self.wrapper.protocol.connection = H.ConnProxy(self.wrapper.protocol.connection, self)
            self.wrapper.protocol.can_read = H.RecEv(self.out, "can_read")
            self.protocol = self.wrapper.protocol
        self.wsteps = []

    def close(self):
        import hypercorn.protocol as HP

        HP.H2Protocol = self.saved

    def wfeed(self, data):
        from hypercorn.events import RawData

        conn = getattr(self.wrapper.protocol, "connection", None)
        t = self.driver.spawn("reader", self.wrapper.handle(RawData(data)))
        self.driver.run()
        trailing = b""
        if isinstance(conn, H.ConnProxy):
            trailing = bytes(conn._c.trailing_data[0])
        res = ["raise", R.exn_tag(t.error)] if t.error is not None else ["ok"]
        obs = [list(self.out), res]
        self.out.clear()
        evs = list(self.events_seen)
        self.events_seen.clear()
        self.wsteps.append((data, evs, trailing, obs))
        return obs


OPENINGS = ["plain", "plain-post", "h2c", "h2c-body", "prior", "prior+frames", "websocket", "h2c-then-more", "h2c-chunked",
            "h2c-empty-settings", "h2c-body-mid", "h2c-body-first", "websocket-ka", "websocket-mixed", "post-upgrade-websocket", "h2c-upper", "websocket+frame"]


def opening_bytes(kind):
    import h2.config
    import h2.connection

    c = h2.connection.H2Connection(h2.config.H2Configuration(client_side=True, header_encoding=None))
    if kind == "plain":
        return b"GET /p HTTP/1.1\r\nHost: example.com\r\n\r\n", c
    if kind == "plain-post":
        return b"POST /p HTTP/1.1\r\nHost: example.com\r\nContent-Length: 3\r\n\r\nabc", c
    if kind in ("h2c", "h2c-then-more"):
        settings = c.initiate_upgrade_connection()
        data = (b"GET /up?x=1 HTTP/1.1\r\nHost: example.com\r\nConnection: Upgrade, HTTP2-Settings\r\nUpgrade: h2c\r\nHTTP2-Settings: "
                + settings + b"\r\n\r\n")
        if kind == "h2c-then-more":
            data += c.data_to_send()
        return data, c
    if kind == "h2c-upper":
        # protocol names in Upgrade are case-insensitive tokens (RFC 7230 6.7)
        settings = c.initiate_upgrade_connection()
        return (b"GET /up?x=1 HTTP/1.1\r\nHost: example.com\r\nConnection: upgrade, http2-settings\r\nUpgrade: H2C\r\nHTTP2-Settings: "
                + settings + b"\r\n\r\n"), c
    if kind == "h2c-empty-settings":
        c.initiate_upgrade_connection()
        return (b"GET /up?x=1 HTTP/1.1\r\nHost: example.com\r\nConnection: Upgrade, HTTP2-Settings\r\nUpgrade: h2c\r\nHTTP2-Settings: "
                b"\r\n\r\n"), c
    if kind == "h2c-chunked":
        settings = c.initiate_upgrade_connection()
        return (b"POST /up HTTP/1.1\r\nHost: example.com\r\nConnection: Upgrade, HTTP2-Settings\r\nUpgrade: h2c\r\nHTTP2-Settings: "
                + settings + b"\r\nTransfer-Encoding: chunked\r\n\r\n2\r\nhi\r\n0\r\n\r\n"), c
    if kind == "post-upgrade-websocket":
        # a WebSocket starts with a GET (RFC 6455 4.1): the same headers on a POST are plain HTTP/1.1
        return (b"POST /up HTTP/1.1\r\nHost: example.com\r\nUpgrade: websocket\r\nConnection: Upgrade\r\n"
                b"Sec-WebSocket-Key: dGhlIHNhbXBsZSBub25jZQ==\r\nSec-WebSocket-Version: 13\r\nContent-Length: 2\r\n\r\nhi"), c
    if kind == "h2c-body-mid":
        # the header announcing the body is neither the first nor the last one
        settings = c.initiate_upgrade_connection()
        return (b"POST /up HTTP/1.1\r\nHost: example.com\r\nConnection: Upgrade, HTTP2-Settings\r\nUpgrade: h2c\r\nHTTP2-Settings: "
                + settings + b"\r\nContent-Length: 2\r\nContent-Type: text/plain\r\nX-Last: 1\r\n\r\nhi"), c
    if kind == "h2c-body-first":
        settings = c.initiate_upgrade_connection()
        return (b"POST /up HTTP/1.1\r\nContent-Length: 2\r\nHost: example.com\r\nConnection: Upgrade, HTTP2-Settings\r\nUpgrade: h2c\r\n"
                b"HTTP2-Settings: " + settings + b"\r\nAccept: */*\r\n\r\nhi"), c
    if kind == "h2c-body":
        settings = c.initiate_upgrade_connection()
        return (b"POST /up HTTP/1.1\r\nHost: example.com\r\nConnection: Upgrade, HTTP2-Settings\r\nUpgrade: h2c\r\nHTTP2-Settings: "
                + settings + b"\r\nContent-Length: 2\r\n\r\nhi"), c
    if kind in ("prior", "prior+frames"):
        c.initiate_connection()
        data = c.data_to_send()
        if kind == "prior+frames":
            c.send_headers(1, [(b":method", b"GET"), (b":path", b"/pk"), (b":scheme", b"http"), (b":authority", b"example.com")], end_stream=True)
            data += c.data_to_send()
        return data, c
    if kind == "websocket+frame":
        # the client does not wait for the answer: a frame follows the handshake at once.  The application (below) decides
        # only after it has been told more, so for every split the frame reaches the stream before the accept, and the
        # stream refuses it (400): no byte read past the request may be lost at the switch from h11 to the WebSocket code
        return (b"GET /ws HTTP/1.1\r\nHost: example.com\r\nUpgrade: websocket\r\nConnection: Upgrade\r\n"
                b"Sec-WebSocket-Key: dGhlIHNhbXBsZSBub25jZQ==\r\nSec-WebSocket-Version: 13\r\n\r\n"
                + bytes([0x81, 0x85, 0, 0, 0, 0]) + b"hello"), c
    if kind in ("websocket", "websocket-ka", "websocket-mixed"):
        # the Connection header as browsers send it: Firefox lists keep-alive first; tokens are case-insensitive
        conn = {"websocket": b"Upgrade", "websocket-ka": b"keep-alive, Upgrade", "websocket-mixed": b"keep-alive,  UPGRADE "}[kind]
        return (b"GET /ws HTTP/1.1\r\nHost: example.com\r\nUpgrade: websocket\r\nConnection: " + conn + b"\r\n"
                b"Sec-WebSocket-Key: dGhlIHNhbXBsZSBub25jZQ==\r\nSec-WebSocket-Version: 13\r\n\r\n"), c
    raise ValueError(kind)


def wrapper_cases(ctx, n):
    rng = ctx.rng
    cases, metas = [], []
    for i in range(n):
        kind = rng.choice(OPENINGS + ["alpn"])
        rig = WrapperRig(alpn_h2=(kind == "alpn"))
        try:
            data, _ = opening_bytes("prior+frames" if kind == "alpn" else kind)
            if kind.startswith("websocket"):
                data = opening_bytes("plain")[0]  # WebSocket streams need the wsproto oracle: covered end to end below
            data += rng.choice([b"", b"", b"extra-bytes", b"\x00\x00\x00\x04\x00\x00\x00\x00\x00"])
            k = rng.choice([0, 1, 2, 3])
            cuts = sorted(set(rng.randint(0, len(data)) for _ in range(k)))
            for a, b in zip([0] + cuts, cuts + [len(data)]):
                if data[a:b] and not rig.parked():
                    rig.wfeed(data[a:b])
        finally:
            rig.close()
        steps = C.clist([f"(WData {C.cbytes(d)} {C.clist([H.h11ev_coq(e) for e in evs], 'rdev')} {C.cbytes(tr)})" for d, evs, tr, _ in rig.wsteps], "wstep")
        term = C.ctuple(C.cbool(kind == "alpn"), C.clist([C.copt(x, C.cbytes) for x in rig.sends_seen], "(option bytes)"), steps)
        obs = [o for *_, o in rig.wsteps]
        cases.append((term, C.V(obs)))
        metas.append({"kind": "wrapper", "opening": kind, "reads": [len(d) for d, *_ in rig.wsteps], "obs": obs})
    return cases, metas


def e2e_outcome(kind, split):
    """Run one opening (optionally split into two reads); returns a canonical outcome."""
    import h2.events

    d = S.Driver()
    cfg = R.make_config()
    log = []
    cfg._log = R.RecLog(log)
    records = []
    resp = [("recv_all",), ("send", {"type": "http.response.start", "status": 200, "headers": [(b"x-proto", b"1")]}),
            ("send", {"type": "http.response.body", "body": b"ok"})]
    ws = [("recv",), ("send", {"type": "websocket.accept"}), ("recv_until_disconnect",)]
    if kind == "websocket+frame":
        ws = [("recv",), ("recv",), ("send", {"type": "websocket.accept"}), ("recv_until_disconnect",)]
    app = S.scripted_app([ws if kind.startswith("websocket") else resp] * 3, records, d)
    alpn = "h2" if kind == "alpn" else "http/1.1"
    rig = S.ProtoRig(app, cfg, d, alpn=alpn, ssl=(kind == "alpn"))
    data, client = opening_bytes("prior+frames" if kind == "alpn" else kind)
    parts = [data] if split is None else [data[:split], data[split:]]
    for p in parts:
        if p:
            rig.feed(p)
            rig.run()
    # drive the HTTP/2 side a little further: a request on a new stream after the switch
    wire = bytes(rig.transport.written)
    outcome = {"scopes": [(r["scope"]["type"], r["scope"]["http_version"], r["scope"]["path"]) for r in records]}
    errs = [(n, repr(e)) for n, e in d.errors() if not n.startswith("app")]
    outcome["errors"] = errs
    if kind in ("plain", "plain-post", "h2c-body", "h2c-chunked", "h2c-body-mid", "h2c-body-first", "post-upgrade-websocket"):
        outcome["wire"] = wire.split(b"\r\n")[0]
        outcome["bodies"] = [b"".join(m.get("body", b"") for m in r["received"] if m["type"] == "http.request") for r in records]
    elif kind.startswith("websocket"):
        outcome["wire"] = wire.split(b"\r\n")[0]
    else:
        if kind in ("h2c", "h2c-then-more", "h2c-empty-settings", "h2c-upper"):
            head, _, rest = wire.partition(b"\r\n\r\n")
            outcome["wire"] = head.split(b"\r\n")[0]
            if kind in ("h2c", "h2c-empty-settings", "h2c-upper"):
                rig.feed(client.data_to_send())
                rig.run()
            # a further request on the upgraded connection must be served (nothing of the client's preface was lost)
            client.send_headers(3, [(b":method", b"GET"), (b":path", b"/after"), (b":scheme", b"http"), (b":authority", b"example.com")], end_stream=True)
            rig.feed(client.data_to_send())
            rig.run()
            outcome["scopes"] = [(r["scope"]["type"], r["scope"]["http_version"], r["scope"]["path"]) for r in records]
            rest = bytes(rig.transport.written).partition(b"\r\n\r\n")[2]
        else:
            rest = wire
        try:
            evs = client.receive_data(rest)
            outcome["h2"] = sorted({(type(e).__name__, getattr(e, "stream_id", None)) for e in evs
                                    if isinstance(e, (h2.events.ResponseReceived, h2.events.StreamEnded))})
        except Exception as e:  # noqa: BLE001
            outcome["h2"] = ["client-error", repr(e)]
    return outcome


EXPECT = {
    "plain": {"scopes": [("http", "1.1", "/p")], "wire": b"HTTP/1.1 200 "},
    "plain-post": {"scopes": [("http", "1.1", "/p")], "wire": b"HTTP/1.1 200 ", "bodies": [b"abc"]},
    "h2c-body": {"scopes": [("http", "1.1", "/up")], "wire": b"HTTP/1.1 200 ", "bodies": [b"hi"]},
    "h2c-chunked": {"scopes": [("http", "1.1", "/up")], "wire": b"HTTP/1.1 200 ", "bodies": [b"hi"]},
    "h2c-body-mid": {"scopes": [("http", "1.1", "/up")], "wire": b"HTTP/1.1 200 ", "bodies": [b"hi"]},
    "h2c-body-first": {"scopes": [("http", "1.1", "/up")], "wire": b"HTTP/1.1 200 ", "bodies": [b"hi"]},
    "post-upgrade-websocket": {"scopes": [("http", "1.1", "/up")], "wire": b"HTTP/1.1 200 ", "bodies": [b"hi"]},
    "h2c-empty-settings": {"scopes": [("http", "2", "/up"), ("http", "2", "/after")], "wire": b"HTTP/1.1 101 ",
                           "h2": [("ResponseReceived", 1), ("ResponseReceived", 3), ("StreamEnded", 1), ("StreamEnded", 3)]},
    "websocket": {"scopes": [("websocket", "1.1", "/ws")], "wire": b"HTTP/1.1 101 "},
    "websocket-ka": {"scopes": [("websocket", "1.1", "/ws")], "wire": b"HTTP/1.1 101 "},
    "websocket-mixed": {"scopes": [("websocket", "1.1", "/ws")], "wire": b"HTTP/1.1 101 "},
    "websocket+frame": {"scopes": [("websocket", "1.1", "/ws")], "wire": b"HTTP/1.1 400 "},
    "h2c": {"scopes": [("http", "2", "/up"), ("http", "2", "/after")], "wire": b"HTTP/1.1 101 ",
            "h2": [("ResponseReceived", 1), ("ResponseReceived", 3), ("StreamEnded", 1), ("StreamEnded", 3)]},
    "h2c-upper": {"scopes": [("http", "2", "/up"), ("http", "2", "/after")], "wire": b"HTTP/1.1 101 ",
                  "h2": [("ResponseReceived", 1), ("ResponseReceived", 3), ("StreamEnded", 1), ("StreamEnded", 3)]},
    "h2c-then-more": {"scopes": [("http", "2", "/up"), ("http", "2", "/after")], "wire": b"HTTP/1.1 101 ",
                      "h2": [("ResponseReceived", 1), ("ResponseReceived", 3), ("StreamEnded", 1), ("StreamEnded", 3)]},
    "prior": {"scopes": [], "h2": []},
    "prior+frames": {"scopes": [("http", "2", "/pk")], "h2": [("ResponseReceived", 1), ("StreamEnded", 1)]},
    "alpn": {"scopes": [("http", "2", "/pk")], "h2": [("ResponseReceived", 1), ("StreamEnded", 1)]},
}


def e2e_cases(ctx):
    rng = ctx.rng
    fails, out = [], []
    for kind in OPENINGS + ["alpn"]:
        data, _ = opening_bytes("prior+frames" if kind == "alpn" else kind)
        n = len(data)
        if ctx.tier == "thorough" or ctx.mode == "search":
            splits = [None] + list(range(1, n))
        else:
            splits = [None] + sorted(set(rng.randint(1, n - 1) for _ in range(ctx.scale(25, 0, 0))))
        base = None
        for sp in splits:
            o = e2e_outcome(kind, sp)
            case = {"kind": "e2e", "opening": kind, "split": sp, "outcome": {k: v for k, v in o.items()}}
            out.append(case)
            want = EXPECT[kind]
            for key, val in want.items():
                if o.get(key) != val:
                    fails.append({"case": case, "what": f"{kind} (split {sp}): {key} = {o.get(key)!r}, expected {val!r}", "signature": f"c13:{kind}:{key}"})
            if o["errors"]:
                fails.append({"case": case, "what": f"{kind} (split {sp}): task errors {o['errors']}", "signature": f"c13:{kind}:task-error"})
            if base is None:
                base = o
            elif o != base:
                fails.append({"case": case, "what": f"{kind}: outcome depends on the split point {sp}", "signature": f"c13:{kind}:segmentation"})
    return out, fails


def run(ctx):
    cases, metas = wrapper_cases(ctx, ctx.scale(150, 1500, 500))
    e2e, oracle_failures = e2e_cases(ctx)
    disagreements, err = [], None
    if ctx.mode != "search":
        failing, err = C.coq_failing(PROP, PREAMBLE, INPUT_TY, FUN, cases)
        for k in failing[:4]:
            shown = C.coq_show(PROP, PREAMBLE, FUN, cases[k][0])
            try:
                d = C.first_diff(C.canon(metas[k]["obs"]), C.parse_val(shown))
            except Exception:  # noqa: BLE001
                d = None
            disagreements.append({"case": metas[k], "first_difference": repr(d)[:1500]})
        disagreements.extend({"case": metas[k]} for k in failing[4:30])
    dist = {"wrapper_cases": len(cases), "e2e_runs": len(e2e)}
    for m in metas:
        dist["opening:" + m["opening"]] = dist.get("opening:" + m["opening"], 0) + 1
    return {
        "evaluations": len(cases) + len(e2e),
        "distinct_nontrivial": len({repr(m["obs"]) for m in metas}) + len({repr((c["opening"], c["split"])) for c in e2e}),
        "rule": "wrapper level: 9 kinds of opening (ALPN h2, prior-knowledge preface with/without frames, h2c upgrade with/without "
                "following bytes, h2c with a body, plain GET/POST) plus trailing bytes, cut into 1-4 reads, against the ProtoWrapper "
                "model; end to end: every opening unsplit and at split points of its bytes (all of them in the thorough tier), the "
                "HTTP/2 side driven by a real h2 client; outcome = scopes seen by the application, first wire line, HTTP/2 events.",
        "samples": [metas[0], e2e[0], e2e[-1]],
        "disagreements": disagreements,
        "oracle_failures": oracle_failures,
        "model_eval_error": err,
        "distribution": dist,
        "assumptions": ["h11 contract: consumed bytes ++ trailing_data = bytes fed (the model takes trailing_data as an oracle value)",
                        "HTTP/2 framing and HPACK are h2's"],
    }


def known_still_fails(k):
    return None


def replay(data):
    print(data)
    return 0
