"""C19: configuration sources agree; CLI flags set exactly their setting; binds; response headers.
R-pure rig: real hypercorn functions vs. model (coq/model/Config.v, Cli.v) on generated inputs."""
from __future__ import annotations

import email.utils
import importlib
import io
import os
import re
import socket
import ssl
import sys
import tempfile
import time
import types
import warnings
from contextlib import redirect_stderr
from pathlib import Path

from . import common as C

PROP = "C19"
PREAMBLE = """From Coq Require Import String List ZArith NArith Bool Ascii.
From HV Require Import lib.Bytes lib.Obs model.CliTypes model.Config model.Cli gen.Cli_gen.
Import ListNotations.
"""


# ------------------------------------------------------------------ value encodings
def pyval_term(v) -> str:
    if isinstance(v, bool):
        return f"(PBool {C.cbool(v)})"
    if isinstance(v, int):
        return f"(PInt {C.cZ(v)})"
    if isinstance(v, str):
        return f"(PStr {C.cstr(v)})"
    if isinstance(v, list):
        return "(PList " + C.clist([C.cstr(x) for x in v], "string") + ")"
    if v is None:
        return "PNone"
    raise TypeError(v)


def assoc_term(kvs) -> str:
    return C.clist([f"({C.cstr(k)}, {pyval_term(v)})" for k, v in kvs], "(string * pyval)")


def pyval_obs(v, sentinel):
    if v is sentinel:
        return ["sentinel"]
    if v is None:
        return ["none"]
    if isinstance(v, ssl.VerifyMode):
        return ["verify", int(v)]
    if isinstance(v, bool):
        return ["bool", v]
    if isinstance(v, int):
        return ["int", v]
    if isinstance(v, str):
        return ["str", v] if C.is_ident(v) else ["other", "nonascii"]
    if isinstance(v, list) and all(isinstance(x, str) for x in v):
        return ["list", list(v)]
    return ["other", type(v).__name__]


MISSING = object()


def config_obs(config, keys, sentinel=MISSING):
    out = []
    d = config.__dict__
    for k in keys:
        if k in d:
            out.append([pyval_obs(d[k], sentinel)])
        else:
            out.append(None)
    return out


# ------------------------------------------------------------------ docs table (independent oracle)
def docs_table():
    """setting -> list of option strings, parsed from docs/how_to_guides/configuring.rst."""
    text = (C.REPO / "docs" / "how_to_guides" / "configuring.rst").read_text()
    table = {}
    current = None
    for line in text.splitlines():
        m = re.match(r"^([a-z_0-9]+)\s+((?:``-[^`]+``(?:,\s*)?)+|N/A)\s", line)
        if m:
            current = m.group(1)
            table[current] = re.findall(r"``(-[^`]+)``", m.group(2))
            continue
        m2 = re.match(r"^\s{20,}(``--[^`]+``)\s", line)
        if m2 and current:
            table[current].extend(re.findall(r"``(-[^`]+)``", m2.group(1)))
        elif line.strip() == "" or not line.startswith(" "):
            pass
    return table


INT_FLAGS = {"--backlog", "--cert-reqs", "--graceful-timeout", "--read-timeout", "--max-requests",
             "--max-requests-jitter", "-g", "--group", "--keep-alive", "-m", "--umask", "-u", "--user",
             "--websocket-ping-interval", "-w", "--workers"}
LIST_FLAGS = {"-b", "--bind", "--insecure-bind", "--quic-bind", "--server-name"}
BOOL_FLAGS = {"--debug", "--reload"}
VERIFY_FLAGS = {"--verify-mode"}
STR_FLAGS = {"--access-log", "--access-logfile", "--access-logformat", "--ca-certs", "--certfile", "--ciphers",
             "--error-log", "--error-logfile", "--log-file", "-k", "--worker-class", "--keyfile",
             "--keyfile-password", "--log-config", "--log-level", "-p", "--pid", "--root-path", "--statsd-host",
             "--statsd-prefix"}
ALL_FLAGS = sorted(INT_FLAGS | LIST_FLAGS | BOOL_FLAGS | VERIFY_FLAGS | STR_FLAGS)

# settings usable in a TOML base configuration (name -> kind)
BASE_SETTINGS = {
    "access_log_format": "s", "accesslog": "s", "backlog": "i", "ca_certs": "s", "certfile": "s", "ciphers": "s",
    "debug": "b", "errorlog": "s", "graceful_timeout": "i", "read_timeout": "i", "group": "i",
    "keep_alive_timeout": "i", "keyfile": "s", "keyfile_password": "s", "logconfig": "s", "loglevel": "s",
    "max_requests": "i", "max_requests_jitter": "i", "pid_path": "s", "root_path": "p", "server_names": "l",
    "statsd_host": "s", "statsd_prefix": "s", "umask": "i", "use_reloader": "b", "user": "i",
    "websocket_ping_interval": "i", "worker_class": "s", "workers": "i", "bind": "l", "insecure_bind": "l",
    "quic_bind": "l", "h11_max_incomplete_size": "i", "keep_alive_max_requests": "i", "include_date_header": "b",
    "dogstatsd_tags": "s", "alt_svc_headers": "l", "wsgi_max_body_size": "i", "shutdown_timeout": "i",
    "my_unknown_key": "s", "another_unknown": "i",
}
PRIVATE = {"bind": "_bind", "insecure_bind": "_insecure_bind", "quic_bind": "_quic_bind", "root_path": "_root_path"}

WORDS = ["a", "x1", "logs/access.log", "-", "%(h)s %(r)s", "ECDHE+AESGCM", "trio", "asyncio", "INFO", "debug",
         "example.com", "host:8125", "pre.fix", "/tmp/pid", "some value", "c d", "0", "007", "v=1,2", "{k}"]


def rnd_str(rng):
    if rng.random() < 0.5:
        return rng.choice(WORDS)
    n = rng.randint(0, 12)
    alphabet = "abcXYZ019 _-./:%(){}[]=,;'!@#&*+?<>|~^$`"
    return "".join(rng.choice(alphabet) for _ in range(n))


def rnd_int_text(rng):
    r = rng.random()
    if r < 0.7:
        return str(rng.choice([0, 1, 2, 5, 10, 100, 1000, 65535, rng.randint(0, 10**6), -1, -rng.randint(1, 999)]))
    if r < 0.8:
        return "00" + str(rng.randint(0, 99))
    return rng.choice(["", "x", "1x", "1.5", "-", "--3", "0x10", "1e3", "٣"])  # malformed (argparse must reject)


def rnd_value(rng, kind):
    if kind == "s":
        return rnd_str(rng)
    if kind == "i":
        return rng.choice([0, 1, 3, 10, 75, 1000, rng.randint(0, 10**6), -rng.randint(1, 50)])
    if kind == "b":
        return rng.random() < 0.5
    if kind == "l":
        return [rnd_str(rng) or "z" for _ in range(rng.randint(0, 3))]
    if kind == "p":
        return rng.choice(["", "/", "/api", "/api/", "/api//", "//", "/a/b/", "x///"])
    raise ValueError(kind)


def toml_dump(kvs) -> str:
    def q(s):
        return '"' + s.replace("\\", "\\\\").replace('"', '\\"') + '"'

    lines = []
    for k, v in kvs:
        if isinstance(v, bool):
            lines.append(f"{k} = {'true' if v else 'false'}")
        elif isinstance(v, int):
            lines.append(f"{k} = {v}")
        elif isinstance(v, str):
            lines.append(f"{k} = {q(v)}")
        else:
            lines.append(f"{k} = [" + ", ".join(q(x) for x in v) + "]")
    return "\n".join(lines) + "\n"


def py_dump(kvs) -> str:
    return "import os\n" + "".join(f"{k} = {v!r}\n" for k, v in kvs)


# ------------------------------------------------------------------ CLI
def gen_occ(rng, flag):
    if flag in BOOL_FLAGS:
        return (flag, None)
    if flag in INT_FLAGS:
        t = rnd_int_text(rng)
        if flag == "--cert-reqs":
            try:
                int(t)      # whatever argparse's type=int accepts ("+3", " 3", "1_0", ...) must be a valid ssl.VerifyMode
                t = str(rng.choice([0, 1, 2]))
            except ValueError:
                pass
        return (flag, t)
    if flag in VERIFY_FLAGS:
        return (flag, rng.choice(["CERT_NONE", "CERT_OPTIONAL", "CERT_REQUIRED", "CERT_REQUIRED", "bogus", ""]))
    s = rnd_str(rng)
    return (flag, s)


def run_cli_impl(argv, toml_path):
    import hypercorn.__main__ as M

    captured = []
    orig = M.run
    M.run = lambda config: captured.append(config) or 0
    cwd = os.getcwd()
    os.chdir(toml_path.parent)      # relative file: paths are relative to the scratch directory
    sys.path.insert(0, str(toml_path.parent))
    try:
        with warnings.catch_warnings():
            warnings.simplefilter("ignore")
            err = io.StringIO()
            with redirect_stderr(err):
                try:
                    M.main(argv)
                except SystemExit:
                    return None, M.sentinel
                except Exception as e:  # noqa: BLE001
                    return e, M.sentinel
    finally:
        M.run = orig
        os.chdir(cwd)
        sys.path.remove(str(toml_path.parent))
    return captured[0], M.sentinel


def cli_cases(ctx, n, tmp):
    from hypercorn.config import Config

    rng = ctx.rng
    docs = docs_table()
    flag_setting = {f: s for s, fl in docs.items() for f in fl}
    cases = []
    single = [(f,) for f in ALL_FLAGS]
    plan = list(single)  # every flag alone first, then pairs / triples
    while len(plan) < n:
        k = rng.choice([2, 2, 2, 3, 4, 0])
        plan.append(tuple(rng.choice(ALL_FLAGS) for _ in range(k)))
    rng.shuffle(plan)
    for idx, flags in enumerate(plan[:n]):
        base = []
        for k in rng.sample(sorted(BASE_SETTINGS), rng.randint(0, 6)):
            base.append((k, rnd_value(rng, BASE_SETTINGS[k])))
        occs = [gen_occ(rng, f) for f in flags]
        app = rng.choice(["module:app", "pkg.mod:create()", "asgi:m:a", "x"])
        toml_path = tmp / f"cli_{idx}.toml"
        toml_path.write_text(toml_dump(base))
        # the three forms of -c: a TOML path, file:<python file>, python:<module>; the names start with letters of the prefix
        # itself (a relative path 'elf/file_N.py', a module 'python_conf_N'), as a user's may
        src = rng.choice(["toml", "toml", "file", "python"])
        cfg_arg = str(toml_path)
        if src == "file":
            (tmp / "elf").mkdir(exist_ok=True)
            (tmp / "elf" / f"file_{idx}.py").write_text(py_dump(base))
            cfg_arg = f"file:elf/file_{idx}.py"
        elif src == "python":
            mod = f"python_conf_{os.getpid()}_{idx}"
            (tmp / f"{mod}.py").write_text(py_dump(base))
            cfg_arg = "python:" + mod
        argv = ["-c", cfg_arg]
        for f, v in occs:
            argv.append(f)
            if v is not None:
                argv.append(v)
        # keep option values that look like options out (argparse would re-interpret them)
        if any(v is not None and v.startswith("-") and not re.fullmatch(r"-\d+", v) for _, v in occs):
            occs = [(f, ("v" + v if v is not None and v.startswith("-") and not re.fullmatch(r"-\d+", v) else v)) for f, v in occs]
            argv = ["-c", cfg_arg]
            for f, v in occs:
                argv.append(f)
                if v is not None:
                    argv.append(v)
        argv.append(app)
        keys = sorted({PRIVATE.get(k, k) for k in BASE_SETTINGS} | {"application_path", "verify_mode", "cert_reqs"})
        config, sentinel = run_cli_impl(argv, toml_path)
        crash = None
        if isinstance(config, Exception):
            crash, config = config, None
        obs = ["exit"] if config is None else config_obs(config, keys, sentinel)
        occ_terms = C.clist([f"({C.cstr(f)}, {C.copt(v, C.cstr) if v is None or C.is_ident(v) else 'None'})" for f, v in occs], "occ")
        nonascii = any(v is not None and not C.is_ident(v) for _, v in occs)
        inp = C.ctuple("0%N", C.cstr(app), occ_terms, assoc_term(base), C.clist([C.cstr(k) for k in keys], "string"))
        case = {"kind": "cli", "config_source": src, "argv": argv[2:], "base": base, "obs": obs}
        # ---- implementation-side oracle (docs table), independent of the model
        fails = []
        if crash is not None:
            fails.append({"case": case, "what": f"the command line {argv} with a loadable configuration raised {crash!r}",
                          "signature": "cli:crash:" + src})
        if config is not None:
            base_cfg = Config.from_toml(toml_path)
            given = {}
            for f, v in occs:
                s = flag_setting.get(f)
                if s is None:
                    continue
                if f in BOOL_FLAGS:
                    given[s] = True
                elif f in INT_FLAGS:
                    given[s] = int(v)
                elif f in LIST_FLAGS:
                    given.setdefault(s, [])
                    given[s] = given[s] + [v]
                elif f in VERIFY_FLAGS:
                    given[s] = ssl.VerifyMode[v]
                else:
                    given[s] = v
            undocumented = {f for f, _ in occs if f not in flag_setting}
            for s in docs:
                if s == "application_path" or not hasattr(base_cfg, s):
                    continue
                if s == "root_path" and s in given:
                    want = given[s].rstrip("/")
                elif s in given:
                    want = given[s]
                else:
                    want = getattr(base_cfg, s)
                got = getattr(config, s)
                if undocumented and s in ("accesslog", "errorlog", "verify_mode"):
                    continue
                if got != want or type(got) is not type(want):
                    fails.append({"case": case, "what": f"setting {s} is {got!r}, expected {want!r}",
                                  "signature": "cli:" + ",".join(sorted(f for f, _ in occs)) + ":" + s})
            if config.application_path != app:
                fails.append({"case": case, "what": "application_path", "signature": "cli:application_path"})
        if not nonascii:
            cases.append((inp, C.V(obs), case, fails))
        else:
            cases.append((None, None, case, fails))
    return cases


# ------------------------------------------------------------------ loaders
def loader_cases(ctx, n, tmp):
    from hypercorn.config import Config

    rng = ctx.rng
    cases = []
    names = sorted(BASE_SETTINGS) + ["log", "ssl_enabled", "cert_reqs"]
    for idx in range(n):
        ks = rng.sample(names, rng.randint(0, 7))
        if "cert_reqs" in ks and rng.random() < 0.5:
            ks.remove("cert_reqs")
        kvs = []
        for k in sorted(ks):
            if k == "cert_reqs":
                kvs.append((k, rng.choice([0, 1, 2])))
            elif k in ("log", "ssl_enabled"):
                kvs.append((k, rnd_str(rng)))
            else:
                kvs.append((k, rnd_value(rng, BASE_SETTINGS[k])))
        keys = sorted({PRIVATE.get(k, k) for k in names} | {"verify_mode"})
        results = {}
        with warnings.catch_warnings():
            warnings.simplefilter("ignore")
            d = dict(kvs)
            results["mapping"] = Config.from_mapping(d)
            results["kwargs"] = Config.from_mapping(**d)
            half = len(kvs) // 2
            results["mapping+kwargs"] = Config.from_mapping(dict(kvs[:half]), **dict(kvs[half:]))
            obj = types.SimpleNamespace(**d)
            results["object"] = Config.from_object(obj)
            pyf = tmp / f"conf_{idx}.py"
            pyf.write_text(py_dump(kvs))
            results["pyfile"] = Config.from_pyfile(str(pyf))
            modname = f"verif_conf_{os.getpid()}_{idx}"
            (tmp / f"{modname}.py").write_text(py_dump(kvs))
            sys.path.insert(0, str(tmp))
            # the string forms of from_object: 'module', 'module.instance', and an instance inside a package ('pkg.sub.mod.instance')
            pkg = f"verif_pkg_{os.getpid()}_{idx}"
            (tmp / pkg / "sub").mkdir(parents=True, exist_ok=True)
            (tmp / pkg / "__init__.py").write_text("")
            (tmp / pkg / "sub" / "__init__.py").write_text("")
            inst = "class production:\n" + "".join(f"    {k} = {v!r}\n" for k, v in kvs) + "    pass\n"
            (tmp / pkg / "sub" / "settings.py").write_text("import os\n" + inst)
            (tmp / f"{modname}_inst.py").write_text("import os\n" + inst)
            importlib.invalidate_caches()
            raised = {}
            try:
                for form, ref_str in (("module", modname), ("module.instance", f"{modname}_inst.production"),
                                      ("pkg.sub.module.instance", f"{pkg}.sub.settings.production")):
                    try:
                        results[form] = Config.from_object(ref_str)
                    except Exception as e:  # noqa: BLE001
                        raised[form] = repr(e)
            finally:
                sys.path.remove(str(tmp))
                for m in [k for k in sys.modules if k == modname or k.startswith(modname + "_") or k == pkg or k.startswith(pkg + ".")]:
                    sys.modules.pop(m, None)
            # Python objects in the shapes people write them: a settings class with a base class holding the common part,
            # and an instance of it (the settings are class attributes, some of them inherited)
            half = len(kvs) // 2
            Base = type("Base", (), dict(kvs[:half]))
            Derived = type("Production", (Base,), dict(kvs[half:]))
            results["class-with-base"] = Config.from_object(Derived)
            results["instance-of-class"] = Config.from_object(Derived())
            tf = tmp / f"conf_{idx}.toml"
            tf.write_text(toml_dump(kvs))
            results["toml"] = Config.from_toml(str(tf))
        obs = {name: config_obs(cfg, keys) for name, cfg in results.items()}
        case = {"kind": "loaders", "kvs": kvs}
        fails = []
        for form, err in raised.items():
            fails.append({"case": case, "what": f"from_object('{form}') raised {err}", "signature": "loaders:" + form})
        ref = obs["mapping"]
        for name, o in obs.items():
            if o != ref:
                fails.append({"case": case, "what": f"loader {name} differs from from_mapping: {o} vs {ref}",
                              "signature": "loaders:" + name})
        for cfg in results.values():
            if cfg.root_path.endswith("/"):
                fails.append({"case": case, "what": f"root_path {cfg.root_path!r} ends with a slash",
                              "signature": "root_path"})
            for b in ("bind", "insecure_bind", "quic_bind"):
                if not isinstance(getattr(cfg, b), list):
                    fails.append({"case": case, "what": f"{b} is not a list", "signature": "bind-list"})
        # model: loader id 1 = from_mapping; 2 = from_object (sorted attrs incl. a dunder); 3 = from_toml
        for lid, name in ((1, "mapping"), (2, "object"), (3, "toml")):
            attrs = kvs
            if lid == 2:
                attrs = sorted(kvs + [("__doc__", "x"), ("__module__", "m")])
            inp = C.ctuple(f"{lid}%N", C.cstr(""), "(@nil occ)", assoc_term(attrs), C.clist([C.cstr(k) for k in keys], "string"))
            cases.append((inp, C.V(obs[name]), {**case, "loader": name, "obs": obs[name]}, fails if lid == 1 else []))
    return cases


# ------------------------------------------------------------------ binds
class FakeSocket:
    log: list = []

    def __init__(self, family=None, type_=None, fileno=None):
        self.family, self.type_, self.fileno_ = family, type_, fileno
        self.bound = None

    def getsockopt(self, *a):
        return self.type_ if self.type_ is not None else socket.SOCK_STREAM

    def setsockopt(self, *a):
        pass

    def bind(self, addr):
        self.bound = addr

    def setblocking(self, b):
        pass

    def set_inheritable(self, b):
        pass


HOSTS = ["127.0.0.1", "0.0.0.0", "localhost", "example.org", "a.b-c.d", "10.1.2.3", "h", "unixhost", "fdhost"]
V6 = ["::1", "::", "fe80::1", "2001:db8::8:800:200c:417a", "::ffff:1.2.3.4"]


def bind_cases(ctx, n):
    import hypercorn.config as HC

    rng = ctx.rng
    cases = []
    shapes = ["host:port", "host", "v6:port", "unix", "fd", "fd-bad", "odd", "v6-bare"]
    for idx in range(n):
        shape = shapes[idx % len(shapes)] if idx < 3 * len(shapes) else rng.choice(shapes)
        port = rng.choice([0, 1, 80, 443, 8000, 8443, 65535, rng.randint(0, 65535)])
        intended = None
        if shape == "host:port":
            h = rng.choice(HOSTS)
            s = f"{h}:{port}"
            intended = ["inet", False, h, port]
        elif shape == "host":
            h = rng.choice(HOSTS)
            s = h
            intended = ["inet", False, h, 8000]
        elif shape == "v6:port":
            h = rng.choice(V6)
            s = f"[{h}]:{port}"
            intended = ["inet", True, h, port]
        elif shape == "v6-bare":
            # a bare host that is an IPv6 address, in brackets: the default port, like any other bare host (finding F63)
            h = rng.choice(V6)
            s = f"[{h}]"
            intended = ["inet", True, h, 8000]
        elif shape == "unix":
            p = rng.choice(["/tmp/nonexistent-verif.sock", "rel/path.sock", "/a:b/c", "", "/x[1]"])
            s = "unix:" + p
            intended = ["unix", p]
        elif shape == "fd":
            fd = rng.randint(0, 500)
            s = f"fd://{fd}"
            intended = ["fd", [fd]]
        elif shape == "fd-bad":
            s = "fd://" + rng.choice(["", "x", "3x", "1.5"])
            intended = None
        else:
            s = rng.choice(["host:", "host:abc", ":80", "[::1]", "::1", "[::]", "a:b:80", "[h]:1", "h:-5", ""])
            intended = None
        orig = HC.socket.socket
        made = []

        def fake(family=None, type_=None, fileno=None, _made=made):
            sk = FakeSocket(family, type_, fileno)
            _made.append(sk)
            return sk

        HC.socket.socket = fake
        try:
            try:
                HC.Config()._create_sockets([s])
                sk = made[0]
                if sk.fileno_ is not None:
                    obs = ["fd", [sk.fileno_]]
                elif sk.family == socket.AF_UNIX:
                    obs = ["unix", sk.bound]
                else:
                    obs = ["inet", sk.family == socket.AF_INET6, sk.bound[0], sk.bound[1]]
                    if sk.family not in (socket.AF_INET, socket.AF_INET6):
                        obs = ["other"]
            except ValueError:
                obs = ["fd", None]
        finally:
            HC.socket.socket = orig
        case = {"kind": "bind", "bind": s, "shape": shape, "obs": obs}
        fails = []
        if intended is not None and obs != intended:
            sig = "bind:" + shape
            fails.append({"case": case, "what": f"bind {s!r} gave {obs}, intended {intended}", "signature": sig})
        inp = C.ctuple("4%N", C.cstr(s), "(@nil occ)", "(@nil (string * pyval))", "(@nil string)")
        cases.append((inp, C.V(obs), case, fails))
    return cases


def real_socket_cases(tmp):
    """A few real sockets: family / type / address as the OS reports them."""
    from hypercorn.config import Config

    fails = []
    n = 0
    probes = [("127.0.0.1:0", socket.AF_INET, "127.0.0.1"), ("localhost:0", socket.AF_INET, "127.0.0.1"),
              ("[::1]:0", socket.AF_INET6, "::1"), (f"unix:{tmp}/s.sock", socket.AF_UNIX, f"{tmp}/s.sock")]
    for bind, fam, addr in probes:
        try:
            socks = Config()._create_sockets([bind])
        except OSError:
            continue  # no IPv6 in this sandbox etc.
        n += 1
        sk = socks[0]
        name = sk.getsockname()
        got = name if isinstance(name, str) else name[0]
        if sk.family != fam or sk.type != socket.SOCK_STREAM or got != addr:
            fails.append({"case": {"kind": "real-bind", "bind": bind}, "what": f"{sk.family} {sk.type} {name}",
                          "signature": "real-bind"})
        sk.close()
    # fd:// hands over the very descriptor
    base = socket.socket(socket.AF_INET, socket.SOCK_STREAM)
    base.bind(("127.0.0.1", 0))
    fd = os.dup(base.fileno())
    socks = Config()._create_sockets([f"fd://{fd}"])
    n += 1
    if socks[0].getsockname() != base.getsockname() or socks[0].fileno() != fd:
        fails.append({"case": {"kind": "real-bind", "bind": "fd://"}, "what": "descriptor not adopted", "signature": "real-fd"})
    socks[0].close()
    base.close()
    return n, fails


# ------------------------------------------------------------------ response headers
DATE_RE = re.compile(rb"^(Mon|Tue|Wed|Thu|Fri|Sat|Sun), \d{2} (Jan|Feb|Mar|Apr|May|Jun|Jul|Aug|Sep|Oct|Nov|Dec) \d{4} \d{2}:\d{2}:\d{2} GMT$")


def header_cases(ctx, n):
    from hypercorn.config import Config

    rng = ctx.rng
    cases = []
    for idx in range(n):
        cfg = Config()
        cfg.include_date_header = rng.random() < 0.6
        cfg.include_server_header = rng.random() < 0.6
        cfg.alt_svc_headers = [rng.choice(['h3=":443"; ma=3600', "clear", 'h2="alt.example:8000"']) for _ in range(rng.choice([0, 0, 1, 2]))]
        proto = rng.choice(["h11", "h2", "h3"])
        hs = cfg.response_headers(proto)
        case = {"kind": "headers", "date": cfg.include_date_header, "server": cfg.include_server_header,
                "alt": cfg.alt_svc_headers, "proto": proto}
        fails = []
        canon = []
        for name, value in hs:
            if name == b"date":
                ok = DATE_RE.match(value) is not None
                if ok:
                    t = email.utils.parsedate_to_datetime(value.decode()).timestamp()
                    ok = abs(t - time.time()) < 5
                if not ok:
                    fails.append({"case": case, "what": f"bad date {value!r}", "signature": "date"})
                value = b"DATE"
            canon.append([name, value])
        want_names = ([b"date"] if cfg.include_date_header else []) + ([b"server"] if cfg.include_server_header else []) + [b"alt-svc"] * len(cfg.alt_svc_headers)
        if [h[0] for h in canon] != want_names:
            fails.append({"case": case, "what": f"header names {[h[0] for h in canon]}", "signature": "header-names"})
        case["obs"] = canon
        inp = C.ctuple(
            "5%N", C.cstr(proto), "(@nil occ)",
            assoc_term([("d", cfg.include_date_header), ("s", cfg.include_server_header), ("alt", cfg.alt_svc_headers)]),
            "(@nil string)")
        cases.append((inp, C.V(canon), case, fails))
    return cases


FUN = """fun '(kind, a, occs, data, keys) =>
  match kind with
  | 0%N => obs_config keys (run_cli specs wiring a occs (from_toml data))
  | 1%N => obs_config keys (Some (from_mapping data []))
  | 2%N => obs_config keys (Some (from_object data))
  | 3%N => obs_config keys (Some (from_toml data))
  | 4%N => v_of_bind (parse_bind a)
  | _ =>
    let flag k := match lookup k data with Some (PBool b) => b | _ => false end in
    let alt := match lookup "alt" data with Some (PList l) => map (fun s => bytes_of_string s) l | _ => [] end in
    VL (map (fun h => VL [VB (fst h); VB (snd h)])
            (response_headers (flag "d") (flag "s") (B "DATE") (bytes_of_string a) alt))
  end"""
INPUT_TY = "N * string * list occ * list (string * pyval) * list string"


def run(ctx):
    tmp = Path(tempfile.mkdtemp(prefix="verif_c19_"))
    try:
        n_cli = ctx.scale(400, 6000, 3000)
        n_load = ctx.scale(120, 1500, 600)
        n_bind = ctx.scale(150, 2000, 800)
        n_hdr = ctx.scale(60, 600, 200)
        allc = cli_cases(ctx, n_cli, tmp) + loader_cases(ctx, n_load, tmp) + bind_cases(ctx, n_bind) + header_cases(ctx, n_hdr)
        n_real, real_fails = real_socket_cases(tmp)
    finally:
        import shutil

        shutil.rmtree(tmp, ignore_errors=True)
    oracle_failures = list(real_fails)
    for _, _, _, fails in allc:
        oracle_failures.extend(fails)
    coq_cases = [(i, e) for i, e, _, _ in allc if i is not None]
    meta = [c for i, _, c, _ in allc if i is not None]
    disagreements = []
    err = None
    if ctx.mode != "search":
        failing, err = C.coq_failing(PROP, PREAMBLE, INPUT_TY, FUN, coq_cases)
        for k in failing[:10]:
            shown = C.coq_show(PROP, PREAMBLE, FUN, coq_cases[k][0])
            disagreements.append({"case": meta[k], "model": shown[-1500:]})
        disagreements.extend({"case": meta[k]} for k in failing[10:50])
    distinct = len({repr(c.get("obs")) + c["kind"] for _, _, c, _ in allc if c.get("obs") not in (None, ["exit"])})
    dist = {}
    for _, _, c, _ in allc:
        dist[c["kind"]] = dist.get(c["kind"], 0) + 1
    dist["cli_rejected_by_argparse"] = sum(1 for _, _, c, _ in allc if c["kind"] == "cli" and c.get("obs") == ["exit"])
    dist["real_sockets"] = n_real
    return {
        "evaluations": len(allc) + n_real,
        "distinct_nontrivial": distinct,
        "rule": "every option alone, then random pairs/triples/quads with random values over a random TOML base "
                "configuration; key/value lists through all 7 loader entry points; bind strings of each shape; "
                "header switches. Non-trivial = the run produced a configuration/socket/header observation (not an "
                "argparse exit); distinct = distinct canonical observation per kind.",
        "samples": [c for _, _, c, _ in allc[:3]] + [c for _, _, c, _ in allc[-2:]],
        "disagreements": disagreements,
        "oracle_failures": oracle_failures,
        "model_eval_error": err,
        "distribution": dist,
        "assumptions": [
            "argparse tokenisation, TOML parsing, module execution, socket(), format_date_time are CPython's",
            "int() is modelled on optionally '-'-signed ASCII decimal strings only",
        ],
    }


def known_still_fails(k):
    return None


def replay(data):
    print(data)
    return 0
