"""End-to-end HTTP/2 sessions (several concurrent streams) through the real stack with an
independent h2 client, and the HTTP/2 halves of the oracles of C01 (request delivery), C02
(response delivery) and C05 (application failure), written from the property texts."""
from __future__ import annotations

from urllib.parse import unquote

from . import h2rig as H2
from . import http1e2e as E
from . import sched as S

METHODS = ["GET", "GET", "POST", "PUT", "HEAD", "DELETE", "OPTIONS"]
HEADER_POOL = [(b"accept", b"*/*"), (b"x-dup", b"1"), (b"x-dup", b"2"), (b"x-empty", b""),
               (b"user-agent", b"verif/1.0"), (b"te", b"trailers")]


class Req2:
    def __init__(self, rng, sid):
        self.sid = sid
        self.method = rng.choice(METHODS)
        self.target = rng.choice(["/", "/a/b", "/a%20b?x=1&y=%3D", "/p?", "/?a?b", "/caf%C3%A9", "/%41%zz%4", "/x/./y"])
        self.authority = rng.choice([b"example.com", b"example.com:8443"])
        self.headers = []
        for _ in range(rng.randint(0, 4)):
            h = rng.choice(HEADER_POOL)
            if h[0] == b"cookie" and h in self.headers:
                continue      # h2 joins cookie crumbs (RFC 9113 8.2.3): keep the comparison exact
            self.headers.append(h)
        self.with_host = rng.random() < 0.15
        self.chunks = []
        if self.method in ("POST", "PUT") or rng.random() < 0.1:
            n = rng.choice([0, 1, 2, 5, 14])
            self.chunks = [bytes(rng.randrange(256) for _ in range(rng.choice([1, 2, 50, 3000, 16384]))) for _ in range(n)]
        self.body = b"".join(self.chunks)
        self.complete = rng.random() < 0.92
        self.aborted = False
        self.stalled = False

    def wire_headers(self):
        hs = [(b":method", self.method.encode()), (b":path", self.target.encode()), (b":scheme", b"https"),
              (b":authority", self.authority)]
        if self.with_host:
            hs.append((b"host", self.authority))
        return hs + list(self.headers)

    def describe(self):
        return {"sid": self.sid, "method": self.method, "target": self.target, "chunks": [len(c) for c in self.chunks],
                "complete": self.complete, "headers": len(self.headers)}


class Session2:
    def __init__(self, rng, policy="fifo", seed=0, crashes=True):
        self.rng = rng
        n = rng.randint(1, 4)
        self.reqs = [Req2(rng, 1 + 2 * i) for i in range(n)]
        self.plans = {r.sid: E.AppPlan(rng, r) for r in self.reqs}
        for r in self.reqs:
            p = self.plans[r.sid]
            if not r.complete and p.read in ("all-first", "after-response"):
                p.read = "none"        # the client never finishes the body: the application must not wait for it
            if p.read == "partial" and not r.chunks and not r.complete:
                p.read = "none"
            if p.declare_length and (r.method == "HEAD" or p.status in (204, 304)):
                # the h2 client library insists that content-length matches the (omitted) body
                p.declare_length = False
                p.headers = [h for h in p.headers if h[0] != b"content-length"]
        if not crashes:
            for p in self.plans.values():
                p.crash = None
        self.policy = policy
        self.seed = seed
        self.by_path = {}

    def run(self):
        rng = self.rng
        recs = {}
        plans = self.plans
        # the application instance is recognised by a marker header, not by the path (paths repeat)
        def make_app(session):
            async def app(scope, receive, send):
                sid = None
                for n, v in scope["headers"]:
                    if n == b"x-verif-sid":
                        sid = int(v)
                r = recs.setdefault(sid, [])
                await S.scripted_app([plans[sid].steps()], r, session.driver)(scope, receive, send)

            return app

        sess = H2.H2Session([], policy=self.policy, seed=self.seed, app=make_app, raw_client=True,
                            worker=rng.choice(["asyncio", "trio"]))
        self.sess = sess
        # interleave the streams' frames
        todo = []
        for r in self.reqs:
            frames = [("headers", r)] + [("data", r, c) for c in r.chunks] + ([("end", r)] if r.complete and r.chunks else [])
            todo.append(frames)
        while any(todo):
            q = rng.choice([f for f in todo if f])
            if q[0][0] == "headers":
                # stream ids must be opened in increasing order
                q = next(f for f in todo if f and f[0][0] == "headers")
            item = q.pop(0)
            r = item[1]
            try:
                if item[0] == "headers":
                    sess.client.send_headers(r.sid, r.wire_headers() + [(b"x-verif-sid", b"%d" % r.sid)],
                                             end_stream=(r.complete and not r.chunks))
                elif item[0] == "data":
                    # padding counts against the flow-control windows (RFC 9113 6.1): its credit must come back as well
                    pad = rng.choice([None, None, None, 0, 17, 255])
                    need = len(item[2]) + (0 if pad is None else pad + 1)
                    if need > 16384:
                        pad, need = None, len(item[2])
                    if sess.client.local_flow_control_window(r.sid) < need:
                        sess.flush()          # read what the server has sent (WINDOW_UPDATE) before concluding anything
                        for _ in range(3):
                            sess.pump()
                    if sess.client.local_flow_control_window(r.sid) < need:
                        r.stalled = True      # the credit for what was uploaded so far has not come back
                    sess.client.send_data(r.sid, item[2], pad_length=pad)
                else:
                    sess.client.end_stream(r.sid)
            except Exception:  # noqa: BLE001  (the server already closed this stream: the client stops sending on it)
                r.complete = False
                r.aborted = True
                del q[:]
            if rng.random() < 0.6:
                sess.flush()
        sess.flush()
        for _ in range(6):
            sess.pump()
        self.records = {sid: (rs[0] if rs else None) for sid, rs in recs.items()}
        self.log = sess.log
        return self

    def describe(self):
        return {"requests": [r.describe() for r in self.reqs], "plans": {sid: p.describe() for sid, p in self.plans.items()},
                "policy": self.policy}


def expected_scope(r: Req2):
    path, _, query = r.target.partition("?")
    return {
        "type": "http", "http_version": "2", "method": r.method.upper(), "scheme": "https",
        "path": unquote(path), "raw_path": path.encode(), "query_string": query.encode(),
        "headers": [(b"host", r.authority)] + list(r.headers) + [(b"x-verif-sid", b"%d" % r.sid)],
        "client": ("10.0.0.1", 4321), "server": ("10.0.0.2", 443),
    }


def oracle_c01(s: Session2):
    fails = []
    for r in s.reqs:
        rec = s.records.get(r.sid)
        if rec is None:
            fails.append((f"stream {r.sid}: no application instance", "c01h2:instances"))
            continue
        want = expected_scope(r)
        for key, val in want.items():
            if rec["scope"].get(key) != val:
                fails.append((f"stream {r.sid}: scope[{key}] = {rec['scope'].get(key)!r}, expected {val!r}", "c01h2:scope:" + key))
        msgs = [m for m in rec["received"] if m["type"] == "http.request"]
        body = b"".join(m["body"] for m in msgs)
        finals = [m for m in msgs if not m["more_body"]]
        plan = s.plans[r.sid]
        # (an application that does not read holds the reader on its full queue - and with it the credit of every stream of
        # the connection: that is the design, not this property; judged only when every application of the session reads)
        if r.stalled and all(p.read == "all-first" and p.crash is None for p in s.plans.values()):
            fails.append((f"stream {r.sid}: the client's flow-control window was never replenished although the application reads the body "
                          f"({len(body)} of {len(r.body)} bytes delivered)", "c01h2:upload-stalled"))
            continue
        if plan.read == "all-first" and r.complete:
            if body != r.body:
                fails.append((f"stream {r.sid}: body delivered {len(body)} bytes != sent {len(r.body)}", "c01h2:body"))
            if len(finals) != 1 or msgs[-1]["more_body"]:
                fails.append((f"stream {r.sid}: {len(finals)} final body messages", "c01h2:final"))
        else:
            if not r.body.startswith(body):
                fails.append((f"stream {r.sid}: delivered bytes are not a prefix of the body", "c01h2:prefix"))
            if len(finals) > 1 or (finals and not r.complete):
                fails.append((f"stream {r.sid}: {len(finals)} final body messages (client completed: {r.complete})", "c01h2:final"))
    return fails


OWN = {b"date", b"server", b"alt-svc"}


def oracle_c02(s: Session2):
    fails = []
    sess = s.sess
    for r in s.reqs:
        plan = s.plans[r.sid]
        if not plan.completes() or s.records.get(r.sid) is None:
            continue
        if r.aborted and plan.read != "none":
            continue      # the client stopped sending (its window ran out): the application may wait for the body for ever
        hs = sess.headers.get(r.sid)
        if not hs or len(hs) != 1:
            fails.append((f"stream {r.sid}: {0 if not hs else len(hs)} response heads", "c02h2:head-count"))
            continue
        hs = hs[0]
        status = int(dict(hs)[b":status"])
        if status != plan.status:
            fails.append((f"stream {r.sid}: status {status} != {plan.status}", "c02h2:status"))
            continue
        got = [(n, v) for n, v in hs if not n.startswith(b":")]
        want = [(n.lower(), v.strip()) for n, v in plan.headers]
        if got[: len(want)] != want:
            fails.append((f"stream {r.sid}: headers {got[:len(want)]} != application's {want}", "c02h2:headers"))
        if any(n not in OWN for n, _ in got[len(want):]):
            fails.append((f"stream {r.sid}: foreign headers after the application's: {got[len(want):]}", "c02h2:own-headers"))
        suppressed = r.method.upper() == "HEAD" or plan.status in (204, 304)
        body = b"".join(plan.chunks)
        data = sess.data.get(r.sid, b"")
        if suppressed:
            if data != b"":
                fails.append((f"stream {r.sid}: body present although it must be omitted", "c02h2:suppress"))
        elif data != body:
            fails.append((f"stream {r.sid}: body {len(data)} bytes != application's {len(body)}", "c02h2:body"))
        if sess.ended.get(r.sid, 0) != 1 or r.sid in sess.reset:
            fails.append((f"stream {r.sid}: END_STREAM x{sess.ended.get(r.sid, 0)}, reset={r.sid in sess.reset}", "c02h2:complete"))
    if sess.client_error:
        fails.append((sess.client_error, "c02h2:client-protocol-error"))
    return fails


def oracle_c05(s: Session2):
    fails = []
    sess = s.sess
    for r in s.reqs:
        plan = s.plans[r.sid]
        if plan.crash is None or s.records.get(r.sid) is None:
            continue
        if not (s.records[r.sid].get("crashed") or s.records[r.sid].get("finished")):
            continue      # the application is still waiting (for a request body the client never completes): it has not failed yet
        hs = sess.headers.get(r.sid)
        if plan.crash in ("before-start", "return-before-start"):
            st = int(dict(hs[0])[b":status"]) if hs else None
            if st != 500 or sess.ended.get(r.sid, 0) != 1:
                fails.append((f"stream {r.sid}: application ended before responding: status {st}, END_STREAM x{sess.ended.get(r.sid, 0)}",
                              "c05h2:500"))
        else:
            if sess.ended.get(r.sid, 0) != 0:
                fails.append((f"stream {r.sid}: application failed mid-response but the stream was ended normally", "c05h2:false-complete"))
            if r.sid not in sess.reset:
                fails.append((f"stream {r.sid}: application failed mid-response and the stream was not reset", "c05h2:not-reset"))
        if plan.crash in ("before-start", "after-start", "mid-body"):
            if not any(e == ["log.exception"] for e in s.log):
                fails.append((f"stream {r.sid}: application exception not logged", "c05h2:logged"))
    # the other streams are unaffected: judged by oracle_c02 on them
    alive = [n for n in sess.alive() if n.startswith("app")]
    return fails


def f9_witness():
    """F9: once keep_alive_max_requests streams have been opened the HTTP/2 connection is closed at once and the responses of
    streams still in progress (including the request that reached the limit) are dropped."""
    sess = H2.H2Session([[("recv_all",), ("send", {"type": "http.response.start", "status": 200, "headers": []}),
                          ("send", {"type": "http.response.body", "body": b"r", "more_body": False})]] * 4, max_requests=2)
    for sid in (1, 3, 5):
        try:
            sess.request(sid)
        except Exception:  # noqa: BLE001  (the client has been told to go away)
            break
    sess.pump()
    answered = sorted(s for s in (1, 3, 5) if sess.ended.get(s))
    goaway = [e for e in sess.events if e[0] == "goaway"]
    if goaway and 5 not in answered and goaway[0][1] >= 5:
        return f"GOAWAY(last_stream_id={goaway[0][1]}) but stream 5 was never answered (answered: {answered})"
    return None


def padded_upload(seed):
    """One stream uploading many small, heavily padded DATA frames: more flow-controlled octets than both windows hold, so the
    upload only completes if the padding is credited back too (RFC 9113 6.1, 6.9)."""
    import random

    rng = random.Random(seed)
    recs = []
    frames, size, pad = rng.choice([(300, 10, 255), (120, 400, 200), (500, 1, 255)])

    def make_app(session):
        async def app(scope, receive, send):
            await S.scripted_app([[("recv_all",), ("send", {"type": "http.response.start", "status": 200, "headers": []}),
                                   ("send", {"type": "http.response.body", "body": b"done"})]], recs, session.driver)(scope, receive, send)

        return app

    sess = H2.H2Session([], policy=rng.choice(["fifo", "random"]), seed=seed, app=make_app, raw_client=True, worker=rng.choice(["asyncio", "trio"]))
    sess.client.send_headers(1, [(b":method", b"POST"), (b":path", b"/up"), (b":scheme", b"https"), (b":authority", b"x")])
    sess.flush()
    sent = 0
    for k in range(frames):
        need = size + pad + 1
        if sess.client.local_flow_control_window(1) < need:
            sess.flush()
            for _ in range(3):
                sess.pump()
        if sess.client.local_flow_control_window(1) < need:
            break
        sess.client.send_data(1, b"u" * size, end_stream=(k == frames - 1), pad_length=pad)
        sent += 1
        if k % 7 == 0:
            sess.flush()
    sess.flush()
    for _ in range(4):
        sess.pump()
    got = b"".join(m["body"] for m in (recs[0]["received"] if recs else []) if m["type"] == "http.request")
    desc = {"seed": seed, "h2": {"padded_upload": {"frames": frames, "size": size, "pad": pad, "sent": sent, "delivered": len(got)}}}
    if sent < frames or len(got) != frames * size or sess.ended.get(1, 0) != 1:
        return desc, [(f"padded upload: {sent} of {frames} frames could be sent, {len(got)} of {frames * size} bytes delivered, "
                       f"response ended x{sess.ended.get(1, 0)}", "c01h2:padded-upload-stalled")]
    return desc, []


def trailers_case(seed):
    """http.response.trailers on HTTP/2: delivered after the whole body, ending the stream, to a client that sent te: trailers;
    not emitted otherwise."""
    import random

    import h2.config
    import h2.connection
    import h2.events

    from . import rig as R

    rng = random.Random(seed)
    size = rng.choice([0, 1, 3000, 70000, 100000])
    te = rng.random() < 0.7
    worker = rng.choice(["asyncio", "trio"])
    trailers = rng.choice([[(b"x-t", b"1")], [(b"x-checksum", b"abc"), (b"x-t", b"2")]])
    chunks = [size] if size < 50000 else [size // 2, size - size // 2]
    streamed = rng.random() < 0.4
    if streamed:
        # a response streamed in small pieces with pauses between them: each piece has gone out before the next is sent
        chunks = [rng.choice([1, 1000, 5000]) for _ in range(rng.choice([2, 3]))]
        size = sum(chunks)
    d = S.Driver(seed=seed, policy=rng.choice(["fifo", "random"]))
    cfg = R.make_config(())
    cfg._log = R.RecLog([])
    recs = []
    steps = [("recv_all",), ("send", {"type": "http.response.start", "status": 200, "headers": [(b"x-a", b"b")], "trailers": True})]
    for i, n in enumerate(chunks):
        steps.append(("send", {"type": "http.response.body", "body": b"y" * n, "more_body": i < len(chunks) - 1}))
        if streamed and i < len(chunks) - 1:
            steps.append(("sleep", 0.2))          # (the trailers follow the last piece at once)
    steps.append(("send", {"type": "http.response.trailers", "headers": trailers, "more_trailers": False}))
    rig = S.ProtoRig(S.scripted_app([steps], recs, d), cfg, d, alpn="h2", ssl=True, worker=worker)
    c = h2.connection.H2Connection(h2.config.H2Configuration(client_side=True, header_encoding=None))
    c.initiate_connection()
    c.send_headers(1, [(b":method", b"GET"), (b":path", b"/t"), (b":scheme", b"https"), (b":authority", b"x")] + ([(b"te", b"trailers")] if te else []),
                   end_stream=True)
    rig.feed(c.data_to_send())
    rig.run()
    cons, order, got, seen_tr, err = 0, [], 0, None, None
    for _ in range(40):
        w = bytes(rig.transport.written)
        new, cons = w[cons:], len(w)
        if not new:
            break
        try:
            for e in c.receive_data(new):
                if isinstance(e, h2.events.DataReceived):
                    got += len(e.data)
                    order.append("data")
                    c.acknowledge_received_data(e.flow_controlled_length, e.stream_id)
                elif isinstance(e, h2.events.TrailersReceived):
                    seen_tr = list(e.headers)
                    order.append("trailers")
                elif isinstance(e, h2.events.StreamEnded):
                    order.append("end")
                elif isinstance(e, h2.events.StreamReset):
                    order.append("reset")
        except Exception as ex:  # noqa: BLE001
            err = repr(ex)
            break
        out = c.data_to_send()
        if out:
            rig.feed(out)
        rig.run()
    desc = {"seed": seed, "h2": {"trailers_case": {"size": size, "te": te, "worker": worker, "order": [k for i, k in enumerate(order) if i == 0 or order[i - 1] != k],
                                                   "trailers": repr(seen_tr), "body": got}}}
    fails = []
    stuck = [t.name for t in d.tasks if t.name.startswith("app") and not t.done]
    if err or stuck or d.errors():
        fails.append((f"client error {err}, stuck {stuck}, task errors {d.errors()[:1]}", "c02h2:trailers-session"))
    elif got != size or order.count("end") != 1 or "reset" in order:
        fails.append((f"body {got} of {size} bytes, END_STREAM x{order.count('end')}, order {desc['h2']['trailers_case']['order']}", "c02h2:trailers-body"))
    elif te and (seen_tr != trailers or order[-2:] != ["trailers", "end"]):
        fails.append((f"trailers {seen_tr!r} (expected {trailers!r}), order {desc['h2']['trailers_case']['order']}", "c02h2:trailers-missing"))
    elif not te and seen_tr is not None:
        fails.append(("trailers emitted to a client that did not send te: trailers", "c02h2:trailers-unasked"))
    return desc, fails
