"""C15: graceful shutdown is orderly and bounded.
The real worker_serve of both workers on loopback sockets (hypercorn.<worker>.serve in a thread),
shutdown triggered at every phase of every connection kind:
  - idle keep-alive connection, connection with a partial request head, request shorter / longer
    than the grace period, several stuck connections, open HTTP/2 streams, open WebSocket;
  - triggered by the callable and by the worker's request limit.
Observed: when serve() returns (against model.ShutdownSeq: min(longest handler, G) + lifespan),
what each client sees (complete response / closed), refused connections after the trigger,
lifespan.shutdown delivery."""
from __future__ import annotations

import socket
import threading
import time

from . import c14
from . import common as C

PROP = "C15"
PREAMBLE = ("From Coq Require Import ZArith List.\nFrom HV Require Import lib.Obs model.ShutdownSeq.\nImport ListNotations.\nOpen Scope Z_scope.\n"
            "Definition run_seq (c : Z * Z * list Z * Z) : val := let '(G, T, ds, ls) := c in VZ (serve_return G T ds ls).\n")
SLACK = 0.6        # scheduling slack allowed on real time, seconds (the checks may run on a loaded machine)


def scenario(backend, G, durations, kinds=None, lifespan_delay=0.0, S=1.0):
    """durations: seconds each connection's request still runs when shutdown is triggered (0 = idle keep-alive connection).
    Returns a dict of observations."""
    ev = []
    delays = {f"/d{i}": d for i, d in enumerate(durations)}
    app_inner = c14.lifespan_app(ev)

    async def app(scope, receive, send):
        if scope["type"] == "lifespan":
            import sniffio

            m = await receive()
            ev.append((time.monotonic(), m["type"]))
            await send({"type": "lifespan.startup.complete"})
            m = await receive()
            ev.append((time.monotonic(), m["type"]))
            if lifespan_delay:
                if sniffio.current_async_library() == "trio":
                    import trio

                    await trio.sleep(lifespan_delay)
                else:
                    import asyncio

                    await asyncio.sleep(lifespan_delay)
            await send({"type": "lifespan.shutdown.complete"})
            return
        if scope["type"] == "http":
            import sniffio

            d = delays.get(scope["path"], 0.0) + (0.2 if scope["path"] in delays and delays[scope["path"]] > 0 else 0.0)
            while True:
                m = await receive()
                if m["type"] != "http.request" or not m.get("more_body"):
                    break
            if d:
                if sniffio.current_async_library() == "trio":
                    import trio

                    await trio.sleep(d)
                else:
                    import asyncio

                    await asyncio.sleep(d)
            body = b"x" * 20000
            await send({"type": "http.response.start", "status": 200, "headers": [(b"content-length", b"20000")]})
            await send({"type": "http.response.body", "body": body})

    sv = c14.Served(backend, app, graceful_timeout=G, shutdown_timeout=S, keep_alive_timeout=30.0)
    first = sv.wait_listening()
    obs = {"backend": backend, "G": G, "durations": durations, "answers": {}, "error": None}
    if first is None:
        obs["error"] = "never listening: " + repr(sv.result["error"])
        return obs
    first.close()
    socks, threads = [], []
    for i, d in enumerate(durations):
        s = sv.connect()
        socks.append(s)
        if d == 0:
            r = c14.get(s, b"/idle%d" % i)            # a served request, then the connection stays open and idle
            obs["answers"][i] = ("idle", r[0] if r else None)
        elif d == "partial":
            s.sendall(b"GET /partial HTTP/1.1\r\nHost: x\r\nX-")
            obs["answers"][i] = ("partial",)
        else:
            def worker(i=i, s=s):
                obs["answers"][i] = ("request", c14.get(s, b"/d%d" % i, timeout=G + S + 5.0))

            th = threading.Thread(target=worker)
            th.start()
            threads.append(th)
    time.sleep(0.2)                                   # every request has reached its application
    t_trigger = time.monotonic()
    sv.trigger.set()
    time.sleep(0.25)           # (the trigger is polled every 10 ms; a loaded machine needs more than a few of those)
    late = sv.try_connect()
    obs["late_connection"] = None
    if late is not None:
        r = c14.get(late, b"/late", timeout=1.0)
        obs["late_connection"] = repr(r)
        late.close()
    sv.thread.join(G + S + 6.0)
    obs["returned"] = None if sv.thread.is_alive() else round(sv.result["returned_at"] - (t_trigger - sv.t0), 3)
    obs["serve_error"] = repr(sv.result["error"]) if sv.result["error"] else None
    for th in threads:
        th.join(3.0)
    # what idle / partial connections see after the trigger
    for i, d in enumerate(durations):
        if d == 0 or d == "partial":
            socks[i].settimeout(0.5)
            try:
                data = socks[i].recv(100)
                obs["answers"][i] += ("closed" if data == b"" else "data:" + repr(data[:20]),)
            except socket.timeout:
                obs["answers"][i] += ("still-open",)
            except OSError:
                obs["answers"][i] += ("closed",)
    for s in socks:
        s.close()
    obs["shutdown_messages"] = sum(1 for _, w in ev if w == "lifespan.shutdown")
    obs["lifespan_delay"] = lifespan_delay
    return obs


def judge(obs, S=1.0):
    fails = []
    G = obs["G"]

    def fail(sig, **kw):
        fails.append({"signature": sig, "backend": obs["backend"], "obs": {k: v for k, v in obs.items() if k != "answers"},
                      "answers": repr(obs["answers"]), **kw})

    if obs["error"]:
        fail("harness:" + obs["error"][:40])
        return fails
    real = [d for d in obs["durations"] if d not in (0, "partial")]
    expected = min(max(real), G) if real else 0.0
    expected += min(obs["lifespan_delay"], S)
    if obs["returned"] is None:
        fail("serve-did-not-return")
    else:
        if obs["returned"] > G + S + SLACK:
            fail("shutdown-unbounded", returned=obs["returned"])
        if obs["returned"] > expected + SLACK:
            fail("shutdown-later-than-needed", returned=obs["returned"], expected=expected)
        if obs["returned"] < expected - 0.05:
            fail("shutdown-before-grace-period-over", returned=obs["returned"], expected=expected)
    if obs["late_connection"] is not None:
        fail("connection-accepted-after-shutdown-began", late=obs["late_connection"])
    if obs["shutdown_messages"] != 1:
        fail("lifespan-shutdown-count", count=obs["shutdown_messages"])
    for i, d in enumerate(obs["durations"]):
        a = obs["answers"].get(i)
        if d == 0 or d == "partial":
            if a is None or a[-1] != "closed":
                fail("idle-connection-not-closed-at-shutdown", index=i, answer=repr(a))
        elif d + 0.2 <= G - 0.1:
            # ends within the grace period: delivered in full
            if a is None or a[1] is None or a[1][0] != 200 or len(a[1][1]) != 20000 or len(a[1]) > 2:
                fail("request-within-grace-not-delivered-in-full", index=i, answer=repr(a)[:120])
    return fails


def h2_scenario(backend, G=2.0):
    """Two open HTTP/2 streams at the trigger, one ending before the other: both complete (the end of the first must not
    take the connection away from the second); a new stream after the trigger is refused; GOAWAY follows."""
    import h2.config
    import h2.connection
    import h2.events

    async def app(scope, receive, send):
        if scope["type"] == "lifespan":
            await receive()
            await send({"type": "lifespan.startup.complete"})
            await receive()
            await send({"type": "lifespan.shutdown.complete"})
            return
        import sniffio

        while True:
            m = await receive()
            if m["type"] != "http.request" or not m.get("more_body"):
                break
        delay = {"/slow": 0.5, "/slower": 0.9}.get(scope["path"])
        if delay:
            if sniffio.current_async_library() == "trio":
                import trio

                await trio.sleep(delay)
            else:
                import asyncio

                await asyncio.sleep(delay)
        await send({"type": "http.response.start", "status": 200, "headers": []})
        await send({"type": "http.response.body", "body": b"done:" + scope["path"].encode()})

    sv = c14.Served(backend, app, graceful_timeout=G, shutdown_timeout=1.0)
    s = sv.wait_listening()
    obs = {"backend": backend, "case": "h2", "events": []}
    if s is None:
        obs["error"] = "never listening"
        return obs
    c = h2.connection.H2Connection(h2.config.H2Configuration(client_side=True, header_encoding=None))
    c.initiate_connection()
    c.send_headers(1, [(b":method", b"GET"), (b":path", b"/slow"), (b":scheme", b"http"), (b":authority", b"x")], end_stream=True)
    c.send_headers(3, [(b":method", b"GET"), (b":path", b"/slower"), (b":scheme", b"http"), (b":authority", b"x")], end_stream=True)
    s.sendall(c.data_to_send())
    time.sleep(0.2)
    sv.trigger.set()
    time.sleep(0.1)
    try:
        c.send_headers(5, [(b":method", b"GET"), (b":path", b"/new"), (b":scheme", b"http"), (b":authority", b"x")], end_stream=True)
        s.sendall(c.data_to_send())
    except OSError:
        obs["events"].append(("send-failed",))
    s.settimeout(3.0)
    data = {}
    try:
        while True:
            chunk = s.recv(65536)
            if not chunk:
                obs["events"].append(("eof",))
                break
            for ev in c.receive_data(chunk):
                if isinstance(ev, h2.events.ResponseReceived):
                    obs["events"].append(("response", ev.stream_id))
                elif isinstance(ev, h2.events.DataReceived):
                    data[ev.stream_id] = data.get(ev.stream_id, b"") + ev.data
                    c.acknowledge_received_data(ev.flow_controlled_length, ev.stream_id)
                elif isinstance(ev, h2.events.StreamEnded):
                    obs["events"].append(("end", ev.stream_id))
                elif isinstance(ev, h2.events.StreamReset):
                    obs["events"].append(("reset", ev.stream_id))
                elif isinstance(ev, h2.events.ConnectionTerminated):
                    obs["events"].append(("goaway",))
            out = c.data_to_send()
            if out:
                s.sendall(out)
    except (socket.timeout, OSError) as e:
        obs["events"].append(("recv-" + type(e).__name__,))
    obs["data"] = {k: bytes(v) for k, v in data.items()}
    sv.thread.join(5.0)
    obs["returned"] = not sv.thread.is_alive()
    s.close()
    return obs


def judge_h2(obs):
    fails = []
    if obs.get("error"):
        return [{"signature": "harness:" + obs["error"], "backend": obs["backend"]}]
    evs = obs["events"]
    if obs["data"].get(1) != b"done:/slow" or ("end", 1) not in evs or obs["data"].get(3) != b"done:/slower" or ("end", 3) not in evs:
        fails.append({"signature": "h2-in-flight-stream-not-completed", "backend": obs["backend"], "events": evs, "data": repr(obs["data"])})
    if ("response", 5) in evs:
        fails.append({"signature": "h2-new-stream-served-after-shutdown-began", "backend": obs["backend"], "events": evs})
    if ("goaway",) not in evs and ("eof",) not in evs:
        fails.append({"signature": "h2-peer-not-told-to-go-away", "backend": obs["backend"], "events": evs})
    if not obs["returned"]:
        fails.append({"signature": "serve-did-not-return", "backend": obs["backend"]})
    return fails


def pipelined_scenario(backend, G=2.0):
    """Shutdown begins while a request is in flight and a second one is pipelined behind it on the same connection: the
    first is finished (it ends within the grace period), the connection is then closed, the second is never started."""
    started = []

    async def app(scope, receive, send):
        if scope["type"] == "lifespan":
            while True:
                m = await receive()
                if m["type"] == "lifespan.startup":
                    await send({"type": "lifespan.startup.complete"})
                else:
                    await send({"type": "lifespan.shutdown.complete"})
                    return
        import sniffio

        started.append(scope["path"])
        if scope["path"] == "/first":
            if sniffio.current_async_library() == "trio":
                import trio

                await trio.sleep(0.6)
            else:
                import asyncio

                await asyncio.sleep(0.6)
        body = scope["path"].encode()
        await send({"type": "http.response.start", "status": 200, "headers": [(b"content-length", b"%d" % len(body))]})
        await send({"type": "http.response.body", "body": body})

    sv = c14.Served(backend, app, graceful_timeout=G, shutdown_timeout=1.0, keep_alive_timeout=30.0)
    obs = {"backend": backend, "case": "pipelined-at-shutdown", "G": G, "error": None}
    first = sv.wait_listening()
    if first is None:
        obs["error"] = "never listening: " + repr(sv.result["error"])
        return obs
    first.close()
    s = sv.connect()
    s.sendall(b"GET /first HTTP/1.1\r\nHost: x\r\n\r\nGET /second HTTP/1.1\r\nHost: x\r\n\r\n")
    time.sleep(0.2)
    sv.trigger.set()
    s.settimeout(G + 3.0)
    data = b""
    try:
        while True:
            chunk = s.recv(65536)
            if not chunk:
                break
            data += chunk
    except (socket.timeout, OSError):
        obs["error"] = "connection not closed"
    s.close()
    sv.thread.join(G + 4.0)
    obs["returned"] = not sv.thread.is_alive()
    obs["responses"] = data.count(b"HTTP/1.1 200")
    obs["bodies"] = [b for b in (b"/first", b"/second") if data.endswith(b) or (b + b"HTTP/1.1") in data]
    obs["started"] = list(started)
    return obs


def stuck_writer_scenario(backend, G=1.0, St=1.0):
    """A connection that is stuck in a write when shutdown begins: the application streams a response far larger than the
    socket buffers to a client that reads nothing.  '... always within graceful_timeout plus shutdown_timeout plus
    scheduling slack, however many connections are stuck' (finding F62)."""
    ev = []

    async def app(scope, receive, send):
        if scope["type"] == "lifespan":
            await c14.lifespan_app(ev)(scope, receive, send)
            return
        await receive()
        await send({"type": "http.response.start", "status": 200, "headers": []})
        chunk = b"x" * 65536
        for _ in range(2000):
            await send({"type": "http.response.body", "body": chunk, "more_body": True})
        await send({"type": "http.response.body", "body": b"", "more_body": False})

    sv = c14.Served(backend, app, graceful_timeout=G, shutdown_timeout=St, keep_alive_timeout=30.0)
    first = sv.wait_listening()
    obs = {"backend": backend, "case": "stuck-writer", "G": G, "S": St, "error": None, "returned": None}
    if first is None:
        obs["error"] = "never listening: " + repr(sv.result["error"])
        return obs
    first.close()
    s = sv.connect()
    s.sendall(b"GET /big HTTP/1.1\r\nHost: x\r\n\r\n")      # ... and never reads
    time.sleep(0.5)
    t_trigger = time.monotonic()
    sv.trigger.set()
    sv.thread.join(G + St + SLACK + 1.0)
    obs["returned"] = None if sv.thread.is_alive() else round(sv.result["returned_at"] - (t_trigger - sv.t0), 3)
    # let the worker go: the client disappears, the pending write fails
    try:
        s.setsockopt(socket.SOL_SOCKET, socket.SO_LINGER, b"\x01\x00\x00\x00\x00\x00\x00\x00")
    except OSError:
        pass
    s.close()
    sv.thread.join(10.0)
    obs["returned_after_client_left"] = not sv.thread.is_alive()
    return obs


def max_requests_scenario(backend):
    """The worker's own request limit is a shutdown trigger."""
    ev = []
    sv = c14.Served(backend, c14.lifespan_app(ev), max_requests=2, graceful_timeout=1.0, shutdown_timeout=1.0)
    s = sv.wait_listening()
    obs = {"backend": backend, "case": "max_requests"}
    if s is None:
        obs["error"] = "never listening"
        return obs
    answers = []
    for i in range(4):
        try:
            r = c14.get(s, b"/m%d" % i, timeout=2.0)
        except OSError:
            r = None
        answers.append(None if r is None else r[0])
        if r is None:
            break
    sv.thread.join(5.0)
    obs["answers"] = answers
    obs["returned"] = not sv.thread.is_alive()
    if sv.thread.is_alive():
        sv.stop()
    return obs


def run(ctx):
    rng = ctx.rng
    oracle_failures, descs, cases, metas = [], [], [], []
    plans = [
        (0.6, [0]), (0.6, ["partial"]), (0.6, [0.1]), (0.6, [3.0]), (0.6, [0, 0.1, 3.0]), (0.5, [3.0, 3.0, 3.0, 3.0, 0]),
        (0.6, []), (1.0, [0.3, "partial", 0]),
    ]
    extra = ctx.scale(0, 12, 4)
    for _ in range(extra):
        G = rng.choice([0.4, 0.8])
        n = rng.randint(1, 5)
        plans.append((G, [rng.choice([0, "partial", 0.1, 0.1, 2.5]) for _ in range(n)]))
    plans = [(G, ds, 1.0) for G, ds in plans]
    # the grace period is graceful_timeout, whatever shutdown_timeout (the lifespan's own allowance) is
    plans += [(0.4, [3.0], 2.0), (2.0, [1.0, 0], 0.3)]
    for G, ds, St in plans:
        for backend in ("asyncio", "trio"):
            ls = rng.choice([0.0, 0.0, 0.2])
            o = scenario(backend, G, ds, lifespan_delay=ls, S=St)
            o["S"] = St
            descs.append({k: v for k, v in o.items() if k != "answers"})
            oracle_failures.extend(judge(o, S=St))
            if o.get("returned") is not None:
                real = [int(round((d + 0.2) * 1000)) if d not in (0, "partial") else 0 for d in ds]
                term = f"({int(G * 1000)}, {int(St * 1000)}, [{'; '.join(str(x) for x in real)}], {int(ls * 1000)})"
                # the model's instant, checked against the measured one with the slack of real time
                metas.append({"backend": backend, "G": G, "durations": ds, "returned": o["returned"], "term": term})
                cases.append(term)
    for backend in ("asyncio", "trio"):
        o = h2_scenario(backend)
        descs.append({k: (repr(v) if k == "data" else v) for k, v in o.items()})
        oracle_failures.extend(judge_h2(o))
        o = pipelined_scenario(backend)
        descs.append(o)
        if o.get("error") or not o.get("returned"):
            oracle_failures.append({"signature": "pipelined-at-shutdown:" + str(o.get("error") or "serve-did-not-return"), "obs": o})
        elif o["responses"] != 1 or o["started"] != ["/first"]:
            oracle_failures.append({"signature": "request-started-after-shutdown-began", "obs": {k: repr(v) for k, v in o.items()}})
        o = stuck_writer_scenario(backend)
        descs.append(o)
        if o.get("error"):
            oracle_failures.append({"signature": "harness:" + o["error"][:40], "obs": o})
        elif o["returned"] is None or o["returned"] > o["G"] + o["S"] + SLACK:
            oracle_failures.append({"signature": "F62:stuck-writer-outlives-shutdown", "backend": backend, "obs": o})
        o = max_requests_scenario(backend)
        descs.append(o)
        if o.get("error") or not o.get("returned"):
            oracle_failures.append({"signature": "max-requests-does-not-shut-the-worker-down", "obs": o})
        elif o["answers"][:2] != [200, 200]:
            oracle_failures.append({"signature": "max-requests-requests-not-served", "obs": o})
    # model: evaluate serve_return for every plan and compare with the measured instant (tolerance: real time)
    disagreements, err = [], None
    if ctx.mode != "search" and cases:
        rc, out = C.coq_eval(PROP + "_seq", PREAMBLE, "Eval vm_compute in (map (fun c : Z * Z * list Z * Z => let '(G, T, ds, ls) := c in Z.to_N (serve_return G T ds ls)) [" + "; ".join(cases) + "]).")
        vals = C.parse_N_list(out) if rc == 0 else None
        if vals is None:
            err = out[-2000:]
        else:
            for m, v in zip(metas, vals):
                if abs(m["returned"] - v / 1000.0) > SLACK:
                    disagreements.append({"case": m, "model_ms": v})
    dist = {"scenarios": len(descs)}
    for d in descs:
        dist["backend:" + d["backend"]] = dist.get("backend:" + d["backend"], 0) + 1
    return {
        "evaluations": len(descs) + len(cases),
        "distinct_nontrivial": len({repr((d.get("G"), d.get("durations"), d.get("case"))) for d in descs}),
        "rule": "shutdown triggered 0.2 s after the connections were set up, on both real workers over loopback sockets: connections "
                "that are idle keep-alive, hold a partial request head, run a request that ends within / far beyond the grace period, "
                "up to five at once (four stuck), graceful_timeout 0.4-1.0 s, lifespan shutdown taking 0 or 0.2 s; an open HTTP/2 "
                "stream plus a new stream after the trigger; the worker's max_requests as the trigger.  Measured: when serve() "
                "returns (against model.ShutdownSeq with the slack of real time), what every client sees, refused connections, "
                "lifespan.shutdown count.",
        "samples": descs[:2] + descs[-1:],
        "disagreements": disagreements,
        "oracle_failures": oracle_failures,
        "model_eval_error": err,
        "distribution": dist,
        "assumptions": ["real time: slack of %.2f s" % SLACK, "loopback sockets; CPython 3.12 asyncio server semantics"],
    }


def known_still_fails(k):
    return None


def replay(data):
    print(data)
    return 0
