"""C08: send backpressure is applied, bounded and always released.
(a) correspondence of model.H2Send with the real code under explicit scheduling (shared rig,
    harness/h2send.py, schedules biased towards closed windows, resets and EOF);
(b) end to end, HTTP/2: with the window closed an application sending a response much larger than
    any bound stays blocked with less than HIGH + 2m bytes buffered, a sibling stream with credit
    completes, and credit / RST_STREAM / EOF at that moment (mid-body and on the final drain) lets
    every send return and every application finish;
(c) end to end, HTTP/1 and WebSocket-over-HTTP/2: a paused transport / closed window blocks the
    application's send, resume / close / write failure releases it."""
from __future__ import annotations

import random

from . import common as C
from . import h2rig as H2
from . import h2send as HS
from . import sched as S

PROP = "C08"
HIGH = 32768


def big_script(nmsgs, m, finish=True):
    script = [("send", {"type": "http.response.start", "status": 200, "headers": []})]
    for i in range(nmsgs):
        script.append(("send", {"type": "http.response.body", "body": HS.genb(m, i % 256), "more_body": True}))
    if finish:
        script.append(("send", {"type": "http.response.body", "body": b"", "more_body": False}))
    return script


def h2_pressure(seed):
    """Window closed while the application sends; then one of: credit, reset, eof."""
    import h2.settings

    rng = random.Random(seed)
    m = rng.choice([1, 100, 16384, 20000, 40000, 100000])
    nmsgs = rng.choice([3, 8, 40]) if m >= 16384 else rng.choice([50, 400])
    where = rng.choice(["mid-body", "final-drain"])
    if where == "final-drain":
        m = min(m, 20000)
        nmsgs = max(1, min(nmsgs, (HIGH - 1) // m))
    release = rng.choice(["credit", "reset", "eof", "write-error"])
    policy = rng.choice(["fifo", "random", "lifo"])
    by_path = {"/s1": big_script(nmsgs, m), "/s3": big_script(3, 5000)}
    recs = {}

    def make_app(session):
        async def app(scope, receive, send):
            r = recs.setdefault(scope["path"], [])
            await S.scripted_app([by_path[scope["path"]]], r, session.driver)(scope, receive, send)

        return app

    HS.tolerate_empty_data_at_negative_window()
    sess = H2.H2Session([], policy=policy, seed=seed, client_settings={h2.settings.SettingCodes.INITIAL_WINDOW_SIZE: 0},
                        app=make_app, worker=rng.choice(["asyncio", "trio"]))
    sess.auto_ack = False
    desc = {"seed": seed, "m": m, "nmsgs": nmsgs, "where": where, "release": release, "policy": policy}
    failures = []
    sess.request(1, path="/s1")
    sess.request(3, path="/s3")
    sess.pump()
    # applied: the application is blocked (unless everything fitted below the mark)
    total = m * nmsgs
    app1 = recs["/s1"][0]
    sends_done = len(app1["sends"])
    desc["sends_done_under_pressure"] = sends_done
    desc["max_buffered"] = sess.max_buffered
    if sess.max_buffered >= HIGH + 2 * m:
        failures.append({"signature": "h2-buffer-exceeds-bound", "seed": seed, "max_buffered": sess.max_buffered, "m": m,
                         "bound": HIGH + 2 * m})
    if total >= HIGH + 2 * m and app1["finished"]:
        failures.append({"signature": "h2-send-not-blocked-by-closed-window", "seed": seed, "total": total})
    desc["at_final_drain"] = (not app1["finished"]) and sends_done == nmsgs + 1
    # the sibling gets credit and must complete while stream 1 is stalled
    sess.window_update(0, 1_000_000)
    sess.window_update(3, 100_000)
    sess.pump()
    if sess.data.get(3, b"") != b"".join(HS.genb(5000, i) for i in range(3)) or sess.ended.get(3, 0) != 1:
        failures.append({"signature": "h2-stalled-stream-blocks-sibling", "seed": seed, "got": len(sess.data.get(3, b""))})
    if sess.data.get(1, b""):
        failures.append({"signature": "h2-data-sent-without-stream-credit", "seed": seed, "got": len(sess.data.get(1, b""))})
    # release
    if release == "credit":
        sess.auto_ack = True
        sess.window_update(1, total + 10)
        for _ in range(50):
            sess.pump()
            if sess.ended.get(1):
                break
        exp = b"".join(HS.genb(m, i % 256) for i in range(nmsgs))
        if sess.data.get(1, b"") != exp or sess.ended.get(1, 0) != 1:
            failures.append({"signature": "h2-not-delivered-after-credit", "seed": seed, "got": len(sess.data.get(1, b"")),
                             "expected": len(exp), "ends": sess.ended.get(1, 0)})
    elif release == "reset":
        sess.reset_stream(1)
    elif release == "eof":
        sess.eof()
    elif release == "write-error":
        sess.rig.transport.fail_after = 0
        sess.window_update(1, 10)     # the next write (DATA) fails
        sess.pump()
    sess.pump()
    alive = [n for n in sess.alive() if n.startswith("app")]
    if alive:
        failures.append({"signature": "h2-sender-never-released", "seed": seed, "release": release, "where": where, "alive": alive,
                         "sends_done": len(app1["sends"])})
    elif not app1["finished"]:
        failures.append({"signature": "h2-application-did-not-finish", "seed": seed, "release": release})
    if any(x[0] == "raise" for x in app1["sends"]):
        failures.append({"signature": "h2-send-raised", "seed": seed, "sends": [x for x in app1["sends"] if x[0] == "raise"][:2]})
    if release in ("eof", "write-error"):
        left = [n for n in sess.alive() if n != "reader"]
        if left:
            failures.append({"signature": "h2-task-outlives-connection", "seed": seed, "release": release, "alive": left})
    if release in ("reset", "credit", "eof"):
        p = sess.protocol()
        if 1 in getattr(p, "stream_buffers", {}) and len(p.stream_buffers[1].buffer):
            failures.append({"signature": "h2-buffer-retained-after-release", "seed": seed, "release": release})
    errs = sess.errors()
    if errs:
        failures.append({"signature": "h2-task-error", "seed": seed, "errors": errs[:2]})
    return desc, failures


def h2_negative_window(seed):
    """The client lowers SETTINGS_INITIAL_WINDOW_SIZE in the middle of a response: the stream's send window goes negative
    (RFC 9113 6.9.2) - by a little, while data is buffered.  The server holds what it has, the application stays blocked, and
    when credit arrives the response is delivered completely and in order."""
    import h2.settings

    rng = random.Random(seed)
    W = rng.choice([20000, 30000, 65535])
    delta = rng.choice([1, 10, 1000, W // 2])
    m = rng.choice([5000, 16384, 20000])
    nmsgs = rng.choice([8, 20, 40])
    recs = {}

    def make_app(session):
        async def app(scope, receive, send):
            r = recs.setdefault(scope["path"], [])
            await S.scripted_app([big_script(nmsgs, m)], r, session.driver)(scope, receive, send)

        return app

    sess = H2.H2Session([], policy=rng.choice(["fifo", "random"]), seed=seed, client_settings={h2.settings.SettingCodes.INITIAL_WINDOW_SIZE: W},
                        app=make_app, worker=rng.choice(["asyncio", "trio"]))
    sess.auto_ack = False
    desc = {"seed": seed, "carrier": "h2", "where": "negative-window", "release": "credit", "W": W, "delta": delta, "m": m, "nmsgs": nmsgs}
    failures = []
    sess.request(1, path="/s1")
    sess.pump()
    total = m * nmsgs
    got0 = len(sess.data.get(1, b""))
    app1 = recs["/s1"][0]
    sends0 = len(app1["sends"])
    sess.client.update_settings({h2.settings.SettingCodes.INITIAL_WINDOW_SIZE: W - delta})
    sess.flush()
    sess.pump()
    desc["received_before"] = got0
    if len(sess.data.get(1, b"")) != got0:
        failures.append({"signature": "h2-data-sent-at-negative-window", "seed": seed, "desc": desc, "got": len(sess.data.get(1, b""))})
    if total > W + HIGH + 2 * m and (app1["finished"] or len(app1["sends"]) > sends0 + 2):
        failures.append({"signature": "h2-sends-complete-at-negative-window", "seed": seed, "desc": desc, "sends_before": sends0,
                         "sends_now": len(app1["sends"]), "finished": app1["finished"]})
    sess.auto_ack = True
    sess.window_update(0, total + 100000)
    try:
        sess.window_update(1, total + 100000)
    except Exception:  # noqa: BLE001  (the response was small enough to have been delivered already: the stream is closed)
        sess.flush()
    for _ in range(80):
        sess.pump()
        if sess.ended.get(1) or sess.reset.get(1) is not None:
            break
    exp = b"".join(HS.genb(m, i % 256) for i in range(nmsgs))
    if sess.data.get(1, b"") != exp or sess.ended.get(1, 0) != 1 or 1 in sess.reset:
        failures.append({"signature": "h2-not-delivered-after-negative-window", "seed": seed, "desc": desc, "got": len(sess.data.get(1, b"")),
                         "expected": len(exp), "ends": sess.ended.get(1, 0), "reset": sess.reset.get(1)})
    if not app1["finished"] or any(x[0] == "raise" for x in app1["sends"]):
        failures.append({"signature": "h2-application-disturbed-by-negative-window", "seed": seed, "desc": desc})
    return desc, failures


def h1_pressure(seed):
    """HTTP/1: the transport is paused while the application sends."""
    from . import rig as R

    rng = random.Random(seed)
    m = rng.choice([10, 5000, 70000])
    nmsgs = rng.choice([3, 10])
    release = rng.choice(["resume", "close", "write-error"])
    policy = rng.choice(["fifo", "random"])
    records = []
    driver = S.Driver(seed=seed, policy=policy)
    cfg = R.make_config(())
    cfg._log = R.RecLog([])
    app = S.scripted_app([big_script(nmsgs, m)], records, driver)
    rig = S.ProtoRig(app, cfg, driver)
    rig.transport.paused = True
    rig.feed(b"GET / HTTP/1.1\r\nhost: x\r\n\r\n")
    rig.run()
    failures = []
    rec = records[0]
    done = len(rec["sends"])
    desc = {"seed": seed, "carrier": "h11", "m": m, "nmsgs": nmsgs, "release": release, "sends_done_under_pressure": done}
    if done > 1 or rec["finished"]:
        failures.append({"signature": "h1-send-not-blocked-by-paused-transport", "seed": seed, "sends_done": done})
    if release == "resume":
        rig.transport.paused = False
    elif release == "close":
        rig.eof()
        rig.transport.closed = True
    else:
        rig.transport.failed = True
    rig.run()
    if release == "resume":
        # serve to the end
        rig.run()
        if not rec["finished"]:
            failures.append({"signature": "h1-sender-never-released", "seed": seed, "release": release})
        rig.eof()
        rig.run()
    alive = [n for n in driver.alive() if n.startswith("app")]
    if alive or not rec["finished"]:
        failures.append({"signature": "h1-sender-never-released", "seed": seed, "release": release, "alive": alive})
    return desc, failures


def ws_h2_pressure(seed):
    """WebSocket over HTTP/2: messages sent into a closed window."""
    import h2.settings

    from . import wsrig as W

    rng = random.Random(seed)
    m = rng.choice([100, 20000, 50000])
    nmsgs = rng.choice([5, 30])
    release = rng.choice(["credit", "reset", "eof", "wsclose-eof", "wsclose-eof"])
    steps = [("recv",), ("send", {"type": "websocket.accept"})]
    for i in range(nmsgs):
        steps.append(("send", {"type": "websocket.send", "bytes": HS.genb(m, i % 256)}))
    steps.append(("send", {"type": "websocket.close", "code": 1000}))
    ws = W.WsSession("h2", steps, policy=rng.choice(["fifo", "random"]), seed=seed)
    failures = []
    # shrink the stream window to zero before opening
    ws.h2c.update_settings({h2.settings.SettingCodes.INITIAL_WINDOW_SIZE: 0})
    ws.rig.feed(ws.h2c.data_to_send())
    ws.rig.run()
    ws._pump_h2()
    import h2.events

    # take over pumping without acknowledging data
    ws.h2c.send_headers(1, ws.request_headers, end_stream=False)
    ws.rig.feed(ws.h2c.data_to_send())
    ws.rig.run()
    p = ws.rig.protocol.protocol
    buffered = max([len(b.buffer) for b in p.stream_buffers.values()] or [0])
    rec = ws.app()
    desc = {"seed": seed, "carrier": "ws-h2", "m": m, "nmsgs": nmsgs, "release": release, "buffered": buffered,
            "sends_done_under_pressure": len(rec["sends"]) if rec else None}
    # wsproto adds a frame header of at most 10 bytes to each message
    if buffered >= HIGH + 2 * (m + 10):
        failures.append({"signature": "ws-h2-buffer-exceeds-bound", "seed": seed, "buffered": buffered, "m": m})
    if m * nmsgs >= HIGH + 2 * (m + 10) and rec and rec["finished"]:
        failures.append({"signature": "ws-h2-send-not-blocked", "seed": seed})
    if release == "credit":
        ws.h2c.increment_flow_control_window(m * nmsgs + 100000, 1)
        ws.h2c.increment_flow_control_window(m * nmsgs + 100000, None)
        ws.rig.feed(ws.h2c.data_to_send())
        for _ in range(60):
            ws.rig.run()
            ws._pump_h2()
    elif release == "reset":
        ws.h2c.reset_stream(1)
        ws.rig.feed(ws.h2c.data_to_send())
    elif release == "wsclose-eof":
        # the client's own close frame detaches the stream from the protocol while its buffer still holds what the window
        # did not let through; then the client goes away: the connection's end must release whoever still waits on that buffer
        from wsproto.connection import Connection, ConnectionType
        from wsproto.events import CloseConnection

        try:
            ws.h2c.send_data(1, Connection(ConnectionType.CLIENT).send(CloseConnection(code=1000)))
            ws.rig.feed(ws.h2c.data_to_send())
            ws.rig.run()
        except Exception:  # noqa: BLE001
            pass
        ws.rig.eof()
    else:
        ws.rig.eof()
    ws.rig.run()
    alive = [n for n in ws.driver.alive() if n.startswith("app")]
    if alive:
        # F49: the reader itself is parked in StreamBuffer.push with the echo of the client's close frame (the buffer is at
        # its high-water mark), so the end of the connection is never read
        reader_parked = any(t.name == "reader" and not t.done and t.waiting is not None and t.waiting.label == "event" for t in ws.driver.tasks)
        sig = "F49:reader-parked-in-push" if release == "wsclose-eof" and reader_parked else "ws-h2-sender-never-released"
        failures.append({"signature": sig, "seed": seed, "release": release, "alive": alive})
    if release == "credit":
        got = [e for e in ws.events if e[0] == "bytes"]
        total = sum(len(e[1]) for e in got)
        if total != m * nmsgs:
            failures.append({"signature": "ws-h2-not-delivered-after-credit", "seed": seed, "got": total, "expected": m * nmsgs})
    return desc, failures


def pressure_biased_case(seed):
    """Correspondence schedule biased towards pressure: tiny windows, big bodies."""
    return HS.gen_case(seed)


def worker_pressure(seed):
    """HTTP/1 through the real TCPServer of both workers (virtual time): the client stops reading in the middle of a
    response, the application's send parks in the worker's own write path (drain / send_all); then the pressure abates or
    the connection ends (the client resumes, sends EOF, resets, or sends what makes the server close).  The waiting send
    returns promptly and the application and the connection handler finish."""
    from . import c16
    from . import rworker as W
    from .c07 import make_cfg

    rng = random.Random(seed)
    release = rng.choice(["resume", "eof", "reset", "garbage"])
    size = rng.choice([5000, 70000, 300000])
    hold = rng.choice([0.5, 2.0])
    steps = [("send", {"type": "http.response.start", "status": 200, "headers": []}),
             ("send", {"type": "http.response.body", "body": b"first", "more_body": True}), ("sleep", 1.0),
             ("send", {"type": "http.response.body", "body": b"x" * size, "more_body": True}),
             ("send", {"type": "http.response.body", "body": b"last", "more_body": False})]
    script = [("send", b"POST /u HTTP/1.1\r\nHost: x\r\nTransfer-Encoding: chunked\r\n\r\n3\r\nabc\r\n"), ("sleep", 0.5), ("stall",),
              ("sleep", 0.5 + hold)]
    script += {"resume": [("unstall",)], "eof": [("eof",)], "reset": [("reset",)], "garbage": [("send", b"zz\r\n")]}[release]
    script += [("sleep", 3.0)]
    t_release = 1.0 + hold
    desc = {"carrier": "h1-worker", "where": "mid", "release": release, "size": size, "hold": hold}
    fails = []
    for backend, run in (("asyncio", W.run_asyncio), ("trio", W.run_trio)):
        res = run(c16.scripted([steps]), make_cfg(30.0), script, tail=60.0)
        app = res["app"][0] if res["app"] else None
        if app is None:
            fails.append({"signature": "worker-pressure:no-application", "backend": backend, "desc": desc})
            continue
        if app.get("end") is None or app["end"] > t_release + 0.5:
            fails.append({"signature": "waiting-send-not-released:" + release, "backend": backend, "desc": desc, "sends": app["sends"],
                          "application_ended": app.get("end"), "released_at": t_release, "leftovers": res["leftovers"]})
        elif res["handler_done"] is None or res["leftovers"]:
            fails.append({"signature": "handler-not-finished-after-release:" + release, "backend": backend, "desc": desc,
                          "leftovers": res["leftovers"], "error": res["handler_error"]})
        elif release == "resume":
            data = b"".join(d for _, k, d in res["events"] if k == "data" and d)
            if data.count(b"x") < size or not data.endswith(b"0\r\n\r\n"):
                fails.append({"signature": "response-not-delivered-after-resume", "backend": backend, "desc": desc, "bytes": len(data)})
    return desc, fails


def wsgi_pressure(backend):
    """A WSGI application (its iterable is consumed in a worker thread) streams a large response to a client that reads
    nothing, over real sockets: the thread's sends wait like any other, the iterable is not run to its end."""
    import socket
    import time

    from . import c14

    produced = {"n": 0}
    total = 400          # x 64 KiB = 25 MiB

    def app(environ, start_response):
        start_response("200 OK", [("Content-Type", "application/octet-stream")])

        def gen():
            for _ in range(total):
                produced["n"] += 1
                yield b"x" * 65536

        return gen()

    sv = c14.Served(backend, app, _mode="wsgi", graceful_timeout=0.5, shutdown_timeout=0.5)
    first = sv.wait_listening()
    desc = {"carrier": "h1-wsgi", "where": "mid", "release": "client-leaves", "backend": backend}
    if first is None:
        return desc, [{"signature": "harness:never-listening", "backend": backend, "error": repr(sv.result["error"])}]
    first.close()
    s = socket.socket()
    s.setsockopt(socket.SOL_SOCKET, socket.SO_RCVBUF, 4096)
    s.connect(("127.0.0.1", sv.port))
    s.sendall(b"GET / HTTP/1.1\r\nHost: x\r\n\r\n")       # ... and reads nothing
    time.sleep(1.0)
    stalled_at = produced["n"]
    time.sleep(0.3)
    fails = []
    desc["chunks_produced_while_stalled"] = produced["n"]
    if produced["n"] >= total or produced["n"] != stalled_at:
        fails.append({"signature": "wsgi-sends-not-held-back", "backend": backend, "desc": dict(desc),
                      "what": f"{produced['n']} of {total} chunks of 64 KiB produced for a client that reads nothing"})
    s.close()
    sv.stop(5.0)
    return desc, fails


def run(ctx):
    n = ctx.scale(64, 640, 200)
    base = ctx.seed * 100000 + 50000
    cases, stats = [], []
    for i in range(n):
        term, exp, st, _rig = HS.gen_case(base + i)
        cases.append((term, exp))
        stats.append(st)
    disagreements, err = [], None
    if ctx.mode != "search":
        failing, err = C.coq_failing(PROP, HS.PREAMBLE, HS.INPUT_TY, HS.FUN, cases, shard=32, jobs=16)
        for k in failing[:3]:
            shown = C.coq_show(PROP, HS.PREAMBLE, HS.FUN, cases[k][0])
            try:
                d = C.first_diff(C.parse_val(shown), C.parse_val("= " + cases[k][1] + " : val"))
            except Exception:  # noqa: BLE001
                d = None
            disagreements.append({"seed": base + k, "input": cases[k][0][:3000], "first_difference(model,real)": repr(d)[:1500]})
        disagreements.extend({"seed": base + k} for k in failing[3:30])
    oracle_failures = []
    descs = []
    m = ctx.scale(240, 1500, 500)
    for i in range(m):
        d, f = h2_pressure(ctx.seed * 7919 + i)
        descs.append(d)
        oracle_failures.extend(f)
    for i in range(ctx.scale(80, 400, 150)):
        d, f = h1_pressure(ctx.seed * 7919 + i)
        descs.append(d)
        oracle_failures.extend(f)
    for i in range(ctx.scale(80, 300, 100)):
        d, f = ws_h2_pressure(ctx.seed * 7919 + i)
        descs.append(d)
        oracle_failures.extend(f)
    for i in range(ctx.scale(40, 300, 100)):
        d, f = h2_negative_window(ctx.seed * 7919 + i)
        descs.append(d)
        oracle_failures.extend(f)
    for backend in ("asyncio", "trio"):
        d, f = wsgi_pressure(backend)
        descs.append(d)
        oracle_failures.extend(f)
    for i in range(ctx.scale(24, 160, 60)):
        d, f = worker_pressure(ctx.seed * 7919 + i)
        descs.append(d)
        oracle_failures.extend(f)
    dist = {"correspondence_cases": len(cases), "pressure_sessions": len(descs)}
    for d in descs:
        key = f"{d.get('carrier', 'h2')}:{d.get('where', '-')}:{d['release']}"
        dist[key] = dist.get(key, 0) + 1
    dist["max_buffered_seen"] = max([d.get("max_buffered", 0) for d in descs] or [0])
    return {
        "evaluations": len(cases) + len(descs),
        "distinct_nontrivial": len({c[0] for c in cases}) + len({repr(sorted(d.items())) for d in descs}),
        "rule": "correspondence as for C09 (other seeds).  Pressure sessions: HTTP/2 with the stream window closed, body messages of "
                "1..100000 bytes, 1..400 of them, pressure held mid-body or on the final end-of-body drain, released by credit / "
                "RST_STREAM / EOF / a failing write, under fifo / lifo / random scheduling, with a sibling stream that must complete; "
                "HTTP/1 with the transport paused, released by resume / close / write failure; WebSocket over HTTP/2 likewise.  "
                "Measured: bytes buffered per stream, sends completed under pressure, tasks alive at quiescence.",
        "samples": descs[:2] + descs[-1:],
        "disagreements": disagreements,
        "oracle_failures": oracle_failures,
        "model_eval_error": err,
        "distribution": dist,
        "assumptions": ["asyncio/trio transport buffering (writer.drain high-water marks, send_all) is the runtime's: the rig models a "
                        "paused transport as 'the write is accepted and the writer then waits'",
                        "fair scheduling"],
    }


def known_still_fails(k):
    if k.get("signature", "").startswith("F49:"):
        for seed in (6, 7, 10, 11):
            d, f = ws_h2_pressure(seed)
            if d["release"] == "wsclose-eof" and any(x["signature"].startswith("F49:") for x in f):
                return f"ws-h2 pressure session {seed}: the application is still waiting after the client's close frame and EOF"
        return None
    return None


def replay(data):
    print(data)
    return 0
