"""C12: invalid application messages are rejected without corrupting the wire.
(a) stream-level correspondence of HTTPStream / WSStream with coq/model (StreamRig) on message
    sequences with valid and invalid payloads;
(b) implementation-side oracle: reference automaton of the ASGI specification (asgi_ref.py);
(c) protocol-level wire oracle through the real H11Protocol / H2Protocol under the R-proto driver,
    parsed by independent h11 / h2 client state machines."""
from __future__ import annotations

import itertools

from . import asgi_ref as A
from . import common as C
from . import rig as R
from . import sched as S
from . import streams as ST

PROP = "C12"


# ------------------------------------------------------------------ (a)+(b) stream level
def oracle_http(case, obs):
    names, ssl, reacts, auto, inputs = case
    fails = []
    if reacts or not auto:
        return fails
    if not any(o[0] == "spawn_app" for o in obs[0][0]):
        return fails
    ref = A.HttpRef(inputs[0][2])
    finals = 0
    for i, o in zip(inputs[1:], obs[1:]):
        outs, res = o
        finals += sum(1 for x in outs if x[0] == "send" and x[2][0] == "Response" and x[2][1] >= 200)
        for x in outs:
            if x[0] == "send" and x[2][0] in ("Response", "Info", "Trailers", "Request"):
                hs = x[2][2] if x[2][0] in ("Response", "Info") else x[2][1]
                for n, v in hs:
                    if any(c in n or c in v for c in (b"\x00", b"\r", b"\n")):
                        fails.append({"what": f"CR/LF/NUL in emitted header {n!r}: {v!r}", "signature": "stream:ctl-in-header"})
        if i[0] == "closed":
            break
        if i[0] != "app" or i[1] is None:
            if i[0] == "app":
                break
            continue
        m = i[1]
        if ref.valid(m):
            if res[0] == "ok":
                ref.advance(m)
            continue  # a valid message refused for its payload leaves the state unchanged
        sent = [x for x in outs if x[0] == "send"]
        if res[0] != "raise" or sent:
            fails.append({"what": f"invalid message {m!r} in state {ref.state}: result {res}, emitted {sent}",
                          "signature": A.deviation_signature("http", ref, m)})
            break
    if finals > 1:
        fails.append({"what": f"{finals} final response heads", "signature": "stream:two-final-heads"})
    return fails


def oracle_ws(case, obs):
    names, ssl, maxm, ping, token, ext, sends, reacts, auto, inputs = case
    fails = []
    if reacts or not auto:
        return fails
    if not any(o[0] == "spawn_app" for o in obs[0][0]):
        return fails
    ref = A.WsRef()
    for i, o in zip(inputs[1:], obs[1:]):
        outs, res = o
        if i[0] == "closed" or any(x[0] == "send" and x[2][0] == "StreamClosed" for x in outs):
            break
        if i[0] == "wdata" and ref.state != "open":
            break  # data before the handshake completed: answered 400 and the stream is closed
        if i[0] != "app":
            continue
        if i[1] is None:
            break
        m = i[1]
        if m[0] == "ws.accept" and ref.valid(m) and res[0] == "raise":
            break  # a valid accept refused for an un-offered subprotocol etc.: the spec leaves the state open
        if ref.valid(m):
            if res[0] == "ok":
                ref.advance(m)
            continue
        sent = [x for x in outs if x[0] in ("send", "lib")]
        if res[0] != "raise" or [x for x in sent if x[0] == "send"]:
            fails.append({"what": f"invalid message {m!r} in state {ref.state}: result {res}, emitted {sent}",
                          "signature": A.deviation_signature("ws", ref, m)})
            break
    return fails


# ------------------------------------------------------------------ (c) protocol level
ALPHABET = [
    ("start", 200, [], False), ("start", 200, [(("b", b"x-a"), ("b", b"1"))], False), ("start", 204, [], False),
    ("start", 200, [], True), ("start", None, [], False), ("start", 200, [(("s", "x"), ("b", b"v"))], False),
    ("start", 200, [(("b", b"x-v"), ("b", b"a\r\nx-injected: 1"))], False), ("start", 200, [(("b", b":status"), ("b", b"1"))], False),
    ("start", 200, [(("b", b"x-i"), ("i", 4))], False), ("start", 200, [(("b", b"x-nul"), ("b", b"a\x00b"))], False),
    ("start", 200, [(("b", b"x\ny"), ("b", b"v"))], False),
    ("body", ("b", b"hello"), True), ("body", ("b", b"x"), False), ("body", ("b", b""), False), ("body", ("s", "str"), False),
    ("trailers", [(("b", b"x-t"), ("b", b"1"))], False), ("trailers", [(("b", b"x-t"), ("b", b"a\nb"))], False),
    ("push", ("s", "/p"), []), ("push", ("b", b"/p"), []), ("push", ("s", "/p"), [(("b", b"x"), ("b", b"a\rb"))]),
    ("hint", [("b", b"</a>; rel=preload")]), ("hint", [("b", b"a\r\nx-injected: 1")]), ("hint", [("s", "x")]),
    ("unknown",), ("ws.send", ("b", b"x"), ("n",)),
]


def run_proto(version, msgs, head=False, te=False):
    import h2.config
    import h2.connection

    d = S.Driver()
    cfg = R.make_config()
    out = []
    cfg._log = R.RecLog(out)
    records = []
    holder = {}
    steps = []
    for m in msgs:
        steps.append(("send", R.msg_py(m)))
        steps.append(("mark", lambda: len(holder["rig"].transport.written)))
    app = S.scripted_app([steps], records, d)
    method = "HEAD" if head else "GET"
    if version == "1.1":
        rig = S.ProtoRig(app, cfg, d)
        holder["rig"] = rig
        rig.feed(f"{method} /x HTTP/1.1\r\nhost: example.com\r\n\r\n".encode())
        client = None
    else:
        rig = S.ProtoRig(app, cfg, d, alpn="h2", ssl=True)
        holder["rig"] = rig
        client = h2.connection.H2Connection(h2.config.H2Configuration(client_side=True, header_encoding=None))
        client.initiate_connection()
        hs = [(b":method", method.encode()), (b":path", b"/x"), (b":scheme", b"https"), (b":authority", b"example.com")]
        if te:
            hs.append((b"te", b"trailers"))
        client.send_headers(1, hs, end_stream=True)
        rig.feed(client.data_to_send())
        rig.run()
        # acknowledge the server's settings so later bytes parse
        base = len(rig.transport.written)
    status = rig.run()
    wire = bytes(rig.transport.written)
    rec = records[0] if records else {"sends": [], "marks": []}
    return rig, client, wire, rec, d, status


def wire_check(version, client, wire, head):
    """Parse what the server wrote with an independent client; returns (finals, problems)."""
    import h11
    import h2.events
    import h2.exceptions

    problems = []
    finals = 0
    if version == "1.1":
        c = h11.Connection(h11.CLIENT)
        c.send(h11.Request(method="HEAD" if head else "GET", target="/x", headers=[("host", "example.com")]))
        c.send(h11.EndOfMessage())
        c.receive_data(wire)
        try:
            while True:
                ev = c.next_event()
                if ev is h11.NEED_DATA or ev is h11.PAUSED or isinstance(ev, h11.ConnectionClosed):
                    break
                if isinstance(ev, (h11.Response, h11.InformationalResponse)):
                    if isinstance(ev, h11.Response):
                        finals += 1
                    if any(n == b"x-injected" for n, _ in ev.headers):
                        problems.append("wire:header-injection")
                if isinstance(ev, h11.EndOfMessage):
                    if c.trailing_data[0]:
                        problems.append("wire:h11:bytes-after-complete-response")
                    break
        except h11.RemoteProtocolError as e:
            problems.append("wire:h11:invalid-prefix")
        if b"\r\nx-injected" in wire:
            problems.append("wire:header-injection")
    else:
        try:
            evs = client.receive_data(wire)
        except h2.exceptions.ProtocolError:
            problems.append("wire:h2:protocol-error")
            evs = []
        for ev in evs:
            if isinstance(ev, h2.events.ResponseReceived) and ev.stream_id == 1:
                finals += 1
            if isinstance(ev, (h2.events.ResponseReceived, h2.events.InformationalResponseReceived, h2.events.TrailersReceived,
                               h2.events.PushedStreamReceived)):
                for n, v in ev.headers:
                    if n == b"x-injected" or any(c in v for c in (b"\r", b"\n", b"\x00")):
                        problems.append("wire:header-injection")
    return finals, problems


def proto_case(version, msgs, head, te):
    rig, client, wire, rec, d, status = run_proto(version, msgs, head, te)
    fails = []
    ref = A.HttpRef("1.1" if version == "1.1" else "2")
    marks = rec.get("marks", [])
    sends = rec.get("sends", [])
    case = {"kind": "proto", "version": version, "head": head, "te": te, "msgs": msgs, "sends": sends, "marks": marks, "wire_len": len(wire)}
    tainted = None
    base = case.setdefault("base", None)
    for k, m in enumerate(msgs):
        if k >= len(sends) or k >= len(marks):
            break
        before = marks[k - 1] if k > 0 else None
        if ref.valid(m):
            if sends[k][0] == "ok":
                ref.advance(m)
        else:
            sig = A.deviation_signature("http", ref, m)
            if sends[k][0] != "raise":
                fails.append({"case": case, "what": f"invalid {m!r} (state {ref.state}) accepted", "signature": sig})
                tainted = sig
                break
            if before is not None and marks[k] != before:
                if sig == "asgi:trailers-before-start":
                    fails.append({"case": case, "what": f"invalid {m!r} raised but put {marks[k] - before} bytes on the wire", "signature": sig})
                    tainted = sig
                    break
                fails.append({"case": case, "what": f"invalid {m!r} put {marks[k] - before} bytes on the wire", "signature": "wire:bytes-after-invalid"})
            if sig == "asgi:trailers-before-start":
                tainted = sig  # the first mark cannot be compared; the branch may have written before raising
    finals, problems = wire_check(version, client, wire, head)
    if finals > 1:
        problems.append("wire:two-final-heads")
    for p in sorted(set(problems)):
        fails.append({"case": case, "what": p, "signature": tainted or p})
    errs = [(n, repr(e)) for n, e in d.errors() if not n.startswith("app")]
    if errs:
        fails.append({"case": case, "what": f"task error {errs}", "signature": "proto:task-error"})
    case["finals"] = finals
    return case, fails


def run(ctx):
    rng = ctx.rng
    n_stream = ctx.scale(700, 8000, 3000)
    cases, metas, oracle_failures = [], [], []
    for i in range(n_stream):
        c = ST.http_case(rng)
        obs = ST.run_http_case(*c)
        cases.append((ST.http_case_term(*c), C.V(obs)))
        meta = {"kind": "http-stream", "inputs": c[4], "reacts": c[2], "names": c[0], "obs": obs}
        metas.append(meta)
        for f in oracle_http(c, obs):
            f["case"] = meta
            oracle_failures.append(f)
    for i in range(n_stream):
        c = ST.ws_case(rng)
        obs = ST.run_ws_case(c[0], c[1], c[2], c[3], c[5], list(c[6]), list(c[7]), c[8], c[9])
        cases.append((ST.ws_case_term(*c), C.V(obs)))
        meta = {"kind": "ws-stream", "inputs": c[9], "reacts": c[7], "names": c[0], "obs": obs}
        metas.append(meta)
        for f in oracle_ws(c, obs):
            f["case"] = meta
            oracle_failures.append(f)
    # exhaustive short sequences over a reduced alphabet (stream level, quick: length 2, thorough: 3)
    alpha = [ALPHABET[i] for i in (0, 3, 5, 6, 11, 12, 14, 15, 17, 20, 23)]
    L = ctx.scale(2, 3, 2)
    n_exh = 0
    for version, te in (("1.1", False), ("2", True), ("2", False)):
        for seq in itertools.product(alpha, repeat=L):
            req = ("request", [(b"host", b"example.com")] + ([(b"te", b"trailers")] if te else []), version, "GET", b"/")
            c = ([], False, [], True, [req] + [("app", m) for m in seq])
            obs = ST.run_http_case(*c)
            n_exh += 1
            cases.append((ST.http_case_term(*c), C.V(obs)))
            meta = {"kind": "http-stream-exhaustive", "inputs": c[4], "obs": obs}
            metas.append(meta)
            for f in oracle_http(c, obs):
                f["case"] = meta
                oracle_failures.append(f)
    # protocol level
    n_proto = ctx.scale(250, 3000, 1200)
    proto_meta = []
    for i in range(n_proto):
        version = "1.1" if i % 2 == 0 else "2"
        msgs = [rng.choice(ALPHABET) for _ in range(rng.randint(1, 5))]
        if rng.random() < 0.5:
            msgs.insert(0, rng.choice(ALPHABET[:4]))
        case, fails = proto_case(version, msgs, rng.random() < 0.15, rng.random() < 0.5)
        proto_meta.append(case)
        oracle_failures.extend(fails)
    disagreements, err = [], None
    if ctx.mode != "search":
        failing, err = C.coq_failing(PROP, ST.PREAMBLE, ST.INPUT_TY, ST.FUN, cases)
        for k in failing[:5]:
            disagreements.append({"case": metas[k], "model": C.coq_show(PROP, ST.PREAMBLE, ST.FUN, cases[k][0])[-1500:]})
        disagreements.extend({"case": metas[k]} for k in failing[5:40])
    dist = {"http_stream_sequences": n_stream, "ws_stream_sequences": n_stream, "exhaustive_http_sequences": n_exh,
            "protocol_level_runs": n_proto,
            "proto_runs_with_final_response": sum(1 for c in proto_meta if c["finals"] == 1),
            "proto_sends_raised": sum(1 for c in proto_meta for s in c["sends"] if s[0] == "raise"),
            "proto_sends_ok": sum(1 for c in proto_meta for s in c["sends"] if s[0] == "ok")}
    distinct = len({repr(m["obs"]) for m in metas}) + len({repr((c["sends"], c["marks"])) for c in proto_meta})
    return {
        "evaluations": len(cases) + n_proto,
        "distinct_nontrivial": distinct,
        "rule": "random ASGI send sequences (valid and invalid payloads: str/int/None names and values, pseudo headers, "
                "CR/LF/NUL, wrong states, unknown types) against HTTPStream and WSStream call by call, plus all sequences of "
                f"length {L} over an 11-letter alphabet for HTTP/1.1 and HTTP/2 with and without te: trailers, plus protocol-"
                "level runs through the real H11Protocol/H2Protocol whose wire output is parsed by independent h11/h2 clients. "
                "distinct = distinct observation traces.",
        "samples": [metas[0], metas[n_stream], proto_meta[0], proto_meta[-1]],
        "disagreements": disagreements,
        "oracle_failures": oracle_failures,
        "model_eval_error": err,
        "distribution": dist,
        "assumptions": ["h11 rejects field bytes outside the HTTP/1.1 grammar (its contract); h2 does not check outbound field contents",
                        "wsproto connection replaced by a scripted fake at the stream level"],
    }


WITNESS = {
    "asgi:trailers-before-start": ("2", [("trailers", [(("b", b"x-t"), ("b", b"1"))], False)], True),
    "asgi:push-after-completion": ("2", [("start", 200, [], False), ("body", ("b", b"x"), False), ("push", ("s", "/p"), [])], False),
    "asgi:trailers-unexamined-without-te": ("2", [("start", 200, [], True), ("body", ("b", b"x"), False), ("trailers", [(("s", "x"), ("b", b"v"))], False)], False),
    "asgi:int-zero-header-value": ("1.1", [("start", 200, [(("b", b"x-z"), ("i", 0))], False)], False),
}


def known_still_fails(k):
    sig = k.get("signature")
    if sig in WITNESS:
        version, msgs, te = WITNESS[sig]
        req = ("request", [(b"host", b"example.com")] + ([(b"te", b"trailers")] if te else []), version, "GET", b"/")
        c = ([], False, [], True, [req] + [("app", m) for m in msgs])
        obs = ST.run_http_case(*c)
        return any(f["signature"] == sig for f in oracle_http(c, obs))
    if sig == "asgi:ws-denial-start-status-unchecked":
        c = ws_witness([("ws.http.start", None, [])])
        return any(f["signature"] == sig for f in oracle_ws(c, run_ws(c)))
    if sig == "asgi:ws-handshake-message-after-denial-start":
        c = ws_witness([("ws.http.start", 403, []), ("ws.accept", None, [])])
        return any(f["signature"] == sig for f in oracle_ws(c, run_ws(c)))
    if sig == "asgi:ws-send-int-as-bytes":
        c = ws_witness([("ws.accept", None, []), ("ws.send", ("i", 2), ("n",))])
        return any(f["signature"] == sig for f in oracle_ws(c, run_ws(c)))
    return None


def ws_witness(msgs):
    req = ("wrequest", list(ST.VALID_WS), "1.1", b"/")
    return ([], False, 1000, False, ST.accept_token(b"dGhlIHNhbXBsZSBub25jZQ=="), None, [], [], True, [req] + [("app", m) for m in msgs])


def run_ws(c):
    return ST.run_ws_case(c[0], c[1], c[2], c[3], c[5], list(c[6]), list(c[7]), c[8], c[9])


def replay(data):
    print(data)
    return 0
