"""C05: application failures are contained."""
from . import h1checks as K

PROP = "C05"


def kw(rng, i):
    return {"max_requests": None, "queue_size": rng.choice([None, 10]), "policy": rng.choice(["fifo", "random", "lifo"]), "crashes": True, "worker": rng.choice(["asyncio", "trio"])}


def run(ctx):
    return K.run_common(ctx, PROP, ["c05", "c06"], (200, 2500, 800), (300, 3000, 1000), (350, 5000, 2000), kw,
                        "application scripts that raise or return at every point (before reading, before/after the response start, "
                        "mid-body) crossed with keep-alive pipelines; the client-side h11 parser must see a 500 or a visibly "
                        "incomplete response, never a complete one, and nothing more may be served on the connection.",
                        extra=K.h2_extra(["c05", "c02"], (150, 2500, 800), crashes=True))


def known_still_fails(k):
    if k.get("signature") == "F14:app-queue-full-deadlock":
        from .c06 import f14_witness

        return f14_witness()
    return None


def replay(data):
    print(data)
    return 0
