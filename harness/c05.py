"""C05: application failures are contained."""
from . import h1checks as K

PROP = "C05"


def kw(rng, i):
    return {"max_requests": None, "queue_size": rng.choice([None, 10]), "policy": rng.choice(["fifo", "random", "lifo"]), "crashes": True, "worker": rng.choice(["asyncio", "trio"])}


def real_task_groups(ctx):
    """The real TaskGroup of both workers (the rig's applications run under the asyncio _handle wrapper only): an application
    that fails - directly or from a child task of its own task group, so that the server sees an exception group - gets a
    500 when nothing was sent yet, its connection is closed, the handler ends without an error, and the server lives on."""
    from . import c16
    from . import rig as R
    from . import rworker as W

    fails, n = [], 0
    start = ("send", {"type": "http.response.start", "status": 200, "headers": []})
    part = ("send", {"type": "http.response.body", "body": b"part", "more_body": True})
    for how in ("raise", "raise-nested", "raise-cancelled"):
        for when in ("before-start", "after-start", "mid-body"):
            steps = [("recv_all",)] + {"before-start": [], "after-start": [start], "mid-body": [start, part]}[when] + [(how,)]
            script = [("send", b"GET /a HTTP/1.1\r\nHost: x\r\n\r\n"), ("sleep", 1.0)]
            for backend, run in (("asyncio", W.run_asyncio), ("trio", W.run_trio)):
                cfg = R.make_config(())
                logged = []
                cfg._log = R.RecLog(logged)
                cfg.keep_alive_timeout = 5.0
                res = run(c16.scripted([steps]), cfg, script, tail=30.0)
                n += 1
                obs = c16.normalise(res, None)
                case = {"kind": "real-task-group", "backend": backend, "how": how, "when": when, "wire": repr(obs["wire"][:80]),
                        "handler_error": obs["handler_error"], "closed_at": obs["closed_at"]}
                if obs["handler_error"] is not None or obs["leftovers"]:
                    fails.append({"case": case, "what": f"the application's failure left the connection handler with {obs['handler_error']!r}",
                                  "signature": "c05:failure-escapes-the-connection"})
                elif ["log.exception"] not in logged and not (how == "raise-cancelled" and backend == "asyncio"):
                    fails.append({"case": case, "what": "the application's failure was not logged", "signature": "c05:logged"})
                elif when == "before-start" and not obs["wire"].startswith(b"HTTP/1.1 500 "):
                    fails.append({"case": case, "what": "no 500 for an application that failed before responding", "signature": "c05:no-500"})
                elif when != "before-start" and (obs["wire"].endswith(b"0\r\n\r\n") or obs["closed_at"] is None):
                    fails.append({"case": case, "what": "a response cut short by the application's failure looks complete or the connection stays open",
                                  "signature": "c05:false-complete"})
    return fails, n


def wsgi_failures(ctx):
    """A WSGI application that raises (in the call, or while its iterable is consumed, before or after the first chunk)
    through the real middleware of both workers: the ASGI side must see the failure - an exception, and no terminating body
    message after it - so that the server answers 500 or cuts the response short."""
    import random

    from . import c17

    rng = random.Random(ctx.seed * 31337 + 5)
    fails, n = [], 0
    for i in range(ctx.scale(60, 600, 200)):
        shape = c17.gen_shape(rng)
        if not (any(s[0] == "raise" for s in shape.call) or any(s[0] == "raise" for s in shape.it)):
            continue
        sc = c17.gen_scope(rng)
        sc["root_path"] = ""
        worker = "asyncio" if i % 2 == 0 else "trio"
        rec, sent, raised = c17.run_shape(worker, shape, sc, [{"type": "http.request", "body": b"", "more_body": False}], 1000, separate=i % 3 == 0)
        n += 1
        case = {"kind": "wsgi-failure", "worker": worker, "shape": shape.describe(), "sent": [m["type"] + ":" + str(m.get("more_body")) for m in sent]}
        if not raised:
            fails.append({"case": case, "what": "the WSGI application raised but the failure did not reach the server", "signature": "c05:wsgi-failure-swallowed"})
        elif sent and sent[-1]["type"] == "http.response.body" and not sent[-1].get("more_body"):
            fails.append({"case": case, "what": "the response of a failed WSGI application was completed all the same", "signature": "c05:wsgi-complete-after-failure"})
    return fails, n


def h2_failed_behind_window(ctx):
    """HTTP/2: the application fails after sending more body than the client's window lets through.  What was sent is
    flushed as the client grants credit, and the stream is then reset - the client is not left waiting."""
    import random

    import h2.settings

    from . import h2rig as H2
    from . import sched as S

    rng = random.Random(ctx.seed * 77 + 1)
    fails, n = [], ctx.scale(12, 120, 40)
    for i in range(n):
        W = rng.choice([10, 100, 5000])
        size = W + rng.choice([1, 90, 4000])
        how = rng.choice(["raise", "return"])
        script = [("recv_all",), ("send", {"type": "http.response.start", "status": 200, "headers": []}),
                  ("send", {"type": "http.response.body", "body": b"z" * size, "more_body": True}), (how,)]
        sess = H2.H2Session([script], policy=rng.choice(["fifo", "random"]), seed=i, client_settings={h2.settings.SettingCodes.INITIAL_WINDOW_SIZE: W},
                            worker=rng.choice(["asyncio", "trio"]))
        sess.auto_ack = False
        sess.request(1, path="/fail")
        sess.pump()
        before = len(sess.data.get(1, b""))
        sess.auto_ack = True
        try:
            sess.window_update(1, size + 1000)
        except Exception:  # noqa: BLE001
            sess.flush()
        for _ in range(20):
            sess.pump()
        case = {"kind": "h2-failed-behind-window", "window": W, "body": size, "how": how, "received_before_credit": before,
                "received": len(sess.data.get(1, b"")), "reset": sess.reset.get(1), "ended": sess.ended.get(1, 0)}
        if sess.ended.get(1, 0):
            fails.append({"case": case, "what": "the failed response was ended as if complete", "signature": "c05h2:false-complete"})
        elif 1 not in sess.reset:
            fails.append({"case": case, "what": "the failed stream was neither reset nor ended after the client granted credit", "signature": "c05h2:failed-stream-not-terminated"})
    return fails, n


def run(ctx):
    h2x = K.h2_extra(["c05", "c02"], (150, 2500, 800), crashes=True)

    def extra(c):
        r = h2x(c)
        f, n = real_task_groups(c)
        r["failures"] = list(r["failures"]) + f
        r["count"] += n
        r["dist"]["real_task_group_sessions"] = n
        f, n = wsgi_failures(c)
        r["failures"] = list(r["failures"]) + f
        r["count"] += n
        r["dist"]["wsgi_failures"] = n
        f, n = h2_failed_behind_window(c)
        r["failures"] = list(r["failures"]) + f
        r["count"] += n
        r["dist"]["h2_failed_behind_window"] = n
        return r

    return K.run_common(ctx, PROP, ["c05", "c06"], (200, 2500, 800), (300, 3000, 1000), (350, 5000, 2000), kw,
                        "application scripts that raise or return at every point (before reading, before/after the response start, "
                        "mid-body) crossed with keep-alive pipelines; the client-side h11 parser must see a 500 or a visibly "
                        "incomplete response, never a complete one, and nothing more may be served on the connection.",
                        extra=extra)


def known_still_fails(k):
    if k.get("signature") == "F14:app-queue-full-deadlock":
        from .c06 import f14_witness

        return f14_witness()
    return None


def replay(data):
    print(data)
    return 0
