"""R-worker: the real per-connection server classes of both workers
(hypercorn.asyncio.tcp_server.TCPServer on a virtual-time asyncio loop with an in-memory
reader/writer; hypercorn.trio.tcp_server.TCPServer under trio's MockClock with an in-memory stream),
their real TaskGroup, WorkerContext, SingleTask and EventWrapper classes, driven by the same timed
client script and the same application behaviour.  Used by C07 (idle timer) and C16 (equivalence)."""
from __future__ import annotations

import asyncio
import socket as _socket


class Quiescent(Exception):
    pass


# ------------------------------------------------------------------ scenario
# client script: list of steps
#   ("send", bytes) ("sleep", seconds) ("eof",) ("reset",) ("terminate",)  -- terminate = context.terminated.set()
# application: async def app(scope, receive, send, sleep)   (sleep is the backend's sleep)
# result: dict(events=[(t, kind, payload)], app=[...records...], handler_done=t|None, closed_at=t|None, leftovers=[...])


SOCK = {"family": _socket.AF_INET, "peer": ("10.0.0.1", 4321), "name": ("10.0.0.2", 443)}     # what the servers' socket reports


class FakeSock:
    @property
    def family(self):
        return SOCK["family"]

    def getpeername(self):
        return SOCK["peer"]

    def getsockname(self):
        return SOCK["name"]


class FakeSSLObject:
    def __init__(self, alpn):
        self.alpn = alpn

    def selected_alpn_protocol(self):
        return self.alpn


def _trace(server, result, now):
    """Record what the protocol tells the server (Updated / Closed) and when reading ends (instance-level wrappers)."""
    from hypercorn.events import Closed, Updated

    result["trace"] = trace = []
    orig_send = server.protocol_send
    orig_read = server._read_data

    async def protocol_send(event):
        if isinstance(event, Updated):
            trace.append((now(), "idle" if event.idle else "busy"))
        elif isinstance(event, Closed):
            trace.append((now(), "closed"))
        await orig_send(event)

    async def _read_data():
        try:
            await orig_read()
        finally:
            trace.append((now(), "read-done"))

    server.protocol_send = protocol_send
    server._read_data = _read_data


# ------------------------------------------------------------------ asyncio
class VirtualLoop(asyncio.SelectorEventLoop):
    def __init__(self):
        super().__init__()
        self._vt = 0.0

    def time(self):
        return self._vt

    def _run_once(self):
        if not self._ready:
            # drop cancelled timers at the head, then jump to the next deadline
            while self._scheduled and self._scheduled[0]._cancelled:
                import heapq

                h = heapq.heappop(self._scheduled)
                h._scheduled = False
            if self._scheduled:
                when = self._scheduled[0]._when
                if when > self._vt:
                    self._vt = when
            else:
                raise Quiescent()
        super()._run_once()


class FakeWriter:
    def __init__(self, loop, reader, alpn, log):
        self.loop = loop
        self.reader = reader
        self.alpn = alpn
        self.log = log
        self.closed = False
        self.fail = False
        self.paused = None      # asyncio.Event when paused
        self.eof_written = False

    def get_extra_info(self, name, default=None):
        if name == "socket":
            return FakeSock()
        if name == "ssl_object":
            return FakeSSLObject(self.alpn) if self.alpn else None
        return default

    def write(self, data):
        if self.fail or self.closed:
            raise ConnectionResetError("peer gone")
        self.log.append((self.loop.time(), "data", bytes(data)))

    async def drain(self):
        if self.fail:
            raise ConnectionResetError("peer gone")
        if self.paused is not None:
            await self.paused.wait()
            if self.fail:
                raise ConnectionResetError("connection lost")
        # a real transport yields to the loop at least when its buffer is above the high-water mark; not here

    def write_eof(self):
        if self.alpn:
            raise NotImplementedError
        if not self.eof_written and not self.closed:
            self.eof_written = True
            self.log.append((self.loop.time(), "eof", None))

    def close(self):
        if not self.closed:
            self.closed = True
            self.log.append((self.loop.time(), "close", None))
            if self.paused is not None:
                self.fail = True             # connection_lost: the drain() waiters are woken with an error
                self.paused.set()
            # connection_lost -> the reader sees EOF
            if not self.reader.at_eof() and self.reader.exception() is None:
                self.reader.feed_eof()

    async def wait_closed(self):
        return None

    def is_closing(self):
        return self.closed


def run_asyncio(app, config, script, alpn=None, max_requests=None, tail=30.0):
    from hypercorn.app_wrappers import ASGIWrapper
    from hypercorn.asyncio.tcp_server import TCPServer
    from hypercorn.asyncio.worker_context import WorkerContext

    loop = VirtualLoop()
    asyncio.set_event_loop(loop)
    log = []
    records = []
    result = {"backend": "asyncio", "events": log, "app": records, "handler_done": None, "handler_error": None, "leftovers": []}

    async def wrapped(scope, receive, send):
        await app(scope, receive, send, asyncio.sleep, records, loop.time)

    async def main():
        reader = asyncio.StreamReader()
        writer = FakeWriter(loop, reader, alpn, log)
        context = WorkerContext(max_requests)
        server = TCPServer(ASGIWrapper(wrapped), loop, config, context, {}, reader, writer)
        _trace(server, result, loop.time)

        async def serve():
            try:
                await server.run()
            except BaseException as e:  # noqa: BLE001
                result["handler_error"] = repr(e)
                if isinstance(e, asyncio.CancelledError):
                    raise
            finally:
                result["handler_done"] = loop.time()

        task = loop.create_task(serve())
        for step in script:
            if step[0] == "send":
                if not writer.closed and reader.exception() is None and not reader.at_eof():
                    reader.feed_data(step[1])
                for _ in range(12):
                    await asyncio.sleep(0)
            elif step[0] == "sleep":
                await asyncio.sleep(step[1])
            elif step[0] == "eof":
                if not reader.at_eof():
                    reader.feed_eof()
                for _ in range(12):
                    await asyncio.sleep(0)
            elif step[0] == "reset":
                writer.fail = True
                if writer.paused is not None:
                    writer.paused.set()          # connection_lost wakes the drain() waiters, with the error
                if reader.exception() is None:
                    reader.set_exception(ConnectionResetError("reset by peer"))
                for _ in range(12):
                    await asyncio.sleep(0)
            elif step[0] == "terminate":
                result["trace"].append((loop.time(), "terminate"))
                await context.terminated.set()
                await asyncio.sleep(0)
            elif step[0] == "stall":
                writer.paused = asyncio.Event()      # the client has stopped reading: drain() waits
            elif step[0] == "unstall":
                if writer.paused is not None:
                    writer.paused.set()
                    writer.paused = None
                for _ in range(12):
                    await asyncio.sleep(0)
        # let everything settle for `tail` virtual seconds
        try:
            await asyncio.wait_for(asyncio.shield(task), tail)
        except asyncio.TimeoutError:
            result["cutoff"] = loop.time()
        result["recycle"] = context.terminate.is_set()      # the worker-recycling signal (max_requests exceeded)
        result["leftovers"] = sorted(t.get_coro().__qualname__ for t in asyncio.all_tasks(loop)
                                     if t is not asyncio.current_task() and not t.done())
        for t in asyncio.all_tasks(loop):
            if t is not asyncio.current_task():
                t.cancel()
        await asyncio.sleep(0)

    try:
        loop.run_until_complete(main())
    except Quiescent:
        result["leftovers"] = ["<deadlock: nothing scheduled>"]
    finally:
        try:
            loop.close()
        except Exception:  # noqa: BLE001
            pass
        asyncio.set_event_loop(None)
    return result


# ------------------------------------------------------------------ trio
def run_trio(app, config, script, alpn=None, max_requests=None, tail=30.0):
    import trio
    import trio.testing

    from hypercorn.app_wrappers import ASGIWrapper
    from hypercorn.trio.tcp_server import TCPServer
    from hypercorn.trio.worker_context import WorkerContext

    log = []
    records = []
    result = {"backend": "trio", "events": log, "app": records, "handler_done": None, "handler_error": None, "leftovers": []}
    clock = trio.testing.MockClock(autojump_threshold=0)

    class ServerStream(trio.abc.HalfCloseableStream):
        """The server's end: an in-memory stream with the attributes TCPServer reads off a socket stream."""

        def __init__(self, inner):
            self.inner = inner
            self.socket = FakeSock()
            self.fail = False
            self.closed = False
            self.t0 = 0.0
            self.reset = trio.Event()
            self.sending = False
            self.stalled = None      # trio.Event while the client is not reading

        async def send_all(self, data):
            if self.fail:
                raise trio.BrokenResourceError("peer gone")
            if self.closed:
                raise trio.ClosedResourceError("stream closed")
            self.sending = True
            try:
                if self.stalled is not None:
                    # the client has stopped reading and the socket buffers are full: send_all parks until it is
                    # released - by the client, or by this end being closed underneath it
                    await self.stalled.wait()
                    if self.closed:
                        raise trio.ClosedResourceError("stream closed while sending")
                    if self.fail:
                        raise trio.BrokenResourceError("peer gone")
                await self.inner.send_all(data)
            finally:
                self.sending = False
            log.append((trio.current_time() - self.t0, "data", bytes(data)))

        async def wait_send_all_might_not_block(self):
            await self.inner.wait_send_all_might_not_block()

        async def receive_some(self, max_bytes=None):
            if self.fail:
                raise trio.BrokenResourceError("reset by peer")
            got = []

            async def rd(scope):
                try:
                    got.append(("ok", await self.inner.receive_some(max_bytes)))
                except (trio.BrokenResourceError, trio.ClosedResourceError, trio.BusyResourceError) as e:
                    got.append(("exc", e))
                scope.cancel()

            async def rs(scope):
                await self.reset.wait()
                scope.cancel()

            async with trio.open_nursery() as n:
                n.start_soon(rd, n.cancel_scope)
                n.start_soon(rs, n.cancel_scope)
            if self.fail or not got:
                raise trio.BrokenResourceError("reset by peer")      # a pending read fails when the peer resets
            if got[0][0] == "exc":
                raise got[0][1]
            return got[0][1]

        async def send_eof(self):
            if self.sending:
                raise trio.BusyResourceError("another task is sending on this stream")      # as trio.SocketStream does
            await self.inner.send_eof()

        async def aclose(self):
            if not self.closed:
                self.closed = True
                log.append((trio.current_time() - self.t0, "close", None))
            if self.stalled is not None:
                self.stalled.set()        # closing the socket wakes the parked sender (it then fails)
            await self.inner.aclose()

    class SSLServerStream:
        def __init__(self, inner, alpn):
            self.transport_stream = inner
            self.alpn = alpn

        async def do_handshake(self):
            await trio.sleep(0)

        def selected_alpn_protocol(self):
            return self.alpn

        async def send_all(self, data):
            await self.transport_stream.send_all(data)

        async def receive_some(self, max_bytes=None):
            return await self.transport_stream.receive_some(max_bytes)

        async def send_eof(self):
            raise AttributeError("no half-close on TLS")      # what trio's SSLStream lacks; TCPServer tolerates AttributeError

        async def aclose(self):
            await self.transport_stream.aclose()

    async def wrapped(scope, receive, send):
        await app(scope, receive, send, trio.sleep, records, trio.current_time)

    async def main():
        t0 = trio.current_time()
        client, server_inner = trio.testing.memory_stream_pair()
        sstream = ServerStream(server_inner)
        sstream.t0 = t0
        stream = SSLServerStream(sstream, alpn) if alpn else sstream
        context = WorkerContext(max_requests)
        server = TCPServer(ASGIWrapper(wrapped), config, context, {}, stream)
        _trace(server, result, lambda: trio.current_time() - t0)
        done = trio.Event()

        async def serve():
            try:
                await server.run()
            except BaseException as e:  # noqa: BLE001
                result["handler_error"] = repr(e)
                if isinstance(e, trio.Cancelled):
                    raise
            finally:
                result["handler_done"] = trio.current_time() - t0
                done.set()

        async def reader():
            try:
                while True:
                    data = await client.receive_some(65536)
                    if data == b"":
                        return
            except (trio.BrokenResourceError, trio.ClosedResourceError):
                pass

        async with trio.open_nursery() as nursery:
            nursery.start_soon(serve)
            nursery.start_soon(reader)
            for step in script:
                try:
                    if step[0] == "send":
                        await client.send_all(step[1])
                        await trio.testing.wait_all_tasks_blocked()
                    elif step[0] == "sleep":
                        await trio.sleep(step[1])
                    elif step[0] == "eof":
                        await client.send_eof()
                        await trio.testing.wait_all_tasks_blocked()
                    elif step[0] == "reset":
                        sstream.fail = True
                        sstream.reset.set()
                        if sstream.stalled is not None:
                            sstream.stalled.set()    # a send parked on the socket fails when the peer resets
                        await client.aclose()
                        await trio.testing.wait_all_tasks_blocked()
                    elif step[0] == "terminate":
                        result["trace"].append((trio.current_time() - t0, "terminate"))
                        await context.terminated.set()
                        await trio.sleep(0)
                    elif step[0] == "stall":
                        sstream.stalled = trio.Event()
                    elif step[0] == "unstall":
                        if sstream.stalled is not None:
                            sstream.stalled.set()
                            sstream.stalled = None
                        await trio.testing.wait_all_tasks_blocked()
                except (trio.BrokenResourceError, trio.ClosedResourceError):
                    pass
            with trio.move_on_after(tail):
                await done.wait()
            if not done.is_set():
                result["cutoff"] = trio.current_time() - t0
                result["leftovers"] = ["<handler still running>"]
            result["recycle"] = context.terminate.is_set()
            # a sender parked in a stalled send_all sits in a shielded scope (TCPServer.protocol_send): release it, failing,
            # or the cancellation below would wait for it for ever
            sstream.fail = True
            if sstream.stalled is not None:
                sstream.stalled.set()
            nursery.cancel_scope.cancel()

    trio.run(main, clock=clock)
    return result
